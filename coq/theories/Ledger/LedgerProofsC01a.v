(** C01 (conservation): proofs of stmt_action_conserves, stmt_tx_conserves,
    stmt_end_block_conserves, stmt_block_conserves. *)
From Astria Require Import Base.Bounded Ledger.LedgerModel Ledger.LedgerSpec Ledger.LedgerLemmas Ledger.LedgerSample.

(** ------------------------------------------------------------------ sums under point updates *)

Lemma c01a_sum_upd2 L (f : N -> N -> N) x a v ast :
  NoDup L -> In x L ->
  sum_over L (fun y => upd2 f x a v y ast) + (if a =? ast then f x a else 0)
  = sum_over L (fun y => f y ast) + (if a =? ast then v else 0).
Proof.
  intros Hnd Hin. destruct (N.eqb_spec a ast) as [->|Hne].
  - rewrite (sum_over_ext L (fun y => upd2 f x ast v y ast)
                            (fun y => if y =? x then v else f y ast)).
    + apply (sum_over_upd_in L (fun y => f y ast) x v Hnd Hin).
    + intros y _. unfold upd2. rewrite N.eqb_refl, Bool.andb_true_r. reflexivity.
  - rewrite (sum_over_ext L (fun y => upd2 f x a v y ast) (fun y => f y ast)).
    + lia.
    + intros y _. apply upd2_other_asset. congruence.
Qed.

Lemma c01a_supply_split L C s a :
  supply L C s a = supply0 L C s a + bf_total (block_fees s) a.
Proof. reflexivity. Qed.

(** ------------------------------------------------------------------ balance moves *)

Lemma c01a_increase s x a amt s' L C ast :
  NoDup L -> In x L ->
  increase_balance s x a amt = Ok s' ->
  supply0 L C s' ast = supply0 L C s ast + (if a =? ast then amt else 0)
  /\ block_fees s' = block_fees s /\ sudo s' = sudo s.
Proof.
  intros Hnd Hin H. apply increase_balance_ok in H. destruct H as [-> _].
  split; [|split; reflexivity].
  unfold supply0. cbn [bal escrow set_bal].
  pose proof (c01a_sum_upd2 L (bal s) x a (bal s x a + amt) ast Hnd Hin) as E.
  destruct (a =? ast); lia.
Qed.

Lemma c01a_decrease s x a amt s' L C ast :
  NoDup L -> In x L ->
  decrease_balance s x a amt = Ok s' ->
  supply0 L C s' ast + (if a =? ast then amt else 0) = supply0 L C s ast
  /\ block_fees s' = block_fees s /\ sudo s' = sudo s.
Proof.
  intros Hnd Hin H. apply decrease_balance_ok in H. destruct H as [-> Hle].
  split; [|split; reflexivity].
  unfold supply0. cbn [bal escrow set_bal].
  pose proof (c01a_sum_upd2 L (bal s) x a (bal s x a - amt) ast Hnd Hin) as E.
  destruct (a =? ast); lia.
Qed.

Lemma c01a_increase_supply s x a amt s' L C ast :
  NoDup L -> In x L ->
  increase_balance s x a amt = Ok s' ->
  supply L C s' ast = supply L C s ast + (if a =? ast then amt else 0) /\ sudo s' = sudo s.
Proof.
  intros Hnd Hin H. destruct (c01a_increase s x a amt s' L C ast Hnd Hin H) as [E [Ebf Es]].
  split; [|exact Es]. rewrite !c01a_supply_split, Ebf, E. lia.
Qed.

Lemma c01a_decrease_supply s x a amt s' L C ast :
  NoDup L -> In x L ->
  decrease_balance s x a amt = Ok s' ->
  supply L C s' ast + (if a =? ast then amt else 0) = supply L C s ast /\ sudo s' = sudo s.
Proof.
  intros Hnd Hin H. destruct (c01a_decrease s x a amt s' L C ast Hnd Hin H) as [E [Ebf Es]].
  split; [|exact Es]. rewrite !c01a_supply_split, Ebf. lia.
Qed.

(** A debit followed by an equal credit of the same asset. *)
Lemma c01a_move s from to a amt s1 s2 L C ast :
  NoDup L -> In from L -> In to L ->
  decrease_balance s from a amt = Ok s1 ->
  increase_balance s1 to a amt = Ok s2 ->
  supply L C s2 ast = supply L C s ast /\ sudo s2 = sudo s.
Proof.
  intros Hnd Hf Ht H1 H2.
  destruct (c01a_decrease_supply _ _ _ _ _ L C ast Hnd Hf H1) as [E1 S1].
  destruct (c01a_increase_supply _ _ _ _ _ L C ast Hnd Ht H2) as [E2 S2].
  split; [|congruence]. destruct (a =? ast); lia.
Qed.

Lemma c01a_escrow_up s c a amt L C ast :
  NoDup C -> In c C ->
  supply L C (set_escrow s (upd2 (escrow s) c a (escrow s c a + amt))) ast
  = supply L C s ast + (if a =? ast then amt else 0).
Proof.
  intros Hnd Hin. unfold supply. cbn [bal escrow block_fees set_escrow].
  pose proof (c01a_sum_upd2 C (escrow s) c a (escrow s c a + amt) ast Hnd Hin) as E.
  destruct (a =? ast); lia.
Qed.

(** ------------------------------------------------------------------ fee payment *)

Lemma c01a_pay_fee s signer k fa var pos s' evs L C ast :
  NoDup L -> In signer L ->
  pay_fee s signer k fa var pos = Ok (s', evs) ->
  supply L C s' ast = supply L C s ast /\ sudo s' = sudo s.
Proof.
  intros Hnd Hin H. unfold pay_fee in H.
  destruct (fees s k) as [[base mult]|]; [|discriminate].
  destruct fa as [a|].
  - apply check_ok in H. destruct H as [_ H].
    destruct (checked_add U128_MAX (bf_total (block_fees s) a) (fee_amount base mult var));
      [|discriminate].
    apply bind_ok in H. destruct H as [s2 [Hd H]]. inversion H; subst; clear H.
    destruct (c01a_decrease_supply _ _ _ _ _ L C ast Hnd Hin Hd) as [E S].
    split; [|exact S].
    unfold supply in E at 2. cbn [bal escrow block_fees set_block_fees bf_total] in E.
    unfold supply at 2. destruct (a =? ast); lia.
  - inversion H; subst. split; reflexivity.
Qed.

(** ------------------------------------------------------------------ execution of one action *)

Lemma c01a_execute s signer tx idx ca s' L C ast :
  NoDup L -> NoDup C -> In signer L ->
  incl (action_accounts (fst ca)) L -> incl (action_channels (fst ca)) C ->
  execute_action s signer tx idx ca = Ok s' ->
  supply L C s' ast + burned_action (fst ca) ast = supply L C s ast
  /\ (sudo s' = sudo s \/ In (sudo s') (action_accounts (fst ca))).
Proof.
  intros HndL HndC Hs Hacc Hch H. destruct ca as [a cap]. cbn [fst] in *.
  unfold execute_action in H. apply bind_ok in H. destruct H as [u [_ H]].
  destruct a.
  - (* Transfer *)
    apply bind_ok in H. destruct H as [s1 [H1 H2]].
    assert (Hto : In to L) by (apply Hacc; cbn; auto).
    destruct (c01a_move _ _ _ _ _ _ _ L C ast HndL Hs Hto H1 H2) as [E S].
    cbn [burned_action]. split; [lia|left; exact S].
  - (* Lock *)
    destruct cap; try discriminate.
    apply bind_ok in H. destruct H as [s1 [H1 H]].
    apply bind_ok in H. destruct H as [s2 [H2 H]]. inversion H; subst; clear H.
    assert (Hto : In to L) by (apply Hacc; cbn; auto).
    destruct (c01a_move _ _ _ _ _ _ _ L C ast HndL Hs Hto H1 H2) as [E S].
    cbn [burned_action]. split; [|left; exact S].
    change (supply L C (cache_deposit s2 _) ast) with (supply L C s2 ast). lia.
  - (* Unlock *)
    destruct cap; try discriminate.
    apply bind_ok in H. destruct H as [s1 [H1 H]].
    apply bind_ok in H. destruct H as [s2 [H2 H]]. inversion H; subst; clear H.
    assert (Hto : In to L) by (apply Hacc; cbn; auto).
    assert (Hb : In b L) by (apply Hacc; cbn; auto).
    destruct (c01a_move _ _ _ _ _ _ _ L C ast HndL Hb Hto H1 H2) as [E S].
    cbn [burned_action]. split; [|left; exact S].
    change (supply L C (put_wevent s2 _ _ _) ast) with (supply L C s2 ast). lia.
  - (* BTransfer *)
    destruct cap; try discriminate.
    apply bind_ok in H. destruct H as [s1 [H1 H]].
    apply bind_ok in H. destruct H as [s2 [H2 H]]. inversion H; subst; clear H.
    assert (Hto : In to L) by (apply Hacc; cbn; auto).
    assert (Hb : In b L) by (apply Hacc; cbn; auto).
    destruct (c01a_move _ _ _ _ _ _ _ L C ast HndL Hb Hto H1 H2) as [E S].
    cbn [burned_action]. split; [|left; exact S].
    change (supply L C (put_wevent (cache_deposit s2 _) _ _ _) ast) with (supply L C s2 ast). lia.
  - (* InitBridge *)
    assert (E : s' = put_bridge s signer
          {| br_rollup := r; br_asset := a;
             br_sudo := Some (match sd with Some x => x | None => signer end);
             br_withdrawer := Some (match wd with Some x => x | None => signer end);
             br_disabled := None; br_lasttx := None |})
      by (destruct cap; inversion H; reflexivity).
    subst s'. cbn [burned_action]. split; [|left; reflexivity].
    change (supply L C (put_bridge s _ _) ast) with (supply L C s ast). lia.
  - (* BSudo *)
    assert (E : exists br, s' = put_bridge s b br).
    { destruct cap; (destruct (bridge s b) as [br|]; [|discriminate]);
        inversion H; eexists; reflexivity. }
    destruct E as [br ->]. cbn [burned_action]. split; [|left; reflexivity].
    change (supply L C (put_bridge s _ _) ast) with (supply L C s ast). lia.
  - (* Ics20 *)
    set (s1 := match b, memo with
               | Some b0, MemoRollup blk ev _ _ => put_wevent s b0 ev blk
               | _, _ => s
               end) in *.
    assert (E1 : supply L C s1 ast = supply L C s ast /\ sudo s1 = sudo s).
    { subst s1. destruct b as [b0|]; [destruct memo|]; split; reflexivity. }
    destruct E1 as [E1 S1].
    set (from := match b with Some b0 => b0 | None => signer end) in *.
    assert (Hfrom : In from L).
    { subst from. destruct b as [b0|]; [apply Hacc; cbn; auto|exact Hs]. }
    assert (Hc : In c C) by (apply Hch; cbn; auto).
    assert (H' : (check channels s1 c else EMissing;
                  do s2 <- decrease_balance s1 from a amt;
                  if is_source then
                    match checked_add U128_MAX (escrow s2 c a) amt with
                    | Some v => Ok (set_escrow s2 (upd2 (escrow s2) c a v))
                    | None => Err EOverflow
                    end
                  else Ok s2) = Ok s')
      by (destruct cap; exact H).
    clear H. apply check_ok in H'. destruct H' as [_ H].
    apply bind_ok in H. destruct H as [s2 [Hd H]].
    destruct (c01a_decrease_supply _ _ _ _ _ L C ast HndL Hfrom Hd) as [E2 S2].
    destruct is_source.
    + destruct (checked_add U128_MAX (escrow s2 c a) amt) as [v|] eqn:Ev; [|discriminate].
      apply checked_add_Some in Ev. destruct Ev as [-> _]. inversion H; subst; clear H.
      rewrite c01a_escrow_up by assumption.
      cbn [burned_action]. split; [|left; cbn [sudo set_escrow]; congruence].
      destruct (a =? ast); lia.
    + inversion H; subst; clear H. cbn [burned_action].
      split; [|left; congruence]. destruct (a =? ast); lia.
  - (* Rollup *)
    assert (s' = s) by (destruct cap; inversion H; reflexivity). subst.
    cbn [burned_action]. split; [lia|left; reflexivity].
  - (* FeeChange *)
    assert (s' = set_fees s (updk (fees s) k (Some (base, mult))))
      by (destruct cap; inversion H; reflexivity). subst.
    cbn [burned_action]. split; [|left; reflexivity].
    change (supply L C (set_fees s _) ast) with (supply L C s ast). lia.
  - (* FeeAsset *)
    assert (E : exists l, s' = set_fee_assets s l)
      by (destruct cap; destruct add; inversion H; eexists; reflexivity).
    destruct E as [l ->]. cbn [burned_action]. split; [|left; reflexivity].
    change (supply L C (set_fee_assets s _) ast) with (supply L C s ast). lia.
  - (* SudoChange *)
    assert (s' = set_sudo s to) by (destruct cap; inversion H; reflexivity). subst.
    cbn [burned_action]. split; [|right; cbn; auto].
    change (supply L C (set_sudo s _) ast) with (supply L C s ast). lia.
  - (* IbcSudo *)
    assert (s' = set_ibc_sudo s to) by (destruct cap; inversion H; reflexivity). subst.
    cbn [burned_action]. split; [|left; reflexivity].
    change (supply L C (set_ibc_sudo s _) ast) with (supply L C s ast). lia.
  - (* Relayer *)
    assert (s' = set_relayer s (upd1 (relayer s) x add))
      by (destruct cap; inversion H; reflexivity). subst.
    cbn [burned_action]. split; [|left; reflexivity].
    change (supply L C (set_relayer s _) ast) with (supply L C s ast). lia.
  - (* ValUpdate *)
    assert (E : exists f c, s' = set_validators s f c)
      by (destruct cap; destruct (power =? 0); inversion H; eexists; eexists; reflexivity).
    destruct E as [f [c ->]]. cbn [burned_action]. split; [|left; reflexivity].
    change (supply L C (set_validators s _ _) ast) with (supply L C s ast). lia.
  - (* IbcRelayFailing: never executes *)
    destruct cap; discriminate H.
Qed.

Lemma c01a_action s signer tx idx ca s' evs L C ast :
  NoDup L -> NoDup C -> In signer L ->
  incl (action_accounts (fst ca)) L -> incl (action_channels (fst ca)) C ->
  pay_fees_and_execute s signer tx idx ca = Ok (s', evs) ->
  supply L C s' ast + burned_action (fst ca) ast = supply L C s ast
  /\ (In (sudo s) L -> In (sudo s') L).
Proof.
  intros HndL HndC Hs Hacc Hch H. unfold pay_fees_and_execute in H.
  apply bind_ok in H. destruct H as [[s1 e1] [Hp H]].
  destruct (c01a_pay_fee _ _ _ _ _ _ _ _ L C ast HndL Hs Hp) as [Ep Sp].
  assert (Hx : (exists r len fa, fst ca = ARollup r len fa) \/
               (do s2 <- execute_action s1 signer tx idx ca; Ok (s2, e1)) = Ok (s', evs)).
  { destruct (fst ca) eqn:Ea; try (right; exact H); [left; eauto|].
    exfalso. destruct (execute_action s1 signer tx idx ca) as [s2|e] eqn:E; [|discriminate H].
    exact (execute_relay_failing_never_ok _ _ _ _ _ _ _ Ea E). }
  destruct Hx as [[r [len [fa Hr]]]|Hx].
  - rewrite Hr in *. inversion H; subst; clear H. cbn [burned_action].
    split; [lia|congruence].
  - clear H. apply bind_ok in Hx. destruct Hx as [s2 [He Hx]]. inversion Hx; subst; clear Hx.
    destruct (c01a_execute _ _ _ _ _ _ L C ast HndL HndC Hs Hacc Hch He) as [Ee Se].
    split; [lia|]. intros Hin. destruct Se as [Se|Se].
    + rewrite Se, Sp. exact Hin.
    + apply Hacc. exact Se.
Qed.

Lemma action_conserves : stmt_action_conserves.
Proof.
  intros s signer tx idx ca s' evs L C ast HndL HndC Hs Hacc Hch H.
  exact (proj1 (c01a_action _ _ _ _ _ _ _ L C ast HndL HndC Hs Hacc Hch H)).
Qed.

(** ------------------------------------------------------------------ transactions *)

Lemma c01a_exec_actions signer tx L C ast :
  NoDup L -> NoDup C -> In signer L ->
  forall l s idx s' evs,
    (forall ca, In ca l -> incl (action_accounts (fst ca)) L /\ incl (action_channels (fst ca)) C) ->
    exec_actions s signer tx idx l = Ok (s', evs) ->
    supply L C s' ast + sumN (map (fun ca => burned_action (fst ca) ast) l) = supply L C s ast
    /\ (In (sudo s) L -> In (sudo s') L).
Proof.
  intros HndL HndC Hs. induction l as [|ca l IH]; intros s idx s' evs Hl H.
  - cbn in H. inversion H; subst. cbn [map sumN]. split; [lia|auto].
  - cbn [exec_actions] in H.
    apply bind_ok in H. destruct H as [[s1 e1] [Ha H]].
    apply bind_ok in H. destruct H as [[s2 e2] [Hr H]]. inversion H; subst; clear H.
    destruct (Hl ca (or_introl eq_refl)) as [Hacc Hch].
    destruct (c01a_action _ _ _ _ _ _ _ L C ast HndL HndC Hs Hacc Hch Ha) as [Ea Sa].
    assert (Hl' : forall ca0, In ca0 l ->
              incl (action_accounts (fst ca0)) L /\ incl (action_channels (fst ca0)) C)
      by (intros ca0 Hin; apply Hl; right; exact Hin).
    destruct (IH _ _ _ _ Hl' Hr) as [Er Sr].
    cbn [map sumN]. split; [lia|auto].
Qed.

Lemma c01a_put_lasttx s x t L C ast :
  supply L C (put_lasttx s x t) ast = supply L C s ast /\ sudo (put_lasttx s x t) = sudo s.
Proof. unfold put_lasttx. destruct (bridge s x); split; reflexivity. Qed.

Lemma c01a_tx_accounts c L C :
  incl (tx_accounts c) L -> incl (tx_channels c) C ->
  In (ct_signer c) L /\
  forall ca, In ca (ct_actions c) ->
             incl (action_accounts (fst ca)) L /\ incl (action_channels (fst ca)) C.
Proof.
  intros HL HC. split.
  - apply HL. left. reflexivity.
  - intros ca Hin. split; intros y Hy.
    + apply HL. right. apply in_flat_map. exists ca. split; assumption.
    + apply HC. unfold tx_channels. apply in_flat_map. exists ca. split; assumption.
Qed.

Lemma c01a_exec_tx_ok s c s' evs :
  exec_tx s c = (s', OutOk evs) -> exec_tx_inner s c = Ok (s', evs).
Proof.
  unfold exec_tx. destruct (exec_tx_inner s c) as [[s1 e1]|e]; intros H; inversion H; reflexivity.
Qed.

Lemma c01a_exec_tx_err s c s' e : exec_tx s c = (s', OutErr e) -> s' = s.
Proof.
  unfold exec_tx. destruct (exec_tx_inner s c) as [[s1 e1]|e0]; intros H; inversion H; reflexivity.
Qed.

Lemma c01a_tx s c s' evs L C ast :
  NoDup L -> NoDup C -> incl (tx_accounts c) L -> incl (tx_channels c) C ->
  exec_tx s c = (s', OutOk evs) ->
  supply L C s' ast + burned_tx c ast = supply L C s ast
  /\ (In (sudo s) L -> In (sudo s') L).
Proof.
  intros HndL HndC HL HC H. apply c01a_exec_tx_ok in H.
  destruct (c01a_tx_accounts c L C HL HC) as [Hs Hl].
  unfold exec_tx_inner in H. apply check_ok in H. destruct H as [_ H].
  destruct (checked_add U32_MAX (nonce s (ct_signer c)) 1) as [n1|]; [|discriminate].
  destruct (c01a_exec_actions _ _ L C ast HndL HndC Hs _ _ _ _ _ Hl H) as [E S].
  destruct (c01a_put_lasttx s (ct_signer c) (ct_id c) L C ast) as [El Sl].
  change (supply L C (set_nonce ?s0 _) ast) with (supply L C s0 ast) in E.
  cbn [sudo set_nonce] in S. rewrite Sl in S. unfold burned_tx.
  split; [lia|exact S].
Qed.

Lemma tx_conserves : stmt_tx_conserves.
Proof.
  intros s c s' evs L C ast HndL HndC HL HC H.
  exact (proj1 (c01a_tx _ _ _ _ L C ast HndL HndC HL HC H)).
Qed.

(** ------------------------------------------------------------------ end of block *)

Lemma c01a_credit_fees x L C ast :
  NoDup L -> In x L ->
  forall l s s',
    credit_fees s x l = Ok s' ->
    supply0 L C s' ast = supply0 L C s ast + bf_total l ast.
Proof.
  intros Hnd Hin. induction l as [|[a v] l IH]; intros s s' H.
  - cbn in H. inversion H; subst. cbn [bf_total]. lia.
  - cbn [credit_fees] in H. apply bind_ok in H. destruct H as [s1 [Hi H]].
    destruct (c01a_increase _ _ _ _ _ L C ast Hnd Hin Hi) as [E _].
    rewrite (IH _ _ H), E. cbn [bf_total]. lia.
Qed.

Lemma end_block_conserves : stmt_end_block_conserves.
Proof.
  intros s s' ds L C ast Hnd Hin H. unfold end_block in H.
  apply bind_ok in H. destruct H as [s1 [Hc H]]. inversion H; subst; clear H.
  split; [|reflexivity].
  change (supply0 L C (set_deposits (set_block_fees s1 []) []) ast) with (supply0 L C s1 ast).
  rewrite (c01a_credit_fees _ L C ast Hnd Hin _ _ _ Hc). reflexivity.
Qed.

(** ------------------------------------------------------------------ whole blocks *)

Lemma c01a_last_cons (x y : step_out) l d : last (x :: y :: l) d = last (y :: l) d.
Proof. reflexivity. Qed.

Lemma c01a_run_block L C ast :
  NoDup L -> NoDup C ->
  forall cs s1 s' outs,
    In (sudo s1) L ->
    (forall c, In c cs -> incl (tx_accounts c) L /\ incl (tx_channels c) C) ->
    run s1 (map OpExec cs ++ [OpEnd]) = (s', outs) ->
    (exists ds, last outs SNone = SEnd (Some ds)) ->
    supply0 L C s' ast + burned_run (map OpExec cs ++ [OpEnd]) outs ast = supply L C s1 ast.
Proof.
  intros HndL HndC. induction cs as [|c cs IH]; intros s1 s' outs Hsudo Hcs Hrun Hlast.
  - cbn [map app run step] in Hrun.
    destruct (end_block s1) as [[s2 ds]|e] eqn:He.
    + inversion Hrun; subst; clear Hrun. cbn [burned_run map app].
      destruct (end_block_conserves _ _ _ L C ast HndL Hsudo He) as [E _]. lia.
    + inversion Hrun; subst; clear Hrun. destruct Hlast as [ds Hd]. cbn in Hd. discriminate.
  - cbn [map app run step] in Hrun.
    destruct (exec_tx s1 c) as [s2 o] eqn:Hx.
    destruct (run s2 (map OpExec cs ++ [OpEnd])) as [s3 xs] eqn:Hr.
    inversion Hrun; subst; clear Hrun.
    assert (Hlast' : exists ds, last xs SNone = SEnd (Some ds)).
    { destruct Hlast as [ds Hd]. destruct xs as [|y xs]; [cbn in Hd; discriminate|].
      rewrite c01a_last_cons in Hd. eauto. }
    assert (Hcs' : forall c0, In c0 cs -> incl (tx_accounts c0) L /\ incl (tx_channels c0) C)
      by (intros c0 Hin; apply Hcs; right; exact Hin).
    destruct (Hcs c (or_introl eq_refl)) as [HL HC].
    destruct o as [evs|e].
    + destruct (c01a_tx _ _ _ _ L C ast HndL HndC HL HC Hx) as [E S].
      pose proof (IH _ _ _ (S Hsudo) Hcs' Hr Hlast') as E'.
      cbn [burned_run map app]. lia.
    + apply c01a_exec_tx_err in Hx. subst s2.
      pose proof (IH _ _ _ Hsudo Hcs' Hr Hlast') as E'.
      cbn [burned_run map app]. exact E'.
Qed.

Lemma c01a_begin_block s bbh h L C ast :
  supply L C (begin_block s bbh h) ast = supply0 L C s ast.
Proof.
  unfold supply, supply0, begin_block. cbn [bal escrow block_fees set_round bf_total]. lia.
Qed.

Lemma block_conserves : stmt_block_conserves.
Proof.
  intros s bbh h cs s' outs L C ast HndL HndC Hsudo Hcs Hrun Hlast.
  cbn [run step] in Hrun.
  destruct (run (begin_block s bbh h) (map OpExec cs ++ [OpEnd])) as [s2 xs] eqn:Hr.
  inversion Hrun; subst; clear Hrun.
  assert (Hlast' : exists ds, last xs SNone = SEnd (Some ds)).
  { destruct Hlast as [ds Hd]. destruct xs as [|y xs]; [cbn in Hd; discriminate|].
    rewrite c01a_last_cons in Hd. eauto. }
  pose proof (c01a_run_block L C ast HndL HndC cs (begin_block s bbh h) _ _ Hsudo Hcs Hr Hlast') as E.
  rewrite c01a_begin_block in E. cbn [burned_run]. exact E.
Qed.

(** ------------------------------------------------------------------ non-vacuity *)

Ltac c01a_nodup :=
  repeat (apply NoDup_cons; [cbn; intuition discriminate|]); apply NoDup_nil.
Ltac c01a_incl :=
  let x := fresh "x" in let Hx := fresh "Hx" in
  intros x Hx; cbn in Hx; cbn; intuition.

(** A non-source ICS-20 withdrawal of 30 units of asset 1 by account 4: hypotheses hold, the
    action executes, 30 units are burned. *)
Example action_conserves_nonvacuous :
  let ca := (AIcs20 30 1 false 0 0 None MemoBad, CapNone) in
  NoDup sample_L /\ NoDup sample_C /\ In 4 sample_L /\
  incl (action_accounts (fst ca)) sample_L /\ incl (action_channels (fst ca)) sample_C /\
  match pay_fees_and_execute sample_state 4 103 0 ca with
  | Ok (s', evs) =>
    length evs = 1%nat /\
    supply sample_L sample_C s' 1 = 470 /\ burned_action (fst ca) 1 = 30 /\
    supply sample_L sample_C sample_state 1 = 500 /\
    supply sample_L sample_C s' 0 = 8000000 /\ bf_total (block_fees s') 0 = 3
  | Err _ => False
  end.
Proof.
  cbv zeta. split; [c01a_nodup|]. split; [c01a_nodup|]. split; [cbn; intuition|].
  split; [c01a_incl|]. split; [c01a_incl|].
  vm_compute. repeat split; reflexivity.
Qed.

(** sample_tx1 (transfer + lock + rollup data) executes; its fees sit in the block fees. *)
Example tx_conserves_nonvacuous :
  let c := checked sample_state sample_tx1 in
  NoDup sample_L /\ NoDup sample_C /\
  incl (tx_accounts c) sample_L /\ incl (tx_channels c) sample_C /\
  match exec_tx sample_state c with
  | (s', OutOk evs) =>
    length evs = 3%nat /\ burned_tx c 0 = 0 /\
    supply sample_L sample_C s' 0 = 8000000 /\
    supply sample_L sample_C sample_state 0 = 8000000 /\
    supply0 sample_L sample_C s' 0 = 8000000 - (12 + (5 + 2 * 30) + (32 + 40)) /\
    bal s' 6 0 = 1000250
  | _ => False
  end.
Proof.
  cbv zeta. split; [c01a_nodup|]. split; [c01a_nodup|].
  split; [vm_compute; intuition|]. split; [vm_compute; intuition|].
  vm_compute. repeat split; reflexivity.
Qed.

(** Ending the block opened by sample_tx1 credits the logged fees to the sudo address 0. *)
Example end_block_conserves_nonvacuous :
  let s := fst (exec_tx (begin_block sample_state 3 6) (checked sample_state sample_tx1)) in
  NoDup sample_L /\ In (sudo s) sample_L /\
  match end_block s with
  | Ok (s', ds) =>
    length ds = 1%nat /\ block_fees s' = [] /\ bf_total (block_fees s) 0 = 149 /\
    supply0 sample_L sample_C s' 0 = 8000000 /\ supply sample_L sample_C s 0 = 8000000 /\
    bal s' 0 0 = 1000149
  | Err _ => False
  end.
Proof.
  cbv zeta. split; [c01a_nodup|]. split; [vm_compute; intuition|].
  vm_compute. repeat split; reflexivity.
Qed.

(** The sample block: three transactions execute, one fails, the block ends; 30 units of asset 1
    are burned and asset 0 is conserved. *)
Example block_conserves_nonvacuous :
  let cs := [checked sample_state sample_tx1; checked sample_state sample_tx2;
             checked sample_state sample_tx_fail; checked sample_state sample_tx3] in
  let ops := OpBegin 3 6 :: map OpExec cs ++ [OpEnd] in
  ops = sample_ops /\
  NoDup sample_L /\ NoDup sample_C /\ In (sudo sample_state) sample_L /\
  (forall c, In c cs -> incl (tx_accounts c) sample_L /\ incl (tx_channels c) sample_C) /\
  (exists ds, last (snd (run sample_state ops)) SNone = SEnd (Some ds)) /\
  supply0 sample_L sample_C (fst (run sample_state ops)) 1 = 470 /\
  burned_run ops (snd (run sample_state ops)) 1 = 30 /\
  supply0 sample_L sample_C sample_state 1 = 500 /\
  supply0 sample_L sample_C (fst (run sample_state ops)) 0 = 8000000 /\
  burned_run ops (snd (run sample_state ops)) 0 = 0.
Proof.
  cbv zeta. split; [reflexivity|]. split; [c01a_nodup|]. split; [c01a_nodup|].
  split; [vm_compute; intuition|].
  split.
  { intros c Hc. cbn [In] in Hc.
    repeat (destruct Hc as [<-|Hc]; [split; vm_compute; intuition|]). destruct Hc. }
  split; [eexists; vm_compute; reflexivity|].
  vm_compute. repeat split; reflexivity.
Qed.
