(** Basic inversion lemmas and tactics shared by the ledger proofs. *)
From Astria Require Import Base.Bounded Ledger.LedgerModel Ledger.LedgerSpec.

Lemma bind_ok {A B} (r : result A) (f : A -> result B) b :
  bind r f = Ok b -> exists a, r = Ok a /\ f a = Ok b.
Proof. destruct r; cbn; intros H; [eauto|discriminate]. Qed.

Lemma check_ok {A} (c : bool) (e : eclass) (k : result A) b :
  (if c then k else Err e) = Ok b -> c = true /\ k = Ok b.
Proof. destruct c; intros H; [auto|discriminate]. Qed.

(** Break one hypothesis of the shape [... = Ok _] built from [bind] / [check] / matches. *)
Ltac inv_ok_step :=
  match goal with
  | H : bind ?r ?f = Ok ?b |- _ =>
    let a := fresh "a" in let H1 := fresh "H" in let H2 := fresh "H" in
    destruct (bind_ok r f b H) as [a [H1 H2]]; clear H; cbv beta in H2
  | H : (if ?c then ?k else Err ?e) = Ok ?b |- _ =>
    let H1 := fresh "H" in let H2 := fresh "H" in
    destruct (check_ok c e k b H) as [H1 H2]; clear H
  | H : Ok _ = Ok _ |- _ => inversion H; subst; clear H
  | H : Err _ = Ok _ |- _ => discriminate H
  | H : (let '(x, y) := ?p in _) = Ok _ |- _ => destruct p
  | H : match ?x with Some _ => _ | None => _ end = Ok _ |- _ => destruct x eqn:?
  | H : match ?x with Ok _ => _ | Err _ => _ end = Ok _ |- _ => destruct x eqn:?
  end.
Ltac inv_ok := repeat inv_ok_step.

(** A failing IbcRelay action never executes (so it never is part of an executed transaction). *)
Lemma execute_relay_failing_never_ok s signer tx idx ca k s' :
  fst ca = AIbcRelayFailing k -> execute_action s signer tx idx ca = Ok s' -> False.
Proof.
  destruct ca as [a cap]. cbn [fst]. intros -> H. unfold execute_action in H.
  apply bind_ok in H. destruct H as [u [_ H]]. destruct cap; discriminate H.
Qed.

Lemma pfe_relay_failing_never_ok s signer tx idx ca k r :
  fst ca = AIbcRelayFailing k -> pay_fees_and_execute s signer tx idx ca = Ok r -> False.
Proof.
  intros Ea H. unfold pay_fees_and_execute in H. cbv zeta in H. rewrite Ea in H.
  apply bind_ok in H. destruct H as [[s1 e1] [_ H]].
  destruct (execute_action s1 signer tx idx ca) as [s2|e] eqn:E; [|discriminate H].
  exact (execute_relay_failing_never_ok _ _ _ _ _ _ _ Ea E).
Qed.

(** Balances. *)
Lemma increase_balance_ok s x a amt s' :
  increase_balance s x a amt = Ok s' ->
  s' = set_bal s (upd2 (bal s) x a (bal s x a + amt)) /\ bal s x a + amt <= U128_MAX.
Proof.
  unfold increase_balance. destruct (checked_add U128_MAX (bal s x a) amt) eqn:E; intros H; [|discriminate].
  apply checked_add_Some in E. destruct E as [-> Hle]. inversion H; auto.
Qed.

Lemma decrease_balance_ok s x a amt s' :
  decrease_balance s x a amt = Ok s' ->
  s' = set_bal s (upd2 (bal s) x a (bal s x a - amt)) /\ amt <= bal s x a.
Proof.
  unfold decrease_balance. destruct (checked_sub (bal s x a) amt) eqn:E; intros H; [|discriminate].
  apply checked_sub_Some in E. destruct E as [-> Hle]. inversion H; auto.
Qed.

Lemma upd2_same {V} (f : N -> N -> V) k1 k2 v : upd2 f k1 k2 v k1 k2 = v.
Proof. unfold upd2. rewrite !N.eqb_refl. reflexivity. Qed.

Lemma upd2_other {V} (f : N -> N -> V) k1 k2 v x y :
  (x, y) <> (k1, k2) -> upd2 f k1 k2 v x y = f x y.
Proof.
  unfold upd2. intros H. destruct (N.eqb_spec x k1), (N.eqb_spec y k2); cbn; try reflexivity.
  subst. congruence.
Qed.

Lemma upd2_other_asset {V} (f : N -> N -> V) k1 k2 v x y :
  y <> k2 -> upd2 f k1 k2 v x y = f x y.
Proof. intros H. apply upd2_other. congruence. Qed.

Lemma upd1_same {V} (f : N -> V) k v : upd1 f k v k = v.
Proof. unfold upd1. rewrite N.eqb_refl. reflexivity. Qed.

Lemma upd1_other {V} (f : N -> V) k v x : x <> k -> upd1 f k v x = f x.
Proof. unfold upd1. intros H. destruct (N.eqb_spec x k); [congruence|reflexivity]. Qed.

(** Sums over a duplicate-free list under a point update. *)
Lemma sum_over_ext L f g : (forall x, In x L -> f x = g x) -> sum_over L f = sum_over L g.
Proof.
  unfold sum_over. induction L as [|y L IH]; cbn [map sumN]; intros H; [reflexivity|].
  rewrite (H y (or_introl eq_refl)), IH; [reflexivity|]. intros x Hx. apply H. right; exact Hx.
Qed.

Lemma sum_over_upd_notin L (f : N -> N) k v :
  ~ In k L -> sum_over L (fun x => if x =? k then v else f x) = sum_over L f.
Proof.
  intros H. apply sum_over_ext. intros x Hx. destruct (N.eqb_spec x k); [subst; contradiction|reflexivity].
Qed.

Lemma sum_over_upd_in L (f : N -> N) k v :
  NoDup L -> In k L ->
  sum_over L (fun x => if x =? k then v else f x) + f k = sum_over L f + v.
Proof.
  unfold sum_over. induction L as [|y L IH]; intros Hnd Hin; [destruct Hin|].
  inversion Hnd as [|? ? Hny Hnd']; subst. cbn [map sumN].
  destruct Hin as [->|Hin].
  - rewrite N.eqb_refl.
    pose proof (sum_over_upd_notin L f k v Hny) as E. unfold sum_over in E. rewrite E. lia.
  - destruct (N.eqb_spec y k) as [->|Hne]; [contradiction|].
    specialize (IH Hnd' Hin). lia.
Qed.

Lemma sum_over_ge L (f : N -> N) k : In k L -> f k <= sum_over L f.
Proof.
  unfold sum_over. induction L as [|y L IH]; intros Hin; [destruct Hin|]. cbn [map sumN].
  destruct Hin as [->|Hin]; [lia|]. specialize (IH Hin). lia.
Qed.
