(** C03: nonce discipline (exact nonce needed, bumped by one, failed tx is the identity,
    monotone nonces, no replay). *)
From Astria Require Import Base.Bounded Ledger.LedgerModel Ledger.LedgerSpec Ledger.LedgerLemmas Ledger.LedgerSample.

(** ------------------------------------------------------------------ frame lemmas for [nonce] *)

Lemma c03_inc_nonce s x a amt s' :
  increase_balance s x a amt = Ok s' -> nonce s' = nonce s.
Proof. intros H. apply increase_balance_ok in H. destruct H as [-> _]. reflexivity. Qed.

Lemma c03_dec_nonce s x a amt s' :
  decrease_balance s x a amt = Ok s' -> nonce s' = nonce s.
Proof. intros H. apply decrease_balance_ok in H. destruct H as [-> _]. reflexivity. Qed.

Ltac c03_step :=
  match goal with
  | H : decrease_balance _ _ _ _ = Ok _ |- _ => apply c03_dec_nonce in H
  | H : increase_balance _ _ _ _ = Ok _ |- _ => apply c03_inc_nonce in H
  | _ => inv_ok_step
  | H : (if ?c then _ else _) = Ok _ |- _ => destruct c eqn:?
  end.

Lemma c03_pay_fee_nonce s signer k fa var pos s' evs :
  pay_fee s signer k fa var pos = Ok (s', evs) -> nonce s' = nonce s.
Proof.
  unfold pay_fee. intros H.
  destruct (fees s k) as [[base mult]|]; [|discriminate].
  destruct fa as [a|]; [|inversion H; reflexivity].
  repeat c03_step. cbn in *. congruence.
Qed.

Lemma c03_execute_action_nonce s signer tx idx ca s' :
  execute_action s signer tx idx ca = Ok s' -> nonce s' = nonce s.
Proof.
  destruct ca as [a cap]. unfold execute_action. intros H.
  apply bind_ok in H. destruct H as [u [_ H]].
  destruct a; destruct cap; try discriminate H; cbv zeta in H;
    try (match type of H with
         | context [match ?ob with Some _ => match ?m with MemoBad => _ | MemoRollup _ _ _ _ => _ end
                                 | None => _ end] => destruct ob; [destruct m|]
         end);
    try (repeat c03_step;
         unfold put_wevent, cache_deposit, put_bridge in *; cbn in *; congruence).
Qed.

Lemma c03_pfe_nonce s signer tx idx ca s' evs :
  pay_fees_and_execute s signer tx idx ca = Ok (s', evs) -> nonce s' = nonce s.
Proof.
  unfold pay_fees_and_execute. intros H.
  apply bind_ok in H. destruct H as [[s1 e1] [Hp H]].
  apply c03_pay_fee_nonce in Hp.
  destruct (fst ca) eqn:Ea;
    try (apply bind_ok in H; destruct H as [s2 [He H]];
         apply c03_execute_action_nonce in He; inversion H; subst; congruence).
  - inversion H; subst; exact Hp.
  - destruct (execute_action s1 signer tx idx ca) as [s2|e] eqn:E; [|discriminate H].
    exfalso. exact (execute_relay_failing_never_ok _ _ _ _ _ _ _ Ea E).
Qed.

Lemma c03_exec_actions_nonce l : forall s signer tx idx s' evs,
  exec_actions s signer tx idx l = Ok (s', evs) -> nonce s' = nonce s.
Proof.
  induction l as [|ca r IH]; intros s signer tx idx s' evs H; cbn [exec_actions] in H.
  - inversion H; reflexivity.
  - apply bind_ok in H. destruct H as [[s1 e1] [Hp H]].
    apply bind_ok in H. destruct H as [[s2 e2] [Hq H]].
    inversion H; subst.
    apply c03_pfe_nonce in Hp. apply IH in Hq. congruence.
Qed.

Lemma c03_put_lasttx_nonce s x t : nonce (put_lasttx s x t) = nonce s.
Proof. unfold put_lasttx. destruct (bridge s x); reflexivity. Qed.

Lemma c03_credit_fees_nonce l : forall s x s',
  credit_fees s x l = Ok s' -> nonce s' = nonce s.
Proof.
  induction l as [|[a v] r IH]; intros s x s' H; cbn [credit_fees] in H.
  - inversion H; reflexivity.
  - apply bind_ok in H. destruct H as [s1 [Hi H]].
    apply c03_inc_nonce in Hi. apply IH in H. congruence.
Qed.

Lemma c03_end_block_nonce s s' ds :
  end_block s = Ok (s', ds) -> nonce s' = nonce s.
Proof.
  unfold end_block. intros H. apply bind_ok in H. destruct H as [s1 [Hc H]].
  apply c03_credit_fees_nonce in Hc. inversion H; subst. exact Hc.
Qed.

(** ------------------------------------------------------------------ one transaction *)

Lemma c03_exec_tx_ok s c s' evs :
  exec_tx s c = (s', OutOk evs) -> exec_tx_inner s c = Ok (s', evs).
Proof.
  unfold exec_tx. destruct (exec_tx_inner s c) as [[s1 e1]|e]; intros H; inversion H; reflexivity.
Qed.

Lemma c03_exec_ok s c s' evs :
  exec_tx s c = (s', OutOk evs) ->
  nonce s (ct_signer c) = ct_nonce c /\
  nonce s (ct_signer c) + 1 <= U32_MAX /\
  nonce s' = upd1 (nonce s) (ct_signer c) (nonce s (ct_signer c) + 1).
Proof.
  intros H. apply c03_exec_tx_ok in H. unfold exec_tx_inner in H.
  cbv zeta in H.
  apply check_ok in H. destruct H as [Hn H].
  apply N.eqb_eq in Hn.
  destruct (checked_add U32_MAX (nonce s (ct_signer c)) 1) as [n1|] eqn:E; [|discriminate].
  apply checked_add_Some in E. destruct E as [-> Hle].
  apply c03_exec_actions_nonce in H. cbn [nonce set_nonce] in H.
  rewrite c03_put_lasttx_nonce in H.
  repeat split; assumption.
Qed.

Lemma exec_needs_nonce : stmt_exec_needs_nonce.
Proof. intros s c s' evs H. apply c03_exec_ok in H. tauto. Qed.

Lemma exec_bumps_nonce_by_one : stmt_exec_bumps_nonce_by_one.
Proof.
  intros s c s' evs H. apply c03_exec_ok in H. destruct H as [_ [Hle ->]].
  rewrite upd1_same. repeat split; [exact Hle|].
  intros x Hx. apply upd1_other. exact Hx.
Qed.

Lemma failed_tx_is_identity : stmt_failed_tx_is_identity.
Proof.
  intros s c s' e. unfold exec_tx.
  destruct (exec_tx_inner s c) as [[s1 e1]|e0]; intros H; inversion H; reflexivity.
Qed.

(** ------------------------------------------------------------------ histories *)

Lemma c03_step_monotone s o x : nonce s x <= nonce (fst (step s o)) x.
Proof.
  destruct o as [bbh h|c| |y a v t|a t|c a v t|c]; cbn [step].
  - cbn. lia.
  - destruct (exec_tx s c) as [s1 [evs|e]] eqn:E; cbn [fst].
    + apply c03_exec_ok in E. destruct E as [_ [_ ->]].
      unfold upd1. destruct (N.eqb_spec x (ct_signer c)); [subst; lia|lia].
    + apply failed_tx_is_identity in E. subst. lia.
  - destruct (end_block s) as [[s1 ds]|e] eqn:E; cbn [fst]; [|lia].
    apply c03_end_block_nonce in E. rewrite E. lia.
  - unfold op_mint. destruct t; cbn; lia.
  - unfold op_allowfee. destruct t; destruct (mem_asset a (fee_assets s)); cbn; lia.
  - unfold op_escrow. destruct t; cbn; lia.
  - cbn. lia.
Qed.

Lemma c03_run_cons s o r s' outs :
  run s (o :: r) = (s', outs) ->
  exists s1 x xs, step s o = (s1, x) /\ run s1 r = (s', xs) /\ outs = x :: xs.
Proof.
  cbn [run]. destruct (step s o) as [s1 x]. destruct (run s1 r) as [s2 xs] eqn:Er.
  intros H; inversion H; subst. exists s1, x, xs. repeat split; [exact Er].
Qed.

Lemma nonce_monotone : stmt_nonce_monotone.
Proof.
  intros s ops. revert s.
  induction ops as [|o r IH]; intros s s' outs x H.
  - cbn in H. inversion H; subst. lia.
  - apply c03_run_cons in H. destruct H as [s1 [y [ys [Hs [Hr _]]]]].
    specialize (IH _ _ _ x Hr).
    pose proof (c03_step_monotone s o x) as Hm. rewrite Hs in Hm. cbn [fst] in Hm. lia.
Qed.

Lemma c03_step_exec_ok s c s1 evs :
  step s (OpExec c) = (s1, STx (OutOk evs)) -> exec_tx s c = (s1, OutOk evs).
Proof.
  cbn [step]. destruct (exec_tx s c) as [s2 out]. intros H; inversion H; reflexivity.
Qed.

(** The state before a successful execution at position [j]. *)
Lemma c03_run_before ops : forall s s' outs j c2 e2,
  run s ops = (s', outs) ->
  nth_error ops j = Some (OpExec c2) ->
  nth_error outs j = Some (STx (OutOk e2)) ->
  exists sj, (forall x, nonce s x <= nonce sj x) /\ nonce sj (ct_signer c2) = ct_nonce c2.
Proof.
  induction ops as [|o r IH]; intros s s' outs j c2 e2 H Ho Hout.
  - destruct j; discriminate Ho.
  - apply c03_run_cons in H. destruct H as [s1 [y [ys [Hs [Hr ->]]]]].
    destruct j as [|j]; cbn [nth_error] in Ho, Hout.
    + inversion Ho; subst. inversion Hout; subst.
      apply c03_step_exec_ok in Hs. apply exec_needs_nonce in Hs.
      exists s. split; [intros; lia|exact Hs].
    + destruct (IH _ _ _ _ _ _ Hr Ho Hout) as [sj [Hge Heq]].
      exists sj. split; [|exact Heq].
      intros x. pose proof (c03_step_monotone s o x) as Hm. rewrite Hs in Hm. cbn [fst] in Hm.
      specialize (Hge x). lia.
Qed.

Lemma no_replay : stmt_no_replay.
Proof.
  intros s ops. revert s.
  induction ops as [|o r IH]; intros s s' outs i j c1 c2 e1 e2 H Hij H1 H2 Hsg Hn O1 O2.
  - destruct i; discriminate H1.
  - apply c03_run_cons in H. destruct H as [s1 [y [ys [Hs [Hr ->]]]]].
    destruct j as [|j]; [lia|].
    cbn [nth_error] in H2, O2.
    destruct i as [|i]; cbn [nth_error] in H1, O1.
    + inversion H1; subst. inversion O1; subst.
      apply c03_step_exec_ok in Hs.
      pose proof (exec_needs_nonce _ _ _ _ Hs) as Hneed.
      apply exec_bumps_nonce_by_one in Hs. destruct Hs as [Hb _].
      destruct (c03_run_before _ _ _ _ _ _ _ Hr H2 O2) as [sj [Hge Heq]].
      specialize (Hge (ct_signer c1)). rewrite <- Hsg in Heq. lia.
    + eapply (IH s1 s' ys i j c1 c2 e1 e2); eauto. lia.
Qed.

(** ------------------------------------------------------------------ non-fatal failures *)

Ltac nf_step :=
  match goal with
  | H : ?lhs = Err _ |- _ =>
    match lhs with
    | Err _ => inversion H; subst; clear H; try reflexivity
    | Ok _ => discriminate H
    | bind ?r ?f => destruct r eqn:?; cbn [bind] in H
    | context [match ?x with _ => _ end] => destruct x eqn:?
    | context [if ?c then _ else _] => destruct c eqn:?
    end
  end.

Lemma nf_increase s x a amt e : increase_balance s x a amt = Err e -> is_nonfatal e = false.
Proof. unfold increase_balance. intros H. repeat nf_step. Qed.

Lemma nf_decrease s x a amt e : decrease_balance s x a amt = Err e -> is_nonfatal e = false.
Proof. unfold decrease_balance. intros H. repeat nf_step. Qed.

Lemma nf_mutable s signer a e : mutable_checks s signer a = Err e -> is_nonfatal e = false.
Proof.
  unfold mutable_checks, unlock_mutable, lock_mutable. intros H.
  destruct a; repeat nf_step.
Qed.

Lemma nf_pay_fee s signer k fa var pos e :
  pay_fee s signer k fa var pos = Err e -> is_nonfatal e = false.
Proof.
  unfold pay_fee. intros H. repeat nf_step.
  all: try (eapply nf_decrease; eassumption).
Qed.

Lemma nf_execute s signer tx idx ca e :
  execute_action s signer tx idx ca = Err e -> is_nonfatal e = false.
Proof.
  destruct ca as [a cap]. unfold execute_action. intros H.
  destruct (mutable_checks s signer a) as [u|e0] eqn:Hm; cbn [bind] in H.
  2:{ inversion H; subst. eapply nf_mutable; eassumption. }
  destruct a; destruct cap; repeat nf_step;
    try (eapply nf_decrease; eassumption); try (eapply nf_increase; eassumption).
Qed.

(** frames for the era flag *)
Lemma bb_inc s x a amt s' : increase_balance s x a amt = Ok s' -> blackburn s' = blackburn s.
Proof. intros H. apply increase_balance_ok in H. destruct H as [-> _]. reflexivity. Qed.

Lemma bb_dec s x a amt s' : decrease_balance s x a amt = Ok s' -> blackburn s' = blackburn s.
Proof. intros H. apply decrease_balance_ok in H. destruct H as [-> _]. reflexivity. Qed.

Ltac bb_step :=
  match goal with
  | H : decrease_balance _ _ _ _ = Ok _ |- _ => apply bb_dec in H
  | H : increase_balance _ _ _ _ = Ok _ |- _ => apply bb_inc in H
  | _ => inv_ok_step
  | H : (if ?c then _ else _) = Ok _ |- _ => destruct c eqn:?
  end.

Lemma bb_pay_fee s signer k fa var pos s' evs :
  pay_fee s signer k fa var pos = Ok (s', evs) -> blackburn s' = blackburn s.
Proof.
  unfold pay_fee. intros H.
  destruct (fees s k) as [[base mult]|]; [|discriminate].
  destruct fa as [a|]; [|inversion H; reflexivity].
  repeat bb_step. cbn in *. congruence.
Qed.

Lemma bb_execute_action s signer tx idx ca s' :
  execute_action s signer tx idx ca = Ok s' -> blackburn s' = blackburn s.
Proof.
  destruct ca as [a cap]. unfold execute_action. intros H.
  apply bind_ok in H. destruct H as [u [_ H]].
  destruct a; destruct cap; try discriminate H; cbv zeta in H;
    try (match type of H with
         | context [match ?ob with Some _ => match ?m with MemoBad => _ | MemoRollup _ _ _ _ => _ end
                                 | None => _ end] => destruct ob; [destruct m|]
         end);
    try (repeat bb_step;
         unfold put_wevent, cache_deposit, put_bridge in *; cbn in *; congruence).
Qed.

Lemma bb_pfe s signer tx idx ca s' evs :
  pay_fees_and_execute s signer tx idx ca = Ok (s', evs) -> blackburn s' = blackburn s.
Proof.
  unfold pay_fees_and_execute. intros H.
  apply bind_ok in H. destruct H as [[s1 e1] [Hp H]].
  apply bb_pay_fee in Hp.
  destruct (fst ca) eqn:Ea;
    try (apply bind_ok in H; destruct H as [s2 [He H]];
         apply bb_execute_action in He; inversion H; subst; congruence).
  - inversion H; subst; exact Hp.
  - destruct (execute_action s1 signer tx idx ca) as [s2|e] eqn:E; [|discriminate H].
    exfalso. exact (execute_relay_failing_never_ok _ _ _ _ _ _ _ Ea E).
Qed.

Lemma nf_pfe s signer tx idx ca e :
  pay_fees_and_execute s signer tx idx ca = Err (ENonFatal e) ->
  blackburn s = true /\ exists k, fst ca = AIbcRelayFailing k.
Proof.
  unfold pay_fees_and_execute. cbv zeta. intros H.
  destruct (pay_fee s signer (action_kind (fst ca)) (action_fee_asset (fst ca))
                    (action_variable (fst ca)) idx) as [[s1 e1]|e0] eqn:Hp; cbn [bind] in H.
  2:{ inversion H; subst. apply nf_pay_fee in Hp. discriminate Hp. }
  apply bb_pay_fee in Hp.
  destruct (fst ca) eqn:Ea;
    try (destruct (execute_action s1 signer tx idx ca) as [s2|e0] eqn:E; cbn [bind] in H;
         [discriminate H|inversion H; subst; apply nf_execute in E; discriminate E]).
  destruct (execute_action s1 signer tx idx ca) as [s2|e0] eqn:E; [discriminate H|].
  destruct (blackburn s1) eqn:Eb.
  - split; [congruence|eauto].
  - inversion H; subst. apply nf_execute in E. discriminate E.
Qed.

Lemma nf_exec_actions l : forall s signer tx idx e,
  exec_actions s signer tx idx l = Err (ENonFatal e) ->
  blackburn s = true /\ exists k cap, In (AIbcRelayFailing k, cap) l.
Proof.
  induction l as [|ca r IH]; intros s signer tx idx e H; cbn [exec_actions] in H.
  - discriminate H.
  - destruct (pay_fees_and_execute s signer tx idx ca) as [[s1 e1]|e0] eqn:Hp; cbn [bind] in H.
    + destruct (exec_actions s1 signer tx (idx + 1) r) as [[s2 e2]|e0] eqn:Hq; cbn [bind] in H;
        [discriminate H|].
      inversion H; subst. apply IH in Hq. destruct Hq as [Hb [k [cap Hin]]].
      apply bb_pfe in Hp. split; [congruence|]. exists k, cap. right. exact Hin.
    + inversion H; subst. apply nf_pfe in Hp. destruct Hp as [Hb [k Hk]].
      split; [exact Hb|]. destruct ca as [a cap]. cbn [fst] in Hk. subst a.
      exists k, cap. left. reflexivity.
Qed.

Lemma bb_put_lasttx s x t : blackburn (put_lasttx s x t) = blackburn s.
Proof. unfold put_lasttx. destruct (bridge s x); reflexivity. Qed.

Lemma nonfatal_failure_is_identity : stmt_nonfatal_failure_is_identity.
Proof.
  intros s c s' e H.
  split; [exact (failed_tx_is_identity _ _ _ _ H)|].
  unfold exec_tx in H.
  destruct (exec_tx_inner s c) as [[s1 e1]|e0] eqn:E; inversion H; subst; clear H.
  unfold exec_tx_inner in E. cbv zeta in E.
  destruct (nonce s' (ct_signer c) =? ct_nonce c); [|discriminate E].
  destruct (checked_add U32_MAX (nonce s' (ct_signer c)) 1) as [n1|]; [|discriminate E].
  apply nf_exec_actions in E. cbn [blackburn set_nonce] in E. rewrite bb_put_lasttx in E.
  exact E.
Qed.

(** ------------------------------------------------------------------ non-vacuity *)

Definition c03_is_ok (o : outcome) : bool := match o with OutOk _ => true | OutErr _ => false end.

Lemma c03_ok_witness (p : state * outcome) :
  c03_is_ok (snd p) = true -> exists s' evs, p = (s', OutOk evs).
Proof. destruct p as [s' [evs|e]]; cbn; intros H; [eauto|discriminate]. Qed.

Lemma c03_err_witness (p : state * outcome) :
  c03_is_ok (snd p) = false -> exists s' e, p = (s', OutErr e).
Proof. destruct p as [s' [evs|e]]; cbn; intros H; [discriminate|eauto]. Qed.

(** sample_tx1 (signer 4, nonce 0) executes on the sample state, whose nonce of 4 is 0. *)
Example exec_needs_nonce_nonvacuous :
  let c := checked sample_state sample_tx1 in
  (exists s' evs, exec_tx sample_state c = (s', OutOk evs)) /\
  ct_signer c = 4 /\ ct_nonce c = 0 /\ nonce sample_state 4 = 0.
Proof.
  cbv zeta. split; [apply c03_ok_witness; vm_compute; reflexivity|].
  vm_compute. repeat split; reflexivity.
Qed.

(** ... and afterwards the nonce of 4 is 1 while the nonce of 5 is untouched. *)
Example exec_bumps_nonce_by_one_nonvacuous :
  let c := checked sample_state sample_tx1 in
  (exists s' evs, exec_tx sample_state c = (s', OutOk evs)) /\
  nonce (fst (exec_tx sample_state c)) 4 = 1 /\
  nonce (fst (exec_tx sample_state c)) 5 = 0.
Proof.
  cbv zeta. split; [apply c03_ok_witness; vm_compute; reflexivity|].
  vm_compute. repeat split; reflexivity.
Qed.

(** sample_tx_fail fails (insufficient funds at its second action). *)
Example failed_tx_is_identity_nonvacuous :
  let c := checked sample_state sample_tx_fail in
  (exists s' e, exec_tx sample_state c = (s', OutErr e)) /\
  snd (exec_tx sample_state c) = OutErr EFunds /\
  length (ct_actions c) = 2%nat.
Proof.
  cbv zeta. split; [apply c03_err_witness; vm_compute; reflexivity|].
  vm_compute. repeat split; reflexivity.
Qed.

(** Over the sample history the nonce of account 4 strictly grows (two executed txs). *)
Example nonce_monotone_nonvacuous :
  nonce sample_state 4 = 0 /\ nonce (fst (run sample_state sample_ops)) 4 = 2 /\
  length (snd (run sample_state sample_ops)) = 6%nat.
Proof. vm_compute. repeat split; reflexivity. Qed.

(** Submitting sample_tx1 twice: all hypotheses of [stmt_no_replay] but the last hold (same signer
    and nonce at positions 1 < 2, the first succeeds) and the second is rejected with a nonce
    error. *)
Example no_replay_nonvacuous :
  let c := checked sample_state sample_tx1 in
  let ops := [OpBegin 3 6; OpExec c; OpExec c; OpEnd] in
  nth_error ops 1 = Some (OpExec c) /\ nth_error ops 2 = Some (OpExec c) /\
  (exists e1, nth_error (snd (run sample_state ops)) 1 = Some (STx (OutOk e1))) /\
  nth_error (snd (run sample_state ops)) 2 = Some (STx (OutErr ENonce)) /\
  nonce (fst (run sample_state ops)) 4 = 1.
Proof.
  cbv zeta. split; [reflexivity|]. split; [reflexivity|].
  split; [eexists; vm_compute; reflexivity|].
  vm_compute. split; reflexivity.
Qed.

(** The bundle [transfer; failing IbcRelay] signed by the relayer 5: after Blackburn it fails
    non-fatally, before Blackburn fatally, in both eras without a trace; its first action alone
    executes. *)
Example nonfatal_failure_is_identity_nonvacuous :
  let post := sample_relay_state true in
  let pre := sample_relay_state false in
  exec_tx post (checked post sample_tx_relay) = (post, OutErr (ENonFatal EOther)) /\
  exec_tx pre (checked pre sample_tx_relay) = (pre, OutErr EOther) /\
  length (ct_actions (checked post sample_tx_relay)) = 2%nat /\
  c03_is_ok (snd (exec_tx post (checked post sample_tx_relay_prefix))) = true /\
  bal (fst (exec_tx post (checked post sample_tx_relay_prefix))) 4 0 = 1000010.
Proof.
  vm_compute. repeat split; reflexivity.
Qed.

(** The nonce edge: at nonce u32::MAX - 1 a transaction executes and the nonce becomes u32::MAX;
    there every transaction fails (checked_add), so (signer, u32::MAX) never takes effect. *)
Example nonce_edge_nonvacuous :
  let s1 := op_setnonce sample_state 4 (U32_MAX - 1) in
  let s2 := fst (exec_tx s1 (checked s1 (mk_tx 109 4 (U32_MAX - 1) [ATransfer 5 1 0 0]))) in
  nonce s2 4 = U32_MAX /\
  snd (exec_tx s2 (checked s2 (mk_tx 110 4 U32_MAX [ATransfer 5 1 0 0]))) = OutErr ENonce /\
  ct_nonce (checked s2 (mk_tx 110 4 U32_MAX [ATransfer 5 1 0 0])) = U32_MAX.
Proof. vm_compute. repeat split; reflexivity. Qed.
