(** C01 (part b): fee amount, fee log and fee routing. *)
From Astria Require Import Base.Bounded Ledger.LedgerModel Ledger.LedgerSpec Ledger.LedgerLemmas Ledger.LedgerSample.

(** ------------------------------------------------------------------ fee_exact *)

Lemma c01b_fee_amount_exact base mult var :
  base + mult * var <= U128_MAX -> fee_amount base mult var = base + mult * var.
Proof.
  intros H. unfold fee_amount, saturating_add, saturating_mul.
  rewrite (N.mul_comm var mult).
  assert (H1 : mult * var <= U128_MAX) by lia.
  rewrite (N.min_r U128_MAX (mult * var)) by exact H1.
  rewrite N.min_r by exact H. reflexivity.
Qed.

Lemma fee_exact : stmt_fee_exact.
Proof.
  unfold stmt_fee_exact. intros s signer k a var pos s' evs H.
  unfold pay_fee in H.
  destruct (fees s k) as [[base mult]|] eqn:Ef; [|discriminate].
  destruct (mem_asset a (fee_assets s)) eqn:Em; [|discriminate].
  cbv zeta in H.
  destruct (checked_add U128_MAX (bf_total (block_fees s) a) (fee_amount base mult var)) eqn:Ec;
    [|discriminate].
  apply bind_ok in H. destruct H as [s2 [Hd H]]. cbv beta in H.
  inversion H; subst s' evs; clear H.
  apply decrease_balance_ok in Hd. destruct Hd as [-> Hle].
  cbn [bal set_bal set_block_fees block_fees] in *.
  exists base, mult. split; [reflexivity|]. split; [reflexivity|].
  split; [apply c01b_fee_amount_exact|].
  split; [rewrite upd2_same; lia|].
  split; [|reflexivity].
  intros x b Hne. apply upd2_other. exact Hne.
Qed.

Example fee_exact_nonvacuous :
  exists s' evs,
    pay_fee sample_state 4 KLock (Some 0) 30 2 = Ok (s', evs) /\
    evs = [ {| fe_pos := 2; fe_kind := KLock; fe_asset := 0; fe_amount := 65 |} ] /\
    bal s' 4 0 = 999935 /\ block_fees s' = [(0, 65)].
Proof. eexists; eexists. vm_compute. repeat split; reflexivity. Qed.

(** ------------------------------------------------------------------ fee_free *)

Lemma fee_free : stmt_fee_free.
Proof.
  unfold stmt_fee_free. intros s signer k var pos s' evs H.
  unfold pay_fee in H.
  destruct (fees s k) as [[base mult]|]; [|discriminate].
  inversion H; subst; split; reflexivity.
Qed.

Example fee_free_nonvacuous :
  pay_fee sample_state 0 KSudoChange None 0 0 = Ok (sample_state, []).
Proof. vm_compute. reflexivity. Qed.

(** ------------------------------------------------------------------ fee_saturates_refuted *)

Lemma fee_saturates_refuted : stmt_fee_saturates_refuted.
Proof.
  unfold stmt_fee_saturates_refuted.
  exists 1, U128_MAX, 20.
  unfold fee_amount, saturating_add, saturating_mul, U128_MAX, U64_MAX.
  repeat split; lia.
Qed.

Example fee_saturates_refuted_nonvacuous :
  fee_amount 1 U128_MAX 20 = U128_MAX /\ 1 + U128_MAX * 20 = 6805647338418769269267492148635364229101.
Proof. vm_compute. split; reflexivity. Qed.

(** ------------------------------------------------------------------ fee_log_exact *)

Definition c01b_log (evs : list fee_event) : list (asset * N) :=
  rev (map (fun e => (fe_asset e, fe_amount e)) evs).

Lemma c01b_inc_bf s x a v s' :
  increase_balance s x a v = Ok s' -> block_fees s' = block_fees s.
Proof. intros H. apply increase_balance_ok in H. destruct H as [-> _]. reflexivity. Qed.

Lemma c01b_dec_bf s x a v s' :
  decrease_balance s x a v = Ok s' -> block_fees s' = block_fees s.
Proof. intros H. apply decrease_balance_ok in H. destruct H as [-> _]. reflexivity. Qed.

Ltac c01b_bf_step :=
  match goal with
  | H : bind ?r ?f = Ok ?b |- _ =>
    let a := fresh "a" in let H1 := fresh "H" in let H2 := fresh "H" in
    destruct (bind_ok r f b H) as [a [H1 H2]]; clear H; cbv beta in H2
  | H : increase_balance _ _ _ _ = Ok _ |- _ => apply c01b_inc_bf in H
  | H : decrease_balance _ _ _ _ = Ok _ |- _ => apply c01b_dec_bf in H
  | H : (if ?c then ?k else Err ?e) = Ok ?b |- _ =>
    let H1 := fresh "H" in let H2 := fresh "H" in
    destruct (check_ok c e k b H) as [H1 H2]; clear H
  | H : Ok _ = Ok _ |- _ => inversion H; subst; clear H
  | H : Err _ = Ok _ |- _ => discriminate H
  | H : match ?x with Some _ => _ | None => _ end = Ok _ |- _ => destruct x eqn:?
  | H : (if ?c then _ else _) = Ok _ |- _ => destruct c eqn:?
  end.

Lemma c01b_execute_bf s signer tx idx ca s' :
  execute_action s signer tx idx ca = Ok s' -> block_fees s' = block_fees s.
Proof.
  destruct ca as [a cap]. unfold execute_action. intros H.
  apply bind_ok in H. destruct H as [u [_ H]]. cbv beta in H.
  destruct a; destruct cap; try discriminate H;
    cbv zeta in H; repeat c01b_bf_step;
    cbn [block_fees cache_deposit put_wevent put_bridge set_deposits set_wevent set_bridge
         set_escrow set_fees set_fee_assets set_sudo set_ibc_sudo set_relayer set_validators];
    try congruence;
    repeat match goal with
           | H : context [match ?x with Some _ => _ | None => _ end] |- _ => destruct x
           | H : context [match ?x with MemoBad => _ | MemoRollup _ _ _ _ => _ end] |- _ => destruct x
           end;
    cbn [block_fees put_wevent set_wevent] in *; congruence.
Qed.

Lemma c01b_pay_fee_bf s signer k fa var pos s' evs :
  pay_fee s signer k fa var pos = Ok (s', evs) ->
  block_fees s' = c01b_log evs ++ block_fees s.
Proof.
  destruct fa as [a|]; intros H.
  - destruct (fee_exact s signer k a var pos s' evs H)
      as [base [mult [_ [-> [_ [_ [_ Hbf]]]]]]].
    rewrite Hbf. reflexivity.
  - destruct (fee_free s signer k var pos s' evs H) as [-> ->]. reflexivity.
Qed.

Lemma c01b_pfe_bf s signer tx idx ca s' evs :
  pay_fees_and_execute s signer tx idx ca = Ok (s', evs) ->
  block_fees s' = c01b_log evs ++ block_fees s.
Proof.
  unfold pay_fees_and_execute. intros H.
  apply bind_ok in H. destruct H as [[s1 e1] [Hp H]]. cbv beta iota zeta in H.
  apply c01b_pay_fee_bf in Hp.
  assert (Hx : (s1, e1) = (s', evs) \/
               exists s2, execute_action s1 signer tx idx ca = Ok s2 /\ (s2, e1) = (s', evs)).
  { destruct (fst ca) eqn:Ea;
      first [ left; congruence
            | right; apply bind_ok in H; destruct H as [s2 [He H]]; exists s2;
              (split; [exact He|congruence])
            | exfalso;
              destruct (execute_action s1 signer tx idx ca) as [s2|e] eqn:E; [|discriminate H];
              exact (execute_relay_failing_never_ok _ _ _ _ _ _ _ Ea E) ]. }
  destruct Hx as [Hx|[s2 [He Hx]]]; inversion Hx; subst; clear Hx.
  - exact Hp.
  - apply c01b_execute_bf in He. rewrite He. exact Hp.
Qed.

Lemma c01b_log_app e1 e2 : c01b_log (e1 ++ e2) = c01b_log e2 ++ c01b_log e1.
Proof. unfold c01b_log. rewrite map_app, rev_app_distr. reflexivity. Qed.

Lemma c01b_exec_actions_bf l : forall s signer tx idx s' evs,
  exec_actions s signer tx idx l = Ok (s', evs) ->
  block_fees s' = c01b_log evs ++ block_fees s.
Proof.
  induction l as [|ca r IH]; intros s signer tx idx s' evs H; cbn [exec_actions] in H.
  - inversion H; subst. reflexivity.
  - apply bind_ok in H. destruct H as [[s1 e1] [Hp H]]. cbv beta iota in H.
    apply bind_ok in H. destruct H as [[s2 e2] [Hq H]]. cbv beta iota in H.
    inversion H; subst; clear H.
    apply c01b_pfe_bf in Hp. apply IH in Hq.
    rewrite Hq, Hp, c01b_log_app, app_assoc. reflexivity.
Qed.

Lemma c01b_put_lasttx_bf s x t : block_fees (put_lasttx s x t) = block_fees s.
Proof. unfold put_lasttx. destruct (bridge s x); reflexivity. Qed.

Lemma fee_log_exact : stmt_fee_log_exact.
Proof.
  unfold stmt_fee_log_exact. intros s c s' evs H.
  unfold exec_tx in H.
  destruct (exec_tx_inner s c) as [[s1 e1]|e] eqn:E; [|discriminate].
  inversion H; subst; clear H.
  unfold exec_tx_inner in E. cbv zeta in E.
  destruct (nonce s (ct_signer c) =? ct_nonce c); [|discriminate].
  destruct (checked_add U32_MAX (nonce s (ct_signer c)) 1) as [n1|]; [|discriminate].
  apply c01b_exec_actions_bf in E.
  cbn [block_fees set_nonce] in E. rewrite c01b_put_lasttx_bf in E. exact E.
Qed.

Example fee_log_exact_nonvacuous :
  exists s' evs,
    exec_tx sample_state (checked sample_state sample_tx1) = (s', OutOk evs) /\
    block_fees s' = [(0, 72); (0, 65); (0, 12)] /\ length evs = 3%nat.
Proof. eexists; eexists. vm_compute. repeat split; reflexivity. Qed.

(** ------------------------------------------------------------------ fees_routed *)

Lemma c01b_credit_fees l : forall s x s1,
  credit_fees s x l = Ok s1 ->
  sudo s1 = sudo s /\
  forall a, bal s1 x a = bal s x a + bf_total l a /\
            (forall y, y <> x -> bal s1 y a = bal s y a).
Proof.
  induction l as [|[a' v] r IH]; intros s x s1 H; cbn [credit_fees] in H.
  - inversion H; subst. split; [reflexivity|]. intros a. cbn [bf_total]. split; [lia|reflexivity].
  - apply bind_ok in H. destruct H as [s0 [Hi H]]. cbv beta in H.
    apply increase_balance_ok in Hi. destruct Hi as [-> _].
    apply IH in H. destruct H as [Hs H]. split; [exact Hs|].
    intros a. destruct (H a) as [H1 H2]. cbn [bal set_bal] in H1, H2. cbn [bf_total].
    split.
    + rewrite H1. destruct (N.eqb_spec a' a) as [->|Hne].
      * rewrite upd2_same. lia.
      * rewrite upd2_other_asset by congruence. lia.
    + intros y Hy. rewrite (H2 y Hy). apply upd2_other. congruence.
Qed.

Lemma fees_routed : stmt_fees_routed.
Proof.
  unfold stmt_fees_routed. intros s s' ds H a.
  unfold end_block in H. apply bind_ok in H. destruct H as [s1 [Hc H]]. cbv beta in H.
  inversion H; subst; clear H.
  apply c01b_credit_fees in Hc. destruct Hc as [_ Hc].
  cbn [bal set_deposits set_block_fees].
  exact (Hc a).
Qed.

Example fees_routed_nonvacuous :
  let s := fst (run sample_state [OpBegin 3 6; OpExec (checked sample_state sample_tx1)]) in
  exists s' ds,
    end_block s = Ok (s', ds) /\
    bf_total (block_fees s) 0 = 149 /\
    bal s (sudo s) 0 = 1000000 /\ bal s' (sudo s) 0 = 1000149 /\ length ds = 1%nat.
Proof. eexists; eexists. vm_compute. repeat split; reflexivity. Qed.

(** ... also for an asset whose allowed-fee-asset status was revoked after the fee was paid,
    in the same block: the 12 units of asset 1 collected from account 4 reach the fee recipient,
    and a further payment in asset 1 is refused. *)
Example fees_routed_after_removal_nonvacuous :
  let s := fst (run sample_two_fee_assets sample_ops_fee_asset_removed) in
  fee_assets s = [0] /\
  bf_total (block_fees s) 1 = 12 /\ bal s 4 1 = 488 /\
  snd (exec_tx s (checked s (mk_tx 113 4 1 [ATransfer 5 1 0 1]))) = OutErr EFeeAsset /\
  exists s' ds,
    end_block s = Ok (s', ds) /\
    bal s (sudo s) 1 = 0 /\ bal s' (sudo s) 1 = 12 /\ block_fees s' = [] /\
    supply0 sample_L sample_C s' 1 = supply0 sample_L sample_C sample_two_fee_assets 1.
Proof.
  cbv zeta. repeat (split; [vm_compute; reflexivity|]).
  eexists; eexists. vm_compute. repeat split; reflexivity.
Qed.
