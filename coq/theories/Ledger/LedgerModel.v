(** Ledger model (C01, C02, C03, C04): transaction execution of the sequencer.

    Proof-free, total, computable.  Follows, in the order of the code,
      crates/astria-sequencer/src/checked_transaction/mod.rs   (construct / execute)
      crates/astria-sequencer/src/checked_actions/*.rs          (new / run_mutable_checks / execute)
      crates/astria-sequencer/src/checked_actions/checked_action.rs (pay_fee)
      crates/astria-sequencer/src/checked_actions/utils.rs      (fee)
      crates/astria-sequencer/src/accounts/state_ext.rs         (increase/decrease_balance)
      crates/astria-sequencer/src/fees/state_ext.rs             (add_fee_to_block_fees)
      crates/astria-sequencer/src/app/mod.rs                    (begin/execute_transaction/end_block)

    Identifiers (addresses, assets, rollups, event ids, tx ids, channels) are [N].  Balances are
    u128, nonces u32, validator count u64.  The cnidarium [StateDelta] of
    [App::execute_transaction] is a functional copy: [exec_tx] returns the ORIGINAL state on any
    error.  Errors carry the harness' error class (first matching rule of
    [app::verif::error_class] on the error text the code produces at that point). *)
From Astria Require Import Base.Bounded.

Definition addr := N.
Definition asset := N.
Definition rollup := N.
Definition evid := N.
Definition txid := N.
Definition chan := N.

(** Action kinds, in the order of the harness' FEE_KINDS table. *)
Inductive kind :=
| KTransfer | KRollup | KIcs20 | KInitBridge | KLock | KUnlock | KBTransfer | KBSudo | KIbcRelay
| KValUpdate | KFeeAsset | KFeeChange | KRelayer | KSudoChange | KIbcSudo | KRecover | KPairs
| KMarkets.

Definition kind_index (k : kind) : N :=
  match k with
  | KTransfer => 0 | KRollup => 1 | KIcs20 => 2 | KInitBridge => 3 | KLock => 4 | KUnlock => 5
  | KBTransfer => 6 | KBSudo => 7 | KIbcRelay => 8 | KValUpdate => 9 | KFeeAsset => 10
  | KFeeChange => 11 | KRelayer => 12 | KSudoChange => 13 | KIbcSudo => 14 | KRecover => 15
  | KPairs => 16 | KMarkets => 17
  end.

Definition kind_eqb (a b : kind) : bool := kind_index a =? kind_index b.

(** Error classes of the harness ([app::verif::error_class]).  [ENonFatal e]: an error of class
    [e] which the code reports as [CheckedActionExecutionError::NonFatalExecution] (a failing
    IbcRelay action once the Blackburn upgrade is active): the transaction stays in the block
    with a non-zero result code instead of being dropped from it. *)
Inductive eclass :=
| ENonce | EAuth | EOverflow | EDisabled | EExists | EMissing | EFeeAsset | EFunds | EPrefix
| EBridge | EDecode | EChainId | EOther
| ENonFatal (e : eclass).

Definition is_nonfatal (e : eclass) : bool :=
  match e with ENonFatal _ => true | _ => false end.

Inductive result (A : Type) : Type :=
| Ok (a : A)
| Err (e : eclass).
Arguments Ok {A} a.
Arguments Err {A} e.

Definition bind {A B : Type} (r : result A) (f : A -> result B) : result B :=
  match r with Ok a => f a | Err e => Err e end.
Notation "'do' x <- r ; k" := (bind r (fun x => k)) (at level 200, x name, r at level 100, k at level 200).
Notation "'check' b 'else' e ; k" := (if b then k else Err e) (at level 200, b at level 100, e at level 0, k at level 200).

(** ------------------------------------------------------------------ state *)

Record bridge_rec := {
  br_rollup : rollup;
  br_asset : asset;
  br_sudo : option addr;
  br_withdrawer : option addr;
  br_disabled : option bool;
  br_lasttx : option txid
}.

Record deposit := {
  d_bridge : addr;
  d_rollup : rollup;
  d_asset : asset;
  d_amount : N;
  d_dest : N;
  d_tx : txid;
  d_idx : N
}.

Record state := {
  bal : addr -> asset -> N;
  nonce : addr -> N;
  escrow : chan -> asset -> N;
  bridge : addr -> option bridge_rec;
  wevent : addr -> evid -> option N;
  sudo : addr;
  ibc_sudo : addr;
  relayer : addr -> bool;
  fees : kind -> option (N * N);
  fee_assets : list asset;
  known_assets : asset -> bool;       (* ibc-prefixed -> trace-prefixed mapping is stored *)
  channels : chan -> bool;            (* an open transfer channel exists (IBC core oracle) *)
  validators : addr -> option N;
  valcount : N;
  block_fees : list (asset * N);      (* log of the fees paid in the current block, newest first *)
  deposits : list deposit;            (* deposits cached in the current block, oldest first *)
  blackburn : bool;                   (* Blackburn upgrade (disableable bridge deposits) active *)
  height : N
}.

Definition upd1 {V : Type} (f : N -> V) (k : N) (v : V) : N -> V :=
  fun x => if x =? k then v else f x.
Definition upd2 {V : Type} (f : N -> N -> V) (k1 k2 : N) (v : V) : N -> N -> V :=
  fun x y => if (x =? k1) && (y =? k2) then v else f x y.
Definition updk {V : Type} (f : kind -> V) (k : kind) (v : V) : kind -> V :=
  fun x => if kind_eqb x k then v else f x.

Definition set_bal (s : state) (f : addr -> asset -> N) : state :=
  {| bal := f; nonce := nonce s; escrow := escrow s; bridge := bridge s; wevent := wevent s;
     sudo := sudo s; ibc_sudo := ibc_sudo s; relayer := relayer s; fees := fees s;
     fee_assets := fee_assets s; known_assets := known_assets s; channels := channels s;
     validators := validators s; valcount := valcount s; block_fees := block_fees s;
     deposits := deposits s; blackburn := blackburn s; height := height s |}.
Definition set_nonce (s : state) (f : addr -> N) : state :=
  {| bal := bal s; nonce := f; escrow := escrow s; bridge := bridge s; wevent := wevent s;
     sudo := sudo s; ibc_sudo := ibc_sudo s; relayer := relayer s; fees := fees s;
     fee_assets := fee_assets s; known_assets := known_assets s; channels := channels s;
     validators := validators s; valcount := valcount s; block_fees := block_fees s;
     deposits := deposits s; blackburn := blackburn s; height := height s |}.
Definition set_escrow (s : state) (f : chan -> asset -> N) : state :=
  {| bal := bal s; nonce := nonce s; escrow := f; bridge := bridge s; wevent := wevent s;
     sudo := sudo s; ibc_sudo := ibc_sudo s; relayer := relayer s; fees := fees s;
     fee_assets := fee_assets s; known_assets := known_assets s; channels := channels s;
     validators := validators s; valcount := valcount s; block_fees := block_fees s;
     deposits := deposits s; blackburn := blackburn s; height := height s |}.
Definition set_bridge (s : state) (f : addr -> option bridge_rec) : state :=
  {| bal := bal s; nonce := nonce s; escrow := escrow s; bridge := f; wevent := wevent s;
     sudo := sudo s; ibc_sudo := ibc_sudo s; relayer := relayer s; fees := fees s;
     fee_assets := fee_assets s; known_assets := known_assets s; channels := channels s;
     validators := validators s; valcount := valcount s; block_fees := block_fees s;
     deposits := deposits s; blackburn := blackburn s; height := height s |}.
Definition set_wevent (s : state) (f : addr -> evid -> option N) : state :=
  {| bal := bal s; nonce := nonce s; escrow := escrow s; bridge := bridge s; wevent := f;
     sudo := sudo s; ibc_sudo := ibc_sudo s; relayer := relayer s; fees := fees s;
     fee_assets := fee_assets s; known_assets := known_assets s; channels := channels s;
     validators := validators s; valcount := valcount s; block_fees := block_fees s;
     deposits := deposits s; blackburn := blackburn s; height := height s |}.
Definition set_sudo (s : state) (x : addr) : state :=
  {| bal := bal s; nonce := nonce s; escrow := escrow s; bridge := bridge s; wevent := wevent s;
     sudo := x; ibc_sudo := ibc_sudo s; relayer := relayer s; fees := fees s;
     fee_assets := fee_assets s; known_assets := known_assets s; channels := channels s;
     validators := validators s; valcount := valcount s; block_fees := block_fees s;
     deposits := deposits s; blackburn := blackburn s; height := height s |}.
Definition set_ibc_sudo (s : state) (x : addr) : state :=
  {| bal := bal s; nonce := nonce s; escrow := escrow s; bridge := bridge s; wevent := wevent s;
     sudo := sudo s; ibc_sudo := x; relayer := relayer s; fees := fees s;
     fee_assets := fee_assets s; known_assets := known_assets s; channels := channels s;
     validators := validators s; valcount := valcount s; block_fees := block_fees s;
     deposits := deposits s; blackburn := blackburn s; height := height s |}.
Definition set_relayer (s : state) (f : addr -> bool) : state :=
  {| bal := bal s; nonce := nonce s; escrow := escrow s; bridge := bridge s; wevent := wevent s;
     sudo := sudo s; ibc_sudo := ibc_sudo s; relayer := f; fees := fees s;
     fee_assets := fee_assets s; known_assets := known_assets s; channels := channels s;
     validators := validators s; valcount := valcount s; block_fees := block_fees s;
     deposits := deposits s; blackburn := blackburn s; height := height s |}.
Definition set_fees (s : state) (f : kind -> option (N * N)) : state :=
  {| bal := bal s; nonce := nonce s; escrow := escrow s; bridge := bridge s; wevent := wevent s;
     sudo := sudo s; ibc_sudo := ibc_sudo s; relayer := relayer s; fees := f;
     fee_assets := fee_assets s; known_assets := known_assets s; channels := channels s;
     validators := validators s; valcount := valcount s; block_fees := block_fees s;
     deposits := deposits s; blackburn := blackburn s; height := height s |}.
Definition set_fee_assets (s : state) (l : list asset) : state :=
  {| bal := bal s; nonce := nonce s; escrow := escrow s; bridge := bridge s; wevent := wevent s;
     sudo := sudo s; ibc_sudo := ibc_sudo s; relayer := relayer s; fees := fees s;
     fee_assets := l; known_assets := known_assets s; channels := channels s;
     validators := validators s; valcount := valcount s; block_fees := block_fees s;
     deposits := deposits s; blackburn := blackburn s; height := height s |}.
Definition set_known_assets (s : state) (f : asset -> bool) : state :=
  {| bal := bal s; nonce := nonce s; escrow := escrow s; bridge := bridge s; wevent := wevent s;
     sudo := sudo s; ibc_sudo := ibc_sudo s; relayer := relayer s; fees := fees s;
     fee_assets := fee_assets s; known_assets := f; channels := channels s;
     validators := validators s; valcount := valcount s; block_fees := block_fees s;
     deposits := deposits s; blackburn := blackburn s; height := height s |}.
Definition set_channels (s : state) (f : chan -> bool) : state :=
  {| bal := bal s; nonce := nonce s; escrow := escrow s; bridge := bridge s; wevent := wevent s;
     sudo := sudo s; ibc_sudo := ibc_sudo s; relayer := relayer s; fees := fees s;
     fee_assets := fee_assets s; known_assets := known_assets s; channels := f;
     validators := validators s; valcount := valcount s; block_fees := block_fees s;
     deposits := deposits s; blackburn := blackburn s; height := height s |}.
Definition set_validators (s : state) (f : addr -> option N) (c : N) : state :=
  {| bal := bal s; nonce := nonce s; escrow := escrow s; bridge := bridge s; wevent := wevent s;
     sudo := sudo s; ibc_sudo := ibc_sudo s; relayer := relayer s; fees := fees s;
     fee_assets := fee_assets s; known_assets := known_assets s; channels := channels s;
     validators := f; valcount := c; block_fees := block_fees s;
     deposits := deposits s; blackburn := blackburn s; height := height s |}.
Definition set_block_fees (s : state) (l : list (asset * N)) : state :=
  {| bal := bal s; nonce := nonce s; escrow := escrow s; bridge := bridge s; wevent := wevent s;
     sudo := sudo s; ibc_sudo := ibc_sudo s; relayer := relayer s; fees := fees s;
     fee_assets := fee_assets s; known_assets := known_assets s; channels := channels s;
     validators := validators s; valcount := valcount s; block_fees := l;
     deposits := deposits s; blackburn := blackburn s; height := height s |}.
Definition set_deposits (s : state) (l : list deposit) : state :=
  {| bal := bal s; nonce := nonce s; escrow := escrow s; bridge := bridge s; wevent := wevent s;
     sudo := sudo s; ibc_sudo := ibc_sudo s; relayer := relayer s; fees := fees s;
     fee_assets := fee_assets s; known_assets := known_assets s; channels := channels s;
     validators := validators s; valcount := valcount s; block_fees := block_fees s;
     deposits := l; blackburn := blackburn s; height := height s |}.
Definition set_round (s : state) (bb : bool) (h : N) : state :=
  {| bal := bal s; nonce := nonce s; escrow := escrow s; bridge := bridge s; wevent := wevent s;
     sudo := sudo s; ibc_sudo := ibc_sudo s; relayer := relayer s; fees := fees s;
     fee_assets := fee_assets s; known_assets := known_assets s; channels := channels s;
     validators := validators s; valcount := valcount s; block_fees := [];
     deposits := []; blackburn := bb; height := h |}.

(** ------------------------------------------------------------------ accounts *)

(** accounts/state_ext.rs: increase_balance (checked_add) / decrease_balance (checked_sub). *)
Definition increase_balance (s : state) (x : addr) (a : asset) (amt : N) : result state :=
  match checked_add U128_MAX (bal s x a) amt with
  | Some v => Ok (set_bal s (upd2 (bal s) x a v))
  | None => Err EOverflow
  end.

Definition decrease_balance (s : state) (x : addr) (a : asset) (amt : N) : result state :=
  match checked_sub (bal s x a) amt with
  | Some v => Ok (set_bal s (upd2 (bal s) x a v))
  | None => Err EFunds
  end.

Definition is_bridge (s : state) (x : addr) : bool :=
  match bridge s x with Some _ => true | None => false end.

Definition bridge_disabled (s : state) (x : addr) : bool :=
  match bridge s x with
  | Some br => match br_disabled br with Some true => true | _ => false end
  | None => false
  end.

Definition withdrawer_of (s : state) (x : addr) : option addr :=
  match bridge s x with Some br => br_withdrawer br | None => None end.

Definition bridge_sudo_of (s : state) (x : addr) : option addr :=
  match bridge s x with Some br => br_sudo br | None => None end.

Definition mem_asset (a : asset) (l : list asset) : bool := existsb (N.eqb a) l.

Definition lenN {A : Type} (l : list A) : N := N.of_nat (length l).

(** ------------------------------------------------------------------ fees *)

(** checked_actions/utils.rs: fee = base saturating_add (variable saturating_mul multiplier). *)
Definition fee_amount (base mult var : N) : N :=
  saturating_add U128_MAX base (saturating_mul U128_MAX var mult).

Fixpoint bf_total (l : list (asset * N)) (a : asset) : N :=
  match l with
  | [] => 0
  | (a', v) :: r => (if a' =? a then v else 0) + bf_total r a
  end.

(** A fee event as recorded by add_fee_to_block_fees: position, kind, asset, amount. *)
Record fee_event := { fe_pos : N; fe_kind : kind; fe_asset : asset; fe_amount : N }.

(** checked_action.rs pay_fee + utils.rs fee.  [fa] = the action's fee asset (None: free). *)
Definition pay_fee (s : state) (signer : addr) (k : kind) (fa : option asset) (var : N) (pos : N)
  : result (state * list fee_event) :=
  match fees s k with
  | None => Err EDisabled
  | Some (base, mult) =>
    match fa with
    | None => Ok (s, [])
    | Some a =>
      check mem_asset a (fee_assets s) else EFeeAsset;
      let total := fee_amount base mult var in
      match checked_add U128_MAX (bf_total (block_fees s) a) total with
      | None => Err EOverflow
      | Some _ =>
        let s1 := set_block_fees s ((a, total) :: block_fees s) in
        do s2 <- decrease_balance s1 signer a total;
        Ok (s2, [ {| fe_pos := pos; fe_kind := k; fe_asset := a; fe_amount := total |} ])
      end
    end
  end.

(** ------------------------------------------------------------------ actions *)

(** The memo of an Ics20Withdrawal as far as the code looks at it: either it parses as an
    [Ics20WithdrawalFromRollup] (block number, event id and its length, return-address length) or
    it does not. *)
Inductive ics_memo :=
| MemoBad
| MemoRollup (blk : N) (ev : evid) (ev_len : N) (rret_len : N).

Inductive action :=
| ATransfer (to : addr) (amt : N) (a : asset) (fa : asset)
| ALock (to : addr) (amt : N) (a : asset) (a_is_ibc : bool) (a_len : N) (fa : asset) (dest : N)
        (dest_len : N)
| AUnlock (to : addr) (amt : N) (fa : asset) (b : addr) (memo_len : N) (blk : N) (ev : evid)
          (ev_len : N)
| ABTransfer (to : addr) (amt : N) (fa : asset) (dest : N) (dest_len : N) (b : addr) (blk : N)
             (ev : evid) (ev_len : N)
| AInitBridge (r : rollup) (a : asset) (fa : asset) (sd : option addr) (wd : option addr)
| ABSudo (b : addr) (new_sudo : option addr) (new_wd : option addr) (fa : asset) (disable : bool)
| AIcs20 (amt : N) (a : asset) (is_source : bool) (c : chan) (fa : asset) (b : option addr)
         (memo : ics_memo)
| ARollup (r : rollup) (len : N) (fa : asset)
| AFeeChange (k : kind) (base : N) (mult : N)
| AFeeAsset (add : bool) (a : asset)
| ASudoChange (to : addr)
| AIbcSudo (to : addr)
| ARelayer (add : bool) (x : addr)
| AValUpdate (key : addr) (power : N)
| AIbcRelayFailing (k : N).
  (* an IbcRelay message (client upgrade for the non-existing client number [k]) which passes the
     stateless checks and fails [check_and_execute] in every state *)

Definition action_kind (a : action) : kind :=
  match a with
  | ATransfer _ _ _ _ => KTransfer
  | ALock _ _ _ _ _ _ _ _ => KLock
  | AUnlock _ _ _ _ _ _ _ _ => KUnlock
  | ABTransfer _ _ _ _ _ _ _ _ _ => KBTransfer
  | AInitBridge _ _ _ _ _ => KInitBridge
  | ABSudo _ _ _ _ _ => KBSudo
  | AIcs20 _ _ _ _ _ _ _ => KIcs20
  | ARollup _ _ _ => KRollup
  | AFeeChange _ _ _ => KFeeChange
  | AFeeAsset _ _ => KFeeAsset
  | ASudoChange _ => KSudoChange
  | AIbcSudo _ => KIbcSudo
  | ARelayer _ _ => KRelayer
  | AValUpdate _ _ => KValUpdate
  | AIbcRelayFailing _ => KIbcRelay
  end.

(** fees/fee_handler.rs: fee_asset() and variable_component(). *)
Definition action_fee_asset (a : action) : option asset :=
  match a with
  | ATransfer _ _ _ fa => Some fa
  | ALock _ _ _ _ _ fa _ _ => Some fa
  | AUnlock _ _ fa _ _ _ _ _ => Some fa
  | ABTransfer _ _ fa _ _ _ _ _ _ => Some fa
  | AInitBridge _ _ fa _ _ => Some fa
  | ABSudo _ _ _ fa _ => Some fa
  | AIcs20 _ _ _ _ fa _ _ => Some fa
  | ARollup _ _ fa => Some fa
  | _ => None
  end.

Definition DEPOSIT_BASE_FEE : N := 16.

Definition action_variable (a : action) : N :=
  match a with
  | ALock _ _ _ _ a_len _ _ dest_len => a_len + dest_len + DEPOSIT_BASE_FEE
  | ARollup _ len _ => len
  | _ => 0
  end.

(** protocol/transaction/v1/action/group: 1 unbundleable sudo, 2 bundleable sudo,
    3 unbundleable general, 4 bundleable general. *)
Definition action_group (a : action) : N :=
  match a with
  | ASudoChange _ | AIbcSudo _ => 1
  | ARelayer _ _ | AFeeChange _ _ _ | AFeeAsset _ _ => 2
  | AInitBridge _ _ _ _ _ | ABSudo _ _ _ _ _ => 3
  | _ => 4
  end.

Definition group_bundleable (g : N) : bool := (g =? 2) || (g =? 4).

(** Actions::try_from_list_of_actions: Some group, or None (empty / not bundleable / mixed). *)
Definition build_group (l : list action) : option N :=
  match l with
  | [] => None
  | a :: r =>
    let g := action_group a in
    if (negb (group_bundleable g)) && (match r with [] => false | _ => true end) then None
    else if forallb (fun b => action_group b =? g) r then Some g else None
  end.

(** Data captured when a checked action is constructed. *)
Inductive capture :=
| CapNone
| CapLock (r : rollup)                (* Deposit.rollup_id of the destination bridge *)
| CapUnlock (a : asset)               (* bridge_account_ibc_asset *)
| CapBTransfer (a : asset) (r : rollup).

Definition checked_action := (action * capture)%type.

(** run_mutable_checks of each checked action, in the code's order. *)
Definition unlock_mutable (pure : bool) (s : state) (signer to b : addr) (ev : evid)
  : result unit :=
  check negb (pure && is_bridge s to) else EBridge;
  match withdrawer_of s b with
  | None => Err EBridge
  | Some w =>
    check (w =? signer) else EAuth;
    match wevent s b ev with
    | Some _ => Err EExists
    | None => Ok tt
    end
  end.

Definition lock_mutable (pure : bool) (s : state) (signer to : addr) : result unit :=
  check negb (pure && is_bridge s signer) else EBridge;
  check negb (bridge_disabled s to) else EDisabled;
  Ok tt.

Definition mutable_checks (s : state) (signer : addr) (a : action) : result unit :=
  match a with
  | ATransfer _ _ _ _ =>
    check negb (is_bridge s signer) else EBridge; Ok tt
  | ALock to _ _ _ _ _ _ _ => lock_mutable true s signer to
  | AUnlock to _ _ b _ _ ev _ => unlock_mutable true s signer to b ev
  | ABTransfer to _ _ _ _ b _ ev _ =>
    do _ <- unlock_mutable false s signer to b ev;
    lock_mutable false s signer to
  | AInitBridge _ _ _ _ _ =>
    check negb (is_bridge s signer) else EExists; Ok tt
  | ABSudo b _ _ _ disable =>
    match bridge_sudo_of s b with
    | None => Err EBridge
    | Some sd =>
      check negb (negb (blackburn s) && disable) else EBridge;
      check (sd =? signer) else EAuth;
      Ok tt
    end
  | AIcs20 _ _ _ _ _ ob memo =>
    match ob, memo with
    | Some b, MemoRollup _ ev _ _ =>
      match withdrawer_of s b with
      | None => Err EBridge
      | Some w =>
        check (w =? signer) else EAuth;
        match wevent s b ev with
        | Some _ => Err EExists
        | None => Ok tt
        end
      end
    | Some _, MemoBad => Err EBridge
    | None, _ =>
      check negb (is_bridge s signer) else EBridge; Ok tt
    end
  | ARollup _ _ _ => Ok tt
  | AFeeChange _ _ _ =>
    check (sudo s =? signer) else EAuth; Ok tt
  | AFeeAsset add a =>
    check (sudo s =? signer) else EAuth;
    if add then (check negb (mem_asset a (fee_assets s)) else EExists; Ok tt)
    else (check mem_asset a (fee_assets s) else EMissing;
          check (1 <? lenN (fee_assets s)) else EFeeAsset; Ok tt)
  | ASudoChange _ =>
    check (sudo s =? signer) else EAuth; Ok tt
  | AIbcSudo _ =>
    check (sudo s =? signer) else EAuth; Ok tt
  | ARelayer add x =>
    check (ibc_sudo s =? signer) else EAuth;
    if add then (check negb (relayer s x) else EExists; Ok tt)
    else (check relayer s x else EMissing; Ok tt)
  | AValUpdate key power =>
    check (sudo s =? signer) else EAuth;
    if power =? 0 then
      (check (1 <? valcount s) else EOther;
       check (match validators s key with Some _ => true | None => false end) else EMissing;
       Ok tt)
    else Ok tt
  | AIbcRelayFailing _ =>
    check relayer s signer else EAuth; Ok tt
  end.

(** CheckedXxx::new: immutable checks, captured data, then the mutable checks. *)
Definition unlock_immutable (e : eclass) (amt memo_len ev_len blk : N) : result unit :=
  check (0 <? amt) else e;
  check (memo_len <=? 64) else e;
  check (0 <? ev_len) else e;
  check (ev_len <=? 256) else e;
  check (0 <? blk) else e;
  Ok tt.

Definition construct_action (s : state) (signer : addr) (a : action) : result checked_action :=
  match a with
  | ALock to _ ast a_is_ibc _ _ _ _ =>
    match bridge s to with
    | None => Err EBridge
    | Some br =>
      check (br_asset br =? ast) else EAuth;
      check (negb a_is_ibc || known_assets s ast) else EBridge;
      do _ <- mutable_checks s signer a;
      Ok (a, CapLock (br_rollup br))
    end
  | AUnlock to amt _ b memo_len blk ev ev_len =>
    do _ <- unlock_immutable EBridge amt memo_len ev_len blk;
    match bridge s b with
    | None => Err EBridge
    | Some br =>
      do _ <- mutable_checks s signer a;
      Ok (a, CapUnlock (br_asset br))
    end
  | ABTransfer to amt _ _ _ b blk ev ev_len =>
    do _ <- unlock_immutable EBridge amt 0 ev_len blk;
    match bridge s b with
    | None => Err EBridge
    | Some br =>
      do _ <- unlock_mutable false s signer to b ev;
      match bridge s to with
      | None => Err EBridge
      | Some brt =>
        check (br_asset brt =? br_asset br) else EAuth;
        check known_assets s (br_asset br) else EBridge;
        do _ <- lock_mutable false s signer to;
        do _ <- mutable_checks s signer a;
        Ok (a, CapBTransfer (br_asset br) (br_rollup brt))
      end
    end
  | AIcs20 amt _ _ _ _ ob memo =>
    check (0 <? amt) else EOther;
    do _ <- match ob, memo with
            | Some _, MemoBad => Err EBridge
            | Some _, MemoRollup blk _ ev_len rret_len =>
              check (0 <? rret_len) else EOther;
              check (rret_len <=? 256) else EOther;
              check (0 <? ev_len) else EOther;
              check (ev_len <=? 256) else EOther;
              check (0 <? blk) else EOther;
              Ok tt
            | None, _ => Ok tt
            end;
    do _ <- mutable_checks s signer a;
    Ok (a, CapNone)
  | ARollup _ len _ =>
    check (0 <? len) else EOther;
    Ok (a, CapNone)
  | _ =>
    do _ <- mutable_checks s signer a;
    Ok (a, CapNone)
  end.

Definition cache_deposit (s : state) (d : deposit) : state :=
  set_deposits s (deposits s ++ [d]).

Definition put_wevent (s : state) (b : addr) (ev : evid) (blk : N) : state :=
  set_wevent s (fun x e => if (x =? b) && (e =? ev) then Some blk else wevent s x e).

Definition put_bridge (s : state) (b : addr) (br : bridge_rec) : state :=
  set_bridge s (upd1 (bridge s) b (Some br)).

(** CheckedXxx::execute (after the fee has been paid). *)
Definition execute_action (s : state) (signer : addr) (tx : txid) (idx : N) (ca : checked_action)
  : result state :=
  let '(a, cap) := ca in
  do _ <- mutable_checks s signer a;
  match a, cap with
  | ATransfer to amt ast _, _ =>
    do s1 <- decrease_balance s signer ast amt;
    increase_balance s1 to ast amt
  | ALock to amt ast _ _ _ dest _, CapLock r =>
    do s1 <- decrease_balance s signer ast amt;
    do s2 <- increase_balance s1 to ast amt;
    Ok (cache_deposit s2 {| d_bridge := to; d_rollup := r; d_asset := ast; d_amount := amt;
                            d_dest := dest; d_tx := tx; d_idx := idx |})
  | AUnlock to amt _ b _ blk ev _, CapUnlock ast =>
    do s1 <- decrease_balance s b ast amt;
    do s2 <- increase_balance s1 to ast amt;
    Ok (put_wevent s2 b ev blk)
  | ABTransfer to amt _ dest _ b blk ev _, CapBTransfer ast r =>
    do s1 <- decrease_balance s b ast amt;
    do s2 <- increase_balance s1 to ast amt;
    let s3 := cache_deposit s2 {| d_bridge := to; d_rollup := r; d_asset := ast;
                                  d_amount := amt; d_dest := dest; d_tx := tx; d_idx := idx |} in
    Ok (put_wevent s3 b ev blk)
  | AInitBridge r ast _ sd wd, _ =>
    Ok (put_bridge s signer
          {| br_rollup := r; br_asset := ast;
             br_sudo := Some (match sd with Some x => x | None => signer end);
             br_withdrawer := Some (match wd with Some x => x | None => signer end);
             br_disabled := None; br_lasttx := None |})
  | ABSudo b new_sudo new_wd _ disable, _ =>
    match bridge s b with
    | None => Err EBridge
    | Some br =>
      Ok (put_bridge s b
            {| br_rollup := br_rollup br; br_asset := br_asset br;
               br_sudo := match new_sudo with Some x => Some x | None => br_sudo br end;
               br_withdrawer := match new_wd with Some x => Some x | None => br_withdrawer br end;
               br_disabled := if blackburn s then Some disable else br_disabled br;
               br_lasttx := br_lasttx br |})
    end
  | AIcs20 amt ast is_source c _ ob memo, _ =>
    let s1 := match ob, memo with
              | Some b, MemoRollup blk ev _ _ => put_wevent s b ev blk
              | _, _ => s
              end in
    check channels s1 c else EMissing;
    let from := match ob with Some b => b | None => signer end in
    do s2 <- decrease_balance s1 from ast amt;
    if is_source then
      match checked_add U128_MAX (escrow s2 c ast) amt with
      | Some v => Ok (set_escrow s2 (upd2 (escrow s2) c ast v))
      | None => Err EOverflow
      end
    else Ok s2
  | ARollup _ _ _, _ => Ok s
  | AFeeChange k base mult, _ => Ok (set_fees s (updk (fees s) k (Some (base, mult))))
  | AFeeAsset add ast, _ =>
    if add then Ok (set_fee_assets s (ast :: fee_assets s))
    else Ok (set_fee_assets s (filter (fun x => negb (x =? ast)) (fee_assets s)))
  | ASudoChange to, _ => Ok (set_sudo s to)
  | AIbcSudo to, _ => Ok (set_ibc_sudo s to)
  | ARelayer add x, _ => Ok (set_relayer s (upd1 (relayer s) x add))
  | AValUpdate key power, _ =>
    if power =? 0 then
      Ok (set_validators s (upd1 (validators s) key None) (valcount s - 1))
    else
      let c := match validators s key with
               | Some _ => valcount s
               | None => saturating_add U64_MAX (valcount s) 1
               end in
      Ok (set_validators s (upd1 (validators s) key (Some power)) c)
  | AIbcRelayFailing _, _ => Err EOther      (* check_and_execute: the client does not exist *)
  | _, _ => Err EOther     (* capture of the wrong shape: never built by [construct_action] *)
  end.

(** CheckedAction::pay_fees_and_execute.  For IbcRelay an error of [execute] (the relayer check
    or check_and_execute; not an error of pay_fee) is fatal before the Blackburn upgrade and
    non-fatal once the upgrade's AllowIbcRelayToFail change is stored. *)
Definition pay_fees_and_execute (s : state) (signer : addr) (tx : txid) (idx : N)
  (ca : checked_action) : result (state * list fee_event) :=
  let a := fst ca in
  do r <- pay_fee s signer (action_kind a) (action_fee_asset a) (action_variable a) idx;
  let '(s1, evs) := r in
  match a with
  | ARollup _ _ _ => Ok (s1, evs)
  | AIbcRelayFailing _ =>
    match execute_action s1 signer tx idx ca with
    | Ok s2 => Ok (s2, evs)
    | Err e => Err (if blackburn s1 then ENonFatal e else e)
    end
  | _ => do s2 <- execute_action s1 signer tx idx ca; Ok (s2, evs)
  end.

(** ------------------------------------------------------------------ transactions *)

Record tx := { tx_id : txid; tx_signer : addr; tx_nonce : N; tx_actions : list action }.
Record checked_tx := { ct_id : txid; ct_signer : addr; ct_nonce : N;
                       ct_actions : list checked_action }.

Fixpoint construct_actions (s : state) (signer : addr) (l : list action)
  : result (list checked_action) :=
  match l with
  | [] => Ok []
  | a :: r =>
    do ca <- construct_action s signer a;
    do cr <- construct_actions s signer r;
    Ok (ca :: cr)
  end.

(** CheckedTransaction::new (the signature, size and chain-id checks are outside the model). *)
Definition construct_tx (s : state) (t : tx) : result checked_tx :=
  check negb (tx_nonce t <? nonce s (tx_signer t)) else ENonce;
  do cas <- construct_actions s (tx_signer t) (tx_actions t);
  Ok {| ct_id := tx_id t; ct_signer := tx_signer t; ct_nonce := tx_nonce t; ct_actions := cas |}.

(** The error classes of every action whose construction fails (convert_actions runs the
    constructions concurrently, so which error is reported first is not determined). *)
Fixpoint construct_action_errors (s : state) (signer : addr) (l : list action) : list eclass :=
  match l with
  | [] => []
  | a :: r =>
    match construct_action s signer a with
    | Ok _ => construct_action_errors s signer r
    | Err e => e :: construct_action_errors s signer r
    end
  end.

Fixpoint exec_actions (s : state) (signer : addr) (tx : txid) (idx : N)
  (l : list checked_action) : result (state * list fee_event) :=
  match l with
  | [] => Ok (s, [])
  | ca :: r =>
    do p <- pay_fees_and_execute s signer tx idx ca;
    let '(s1, e1) := p in
    do q <- exec_actions s1 signer tx (idx + 1) r;
    let '(s2, e2) := q in
    Ok (s2, e1 ++ e2)
  end.

Definition put_lasttx (s : state) (x : addr) (t : txid) : state :=
  match bridge s x with
  | None => s
  | Some br =>
    put_bridge s x {| br_rollup := br_rollup br; br_asset := br_asset br; br_sudo := br_sudo br;
                      br_withdrawer := br_withdrawer br; br_disabled := br_disabled br;
                      br_lasttx := Some t |}
  end.

(** CheckedTransaction::execute on a copy of the state. *)
Definition exec_tx_inner (s : state) (c : checked_tx) : result (state * list fee_event) :=
  let x := ct_signer c in
  check (nonce s x =? ct_nonce c) else ENonce;
  let s1 := put_lasttx s x (ct_id c) in
  match checked_add U32_MAX (nonce s x) 1 with
  | None => Err ENonce
  | Some n1 =>
    let s2 := set_nonce s1 (upd1 (nonce s1) x n1) in
    exec_actions s2 x (ct_id c) 0 (ct_actions c)
  end.

Inductive outcome :=
| OutOk (evs : list fee_event)
| OutErr (e : eclass).

(** App::execute_transaction: the delta is applied on success and dropped on error - on every
    error, [OutErr (ENonFatal _)] included (finalize_block then still lists the transaction,
    with a non-zero code). *)
Definition exec_tx (s : state) (c : checked_tx) : state * outcome :=
  match exec_tx_inner s c with
  | Ok (s', evs) => (s', OutOk evs)
  | Err e => (s, OutErr e)
  end.

(** ------------------------------------------------------------------ blocks *)

(** update_state_for_new_round + pre_execute_transactions: the ephemeral block fees and cached
    deposits start empty; the Blackburn upgrade is applied at its activation height
    ([bb_height] = 0: never). *)
Definition begin_block (s : state) (bb_height : N) (h : N) : state :=
  set_round s (blackburn s || (negb (bb_height =? 0) && (bb_height <=? h))) h.

Fixpoint credit_fees (s : state) (x : addr) (l : list (asset * N)) : result state :=
  match l with
  | [] => Ok s
  | (a, v) :: r =>
    do s1 <- increase_balance s x a v;
    credit_fees s1 x r
  end.

(** App::end_block (fees to the sudo address as it is at the end of the block) + commit: the
    ephemeral objects are gone afterwards; the cached deposits are what is written into the
    block. *)
Definition end_block (s : state) : result (state * list deposit) :=
  do s1 <- credit_fees s (sudo s) (block_fees s);
  Ok (set_deposits (set_block_fees s1 []) [], deposits s).

(** Harness "god" operations (direct state writes). *)
Definition op_mint (s : state) (x : addr) (a : asset) (v : N) (trace : bool) : state :=
  let s1 := set_bal s (upd2 (bal s) x a v) in
  if trace then set_known_assets s1 (upd1 (known_assets s1) a true) else s1.
Definition op_allowfee (s : state) (a : asset) (trace : bool) : state :=
  let s1 := if mem_asset a (fee_assets s) then s else set_fee_assets s (a :: fee_assets s) in
  if trace then set_known_assets s1 (upd1 (known_assets s1) a true) else s1.
Definition op_escrow (s : state) (c : chan) (a : asset) (v : N) (trace : bool) : state :=
  let s1 := set_escrow s (upd2 (escrow s) c a v) in
  if trace then set_known_assets s1 (upd1 (known_assets s1) a true) else s1.
Definition op_ibcchan (s : state) (c : chan) : state :=
  set_channels s (upd1 (channels s) c true).
(** `setnonce`: a direct write of an account's nonce.  Deliberately NOT an [op] of the histories
    below: no chain operation can do this (it only puts the harness' chain into a boundary
    state such as nonce = u32::MAX before a history starts). *)
Definition op_setnonce (s : state) (x : addr) (n : N) : state :=
  set_nonce s (upd1 (nonce s) x n).

(** One step of a history of the working state. *)
Inductive op :=
| OpBegin (bb_height h : N)
| OpExec (c : checked_tx)
| OpEnd
| OpMint (x : addr) (a : asset) (v : N) (trace : bool)
| OpAllowFee (a : asset) (trace : bool)
| OpEscrow (c : chan) (a : asset) (v : N) (trace : bool)
| OpChan (c : chan).

Inductive step_out :=
| SNone
| STx (o : outcome)
| SEnd (r : option (list deposit)).

Definition step (s : state) (o : op) : state * step_out :=
  match o with
  | OpBegin bbh h => (begin_block s bbh h, SNone)
  | OpExec c => let '(s', out) := exec_tx s c in (s', STx out)
  | OpEnd =>
    match end_block s with
    | Ok (s', ds) => (s', SEnd (Some ds))
    | Err _ => (s, SEnd None)
    end
  | OpMint x a v t => (op_mint s x a v t, SNone)
  | OpAllowFee a t => (op_allowfee s a t, SNone)
  | OpEscrow c a v t => (op_escrow s c a v t, SNone)
  | OpChan c => (op_ibcchan s c, SNone)
  end.

Fixpoint run (s : state) (ops : list op) : state * list step_out :=
  match ops with
  | [] => (s, [])
  | o :: r =>
    let '(s1, x) := step s o in
    let '(s2, xs) := run s1 r in
    (s2, x :: xs)
  end.

(** The `block` script op of the harness: every tx is constructed against the committed state,
    the block begins, the constructed txs are executed in order (a failing tx is dropped),
    the block ends.  Returns per tx its construction error or execution outcome. *)
Inductive tx_result :=
| RConstructErr (e : eclass)
| RExec (o : outcome).

Fixpoint exec_block_txs (s : state) (l : list (result checked_tx)) : state * list tx_result :=
  match l with
  | [] => (s, [])
  | Err e :: r =>
    let '(s', rs) := exec_block_txs s r in (s', RConstructErr e :: rs)
  | Ok c :: r =>
    let '(s1, o) := exec_tx s c in
    let '(s', rs) := exec_block_txs s1 r in (s', RExec o :: rs)
  end.

Definition block_op (s : state) (bb_height h : N) (txs : list tx)
  : list tx_result * result (state * list deposit) :=
  let cs := map (construct_tx s) txs in
  let s1 := begin_block s bb_height h in
  let '(s2, rs) := exec_block_txs s1 cs in
  (rs, end_block s2).
