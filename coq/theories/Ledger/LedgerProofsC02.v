(** C02: authority of debits and of privileged writes.  Proofs of the [stmt_*] statements of
    LedgerSpec.v, section C02. *)
From Astria Require Import Base.Bounded Ledger.LedgerModel Ledger.LedgerSpec Ledger.LedgerLemmas Ledger.LedgerSample.

(** ------------------------------------------------------------------ balances *)

Lemma c02_dec_bal s y a' amt s' x a :
  decrease_balance s y a' amt = Ok s' -> bal s' x a < bal s x a -> x = y.
Proof.
  intros H. apply decrease_balance_ok in H. destruct H as [-> _]. cbn [bal set_bal].
  unfold upd2. destruct (N.eqb_spec x y); [auto|]. cbn [andb]. intros; lia.
Qed.

Lemma c02_inc_bal s y a' amt s' x a :
  increase_balance s y a' amt = Ok s' -> bal s x a <= bal s' x a.
Proof.
  intros H. apply increase_balance_ok in H. destruct H as [-> _]. cbn [bal set_bal].
  unfold upd2. destruct (N.eqb_spec x y), (N.eqb_spec a a'); cbn [andb]; subst; lia.
Qed.

Lemma c02_dec_shape s y a' amt s' :
  decrease_balance s y a' amt = Ok s' -> exists f, s' = set_bal s f.
Proof. intros H. apply decrease_balance_ok in H. destruct H as [-> _]. eexists; reflexivity. Qed.

Lemma c02_inc_shape s y a' amt s' :
  increase_balance s y a' amt = Ok s' -> exists f, s' = set_bal s f.
Proof. intros H. apply increase_balance_ok in H. destruct H as [-> _]. eexists; reflexivity. Qed.

(** ------------------------------------------------------------------ pay_fee *)

Lemma c02_pay_fee_shape s signer k fa var pos s' evs :
  pay_fee s signer k fa var pos = Ok (s', evs) ->
  (exists f l, s' = set_bal (set_block_fees s l) f) /\
  (forall x a, bal s' x a < bal s x a -> x = signer).
Proof.
  unfold pay_fee. intros H.
  destruct (fees s k) as [[base mult]|]; [|discriminate].
  destruct fa as [a0|].
  - destruct (mem_asset a0 (fee_assets s)); [|discriminate].
    destruct (checked_add _ _ _); [|discriminate].
    cbv zeta in H. apply bind_ok in H. destruct H as [s2 [Hd H]]. inversion H; subst; clear H.
    split.
    + apply decrease_balance_ok in Hd. destruct Hd as [-> _]. eexists; eexists; reflexivity.
    + intros x a Hlt. exact (c02_dec_bal _ _ _ _ _ x a Hd Hlt).
  - inversion H; subst; clear H. split.
    + exists (bal s'), (block_fees s'). destruct s'; reflexivity.
    + intros; lia.
Qed.

Lemma c02_pay_fee_bridge s signer k fa var pos s' evs :
  pay_fee s signer k fa var pos = Ok (s', evs) -> bridge s' = bridge s.
Proof.
  intros H. apply c02_pay_fee_shape in H. destruct H as [[f [l ->]] _]. reflexivity.
Qed.

(** ------------------------------------------------------------------ execute_action: debits *)

Ltac c02_proj_in H :=
  cbn [bal nonce escrow bridge wevent sudo ibc_sudo relayer fees fee_assets known_assets channels
       validators valcount block_fees deposits blackburn height
       set_bal set_nonce set_escrow set_bridge set_wevent set_sudo set_ibc_sudo set_relayer
       set_fees set_fee_assets set_known_assets set_channels set_validators set_block_fees
       set_deposits set_round cache_deposit put_wevent put_bridge] in H.

Ltac c02_proj :=
  cbn [bal nonce escrow bridge wevent sudo ibc_sudo relayer fees fee_assets known_assets channels
       validators valcount block_fees deposits blackburn height
       set_bal set_nonce set_escrow set_bridge set_wevent set_sudo set_ibc_sudo set_relayer
       set_fees set_fee_assets set_known_assets set_channels set_validators set_block_fees
       set_deposits set_round cache_deposit put_wevent put_bridge].

Lemma c02_unlock_mutable_wd pure s signer to b ev :
  unlock_mutable pure s signer to b ev = Ok tt -> withdrawer_of s b = Some signer.
Proof.
  unfold unlock_mutable. intros H.
  destruct (negb (pure && is_bridge s to)); [|discriminate].
  destruct (withdrawer_of s b) as [w|]; [|discriminate].
  destruct (N.eqb_spec w signer); [|discriminate]. subst; reflexivity.
Qed.

(** no balance is written at all *)
Ltac c02_nodebit H Hlt :=
  exfalso;
  repeat match type of H with (if ?c then _ else _) = _ => destruct c end;
  inversion H; subst; c02_proj_in Hlt; lia.

Lemma c02_exec_debit s signer tx idx ca s' x a :
  execute_action s signer tx idx ca = Ok s' ->
  bal s' x a < bal s x a ->
  x = signer \/ withdrawer_of s x = Some signer.
Proof.
  destruct ca as [act cap]. unfold execute_action. intros H Hlt.
  apply bind_ok in H. destruct H as [[] [Hm H]]. cbv beta in H.
  destruct act.
  - (* ATransfer *)
    apply bind_ok in H. destruct H as [s1 [Hd Hi]].
    left. apply (c02_dec_bal _ _ _ _ _ x a Hd).
    pose proof (c02_inc_bal _ _ _ _ _ x a Hi). lia.
  - (* ALock *)
    destruct cap; try discriminate H.
    apply bind_ok in H. destruct H as [s1 [Hd H]].
    apply bind_ok in H. destruct H as [s2 [Hi H]].
    inversion H; subst; clear H. c02_proj_in Hlt.
    left. apply (c02_dec_bal _ _ _ _ _ x a Hd).
    pose proof (c02_inc_bal _ _ _ _ _ x a Hi). lia.
  - (* AUnlock *)
    destruct cap; try discriminate H.
    apply bind_ok in H. destruct H as [s1 [Hd H]].
    apply bind_ok in H. destruct H as [s2 [Hi H]].
    inversion H; subst; clear H. c02_proj_in Hlt.
    apply c02_unlock_mutable_wd in Hm.
    right. assert (x = b) as ->; [|exact Hm].
    apply (c02_dec_bal _ _ _ _ _ x a Hd).
    pose proof (c02_inc_bal _ _ _ _ _ x a Hi). lia.
  - (* ABTransfer *)
    destruct cap; try discriminate H.
    apply bind_ok in H. destruct H as [s1 [Hd H]].
    apply bind_ok in H. destruct H as [s2 [Hi H]].
    cbv zeta in H. inversion H; subst; clear H. c02_proj_in Hlt.
    cbn [mutable_checks] in Hm. apply bind_ok in Hm. destruct Hm as [[] [Hm _]].
    apply c02_unlock_mutable_wd in Hm.
    right. assert (x = b) as ->; [|exact Hm].
    apply (c02_dec_bal _ _ _ _ _ x a Hd).
    pose proof (c02_inc_bal _ _ _ _ _ x a Hi). lia.
  - (* AInitBridge *) c02_nodebit H Hlt.
  - (* ABSudo *) destruct (bridge s b); [|discriminate H]. c02_nodebit H Hlt.
  - (* AIcs20 *)
    cbn [mutable_checks] in Hm.
    destruct b as [b|]; [destruct memo as [|blk ev evl rl]; [discriminate Hm|]|].
    + cbv zeta in H.
      destruct (channels _ c); [|discriminate H].
      apply bind_ok in H. destruct H as [s2 [Hd H]].
      assert (Hb : bal s' = bal s2).
      { destruct is_source; [destruct (checked_add _ _ _); [|discriminate H]|];
          inversion H; subst; reflexivity. }
      rewrite Hb in Hlt.
      right. assert (x = b) as ->.
      { apply (c02_dec_bal _ _ _ _ _ x a Hd). exact Hlt. }
      destruct (withdrawer_of s b) as [w|]; [|discriminate Hm].
      destruct (N.eqb_spec w signer); [|discriminate Hm]. subst; reflexivity.
    + cbv zeta in H.
      assert (H' : (check channels s c else EMissing;
                    do s2 <- decrease_balance s signer a0 amt;
                    if is_source then
                      match checked_add U128_MAX (escrow s2 c a0) amt with
                      | Some v => Ok (set_escrow s2 (upd2 (escrow s2) c a0 v))
                      | None => Err EOverflow
                      end
                    else Ok s2) = Ok s').
      { destruct memo; exact H. }
      clear H. rename H' into H.
      destruct (channels _ c); [|discriminate H].
      apply bind_ok in H. destruct H as [s2 [Hd H]].
      assert (Hb : bal s' = bal s2).
      { destruct is_source; [destruct (checked_add _ _ _); [|discriminate H]|];
          inversion H; subst; reflexivity. }
      rewrite Hb in Hlt.
      left. apply (c02_dec_bal _ _ _ _ _ x a Hd). exact Hlt.
  - c02_nodebit H Hlt.
  - c02_nodebit H Hlt.
  - c02_nodebit H Hlt.
  - c02_nodebit H Hlt.
  - c02_nodebit H Hlt.
  - c02_nodebit H Hlt.
  - c02_nodebit H Hlt.
  - (* AIbcRelayFailing: never executes *) destruct cap; discriminate H.
Qed.

Lemma c02_wd_bridge_eq s1 s x : bridge s1 = bridge s -> withdrawer_of s1 x = withdrawer_of s x.
Proof. unfold withdrawer_of. intros ->. reflexivity. Qed.

Lemma c02_pfe_inv s signer tx idx ca s' evs :
  pay_fees_and_execute s signer tx idx ca = Ok (s', evs) ->
  exists s1, pay_fee s signer (action_kind (fst ca)) (action_fee_asset (fst ca))
                     (action_variable (fst ca)) idx = Ok (s1, evs) /\
             ((exists r l fa, fst ca = ARollup r l fa /\ s' = s1) \/
              ((forall r l fa, fst ca <> ARollup r l fa) /\
               execute_action s1 signer tx idx ca = Ok s')).
Proof.
  unfold pay_fees_and_execute. intros H. cbv zeta in H.
  apply bind_ok in H. destruct H as [[s1 evs1] [Hp H]].
  exists s1.
  destruct (fst ca) eqn:Ea;
    try (apply bind_ok in H; destruct H as [s2 [He H]]; inversion H; subst; clear H;
         split; [exact Hp|]; right; split; [intros; discriminate|exact He]).
  - inversion H; subst; clear H. split; [exact Hp|]. left. eauto.
  - exfalso. destruct (execute_action s1 signer tx idx ca) as [s2|e] eqn:E; [|discriminate H].
    exact (execute_relay_failing_never_ok _ _ _ _ _ _ _ Ea E).
Qed.

Lemma debit_needs_authority : stmt_debit_needs_authority.
Proof.
  unfold stmt_debit_needs_authority. intros s signer tx idx ca s' evs x a H Hlt.
  apply c02_pfe_inv in H. destruct H as [s1 [Hp H]].
  pose proof (c02_pay_fee_bridge _ _ _ _ _ _ _ _ Hp) as Hbr.
  apply c02_pay_fee_shape in Hp. destruct Hp as [_ Hfee].
  destruct H as [[r [l [fa [_ ->]]]]|[_ He]].
  - left. apply (Hfee x a Hlt).
  - destruct (N.lt_ge_cases (bal s1 x a) (bal s x a)) as [Hc|Hc].
    + left. apply (Hfee x a Hc).
    + rewrite <- (c02_wd_bridge_eq s1 s x Hbr).
      apply (c02_exec_debit _ _ _ _ _ _ x a He). lia.
Qed.

(** ------------------------------------------------------------------ the bridge map *)

Ltac c02_shapes :=
  repeat match goal with
  | H : decrease_balance _ _ _ _ = Ok _ |- _ =>
    apply c02_dec_shape in H; let f := fresh "f" in destruct H as [f ->]
  | H : increase_balance _ _ _ _ = Ok _ |- _ =>
    apply c02_inc_shape in H; let f := fresh "f" in destruct H as [f ->]
  end.

Ltac c02_same H :=
  repeat match type of H with (if ?c then _ else _) = _ => destruct c end;
  inversion H; subst; reflexivity.

Lemma c02_exec_bridge_same s signer tx idx ca s' :
  action_group (fst ca) <> 3 ->
  execute_action s signer tx idx ca = Ok s' -> bridge s' = bridge s.
Proof.
  destruct ca as [act cap]. unfold execute_action. cbn [fst]. intros Hg H.
  apply bind_ok in H. destruct H as [[] [Hm H]]. cbv beta in H.
  destruct act.
  - apply bind_ok in H. destruct H as [s1 [Hd Hi]]. c02_shapes. reflexivity.
  - destruct cap; try discriminate H.
    apply bind_ok in H. destruct H as [s1 [Hd H]].
    apply bind_ok in H. destruct H as [s2 [Hi H]]. c02_shapes. c02_same H.
  - destruct cap; try discriminate H.
    apply bind_ok in H. destruct H as [s1 [Hd H]].
    apply bind_ok in H. destruct H as [s2 [Hi H]]. c02_shapes. c02_same H.
  - destruct cap; try discriminate H.
    apply bind_ok in H. destruct H as [s1 [Hd H]].
    apply bind_ok in H. destruct H as [s2 [Hi H]]. c02_shapes. cbv zeta in H. c02_same H.
  - exfalso. apply Hg. reflexivity.
  - exfalso. apply Hg. reflexivity.
  - cbv zeta in H.
    destruct (channels _ c); [|discriminate H].
    apply bind_ok in H. destruct H as [s2 [Hd H]]. c02_shapes.
    assert (Hb : bridge s' = bridge s).
    { destruct is_source; [destruct (checked_add _ _ _); [|discriminate H]|];
        inversion H; subst; destruct b as [b|]; try destruct memo; reflexivity. }
    exact Hb.
  - c02_same H.
  - c02_same H.
  - c02_same H.
  - c02_same H.
  - c02_same H.
  - c02_same H.
  - c02_same H.
  - (* AIbcRelayFailing: never executes *) try destruct cap; congruence.
Qed.

Lemma c02_pfe_bridge_same s signer tx idx ca s' evs :
  action_group (fst ca) <> 3 ->
  pay_fees_and_execute s signer tx idx ca = Ok (s', evs) -> bridge s' = bridge s.
Proof.
  intros Hg H. apply c02_pfe_inv in H. destruct H as [s1 [Hp H]].
  apply c02_pay_fee_bridge in Hp.
  destruct H as [[r [l [fa [_ ->]]]]|[_ He]]; [exact Hp|].
  rewrite <- Hp. eapply c02_exec_bridge_same; eauto.
Qed.

Lemma c02_exec_actions_debit l : forall s signer tx idx s' evs,
  Forall (fun ca => action_group (fst ca) <> 3) l ->
  exec_actions s signer tx idx l = Ok (s', evs) ->
  bridge s' = bridge s /\
  (forall x a, bal s' x a < bal s x a -> x = signer \/ withdrawer_of s x = Some signer).
Proof.
  induction l as [|ca r IH]; intros s signer tx idx s' evs HF H.
  - cbn in H. inversion H; subst. split; [reflexivity|intros; lia].
  - cbn [exec_actions] in H. inversion HF as [|? ? Hg HF']; subst.
    apply bind_ok in H. destruct H as [[s1 e1] [H1 H]].
    apply bind_ok in H. destruct H as [[s2 e2] [H2 H]]. inversion H; subst; clear H.
    pose proof (c02_pfe_bridge_same _ _ _ _ _ _ _ Hg H1) as Hb1.
    destruct (IH _ _ _ _ _ _ HF' H2) as [Hb2 Hd2].
    split; [congruence|].
    intros x a Hlt.
    destruct (N.lt_ge_cases (bal s1 x a) (bal s x a)) as [Hc|Hc].
    + eapply debit_needs_authority; eauto.
    + rewrite <- (c02_wd_bridge_eq s1 s x Hb1). apply (Hd2 x a). lia.
Qed.

Lemma c02_build_group_cases (l : list checked_action) :
  build_group (map fst l) <> None ->
  (exists ca, l = [ca]) \/ Forall (fun ca => action_group (fst ca) <> 3) l.
Proof.
  destruct l as [|ca r]; cbn [map build_group]; intros H; [congruence|].
  destruct r as [|cb r']; [left; eauto|right].
  cbv zeta in H. cbn [map] in H.
  destruct (group_bundleable (action_group (fst ca))) eqn:Eb; cbn [negb andb] in H;
    [|congruence].
  destruct (forallb _ _) eqn:Ef in H; [|congruence].
  assert (Hg : action_group (fst ca) <> 3).
  { intros E. rewrite E in Eb. discriminate Eb. }
  constructor; [exact Hg|].
  rewrite forallb_forall in Ef.
  apply Forall_forall. intros y Hy.
  assert (Hin : In (fst y) (fst cb :: map fst r')).
  { change (In (fst y) (map fst (cb :: r'))). apply in_map. exact Hy. }
  specialize (Ef _ Hin). apply N.eqb_eq in Ef. congruence.
Qed.

Lemma c02_put_lasttx_wd s x t y : withdrawer_of (put_lasttx s x t) y = withdrawer_of s y.
Proof.
  unfold put_lasttx. destruct (bridge s x) as [br|] eqn:E; [|reflexivity].
  unfold withdrawer_of. c02_proj. unfold upd1.
  destruct (N.eqb_spec y x); [subst; rewrite E|]; reflexivity.
Qed.

Lemma c02_put_lasttx_bal s x t : bal (put_lasttx s x t) = bal s.
Proof. unfold put_lasttx. destruct (bridge s x); reflexivity. Qed.

Lemma tx_debit_needs_authority : stmt_tx_debit_needs_authority.
Proof.
  unfold stmt_tx_debit_needs_authority. intros s c s' evs x a Hbg H Hlt.
  unfold exec_tx in H.
  destruct (exec_tx_inner s c) as [[s0 evs0]|e] eqn:E; [|discriminate H].
  inversion H; subst; clear H.
  unfold exec_tx_inner in E. cbv zeta in E.
  destruct (nonce s (ct_signer c) =? ct_nonce c); [|discriminate E].
  destruct (checked_add U32_MAX (nonce s (ct_signer c)) 1) as [n1|]; [|discriminate E].
  set (s2 := set_nonce _ _) in E.
  assert (Hb2 : bal s2 = bal s) by (unfold s2; c02_proj; apply c02_put_lasttx_bal).
  assert (Hw2 : forall y, withdrawer_of s2 y = withdrawer_of s y).
  { intros y. unfold s2. rewrite <- (c02_put_lasttx_wd s (ct_signer c) (ct_id c) y). reflexivity. }
  rewrite <- Hb2 in Hlt. rewrite <- Hw2.
  destruct (c02_build_group_cases _ Hbg) as [[ca Hl]|HF].
  - rewrite Hl in E. cbn [exec_actions] in E.
    apply bind_ok in E. destruct E as [[s1 e1] [H1 E]].
    cbn [bind] in E. inversion E; subst; clear E.
    eapply debit_needs_authority; eauto.
  - destruct (c02_exec_actions_debit _ _ _ _ _ _ _ HF E) as [_ Hd]. apply (Hd x a Hlt).
Qed.

(** ------------------------------------------------------------------ block boundaries *)

Lemma c02_credit_fees l : forall s x s',
  credit_fees s x l = Ok s' ->
  (exists f, s' = set_bal s f) /\ (forall y a, bal s y a <= bal s' y a).
Proof.
  induction l as [|[a0 v] r IH]; intros s x s' H.
  - cbn in H. inversion H; subst. split; [exists (bal s'); destruct s'; reflexivity|intros; lia].
  - cbn [credit_fees] in H. apply bind_ok in H. destruct H as [s1 [Hi H]].
    destruct (IH _ _ _ H) as [[f ->] Hle]. split.
    + apply c02_inc_shape in Hi. destruct Hi as [g ->]. exists f. reflexivity.
    + intros y a. pose proof (c02_inc_bal _ _ _ _ _ y a Hi). specialize (Hle y a). lia.
Qed.

Lemma blocks_never_debit : stmt_blocks_never_debit.
Proof.
  unfold stmt_blocks_never_debit. intros s bbh h x a. split; [reflexivity|].
  intros s' ds H. unfold end_block in H.
  apply bind_ok in H. destruct H as [s1 [Hc H]]. inversion H; subst; clear H.
  c02_proj. apply c02_credit_fees in Hc. destruct Hc as [_ Hle]. apply Hle.
Qed.

(** ------------------------------------------------------------------ privileged state *)

Lemma c02_pay_fee_priv : forall s signer k fa var pos s' evs,
  pay_fee s signer k fa var pos = Ok (s', evs) -> priv_equal s s'.
Proof.
  intros s signer k fa var pos s' evs H.
  apply c02_pay_fee_shape in H. destruct H as [[f [l ->]] _].
  unfold priv_equal. repeat split.
Qed.

Lemma privileged_untouched_elsewhere : stmt_privileged_untouched_elsewhere.
Proof.
  unfold stmt_privileged_untouched_elsewhere. split; [exact c02_pay_fee_priv|].
  split; [|split; [|split]].
  - intros s x t. unfold put_lasttx. destruct (bridge s x) as [br|] eqn:E.
    + unfold priv_equal. c02_proj. repeat split.
      intros b. unfold upd1. destruct (N.eqb_spec b x); [subst; rewrite E|]; reflexivity.
    + unfold priv_equal. repeat split.
  - intros s bbh h. unfold priv_equal. repeat split.
  - intros s s' ds H. unfold end_block in H.
    apply bind_ok in H. destruct H as [s1 [Hc H]]. inversion H; subst; clear H.
    apply c02_credit_fees in Hc. destruct Hc as [[f ->] _].
    unfold priv_equal. repeat split.
  - intros s c s' e H. unfold exec_tx in H.
    destruct (exec_tx_inner s c) as [[s0 evs0]|e0]; inversion H; reflexivity.
Qed.

Definition c02_priv_concl (s s' : state) (signer : addr) : Prop :=
  (sudo s' <> sudo s -> sudo s = signer) /\
  (ibc_sudo s' <> ibc_sudo s -> sudo s = signer) /\
  ((exists x, relayer s' x <> relayer s x) -> ibc_sudo s = signer) /\
  ((exists k, fees s' k <> fees s k) -> sudo s = signer) /\
  (fee_assets s' <> fee_assets s -> sudo s = signer) /\
  (((exists k, validators s' k <> validators s k) \/ valcount s' <> valcount s) ->
   sudo s = signer) /\
  (forall b, bridge_priv (bridge s' b) <> bridge_priv (bridge s b) ->
             bridge_sudo_of s b = Some signer \/ (bridge s b = None /\ b = signer)).

Lemma c02_priv_unchanged s s' signer :
  sudo s' = sudo s -> ibc_sudo s' = ibc_sudo s -> relayer s' = relayer s -> fees s' = fees s ->
  fee_assets s' = fee_assets s -> validators s' = validators s -> valcount s' = valcount s ->
  bridge s' = bridge s -> c02_priv_concl s s' signer.
Proof.
  intros E1 E2 E3 E4 E5 E6 E7 E8. unfold c02_priv_concl.
  rewrite E1, E2, E3, E4, E5, E6, E7, E8.
  refine (conj _ (conj _ (conj _ (conj _ (conj _ (conj _ _)))))).
  - intros Hc; exfalso; apply Hc; reflexivity.
  - intros Hc; exfalso; apply Hc; reflexivity.
  - intros [x Hc]; exfalso; apply Hc; reflexivity.
  - intros [x Hc]; exfalso; apply Hc; reflexivity.
  - intros Hc; exfalso; apply Hc; reflexivity.
  - intros [[x Hc]|Hc]; exfalso; apply Hc; reflexivity.
  - intros b Hc; exfalso; apply Hc; reflexivity.
Qed.

Ltac c02_unch H :=
  repeat match type of H with (if ?c then _ else _) = _ => destruct c end;
  inversion H; subst; apply c02_priv_unchanged; reflexivity.

Ltac c02_contra :=
  let Hc := fresh "Hc" in
  intros Hc; exfalso;
  lazymatch type of Hc with
  | (ex _) \/ _ => destruct Hc as [[? Hc]|Hc]; apply Hc; reflexivity
  | ex _ => destruct Hc as [? Hc]; apply Hc; reflexivity
  | _ => apply Hc; reflexivity
  end.

Ltac c02_priv_finish Hs :=
  unfold c02_priv_concl;
  refine (conj _ (conj _ (conj _ (conj _ (conj _ (conj _ _))))));
  first [ c02_contra
        | (let b0 := fresh "b" in let Hc := fresh "Hc" in
           intros b0 Hc; exfalso; apply Hc; reflexivity)
        | intros _; exact Hs ].

Ltac c02_holder Hm Hs :=
  cbn [mutable_checks] in Hm; apply check_ok in Hm; destruct Hm as [Hs _];
  apply N.eqb_eq in Hs.

Lemma c02_exec_priv s signer tx idx ca s' :
  execute_action s signer tx idx ca = Ok s' -> c02_priv_concl s s' signer.
Proof.
  destruct ca as [act cap]. unfold execute_action. intros H.
  apply bind_ok in H. destruct H as [[] [Hm H]]. cbv beta in H.
  destruct act.
  - apply bind_ok in H. destruct H as [s1 [Hd Hi]]. c02_shapes.
    apply c02_priv_unchanged; reflexivity.
  - destruct cap; try discriminate H.
    apply bind_ok in H. destruct H as [s1 [Hd H]].
    apply bind_ok in H. destruct H as [s2 [Hi H]]. c02_shapes. c02_unch H.
  - destruct cap; try discriminate H.
    apply bind_ok in H. destruct H as [s1 [Hd H]].
    apply bind_ok in H. destruct H as [s2 [Hi H]]. c02_shapes. c02_unch H.
  - destruct cap; try discriminate H.
    apply bind_ok in H. destruct H as [s1 [Hd H]].
    apply bind_ok in H. destruct H as [s2 [Hi H]]. c02_shapes. cbv zeta in H. c02_unch H.
  - (* AInitBridge *)
    cbn [mutable_checks] in Hm. apply check_ok in Hm. destruct Hm as [Hnb _].
    assert (Hnone : bridge s signer = None).
    { unfold is_bridge in Hnb. destruct (bridge s signer); [discriminate Hnb|reflexivity]. }
    inversion H; subst; clear H.
    unfold c02_priv_concl.
    refine (conj _ (conj _ (conj _ (conj _ (conj _ (conj _ _)))))); try c02_contra.
    intros b Hc. c02_proj_in Hc. unfold upd1 in Hc. revert Hc.
    destruct (N.eqb_spec b signer) as [->|Hne]; intros Hc.
    + right. split; [exact Hnone|reflexivity].
    + exfalso. apply Hc. reflexivity.
  - (* ABSudo *)
    cbn [mutable_checks] in Hm.
    destruct (bridge_sudo_of s b) as [sd|] eqn:Esd; [|discriminate Hm].
    apply check_ok in Hm. destruct Hm as [_ Hm].
    apply check_ok in Hm. destruct Hm as [Hs _]. apply N.eqb_eq in Hs. subst sd.
    destruct (bridge s b) as [br|] eqn:Eb; [|discriminate H].
    inversion H; subst; clear H.
    unfold c02_priv_concl.
    refine (conj _ (conj _ (conj _ (conj _ (conj _ (conj _ _)))))); try c02_contra.
    intros b0 Hc. c02_proj_in Hc. unfold upd1 in Hc. revert Hc.
    destruct (N.eqb_spec b0 b) as [->|Hne]; intros Hc.
    + left. exact Esd.
    + exfalso. apply Hc. reflexivity.
  - (* AIcs20 *)
    cbv zeta in H.
    destruct (channels _ c); [|discriminate H].
    apply bind_ok in H. destruct H as [s2 [Hd H]]. c02_shapes.
    destruct is_source; [destruct (checked_add _ _ _); [|discriminate H]|];
      inversion H; subst; destruct b as [b|]; try destruct memo;
      apply c02_priv_unchanged; reflexivity.
  - (* ARollup *) c02_unch H.
  - (* AFeeChange *)
    c02_holder Hm Hs. injection H as <-. c02_priv_finish Hs.
  - (* AFeeAsset *)
    c02_holder Hm Hs. destruct add; injection H as <-; c02_priv_finish Hs.
  - (* ASudoChange *)
    c02_holder Hm Hs. injection H as <-. c02_priv_finish Hs.
  - (* AIbcSudo *)
    c02_holder Hm Hs. injection H as <-. c02_priv_finish Hs.
  - (* ARelayer *)
    c02_holder Hm Hs. injection H as <-. c02_priv_finish Hs.
  - (* AValUpdate *)
    c02_holder Hm Hs. destruct (power =? 0); injection H as <-; c02_priv_finish Hs.
  - (* AIbcRelayFailing: never executes *) try destruct cap; congruence.
Qed.

Lemma privileged_write_needs_holder : stmt_privileged_write_needs_holder.
Proof.
  unfold stmt_privileged_write_needs_holder. intros s signer tx idx ca s' evs H.
  change (c02_priv_concl s s' signer).
  apply c02_pfe_inv in H. destruct H as [s1 [Hp H]].
  apply c02_pay_fee_shape in Hp. destruct Hp as [[f [l ->]] _].
  destruct H as [[r [l0 [fa [_ ->]]]]|[_ He]].
  - apply c02_priv_unchanged; reflexivity.
  - apply c02_exec_priv in He. exact He.
Qed.

(** ------------------------------------------------------------------ bridge accounts as source *)

Lemma c02_mutable_bridge_source s signer a :
  is_bridge s signer = true ->
  (match a with
   | ATransfer _ _ _ _ | ALock _ _ _ _ _ _ _ _ | AIcs20 _ _ _ _ _ None _ => True
   | _ => False
   end) ->
  mutable_checks s signer a = Err EBridge.
Proof.
  intros Hb Ha. destruct a; try contradiction.
  - cbn [mutable_checks]. rewrite Hb. reflexivity.
  - cbn [mutable_checks]. unfold lock_mutable. rewrite Hb. reflexivity.
  - destruct b; [contradiction|]. cbn [mutable_checks]. rewrite Hb. destruct memo; reflexivity.
Qed.

Lemma bridge_source_rules : stmt_bridge_source_rules.
Proof.
  unfold stmt_bridge_source_rules. intros s signer tx idx a cap Hb Ha.
  pose proof (c02_mutable_bridge_source s signer a Hb Ha) as Hm.
  split.
  - unfold execute_action. rewrite Hm. cbn [bind]. eexists; reflexivity.
  - destruct a; try contradiction.
    + cbn [construct_action]. rewrite Hm. eexists; reflexivity.
    + cbn [construct_action].
      destruct (bridge s to) as [br|]; [|eexists; reflexivity].
      destruct (br_asset br =? a); [|eexists; reflexivity].
      destruct (negb a_is_ibc || known_assets s a); [|eexists; reflexivity].
      rewrite Hm. eexists; reflexivity.
    + destruct b; [contradiction|]. cbn [construct_action].
      destruct (0 <? amt); [|eexists; reflexivity].
      rewrite Hm. destruct memo; eexists; reflexivity.
Qed.

(** ------------------------------------------------------------------ non-vacuity *)

(** the withdrawer 3 unlocks from the bridge account 6: a debit of an account other than the
    signer, authorised by [withdrawer_of]. *)
Example debit_needs_authority_nonvacuous :
  match pay_fees_and_execute sample_state 3 102 0 (AUnlock 5 70 0 6 0 12 9 2, CapUnlock 0) with
  | Ok (s', _) => (bal s' 6 0 <? bal sample_state 6 0) && (bal s' 3 0 <? bal sample_state 3 0)
  | Err _ => false
  end = true /\ withdrawer_of sample_state 6 = Some 3.
Proof. vm_compute. split; reflexivity. Qed.

Example tx_debit_needs_authority_nonvacuous :
  build_group (map fst (ct_actions (checked sample_state sample_tx2))) = Some 4 /\
  match exec_tx sample_state (checked sample_state sample_tx2) with
  | (s', OutOk _) => bal s' 6 0 <? bal sample_state 6 0
  | _ => false
  end = true /\
  withdrawer_of sample_state 6 = Some (ct_signer (checked sample_state sample_tx2)).
Proof. vm_compute. repeat split; reflexivity. Qed.

(** the block of [sample_ops] up to (excluding) its end: ending it credits the sudo account 0 *)
Example blocks_never_debit_nonvacuous :
  let s := fst (run sample_state (firstn 5 sample_ops)) in
  match end_block s with
  | Ok (s', _) => (bal s 0 0 <? bal s' 0 0) && (bal s' 4 0 =? bal s 4 0)
  | Err _ => false
  end = true.
Proof. vm_compute. reflexivity. Qed.

(** the sudo address changes a fee; the bridge sudo 2 changes the withdrawer of bridge 6 *)
Example privileged_write_needs_holder_nonvacuous :
  match pay_fees_and_execute sample_state 0 105 0 (AFeeChange KTransfer 7 0, CapNone) with
  | Ok (s', _) => fees s' KTransfer
  | Err _ => None
  end = Some (7, 0) /\ fees sample_state KTransfer = Some (12, 0) /\ sudo sample_state = 0 /\
  match pay_fees_and_execute sample_state 2 106 0 (ABSudo 6 None (Some 7) 0 true, CapNone) with
  | Ok (s', _) => withdrawer_of s' 6
  | Err _ => None
  end = Some 7 /\ withdrawer_of sample_state 6 = Some 3 /\ bridge_sudo_of sample_state 6 = Some 2.
Proof. vm_compute. repeat split; reflexivity. Qed.

Example privileged_untouched_elsewhere_nonvacuous :
  (exists s' evs, pay_fee sample_state 4 KTransfer (Some 0) 0 0 = Ok (s', evs) /\
                  bal s' 4 0 = 999988) /\
  (exists e, snd (exec_tx sample_state (checked sample_state sample_tx_fail)) = OutErr e) /\
  (exists ds, match end_block (fst (run sample_state (firstn 5 sample_ops))) with
              | Ok (_, d) => d | Err _ => [] end = ds /\ ds <> []) /\
  br_lasttx sample_bridge = None /\
  match bridge (put_lasttx sample_state 6 7) 6 with Some br => br_lasttx br | None => None end
  = Some 7.
Proof.
  split; [|split; [|split; [|split]]].
  - vm_compute. eexists; eexists; split; reflexivity.
  - vm_compute. eexists; reflexivity.
  - vm_compute. eexists; split; [reflexivity|discriminate].
  - reflexivity.
  - vm_compute. reflexivity.
Qed.

(** the bridge account 6 as source *)
Example bridge_source_rules_nonvacuous :
  is_bridge sample_state 6 = true /\
  execute_action sample_state 6 1 0 (ATransfer 5 10 0 0, CapNone) = Err EBridge /\
  construct_action sample_state 6 (ATransfer 5 10 0 0) = Err EBridge /\
  construct_action sample_state 6 (ALock 6 10 0 false 4 0 7 10) = Err EBridge /\
  construct_action sample_state 6 (AIcs20 30 0 false 0 0 None MemoBad) = Err EBridge /\
  (exists ca, construct_action sample_state 4 (ATransfer 5 10 0 0) = Ok ca).
Proof. vm_compute. repeat split; try reflexivity. eexists; reflexivity. Qed.

