(** Statements of the ledger properties C01..C04 over [LedgerModel].  Proofs: LedgerProofs*.v;
    pinned copies: Properties/C01.v .. C04.v. *)
From Astria Require Import Base.Bounded Ledger.LedgerModel.

(** ------------------------------------------------------------------ vocabulary *)

Definition sum_over (L : list N) (f : N -> N) : N := sumN (map f L).

(** Total of one asset over the accounts [L], the channels [C] and the fees of the open block. *)
Definition supply (L : list addr) (C : list chan) (s : state) (a : asset) : N :=
  sum_over L (fun x => bal s x a) + sum_over C (fun c => escrow s c a)
  + bf_total (block_fees s) a.

(** The same without the block fees (what a dump between blocks shows). *)
Definition supply0 (L : list addr) (C : list chan) (s : state) (a : asset) : N :=
  sum_over L (fun x => bal s x a) + sum_over C (fun c => escrow s c a).

(** Accounts / channels an action can touch besides the signer. *)
Definition action_accounts (a : action) : list addr :=
  match a with
  | ATransfer to _ _ _ => [to]
  | ALock to _ _ _ _ _ _ _ => [to]
  | AUnlock to _ _ b _ _ _ _ => [to; b]
  | ABTransfer to _ _ _ _ b _ _ _ => [to; b]
  | AIcs20 _ _ _ _ _ (Some b) _ => [b]
  | ASudoChange to => [to]
  | _ => []
  end.

Definition action_channels (a : action) : list chan :=
  match a with
  | AIcs20 _ _ _ c _ _ _ => [c]
  | _ => []
  end.

(** Tokens destroyed by an outgoing ICS-20 transfer: the withdrawal of a denomination of which
    this chain is not the source. *)
Definition burned_action (a : action) (ast : asset) : N :=
  match a with
  | AIcs20 amt a' false _ _ _ _ => if a' =? ast then amt else 0
  | _ => 0
  end.

Definition burned_tx (c : checked_tx) (ast : asset) : N :=
  sumN (map (fun ca => burned_action (fst ca) ast) (ct_actions c)).

Definition tx_accounts (c : checked_tx) : list addr :=
  ct_signer c :: flat_map (fun ca => action_accounts (fst ca)) (ct_actions c).

Definition tx_channels (c : checked_tx) : list chan :=
  flat_map (fun ca => action_channels (fst ca)) (ct_actions c).

(** Burn of a block [OpBegin; OpExec c1; ...; OpExec cn; OpEnd]: the burns of the txs that
    executed. *)
Fixpoint burned_run (ops : list op) (outs : list step_out) (ast : asset) : N :=
  match ops, outs with
  | OpExec c :: ops', STx (OutOk _) :: outs' => burned_tx c ast + burned_run ops' outs' ast
  | _ :: ops', _ :: outs' => burned_run ops' outs' ast
  | _, _ => 0
  end.

Definition op_accounts (o : op) : list addr :=
  match o with OpExec c => tx_accounts c | _ => [] end.
Definition op_channels (o : op) : list chan :=
  match o with OpExec c => tx_channels c | _ => [] end.

Definition is_god_op (o : op) : bool :=
  match o with OpMint _ _ _ _ | OpAllowFee _ _ | OpEscrow _ _ _ _ | OpChan _ => true | _ => false end.

(** ------------------------------------------------------------------ C01 *)

(** One action (fee + execution) moves value between the listed accounts, the escrow and the
    block fees; only a non-source ICS-20 withdrawal destroys tokens. *)
Definition stmt_action_conserves : Prop :=
  forall s signer tx idx ca s' evs L C ast,
    NoDup L -> NoDup C -> In signer L ->
    incl (action_accounts (fst ca)) L -> incl (action_channels (fst ca)) C ->
    pay_fees_and_execute s signer tx idx ca = Ok (s', evs) ->
    supply L C s' ast + burned_action (fst ca) ast = supply L C s ast.

Definition stmt_tx_conserves : Prop :=
  forall s c s' evs L C ast,
    NoDup L -> NoDup C -> incl (tx_accounts c) L -> incl (tx_channels c) C ->
    exec_tx s c = (s', OutOk evs) ->
    supply L C s' ast + burned_tx c ast = supply L C s ast.

(** Ending a block moves the block fees to the fee recipient and nothing else. *)
Definition stmt_end_block_conserves : Prop :=
  forall s s' ds L C ast,
    NoDup L -> In (sudo s) L ->
    end_block s = Ok (s', ds) ->
    supply0 L C s' ast = supply L C s ast /\ block_fees s' = [].

(** A whole block: between two block boundaries the per-asset total of balances and escrow
    changes by exactly the burns of the transactions that executed. *)
Definition stmt_block_conserves : Prop :=
  forall s bbh h cs s' outs L C ast,
    NoDup L -> NoDup C -> In (sudo s) L ->
    (forall c, In c cs -> incl (tx_accounts c) L /\ incl (tx_channels c) C) ->
    run s (OpBegin bbh h :: map OpExec cs ++ [OpEnd]) = (s', outs) ->
    (exists ds, last outs SNone = SEnd (Some ds)) ->
    supply0 L C s' ast + burned_run (OpBegin bbh h :: map OpExec cs ++ [OpEnd]) outs ast
    = supply0 L C s ast.

(** The fee charged is exactly the configured base + multiplier * size at the moment the action
    executes (as long as that does not exceed u128), it is debited from the signer only and it
    is logged into the block fees. *)
Definition stmt_fee_exact : Prop :=
  forall s signer k a var pos s' evs,
    pay_fee s signer k (Some a) var pos = Ok (s', evs) ->
    exists base mult,
      fees s k = Some (base, mult) /\
      evs = [ {| fe_pos := pos; fe_kind := k; fe_asset := a;
                 fe_amount := fee_amount base mult var |} ] /\
      (base + mult * var <= U128_MAX -> fee_amount base mult var = base + mult * var) /\
      bal s' signer a + fee_amount base mult var = bal s signer a /\
      (forall x b, (x, b) <> (signer, a) -> bal s' x b = bal s x b) /\
      block_fees s' = (a, fee_amount base mult var) :: block_fees s.

Definition stmt_fee_free : Prop :=
  forall s signer k var pos s' evs,
    pay_fee s signer k None var pos = Ok (s', evs) -> s' = s /\ evs = [].

(** The saturation edge (F9): beyond u128 the charged fee is NOT base + multiplier * size. *)
Definition stmt_fee_saturates_refuted : Prop :=
  exists base mult var,
    base <= U128_MAX /\ mult <= U128_MAX /\ var <= U64_MAX /\
    fee_amount base mult var <> base + mult * var.

(** The fee log of the block grows by exactly the fee events of an executed transaction. *)
Definition stmt_fee_log_exact : Prop :=
  forall s c s' evs,
    exec_tx s c = (s', OutOk evs) ->
    block_fees s' = rev (map (fun e => (fe_asset e, fe_amount e)) evs) ++ block_fees s.

(** All logged fees go to the sudo address when the block ends. *)
Definition stmt_fees_routed : Prop :=
  forall s s' ds,
    end_block s = Ok (s', ds) ->
    forall a,
      bal s' (sudo s) a = bal s (sudo s) a + bf_total (block_fees s) a /\
      (forall x, x <> sudo s -> bal s' x a = bal s x a).

(** ------------------------------------------------------------------ C02 *)

(** A balance decreases only for the signer, or for a bridge account whose withdrawer (in the
    state in which the action executes) is the signer. *)
Definition stmt_debit_needs_authority : Prop :=
  forall s signer tx idx ca s' evs x a,
    pay_fees_and_execute s signer tx idx ca = Ok (s', evs) ->
    bal s' x a < bal s x a ->
    x = signer \/ withdrawer_of s x = Some signer.

(** Transaction level, for transactions that passed the group rules of the transaction builder:
    the withdrawer is the one in the state before the transaction. *)
Definition stmt_tx_debit_needs_authority : Prop :=
  forall s c s' evs x a,
    build_group (map fst (ct_actions c)) <> None ->
    exec_tx s c = (s', OutOk evs) ->
    bal s' x a < bal s x a ->
    x = ct_signer c \/ withdrawer_of s x = Some (ct_signer c).

(** Nothing but an executing transaction decreases a balance. *)
Definition stmt_blocks_never_debit : Prop :=
  forall s bbh h x a,
    bal (begin_block s bbh h) x a = bal s x a /\
    (forall s' ds, end_block s = Ok (s', ds) -> bal s x a <= bal s' x a).

Definition bridge_priv (o : option bridge_rec)
  : option (rollup * asset * option addr * option addr * option bool) :=
  match o with
  | Some br => Some (br_rollup br, br_asset br, br_sudo br, br_withdrawer br, br_disabled br)
  | None => None
  end.

(** Privileged state changes only when the signer holds the privilege in the state in which the
    action executes. *)
Definition stmt_privileged_write_needs_holder : Prop :=
  forall s signer tx idx ca s' evs,
    pay_fees_and_execute s signer tx idx ca = Ok (s', evs) ->
    (sudo s' <> sudo s -> sudo s = signer) /\
    (ibc_sudo s' <> ibc_sudo s -> sudo s = signer) /\
    ((exists x, relayer s' x <> relayer s x) -> ibc_sudo s = signer) /\
    ((exists k, fees s' k <> fees s k) -> sudo s = signer) /\
    (fee_assets s' <> fee_assets s -> sudo s = signer) /\
    (((exists k, validators s' k <> validators s k) \/ valcount s' <> valcount s) ->
     sudo s = signer) /\
    (forall b, bridge_priv (bridge s' b) <> bridge_priv (bridge s b) ->
               bridge_sudo_of s b = Some signer \/ (bridge s b = None /\ b = signer)).

(** The rest of a transaction (nonce, last-tx id, block boundaries) never writes them. *)
Definition priv_equal (s s' : state) : Prop :=
  sudo s' = sudo s /\ ibc_sudo s' = ibc_sudo s /\ (forall x, relayer s' x = relayer s x) /\
  (forall k, fees s' k = fees s k) /\ fee_assets s' = fee_assets s /\
  (forall k, validators s' k = validators s k) /\ valcount s' = valcount s /\
  (forall b, bridge_priv (bridge s' b) = bridge_priv (bridge s b)).

Definition stmt_privileged_untouched_elsewhere : Prop :=
  (forall s signer k fa var pos s' evs,
      pay_fee s signer k fa var pos = Ok (s', evs) -> priv_equal s s') /\
  (forall s x t, priv_equal s (put_lasttx s x t)) /\
  (forall s bbh h, priv_equal s (begin_block s bbh h)) /\
  (forall s s' ds, end_block s = Ok (s', ds) -> priv_equal s s') /\
  (forall s c s' e, exec_tx s c = (s', OutErr e) -> s' = s).

(** A bridge account cannot be the source of a plain Transfer, BridgeLock or Ics20Withdrawal
    without bridge address. *)
Definition stmt_bridge_source_rules : Prop :=
  forall s signer tx idx a cap,
    is_bridge s signer = true ->
    (match a with
     | ATransfer _ _ _ _ | ALock _ _ _ _ _ _ _ _ | AIcs20 _ _ _ _ _ None _ => True
     | _ => False
     end) ->
    (exists e, execute_action s signer tx idx (a, cap) = Err e) /\
    (exists e, construct_action s signer a = Err e).

(** ------------------------------------------------------------------ C03 *)

Definition stmt_exec_needs_nonce : Prop :=
  forall s c s' evs,
    exec_tx s c = (s', OutOk evs) -> nonce s (ct_signer c) = ct_nonce c.

Definition stmt_exec_bumps_nonce_by_one : Prop :=
  forall s c s' evs,
    exec_tx s c = (s', OutOk evs) ->
    nonce s' (ct_signer c) = nonce s (ct_signer c) + 1 /\
    nonce s' (ct_signer c) <= U32_MAX /\
    (forall x, x <> ct_signer c -> nonce s' x = nonce s x).

(** Every failure, fatal ([e] a plain class) or non-fatal ([e = ENonFatal _]). *)
Definition stmt_failed_tx_is_identity : Prop :=
  forall s c s' e,
    exec_tx s c = (s', OutErr e) -> s' = s.

(** The non-fatal failure spelled out: a transaction that stays in the block with an error
    result leaves no trace either; it exists only once Blackburn is active and only for a
    transaction containing a (failing) IbcRelay action. *)
Definition stmt_nonfatal_failure_is_identity : Prop :=
  forall s c s' e,
    exec_tx s c = (s', OutErr (ENonFatal e)) ->
    s' = s /\ blackburn s = true /\
    exists k cap, In (AIbcRelayFailing k, cap) (ct_actions c).

(** In any history of the working state, two executions with the same signer and nonce cannot
    both succeed (in particular no transaction takes effect twice). *)
Definition stmt_no_replay : Prop :=
  forall s ops s' outs i j c1 c2 e1 e2,
    run s ops = (s', outs) ->
    (i < j)%nat ->
    nth_error ops i = Some (OpExec c1) -> nth_error ops j = Some (OpExec c2) ->
    ct_signer c1 = ct_signer c2 -> ct_nonce c1 = ct_nonce c2 ->
    nth_error outs i = Some (STx (OutOk e1)) -> nth_error outs j = Some (STx (OutOk e2)) ->
    False.

(** Nonces never decrease. *)
Definition stmt_nonce_monotone : Prop :=
  forall s ops s' outs x,
    run s ops = (s', outs) -> nonce s x <= nonce s' x.

(** ------------------------------------------------------------------ C04 *)

(** A constructed lock / bridge transfer names an existing bridge account, its rollup and its
    asset. *)
Definition stmt_constructed_deposit_targets_bridge : Prop :=
  forall s signer a ca,
    construct_action s signer a = Ok ca ->
    match ca with
    | (ALock to _ ast _ _ _ _ _, cap) =>
      exists br, bridge s to = Some br /\ cap = CapLock (br_rollup br) /\ br_asset br = ast
    | (ABTransfer to _ _ _ _ b _ _ _, cap) =>
      exists br brt, bridge s b = Some br /\ bridge s to = Some brt /\
                     cap = CapBTransfer (br_asset br) (br_rollup brt) /\
                     br_asset brt = br_asset br
    | _ => True
    end.

(** Rollup id and asset of a bridge account never change and a bridge account never disappears. *)
Definition stmt_bridge_identity_stable : Prop :=
  forall s o b br,
    bridge s b = Some br ->
    exists br', bridge (fst (step s o)) b = Some br' /\
                br_rollup br' = br_rollup br /\ br_asset br' = br_asset br.

(** Every deposit cached by an action is accompanied, in that action, by an equal credit of the
    named bridge account (for a bridge transfer from an account to itself the credit is offset
    by the equal debit of the withdrawal being paid). *)
Definition stmt_deposit_backed : Prop :=
  forall s signer tx idx ca s',
    execute_action s signer tx idx ca = Ok s' ->
    exists new, deposits s' = deposits s ++ new /\
    match fst ca with
    | ALock to amt ast _ _ _ _ _ =>
      exists d, new = [d] /\ d_bridge d = to /\ d_amount d = amt /\ d_asset d = ast /\
                d_tx d = tx /\ d_idx d = idx /\
                (is_bridge s to = true -> bal s' to ast = bal s to ast + amt)
    | ABTransfer to amt _ _ _ b _ _ _ =>
      exists d, new = [d] /\ d_bridge d = to /\ d_amount d = amt /\
                d_tx d = tx /\ d_idx d = idx /\
                (b <> to -> bal s' to (d_asset d) = bal s to (d_asset d) + amt /\
                            bal s' b (d_asset d) + amt = bal s b (d_asset d)) /\
                (b = to -> bal s' to (d_asset d) = bal s to (d_asset d) /\
                           amt <= bal s to (d_asset d))
    | _ => new = []
    end.

(** Deposits are cached only by transactions that take effect, and carry their id. *)
Definition stmt_no_deposit_without_effect : Prop :=
  (forall s c s' e, exec_tx s c = (s', OutErr e) -> deposits s' = deposits s) /\
  (forall s c s' evs, exec_tx s c = (s', OutOk evs) ->
      exists new, deposits s' = deposits s ++ new /\ forall d, In d new -> d_tx d = ct_id c) /\
  (forall s signer k fa var pos s' evs,
      pay_fee s signer k fa var pos = Ok (s', evs) -> deposits s' = deposits s) /\
  (forall s s' ds, end_block s = Ok (s', ds) -> ds = deposits s /\ deposits s' = []).

(** Withdrawal event ids. *)
Definition carries (a : action) (b : addr) (e : evid) : bool :=
  match a with
  | AUnlock _ _ _ b' _ _ e' _ => (b' =? b) && (e' =? e)
  | ABTransfer _ _ _ _ _ b' _ e' _ => (b' =? b) && (e' =? e)
  | AIcs20 _ _ _ _ _ (Some b') (MemoRollup _ e' _ _) => (b' =? b) && (e' =? e)
  | _ => false
  end.

Definition carried_tx (c : checked_tx) (b : addr) (e : evid) : nat :=
  length (filter (fun ca => carries (fst ca) b e) (ct_actions c)).

Fixpoint carried_run (ops : list op) (outs : list step_out) (b : addr) (e : evid) : nat :=
  match ops, outs with
  | OpExec c :: ops', STx (OutOk _) :: outs' => (carried_tx c b e + carried_run ops' outs' b e)%nat
  | _ :: ops', _ :: outs' => carried_run ops' outs' b e
  | _, _ => 0%nat
  end.

(** An action carrying (bridge, event id) executes only if the id is unused, and marks it used. *)
Definition stmt_event_id_checked_and_recorded : Prop :=
  forall s signer tx idx ca s' b e,
    execute_action s signer tx idx ca = Ok s' ->
    carries (fst ca) b e = true ->
    wevent s b e = None /\ wevent s' b e <> None.

(** Over any history, actions of executed transactions carrying a given (bridge, event id) -
    whichever of unlock, bridge transfer or ICS-20 withdrawal - number at most one, and none if
    the id was already recorded. *)
Definition stmt_event_id_once : Prop :=
  forall s ops s' outs b e,
    run s ops = (s', outs) ->
    (carried_run ops outs b e <= 1)%nat /\
    (wevent s b e <> None -> carried_run ops outs b e = 0%nat) /\
    (wevent s b e <> None -> wevent s' b e <> None).
