(** C17 -- the statements (as [Prop] definitions) proved in DecodeProofs.v and pinned in
    Properties/C17.v.  All are universally quantified over the byte string type, the hash
    functions and the codec / crypto primitives of DecodeModel.v. *)
From Astria Require Export Decode.DecodeModel.

Section Spec.
  Variable B : Type.
  Variable blen : B -> N.
  Variable beq : B -> B -> bool.
  Variable cat : B -> B -> B.
  Variable sha leafH : B -> B.
  Variable nodeH : B -> B -> B.
  Variable emptyH : B.
  Variable cid_ok : B -> bool.
  Variable eci_parse : B -> eci_res.
  Variable vk_ok : B -> bool.
  Variable sig_ok : B -> B -> B -> bool.
  Variable body_url : B.
  Variable body_parse : B -> body_res.

  Local Notation tx_from_raw := (tx_from_raw B blen beq vk_ok sig_ok body_url body_parse).
  Local Notation seq_block_from_raw :=
    (seq_block_from_raw B blen beq cat sha leafH nodeH emptyH cid_ok eci_parse).
  Local Notation filtered_from_raw :=
    (filtered_from_raw B blen beq cat sha leafH nodeH emptyH cid_ok eci_parse).
  Local Notation meta_from_raw := (meta_from_raw B blen beq sha leafH nodeH emptyH cid_ok eci_parse).
  Local Notation rollup_data_from_raw := (rollup_data_from_raw B blen).
  Local Notation meta_list_from_raw :=
    (meta_list_from_raw B blen beq sha leafH nodeH emptyH cid_ok eci_parse).
  Local Notation rollup_data_list_from_raw := (rollup_data_list_from_raw B blen).
  Local Notation tx_checks := (tx_checks B blen vk_ok sig_ok body_parse).
  Local Notation seq_block_checks :=
    (seq_block_checks B blen beq cat sha leafH nodeH emptyH cid_ok eci_parse).
  Local Notation filtered_checks :=
    (filtered_checks B blen beq cat sha leafH nodeH emptyH cid_ok eci_parse).
  Local Notation meta_checks := (meta_checks B blen beq sha leafH nodeH emptyH cid_ok eci_parse).
  Local Notation rollup_data_checks := (rollup_data_checks B blen).

  Definition BeqSpec : Prop := forall a b : B, beq a b = true <-> a = b.

  (** no raw struct makes a decoder panic *)
  Definition stmt_decode_total : Prop :=
    (forall r, tx_from_raw r <> RPanic) /\
    (forall r, seq_block_from_raw r <> RPanic) /\
    (forall r, filtered_from_raw r <> RPanic) /\
    (forall r, meta_from_raw r <> RPanic) /\
    (forall r, rollup_data_from_raw r <> RPanic) /\
    (forall l, meta_list_from_raw l <> RPanic) /\
    (forall l, rollup_data_list_from_raw l <> RPanic).

  (** an accepted value satisfies the checks of its type: signature valid, proofs verify
      against the header (block level proofs against the data hash, every per-rollup proof of a
      full or filtered block against the rollup transactions root) *)
  Definition stmt_accepted_consistent : Prop :=
    (forall r v, tx_from_raw r = ROk v -> tx_checks v = true) /\
    (forall r v, seq_block_from_raw r = ROk v -> seq_block_checks v = true) /\
    (forall r v, filtered_from_raw r = ROk v -> filtered_checks v = true) /\
    (forall r v, meta_from_raw r = ROk v -> meta_checks v = true) /\
    (forall r v, rollup_data_from_raw r = ROk v -> rollup_data_checks v = true) /\
    (forall l vs, meta_list_from_raw l = ROk vs -> forallb meta_checks vs = true) /\
    (forall l vs, rollup_data_list_from_raw l = ROk vs -> forallb rollup_data_checks vs = true).

  (** an accepted value re-encodes to a raw struct that decodes to the same value *)
  Definition stmt_reencode : Prop :=
    BeqSpec ->
    (forall r v, tx_from_raw r = ROk v -> tx_from_raw (tx_to_raw B body_url v) = ROk v) /\
    (forall r v, seq_block_from_raw r = ROk v ->
                 seq_block_from_raw (seq_block_to_raw B v) = ROk v) /\
    (forall r v, filtered_from_raw r = ROk v ->
                 filtered_from_raw (filtered_to_raw B v) = ROk v) /\
    (forall r v, meta_from_raw r = ROk v -> meta_from_raw (meta_to_raw B v) = ROk v) /\
    (forall r v, rollup_data_from_raw r = ROk v ->
                 rollup_data_from_raw (rollup_data_to_raw B v) = ROk v) /\
    (forall l vs, meta_list_from_raw l = ROk vs ->
                  meta_list_from_raw (map (meta_to_raw B) vs) = ROk vs) /\
    (forall l vs, rollup_data_list_from_raw l = ROk vs ->
                  rollup_data_list_from_raw (map (rollup_data_to_raw B) vs) = ROk vs).

  (** [SequencerBlock::try_from_raw] as it was BEFORE the repair of finding F11: identical to
      [seq_block_from_raw] except that the per-rollup inclusion proofs are parsed but not audited.
      Kept only to record what was wrong; it is not the model of the current code. *)
  Definition seq_block_from_raw_before_F11_fix (r : RawSeqBlock B) : res (SeqBlock B) :=
    let? _ := require (blen (rs_bh B r) =? 32) [TInvalidBlockHash] in
    let? rtp := field_proof B Trollup_transactions_proof TTransactionProofInvalid (rs_rtp B r) in
    let? rip := field_proof B Trollup_ids_proof TIdProofInvalid (rs_rip B r) in
    match rs_hdr B r with
    | None => RErr [TFieldNotSet; Theader]
    | Some rh =>
        let? h := wrap [THeader] (header_from_raw B blen cid_ok rh) in
        let? rts := wrap [TParseRollupTransactions] (rmap (rollup_txs_from_raw B blen) (rs_rts B r)) in
        let m := rollup_txs_collect B beq rts in
        let dh := h_dh B h in
        let? _ := check_verify B beq nodeH rtp (leafH (sha (h_rtr B h))) dh
                    [TInvalidRollupTransactionsRoot] in
        let? _ := check_verify B beq nodeH rtp
                    (leafH (sha (rollup_txs_root B cat leafH nodeH emptyH m))) dh
                    [TRollupTransactionsNotInSequencerBlock] in
        let? _ := check_verify B beq nodeH rip (leafH (sha (ids_root B leafH nodeH emptyH (map fst m)))) dh
                    [TInvalidRollupIdsProof] in
        let? uch := uch_from_raw B blen (rs_uch B r) in
        let? eci := opt_eci_from_raw B beq sha leafH nodeH eci_parse dh (rs_eci B r) in
        ROk {| s_bh := rs_bh B r; s_hdr := h; s_rts := m; s_rtp := rtp; s_rip := rip;
               s_uch := uch; s_eci := eci |}
    end.

  (** the per-rollup statement for the pre-fix decoder (false, see
      [seq_block_before_F11_fix_refuted]); for the current decoder it is part of
      [seq_block_checks] *)
  Definition stmt_seq_block_rollup_proofs_before_F11_fix : Prop :=
    forall r v, seq_block_from_raw_before_F11_fix r = ROk v ->
      rollup_proofs_verify B beq cat leafH nodeH emptyH (h_rtr B (s_hdr B v)) (s_rts B v) = true.
End Spec.

(** lifting through an abstract wire codec with a round-trip law (prost, optionally brotli) *)
Definition stmt_wire_lift : Prop :=
  forall (W Raw V : Type) (wdec : W -> option Raw) (wenc : Raw -> W)
         (decompress : W -> option W) (compress : W -> W)
         (from_raw : Raw -> res V) (to_raw : V -> Raw) (checks : V -> bool),
    (forall r, wdec (wenc r) = Some r) ->
    (forall w, decompress (compress w) = Some w) ->
    (forall r, from_raw r <> RPanic) ->
    (forall r v, from_raw r = ROk v -> checks v = true) ->
    (forall r v, from_raw r = ROk v -> from_raw (to_raw v) = ROk v) ->
    forall w,
      wire_decode W Raw V wdec from_raw w <> RPanic /\
      blob_decode W Raw V wdec decompress from_raw w <> RPanic /\
      (forall v, wire_decode W Raw V wdec from_raw w = ROk v ->
                 checks v = true /\
                 wire_decode W Raw V wdec from_raw (wenc (to_raw v)) = ROk v) /\
      (forall v, blob_decode W Raw V wdec decompress from_raw w = ROk v ->
                 checks v = true /\
                 blob_decode W Raw V wdec decompress from_raw (compress (wenc (to_raw v))) = ROk v).
