(** C17 -- model of the repository's own validation layer over already-parsed raw protobuf
    structs (crates/astria-core): [merkle::Proof::try_from_raw], [SequencerBlockHeader::try_from_raw],
    [RollupTransactions::try_from_raw], [ExtendedCommitInfoWithProof::try_from_raw],
    [SequencerBlock::try_from_raw], [FilteredSequencerBlock::try_from_raw],
    [SubmittedMetadata::try_from_raw] (= [UncheckedSubmittedMetadata::try_from_raw] then
    [try_from_unchecked]), [SubmittedRollupData::try_from_raw], [Transaction::try_from_raw], the
    conductor's all-or-nothing list conversion, and the matching [into_raw] encoders.

    Byte strings are an abstract type [B]; the hash functions, the third-party checks
    (chain id charset) and the codec / crypto primitives (ed25519 key parsing and signature
    verification, prost decoding of the transaction body and of the extended commit info) are
    parameters.  Outcomes: [ROk v], [RErr class] (the chain of error kind variants the Rust
    error carries) and [RPanic].  The checks are written in the order the Rust code performs
    them.  [Tree::from_leaves(..).root()] is modelled by the RFC 6962 tree hash [mth] (C08).
    Proof-free: this file is what gets extracted and run against the code. *)
From Astria Require Export Merkle.MerkleModel.
From Coq Require Export ZArith.

Inductive tag :=
(* transaction *)
| TUnsetBody | TSignature | TVerificationKey | TVerification | TTransactionBody
| TAction | TUnsetParams | TInvalidTypeUrl | TDecodeAny | TGroup
(* merkle proof *)
| TInvalidProof | TZeroTreeSize | TLeafIndexOutsideTree | TAuditPathNotMultipleOf32
(* header *)
| TInvalidChainId | TInvalidHeight | TTime | TIncorrectRollupTransactionsRootLength | TProposerAddress
(* shared *)
| TFieldNotSet | Ttime | Theader | Trollup_id | Tproof | Trollup_transactions_proof | Trollup_ids_proof
| TIncorrectRollupIdLength | TUpgradeChangeHashes | TExtendedCommitInfo | TProofNotSet
| TNotInSequencerBlock | TDecode | TInvalidExtendedCommitInfo
(* rollup transactions *)
| TRollupId | TProofInvalid
(* sequencer block, filtered block *)
| TInvalidBlockHash | THeader | TInvalidHeader | TInvalidRollupId | TParseRollupTransactions
| TTransactionProofInvalid | TIdProofInvalid | TInvalidRollupTransactionsRoot
| TRollupTransactionsNotInSequencerBlock | TRollupTransactionForIdNotInSequencerBlock
| TInvalidRollupIdsProof
(* celestia *)
| TBlockHash | TRollupIds | TRollupTransactionsProof | TRollupIdsProof
| TRollupTransactionsNotInCometBftBlock | TRollupIdsNotInCometBftBlock | TProof | TSequencerBlockHash
(* position in a list, wire layer *)
| TIdx (n : N) | TWire | TBrotli.

Inductive res (A : Type) :=
| ROk (a : A)
| RErr (e : list tag)
| RPanic.
Arguments ROk {A}.
Arguments RErr {A}.
Arguments RPanic {A}.

Definition rbind {A C} (x : res A) (f : A -> res C) : res C :=
  match x with ROk a => f a | RErr e => RErr e | RPanic => RPanic end.
Notation "'let?' x := a 'in' b" := (rbind a (fun x => b))
  (at level 200, x name, a at level 100, b at level 200).

(** prefix the error class with the variant of the enclosing error kind *)
Definition wrap {A} (t : list tag) (x : res A) : res A :=
  match x with RErr e => RErr (t ++ e) | y => y end.

(** [if !cond { return Err(e) }] *)
Definition require (b : bool) (e : list tag) : res unit :=
  if b then ROk tt else RErr e.

(** [.into_iter().map(f).collect::<Result<Vec<_>, _>>()]: first failing element wins *)
Fixpoint rmap {A C} (f : A -> res C) (l : list A) : res (list C) :=
  match l with
  | [] => ROk []
  | x :: r => let? y := f x in let? ys := rmap f r in ROk (y :: ys)
  end.

(** the same with the position of the failing element in the class (conductor lists) *)
Fixpoint rmap_idx {A C} (f : A -> res C) (i : N) (l : list A) : res (list C) :=
  match l with
  | [] => ROk []
  | x :: r => let? y := wrap [TIdx i] (f x) in let? ys := rmap_idx f (i + 1) r in ROk (y :: ys)
  end.

Definition I64_MAX : N := 9223372036854775807.

(** outcome of prost-decoding + converting the extended commit info bytes *)
Inductive eci_res := EciOk | EciDecode | EciInvalid.
(** outcome of prost-decoding + converting the transaction body bytes *)
Inductive body_res := BodyOk | BodyErr (t : tag).

Section Decode.
  Variable B : Type.
  Variable blen : B -> N.
  Variable beq : B -> B -> bool.
  Variable cat : B -> B -> B.
  Variable sha : B -> B.            (* Sha256::digest *)
  Variable leafH : B -> B.          (* sha256(0x00 || x) *)
  Variable nodeH : B -> B -> B.     (* sha256(0x01 || l || r) *)
  Variable emptyH : B.              (* sha256("") *)
  Variable cid_ok : B -> bool.      (* tendermint::chain::Id::try_from *)
  Variable eci_parse : B -> eci_res.
  Variable vk_ok : B -> bool.       (* the 32 bytes are a valid ed25519 verification key *)
  Variable sig_ok : B -> B -> B -> bool.   (* key, signature, message *)
  Variable body_url : B.            (* TransactionBody::type_url() *)
  Variable body_parse : B -> body_res.

  Definition Proof := proof B.
  Definition pverify (p : Proof) (leaf_hash root : B) : option bool :=
    verify B nodeH beq p leaf_hash root.
  Definition tree_root (leaf_hashes : list B) : B := mth B nodeH emptyH leaf_hashes.

  (** * raw (wire level) structs, as prost hands them over *)
  Record RawProof := { rp_path : list B; rp_extra : N; rp_idx : N; rp_size : N }.
  Record RawHeader := { rh_cid : B; rh_height : N; rh_time : option (Z * Z);
                        rh_rtr : B; rh_dh : B; rh_pa : B }.
  Record RawRollupTxs := { rr_id : option B; rr_txs : list B; rr_proof : option RawProof }.
  Record RawEci := { re_bytes : B; re_proof : option RawProof }.
  Record RawSeqBlock := { rs_bh : B; rs_hdr : option RawHeader; rs_rts : list RawRollupTxs;
                          rs_rtp : option RawProof; rs_rip : option RawProof;
                          rs_uch : list B; rs_eci : option RawEci }.
  Record RawFiltered := { rf_bh : B; rf_hdr : option RawHeader; rf_rts : list RawRollupTxs;
                          rf_rtp : option RawProof; rf_all : list B; rf_rip : option RawProof;
                          rf_uch : list B; rf_eci : option RawEci }.
  Record RawMeta := { rm_bh : B; rm_hdr : option RawHeader; rm_ids : list B;
                      rm_rtp : option RawProof; rm_rip : option RawProof;
                      rm_uch : list B; rm_eci : option RawEci }.
  Record RawRollupData := { rd_bh : B; rd_id : option B; rd_txs : list B;
                            rd_proof : option RawProof }.
  Record RawTx := { rt_sig : B; rt_pk : B; rt_body : option (B * B) }.

  (** * checked domain values *)
  Record Header := { h_cid : B; h_height : N; h_time : Z * Z; h_rtr : B; h_dh : B; h_pa : B }.
  Record RollupTxs := { r_id : B; r_txs : list B; r_proof : Proof }.
  Record Eci := { e_bytes : B; e_proof : Proof }.
  Record SeqBlock := { s_bh : B; s_hdr : Header; s_rts : list (B * RollupTxs);
                       s_rtp : Proof; s_rip : Proof; s_uch : list B; s_eci : option Eci }.
  Record Filtered := { f_bh : B; f_hdr : Header; f_rts : list (B * RollupTxs);
                       f_rtp : Proof; f_all : list B; f_rip : Proof; f_uch : list B;
                       f_eci : option Eci }.
  Record Meta := { m_bh : B; m_hdr : Header; m_ids : list B; m_rtp : Proof; m_rip : Proof;
                   m_uch : list B; m_eci : option Eci }.
  Record RollupData := { d_bh : B; d_id : B; d_txs : list B; d_proof : Proof }.
  Record Tx := { t_sig : B; t_vk : B; t_body : B }.

  (** * [IndexMap]: insertion order, a repeated key replaces the value in place *)
  Fixpoint imap_insert {V} (m : list (B * V)) (k : B) (v : V) : list (B * V) :=
    match m with
    | [] => [(k, v)]
    | (k', v') :: r => if beq k' k then (k', v) :: r else (k', v') :: imap_insert r k v
    end.
  Definition imap_collect {V} (l : list (B * V)) : list (B * V) :=
    fold_left (fun m kv => imap_insert m (fst kv) (snd kv)) l [].

  (** * decoders *)

  (** [merkle::Proof::try_from_raw]: the u64 -> usize conversions cannot fail on 64 bit *)
  Definition proof_from_raw (r : RawProof) : res Proof :=
    match try_into_proof B (rp_path r) (rp_extra r) (rp_idx r) (rp_size r) with
    | DOk p => ROk p
    | DZeroTreeSize => RErr [TInvalidProof; TZeroTreeSize]
    | DLeafIndexOutsideTree => RErr [TInvalidProof; TLeafIndexOutsideTree]
    | DNotMultipleOf32 => RErr [TInvalidProof; TAuditPathNotMultipleOf32]
    end.

  (** [proof.verify(leaf, root)] as used by the decoders: [leaf_hash] is the hash of the leaf *)
  Definition check_verify (p : Proof) (leaf_hash root : B) (e : list tag) : res unit :=
    match pverify p leaf_hash root with
    | None => RPanic
    | Some true => ROk tt
    | Some false => RErr e
    end.

  (** tendermint [Time::try_from(Timestamp)]: nanos in 0..=999_999_999, year in 1..=9999 *)
  Definition time_ok (t : Z * Z) : bool :=
    let '(s, n) := t in
    ((0 <=? n) && (n <=? 999999999) && (-62135596800 <=? s) && (s <=? 253402300799))%Z.

  Definition header_from_raw (r : RawHeader) : res Header :=
    let? _ := require (cid_ok (rh_cid r)) [TInvalidChainId] in
    let? _ := require (rh_height r <=? I64_MAX) [TInvalidHeight] in
    match rh_time r with
    | None => RErr [TFieldNotSet; Ttime]
    | Some t =>
        let? _ := require (time_ok t) [TTime] in
        let? _ := require (blen (rh_rtr r) =? 32) [TIncorrectRollupTransactionsRootLength] in
        let? _ := require (blen (rh_dh r) =? 32) [TIncorrectRollupTransactionsRootLength] in
        let? _ := require (blen (rh_pa r) =? 20) [TProposerAddress] in
        ROk {| h_cid := rh_cid r; h_height := rh_height r; h_time := t;
               h_rtr := rh_rtr r; h_dh := rh_dh r; h_pa := rh_pa r |}
    end.

  Definition rollup_txs_from_raw (r : RawRollupTxs) : res RollupTxs :=
    match rr_id r with
    | None => RErr [TFieldNotSet; Trollup_id]
    | Some id =>
        let? _ := require (blen id =? 32) [TRollupId; TIncorrectRollupIdLength] in
        match rr_proof r with
        | None => RErr [TFieldNotSet; Tproof]
        | Some rp =>
            let? p := wrap [TProofInvalid] (proof_from_raw rp) in
            ROk {| r_id := id; r_txs := rr_txs r; r_proof := p |}
        end
    end.

  (** [ExtendedCommitInfoWithProof::try_from_raw(raw, data_hash)] *)
  Definition eci_from_raw (dh : B) (r : RawEci) : res Eci :=
    match re_proof r with
    | None => RErr [TProofNotSet]
    | Some rp =>
        let? p := proof_from_raw rp in
        let? _ := check_verify p (leafH (sha (re_bytes r))) dh [TNotInSequencerBlock] in
        match eci_parse (re_bytes r) with
        | EciDecode => RErr [TDecode]
        | EciInvalid => RErr [TInvalidExtendedCommitInfo]
        | EciOk => ROk {| e_bytes := re_bytes r; e_proof := p |}
        end
    end.

  Definition opt_eci_from_raw (dh : B) (r : option RawEci) : res (option Eci) :=
    match r with
    | None => ROk None
    | Some e => let? v := wrap [TExtendedCommitInfo] (eci_from_raw dh e) in ROk (Some v)
    end.

  (** [ChangeHash::try_from] on every entry *)
  Definition uch_from_raw (l : list B) : res (list B) :=
    rmap (fun h => let? _ := require (blen h =? 32) [TUpgradeChangeHashes] in ROk h) l.

  Definition ids_from_raw (t : list tag) (l : list B) : res (list B) :=
    rmap (fun h => let? _ := require (blen h =? 32) (t ++ [TIncorrectRollupIdLength]) in ROk h) l.

  Definition field_proof (name : tag) (e : tag) (r : option RawProof) : res Proof :=
    match r with
    | None => RErr [TFieldNotSet; name]
    | Some rp => wrap [e] (proof_from_raw rp)
    end.

  (** leaf hash of one rollup in the rollup transactions tree
      ([derive_merkle_tree_from_rollup_txs], [do_rollup_transactions_match_root]) *)
  Definition rollup_leaf (id : B) (txs : list B) : B :=
    leafH (cat id (tree_root (map leafH txs))).
  Definition rollup_txs_root (m : list (B * RollupTxs)) : B :=
    tree_root (map (fun kv => rollup_leaf (fst kv) (r_txs (snd kv))) m).
  Definition ids_root (ids : list B) : B := tree_root (map leafH ids).

  Definition rollup_txs_collect (l : list RollupTxs) : list (B * RollupTxs) :=
    imap_collect (map (fun rt => (r_id rt, rt)) l).

  (** the loop over [rollup_transactions.values()] with [do_rollup_transactions_match_root];
      [e] is the error of the enclosing decoder *)
  Fixpoint check_rollup_proofs (e : list tag) (rtr : B) (m : list (B * RollupTxs)) : res unit :=
    match m with
    | [] => ROk tt
    | (_, rt) :: r =>
        let? _ := check_verify (r_proof rt) (rollup_leaf (r_id rt) (r_txs rt)) rtr e in
        check_rollup_proofs e rtr r
    end.

  (** [SequencerBlock::try_from_raw] (with the per-rollup proof audit added by the F11 fix) *)
  Definition seq_block_from_raw (r : RawSeqBlock) : res SeqBlock :=
    let? _ := require (blen (rs_bh r) =? 32) [TInvalidBlockHash] in
    let? rtp := field_proof Trollup_transactions_proof TTransactionProofInvalid (rs_rtp r) in
    let? rip := field_proof Trollup_ids_proof TIdProofInvalid (rs_rip r) in
    match rs_hdr r with
    | None => RErr [TFieldNotSet; Theader]
    | Some rh =>
        let? h := wrap [THeader] (header_from_raw rh) in
        let? rts := wrap [TParseRollupTransactions] (rmap rollup_txs_from_raw (rs_rts r)) in
        let m := rollup_txs_collect rts in
        let dh := h_dh h in
        let? _ := check_verify rtp (leafH (sha (h_rtr h))) dh [TInvalidRollupTransactionsRoot] in
        let? _ := check_verify rtp (leafH (sha (rollup_txs_root m))) dh
                    [TRollupTransactionsNotInSequencerBlock] in
        let? _ := check_verify rip (leafH (sha (ids_root (map fst m)))) dh [TInvalidRollupIdsProof] in
        let? _ := check_rollup_proofs [TRollupTransactionsNotInSequencerBlock] (h_rtr h) m in
        let? uch := uch_from_raw (rs_uch r) in
        let? eci := opt_eci_from_raw dh (rs_eci r) in
        ROk {| s_bh := rs_bh r; s_hdr := h; s_rts := m; s_rtp := rtp; s_rip := rip;
               s_uch := uch; s_eci := eci |}
    end.

  (** [FilteredSequencerBlock::try_from_raw] *)
  Definition filtered_from_raw (r : RawFiltered) : res Filtered :=
    let? _ := require (blen (rf_bh r) =? 32) [TInvalidBlockHash] in
    let? rtp := field_proof Trollup_transactions_proof TTransactionProofInvalid (rf_rtp r) in
    let? rip := field_proof Trollup_ids_proof TIdProofInvalid (rf_rip r) in
    match rf_hdr r with
    | None => RErr [TFieldNotSet; Theader]
    | Some rh =>
        let? h := wrap [TInvalidHeader] (header_from_raw rh) in
        let? rts := wrap [TParseRollupTransactions] (rmap rollup_txs_from_raw (rf_rts r)) in
        let m := rollup_txs_collect rts in
        let? all := ids_from_raw [TInvalidRollupId] (rf_all r) in
        let dh := h_dh h in
        let? _ := check_verify rtp (leafH (sha (h_rtr h))) dh
                    [TRollupTransactionsNotInSequencerBlock] in
        let? _ := check_rollup_proofs [TRollupTransactionForIdNotInSequencerBlock] (h_rtr h) m in
        let? _ := check_verify rip (leafH (sha (ids_root all))) dh [TInvalidRollupIdsProof] in
        let? uch := uch_from_raw (rf_uch r) in
        let? eci := opt_eci_from_raw dh (rf_eci r) in
        ROk {| f_bh := rf_bh r; f_hdr := h; f_rts := m; f_rtp := rtp; f_all := all;
               f_rip := rip; f_uch := uch; f_eci := eci |}
    end.

  (** [SubmittedMetadata::try_from_raw] = [UncheckedSubmittedMetadata::try_from_raw] followed by
      [SubmittedMetadata::try_from_unchecked] *)
  Definition meta_from_raw (r : RawMeta) : res Meta :=
    match rm_hdr r with
    | None => RErr [TFieldNotSet; Theader]
    | Some rh =>
        let? h := wrap [THeader] (header_from_raw rh) in
        let? ids := ids_from_raw [TRollupIds] (rm_ids r) in
        let? rtp := field_proof Trollup_transactions_proof TRollupTransactionsProof (rm_rtp r) in
        let? rip := field_proof Trollup_ids_proof TRollupIdsProof (rm_rip r) in
        let? _ := require (blen (rm_bh r) =? 32) [TBlockHash] in
        let dh := h_dh h in
        let? uch := uch_from_raw (rm_uch r) in
        let? eci := opt_eci_from_raw dh (rm_eci r) in
        let? _ := check_verify rtp (leafH (sha (h_rtr h))) dh
                    [TRollupTransactionsNotInCometBftBlock] in
        let? _ := check_verify rip (leafH (sha (ids_root ids))) dh [TRollupIdsNotInCometBftBlock] in
        ROk {| m_bh := rm_bh r; m_hdr := h; m_ids := ids; m_rtp := rtp; m_rip := rip;
               m_uch := uch; m_eci := eci |}
    end.

  (** [SubmittedRollupData::try_from_raw] *)
  Definition rollup_data_from_raw (r : RawRollupData) : res RollupData :=
    match rd_id r with
    | None => RErr [TFieldNotSet; Trollup_id]
    | Some id =>
        let? _ := require (blen id =? 32) [TRollupId; TIncorrectRollupIdLength] in
        let? _ := require (blen (rd_bh r) =? 32) [TSequencerBlockHash] in
        match rd_proof r with
        | None => RErr [TFieldNotSet; Tproof]
        | Some rp =>
            let? p := wrap [TProof] (proof_from_raw rp) in
            ROk {| d_bh := rd_bh r; d_id := id; d_txs := rd_txs r; d_proof := p |}
        end
    end.

  (** [Transaction::try_from_raw] *)
  Definition tx_from_raw (r : RawTx) : res Tx :=
    let? _ := require (blen (rt_sig r) =? 64) [TSignature] in
    let? _ := require ((blen (rt_pk r) =? 32) && vk_ok (rt_pk r)) [TVerificationKey] in
    match rt_body r with
    | None => RErr [TUnsetBody]
    | Some (url, value) =>
        let? _ := require (sig_ok (rt_pk r) (rt_sig r) value) [TVerification] in
        let? _ := require (beq url body_url) [TTransactionBody; TInvalidTypeUrl] in
        match body_parse value with
        | BodyErr t => RErr [TTransactionBody; t]
        | BodyOk => ROk {| t_sig := rt_sig r; t_vk := rt_pk r; t_body := value |}
        end
    end.

  (** conductor [extend_from_*_list_if_well_formed]: one malformed entry drops the whole list *)
  Definition meta_list_from_raw (l : list RawMeta) : res (list Meta) := rmap_idx meta_from_raw 0 l.
  Definition rollup_data_list_from_raw (l : list RawRollupData) : res (list RollupData) :=
    rmap_idx rollup_data_from_raw 0 l.

  (** * encoders ([into_raw]) *)
  Definition proof_to_raw (p : Proof) : RawProof :=
    {| rp_path := audit_path p; rp_extra := 0; rp_idx := leaf_index p; rp_size := tree_size p |}.
  Definition header_to_raw (h : Header) : RawHeader :=
    {| rh_cid := h_cid h; rh_height := h_height h; rh_time := Some (h_time h);
       rh_rtr := h_rtr h; rh_dh := h_dh h; rh_pa := h_pa h |}.
  Definition rollup_txs_to_raw (rt : RollupTxs) : RawRollupTxs :=
    {| rr_id := Some (r_id rt); rr_txs := r_txs rt; rr_proof := Some (proof_to_raw (r_proof rt)) |}.
  Definition eci_to_raw (e : Eci) : RawEci :=
    {| re_bytes := e_bytes e; re_proof := Some (proof_to_raw (e_proof e)) |}.
  Definition seq_block_to_raw (v : SeqBlock) : RawSeqBlock :=
    {| rs_bh := s_bh v; rs_hdr := Some (header_to_raw (s_hdr v));
       rs_rts := map (fun kv => rollup_txs_to_raw (snd kv)) (s_rts v);
       rs_rtp := Some (proof_to_raw (s_rtp v)); rs_rip := Some (proof_to_raw (s_rip v));
       rs_uch := s_uch v; rs_eci := option_map eci_to_raw (s_eci v) |}.
  Definition filtered_to_raw (v : Filtered) : RawFiltered :=
    {| rf_bh := f_bh v; rf_hdr := Some (header_to_raw (f_hdr v));
       rf_rts := map (fun kv => rollup_txs_to_raw (snd kv)) (f_rts v);
       rf_rtp := Some (proof_to_raw (f_rtp v)); rf_all := f_all v;
       rf_rip := Some (proof_to_raw (f_rip v));
       rf_uch := f_uch v; rf_eci := option_map eci_to_raw (f_eci v) |}.
  Definition meta_to_raw (v : Meta) : RawMeta :=
    {| rm_bh := m_bh v; rm_hdr := Some (header_to_raw (m_hdr v)); rm_ids := m_ids v;
       rm_rtp := Some (proof_to_raw (m_rtp v)); rm_rip := Some (proof_to_raw (m_rip v));
       rm_uch := m_uch v; rm_eci := option_map eci_to_raw (m_eci v) |}.
  Definition rollup_data_to_raw (v : RollupData) : RawRollupData :=
    {| rd_bh := d_bh v; rd_id := Some (d_id v); rd_txs := d_txs v;
       rd_proof := Some (proof_to_raw (d_proof v)) |}.
  Definition tx_to_raw (v : Tx) : RawTx :=
    {| rt_sig := t_sig v; rt_pk := t_vk v; rt_body := Some (body_url, t_body v) |}.

  (** * the stated checks of an accepted value, as executable predicates *)
  Definition verifies (p : Proof) (leaf_hash root : B) : bool :=
    match pverify p leaf_hash root with Some true => true | _ => false end.

  Definition header_checks (h : Header) : bool :=
    cid_ok (h_cid h) && (h_height h <=? I64_MAX) && time_ok (h_time h) &&
    (blen (h_rtr h) =? 32) && (blen (h_dh h) =? 32) && (blen (h_pa h) =? 20).

  Definition eci_checks (dh : B) (e : option Eci) : bool :=
    match e with
    | None => true
    | Some e => verifies (e_proof e) (leafH (sha (e_bytes e))) dh &&
                match eci_parse (e_bytes e) with EciOk => true | _ => false end
    end.

  (** every per-rollup inclusion proof verifies against the header's rollup transactions root *)
  Definition rollup_proofs_verify (rtr : B) (m : list (B * RollupTxs)) : bool :=
    forallb (fun kv => verifies (r_proof (snd kv)) (rollup_leaf (r_id (snd kv)) (r_txs (snd kv))) rtr) m.

  (** the checks of a sequencer block: block level proofs against the data hash and every
      per-rollup proof against the rollup transactions root *)
  Definition seq_block_checks (v : SeqBlock) : bool :=
    let h := s_hdr v in
    (blen (s_bh v) =? 32) && header_checks h &&
    verifies (s_rtp v) (leafH (sha (h_rtr h))) (h_dh h) &&
    verifies (s_rtp v) (leafH (sha (rollup_txs_root (s_rts v)))) (h_dh h) &&
    verifies (s_rip v) (leafH (sha (ids_root (map fst (s_rts v))))) (h_dh h) &&
    rollup_proofs_verify (h_rtr h) (s_rts v) &&
    eci_checks (h_dh h) (s_eci v).

  Definition filtered_checks (v : Filtered) : bool :=
    let h := f_hdr v in
    (blen (f_bh v) =? 32) && header_checks h &&
    verifies (f_rtp v) (leafH (sha (h_rtr h))) (h_dh h) &&
    rollup_proofs_verify (h_rtr h) (f_rts v) &&
    verifies (f_rip v) (leafH (sha (ids_root (f_all v)))) (h_dh h) &&
    eci_checks (h_dh h) (f_eci v).

  Definition meta_checks (v : Meta) : bool :=
    let h := m_hdr v in
    (blen (m_bh v) =? 32) && header_checks h &&
    verifies (m_rtp v) (leafH (sha (h_rtr h))) (h_dh h) &&
    verifies (m_rip v) (leafH (sha (ids_root (m_ids v)))) (h_dh h) &&
    eci_checks (h_dh h) (m_eci v).

  (** a well-formed proof: what [try_into_proof] establishes, enough for [verify] to be total *)
  Definition proof_wf (p : Proof) : bool :=
    negb (tree_size p =? 0) && is_leaf_index_in_tree (leaf_index p) (tree_size p).

  Definition rollup_data_checks (v : RollupData) : bool :=
    (blen (d_bh v) =? 32) && (blen (d_id v) =? 32) && proof_wf (d_proof v).

  Definition tx_checks (v : Tx) : bool :=
    (blen (t_sig v) =? 64) && (blen (t_vk v) =? 32) && vk_ok (t_vk v) &&
    sig_ok (t_vk v) (t_sig v) (t_body v) &&
    match body_parse (t_body v) with BodyOk => true | _ => false end.

  (** * the abstract wire layer on top: prost decode, optionally after brotli *)
  Section Wire.
    Variables W Raw V : Type.
    Variable wdec : W -> option Raw.
    Variable decompress : W -> option W.
    Variable from_raw : Raw -> res V.

    Definition wire_decode (w : W) : res V :=
      match wdec w with None => RErr [TWire] | Some r => from_raw r end.
    Definition blob_decode (w : W) : res V :=
      match decompress w with None => RErr [TBrotli] | Some d => wire_decode d end.
  End Wire.
End Decode.

Arguments rp_path {B}. Arguments rp_extra {B}. Arguments rp_idx {B}. Arguments rp_size {B}.
