(** C17 -- proofs about the validation layer model: no decoder panics, accepted values satisfy
    their checks, accepted values re-encode to something that decodes to the same value, the
    lifting through an abstract wire codec, and the refutation of the per-rollup proof statement
    for the full sequencer block decoder as it was before the repair of finding F11. *)
From Astria Require Import Decode.DecodeSpec Merkle.MerkleTotal.

(** * generic facts about [res] *)

Lemma rbind_ok {A C} (x : res A) (f : A -> res C) v :
  rbind x f = ROk v -> exists a, x = ROk a /\ f a = ROk v.
Proof. destruct x; cbn; intros H; try discriminate. eauto. Qed.

Lemma rbind_np {A C} (x : res A) (f : A -> res C) :
  x <> RPanic -> (forall a, x = ROk a -> f a <> RPanic) -> rbind x f <> RPanic.
Proof. destruct x; cbn; intros H1 H2; [apply H2; reflexivity|discriminate|congruence]. Qed.

Lemma wrap_ok {A} t (x : res A) v : wrap t x = ROk v -> x = ROk v.
Proof. destruct x; cbn; congruence. Qed.

Lemma wrap_np {A} t (x : res A) : x <> RPanic -> wrap t x <> RPanic.
Proof. destruct x; cbn; congruence. Qed.

Lemma wrap_of_ok {A} t (x : res A) v : x = ROk v -> wrap t x = ROk v.
Proof. intros ->. reflexivity. Qed.

Lemma require_ok b e u : require b e = ROk u -> b = true.
Proof. destruct b; cbn; congruence. Qed.

Lemma require_np b e : require b e <> RPanic.
Proof. destruct b; cbn; discriminate. Qed.

Lemma require_true e : require true e = ROk tt.
Proof. reflexivity. Qed.

Lemma rmap_np {A C} (f : A -> res C) l : (forall x, f x <> RPanic) -> rmap f l <> RPanic.
Proof.
  intros Hf. induction l as [|x r IH]; cbn [rmap]; [discriminate|].
  apply rbind_np; [apply Hf|]. intros y _. apply rbind_np; [exact IH|]. discriminate.
Qed.

Lemma rmap_idx_np {A C} (f : A -> res C) l : (forall x, f x <> RPanic) ->
  forall i, rmap_idx f i l <> RPanic.
Proof.
  intros Hf. induction l as [|x r IH]; intros i; cbn [rmap_idx]; [discriminate|].
  apply rbind_np; [apply wrap_np, Hf|]. intros y _. apply rbind_np; [apply IH|]. discriminate.
Qed.

Lemma rmap_ok_Forall2 {A C} (f : A -> res C) l vs :
  rmap f l = ROk vs -> Forall2 (fun x v => f x = ROk v) l vs.
Proof.
  revert vs. induction l as [|x r IH]; cbn [rmap]; intros vs H.
  - injection H as <-. constructor.
  - apply rbind_ok in H. destruct H as [y [Hy H]].
    apply rbind_ok in H. destruct H as [ys [Hys H]]. injection H as <-.
    constructor; [exact Hy|apply IH; exact Hys].
Qed.

Lemma rmap_idx_ok_Forall2 {A C} (f : A -> res C) l : forall i vs,
  rmap_idx f i l = ROk vs -> Forall2 (fun x v => f x = ROk v) l vs.
Proof.
  induction l as [|x r IH]; cbn [rmap_idx]; intros i vs H.
  - injection H as <-. constructor.
  - apply rbind_ok in H. destruct H as [y [Hy H]]. apply wrap_ok in Hy.
    apply rbind_ok in H. destruct H as [ys [Hys H]]. injection H as <-.
    constructor; [exact Hy|eapply IH; exact Hys].
Qed.

Lemma Forall2_rmap {A C} (f : A -> res C) l vs :
  Forall2 (fun x v => f x = ROk v) l vs -> rmap f l = ROk vs.
Proof.
  induction 1 as [|x v l vs Hx _ IH]; cbn [rmap]; [reflexivity|].
  rewrite Hx. cbn [rbind]. rewrite IH. reflexivity.
Qed.

Lemma Forall2_rmap_idx {A C} (f : A -> res C) l vs :
  Forall2 (fun x v => f x = ROk v) l vs -> forall i, rmap_idx f i l = ROk vs.
Proof.
  induction 1 as [|x v l vs Hx _ IH]; intros i; cbn [rmap_idx]; [reflexivity|].
  rewrite Hx. cbn [wrap rbind]. rewrite IH. reflexivity.
Qed.

(** a list of checked identities ([ChangeHash], [RollupId]) returns its input *)
Lemma rmap_check_id {A} (c : A -> bool) (e : list tag) l vs :
  rmap (fun h => rbind (require (c h) e) (fun _ => ROk h)) l = ROk vs ->
  vs = l /\ forallb c l = true.
Proof.
  revert vs. induction l as [|x r IH]; cbn [rmap forallb]; intros vs H.
  - injection H as <-. split; reflexivity.
  - apply rbind_ok in H. destruct H as [y [Hy H]].
    apply rbind_ok in Hy. destruct Hy as [u [Hu Hy]]. injection Hy as <-.
    apply require_ok in Hu.
    apply rbind_ok in H. destruct H as [ys [Hys H]]. injection H as <-.
    destruct (IH _ Hys) as [-> Hall]. rewrite Hu, Hall. split; reflexivity.
Qed.

Lemma rmap_check_id_conv {A} (c : A -> bool) (e : list tag) l :
  forallb c l = true ->
  rmap (fun h => rbind (require (c h) e) (fun _ => ROk h)) l = ROk l.
Proof.
  induction l as [|x r IH]; cbn [rmap forallb]; intros H; [reflexivity|].
  apply andb_prop in H. destruct H as [Hx Hr]. rewrite Hx. cbn [require rbind].
  rewrite (IH Hr). reflexivity.
Qed.

Lemma NoDup_app_one {A} (l : list A) (k : A) : NoDup l -> ~ In k l -> NoDup (l ++ [k]).
Proof.
  induction l as [|x r IH]; cbn [app]; intros Hnd Hn.
  - constructor; [intros []|constructor].
  - inversion Hnd as [|? ? Hx Hr]; subst. constructor.
    + intros Hin. apply in_app_or in Hin. destruct Hin as [Hin|[->|[]]]; [contradiction|].
      apply Hn. left. reflexivity.
    + apply IH; [exact Hr|]. intros Hin. apply Hn. right. exact Hin.
Qed.

Section Proofs.
  Variable B : Type.
  Variable blen : B -> N.
  Variable beq : B -> B -> bool.
  Variable cat : B -> B -> B.
  Variable sha leafH : B -> B.
  Variable nodeH : B -> B -> B.
  Variable emptyH : B.
  Variable cid_ok : B -> bool.
  Variable eci_parse : B -> eci_res.
  Variable vk_ok : B -> bool.
  Variable sig_ok : B -> B -> B -> bool.
  Variable body_url : B.
  Variable body_parse : B -> body_res.

  Local Notation Proof := (Proof B).
  Local Notation pverify := (pverify B beq nodeH).
  Local Notation verifies := (verifies B beq nodeH).
  Local Notation check_verify := (check_verify B beq nodeH).
  Local Notation proof_from_raw := (@proof_from_raw B).
  Local Notation proof_to_raw := (@proof_to_raw B).
  Local Notation proof_wf := (@proof_wf B).
  Local Notation field_proof := (@field_proof B).
  Local Notation header_from_raw := (header_from_raw B blen cid_ok).
  Local Notation header_checks := (header_checks B blen cid_ok).
  Local Notation rollup_txs_from_raw := (rollup_txs_from_raw B blen).
  Local Notation eci_from_raw := (eci_from_raw B beq sha leafH nodeH eci_parse).
  Local Notation opt_eci_from_raw := (opt_eci_from_raw B beq sha leafH nodeH eci_parse).
  Local Notation eci_checks := (eci_checks B beq sha leafH nodeH eci_parse).
  Local Notation uch_from_raw := (uch_from_raw B blen).
  Local Notation ids_from_raw := (ids_from_raw B blen).
  Local Notation rollup_txs_collect := (rollup_txs_collect B beq).
  Local Notation check_rollup_proofs := (check_rollup_proofs B beq cat leafH nodeH emptyH).
  Local Notation rollup_proofs_verify := (rollup_proofs_verify B beq cat leafH nodeH emptyH).
  Local Notation tx_from_raw := (tx_from_raw B blen beq vk_ok sig_ok body_url body_parse).
  Local Notation seq_block_from_raw :=
    (seq_block_from_raw B blen beq cat sha leafH nodeH emptyH cid_ok eci_parse).
  Local Notation filtered_from_raw :=
    (filtered_from_raw B blen beq cat sha leafH nodeH emptyH cid_ok eci_parse).
  Local Notation meta_from_raw := (meta_from_raw B blen beq sha leafH nodeH emptyH cid_ok eci_parse).
  Local Notation rollup_data_from_raw := (rollup_data_from_raw B blen).

  (** * merkle proofs *)

  Lemma proof_from_raw_np r : proof_from_raw r <> RPanic.
  Proof.
    unfold DecodeModel.proof_from_raw.
    destruct (try_into_proof B (rp_path r) (rp_extra r) (rp_idx r) (rp_size r)); discriminate.
  Qed.

  Lemma proof_from_raw_wf r p : proof_from_raw r = ROk p ->
    proof_wf p = true /\
    p = {| audit_path := rp_path r; leaf_index := rp_idx r; tree_size := rp_size r |} /\
    rp_extra r = 0.
  Proof.
    unfold DecodeModel.proof_from_raw, try_into_proof, DecodeModel.proof_wf.
    destruct (rp_size r =? 0) eqn:Hs; [discriminate|].
    destruct (is_leaf_index_in_tree (rp_idx r) (rp_size r)) eqn:Hin; cbn [negb]; [|discriminate].
    destruct (rp_extra r =? 0) eqn:Hx; cbn [negb]; [|discriminate].
    intros H. injection H as <-. cbn [tree_size leaf_index]. rewrite Hs, Hin.
    apply N.eqb_eq in Hx. repeat split; [exact Hx].
  Qed.

  Lemma proof_roundtrip p : proof_wf p = true -> proof_from_raw (proof_to_raw p) = ROk p.
  Proof.
    unfold DecodeModel.proof_wf, DecodeModel.proof_from_raw, DecodeModel.proof_to_raw, try_into_proof.
    cbn [rp_path rp_extra rp_idx rp_size].
    intros H. apply andb_prop in H. destruct H as [Hs Hin].
    apply negb_true_iff in Hs. rewrite Hs, Hin. cbn [negb N.eqb]. destruct p. reflexivity.
  Qed.

  Lemma pverify_total p l root : proof_wf p = true -> exists b, pverify p l root = Some b.
  Proof.
    unfold DecodeModel.proof_wf, DecodeModel.pverify, verify, reconstruct_root, bind.
    intros H. apply andb_prop in H. destruct H as [_ Hin].
    destruct (leaf_index_in_tree_inv _ _ Hin) as [Hti Hle]. rewrite Hti.
    destruct (reconstruct_loop_total B nodeH (tree_size p) (audit_path p) (leaf_index p * 2) l Hle)
      as [x Hx].
    rewrite Hx. eexists. reflexivity.
  Qed.

  Lemma check_verify_np p l root e : proof_wf p = true -> check_verify p l root e <> RPanic.
  Proof.
    intros Hwf. unfold DecodeModel.check_verify.
    destruct (pverify_total p l root Hwf) as [[|] ->]; discriminate.
  Qed.

  Lemma check_verify_ok p l root e u : check_verify p l root e = ROk u -> verifies p l root = true.
  Proof.
    unfold DecodeModel.check_verify, DecodeModel.verifies.
    destruct (pverify p l root) as [[|]|]; congruence.
  Qed.

  Lemma verifies_check p l root e : verifies p l root = true -> check_verify p l root e = ROk tt.
  Proof.
    unfold DecodeModel.check_verify, DecodeModel.verifies.
    destruct (pverify p l root) as [[|]|]; congruence.
  Qed.

  Lemma field_proof_np n e r : field_proof n e r <> RPanic.
  Proof.
    unfold DecodeModel.field_proof. destruct r; [apply wrap_np, proof_from_raw_np|discriminate].
  Qed.

  Lemma field_proof_wf n e r p : field_proof n e r = ROk p -> proof_wf p = true.
  Proof.
    unfold DecodeModel.field_proof. destruct r as [rp|]; [|discriminate].
    intros H. apply wrap_ok in H. apply proof_from_raw_wf in H. tauto.
  Qed.

  Lemma field_proof_roundtrip n e p : proof_wf p = true ->
    field_proof n e (Some (proof_to_raw p)) = ROk p.
  Proof.
    intros H. unfold DecodeModel.field_proof. rewrite (proof_roundtrip p H). reflexivity.
  Qed.

  (** * header *)

  Lemma header_np r : header_from_raw r <> RPanic.
  Proof.
    unfold DecodeModel.header_from_raw.
    apply rbind_np; [apply require_np|intros _ _].
    apply rbind_np; [apply require_np|intros _ _].
    destruct (rh_time B r); [|discriminate].
    repeat (apply rbind_np; [apply require_np|intros _ _]). discriminate.
  Qed.

  Lemma header_ok r h : header_from_raw r = ROk h ->
    header_checks h = true /\
    h = {| h_cid := rh_cid B r; h_height := rh_height B r;
           h_time := match rh_time B r with Some t => t | None => (0, 0)%Z end;
           h_rtr := rh_rtr B r; h_dh := rh_dh B r; h_pa := rh_pa B r |} /\
    rh_time B r <> None.
  Proof.
    unfold DecodeModel.header_from_raw, DecodeModel.header_checks. intros H.
    apply rbind_ok in H. destruct H as [u1 [H1 H]]. apply require_ok in H1.
    apply rbind_ok in H. destruct H as [u2 [H2 H]]. apply require_ok in H2.
    destruct (rh_time B r) as [t|]; [|discriminate].
    apply rbind_ok in H. destruct H as [u3 [H3 H]]. apply require_ok in H3.
    apply rbind_ok in H. destruct H as [u4 [H4 H]]. apply require_ok in H4.
    apply rbind_ok in H. destruct H as [u5 [H5 H]]. apply require_ok in H5.
    apply rbind_ok in H. destruct H as [u6 [H6 H]]. apply require_ok in H6.
    injection H as <-. cbn [h_cid h_height h_time h_rtr h_dh h_pa].
    rewrite H1, H2, H3, H4, H5, H6. repeat split. discriminate.
  Qed.

  Lemma header_roundtrip h : header_checks h = true ->
    header_from_raw (header_to_raw B h) = ROk h.
  Proof.
    unfold DecodeModel.header_checks, DecodeModel.header_from_raw, header_to_raw.
    cbn [rh_cid rh_height rh_time rh_rtr rh_dh rh_pa]. intros H.
    repeat (apply andb_prop in H; let H' := fresh "C" in destruct H as [H H']).
    rewrite H, C3, C2, C1, C0, C. cbn [require rbind]. destruct h. reflexivity.
  Qed.

  (** * rollup transactions *)

  Lemma rollup_txs_np r : rollup_txs_from_raw r <> RPanic.
  Proof.
    unfold DecodeModel.rollup_txs_from_raw. destruct (rr_id B r); [|discriminate].
    apply rbind_np; [apply require_np|intros _ _].
    destruct (rr_proof B r); [|discriminate].
    apply rbind_np; [apply wrap_np, proof_from_raw_np|intros; discriminate].
  Qed.

  Definition rt_wf (rt : RollupTxs B) : bool := (blen (r_id B rt) =? 32) && proof_wf (r_proof B rt).

  Lemma rollup_txs_ok r rt : rollup_txs_from_raw r = ROk rt -> rt_wf rt = true.
  Proof.
    unfold DecodeModel.rollup_txs_from_raw, rt_wf. destruct (rr_id B r) as [id|]; [|discriminate].
    intros H. apply rbind_ok in H. destruct H as [u [Hu H]]. apply require_ok in Hu.
    destruct (rr_proof B r) as [rp|]; [|discriminate].
    apply rbind_ok in H. destruct H as [p [Hp H]]. apply wrap_ok in Hp.
    apply proof_from_raw_wf in Hp. destruct Hp as [Hwf _].
    injection H as <-. cbn [r_id r_proof]. rewrite Hu, Hwf. reflexivity.
  Qed.

  Lemma rollup_txs_roundtrip rt : rt_wf rt = true ->
    rollup_txs_from_raw (rollup_txs_to_raw B rt) = ROk rt.
  Proof.
    unfold rt_wf, DecodeModel.rollup_txs_from_raw, rollup_txs_to_raw. cbn [rr_id rr_txs rr_proof].
    intros H. apply andb_prop in H. destruct H as [Hid Hp].
    rewrite Hid. cbn [require rbind]. rewrite (proof_roundtrip _ Hp). cbn [wrap rbind].
    destruct rt. reflexivity.
  Qed.

  (** * extended commit info *)

  Lemma eci_np dh r : eci_from_raw dh r <> RPanic.
  Proof.
    unfold DecodeModel.eci_from_raw. destruct (re_proof B r) as [rp|]; [|discriminate].
    apply rbind_np; [apply proof_from_raw_np|intros p Hp].
    apply proof_from_raw_wf in Hp. destruct Hp as [Hwf _].
    apply rbind_np; [apply check_verify_np; exact Hwf|intros _ _].
    destruct (eci_parse (re_bytes B r)); discriminate.
  Qed.

  Lemma opt_eci_np dh r : opt_eci_from_raw dh r <> RPanic.
  Proof.
    unfold DecodeModel.opt_eci_from_raw. destruct r; [|discriminate].
    apply rbind_np; [apply wrap_np, eci_np|intros; discriminate].
  Qed.

  Lemma eci_ok dh r e : eci_from_raw dh r = ROk e ->
    eci_checks dh (Some e) = true /\ proof_wf (e_proof B e) = true.
  Proof.
    unfold DecodeModel.eci_from_raw, DecodeModel.eci_checks.
    destruct (re_proof B r) as [rp|]; [|discriminate]. intros H.
    apply rbind_ok in H. destruct H as [p [Hp H]]. apply proof_from_raw_wf in Hp.
    destruct Hp as [Hwf _].
    apply rbind_ok in H. destruct H as [u [Hv H]]. apply check_verify_ok in Hv.
    destruct (eci_parse (re_bytes B r)) eqn:Hparse; try discriminate.
    injection H as <-. cbn [e_proof e_bytes]. rewrite Hv, Hparse, Hwf. split; reflexivity.
  Qed.

  Lemma opt_eci_ok dh r e : opt_eci_from_raw dh r = ROk e ->
    eci_checks dh e = true /\
    match e with Some x => proof_wf (e_proof B x) = true | None => True end.
  Proof.
    unfold DecodeModel.opt_eci_from_raw. destruct r as [x|].
    - intros H. apply rbind_ok in H. destruct H as [v [Hv H]]. apply wrap_ok in Hv.
      injection H as <-. apply eci_ok in Hv. exact Hv.
    - intros H. injection H as <-. split; [reflexivity|exact I].
  Qed.

  Lemma opt_eci_roundtrip dh e :
    eci_checks dh e = true ->
    match e with Some x => proof_wf (e_proof B x) = true | None => True end ->
    opt_eci_from_raw dh (option_map (eci_to_raw B) e) = ROk e.
  Proof.
    destruct e as [x|]; cbn [option_map]; [|reflexivity].
    unfold DecodeModel.eci_checks, DecodeModel.opt_eci_from_raw, DecodeModel.eci_from_raw, eci_to_raw.
    cbn [re_bytes re_proof]. intros H Hwf. apply andb_prop in H. destruct H as [Hv Hp].
    rewrite (proof_roundtrip _ Hwf). cbn [rbind].
    rewrite (verifies_check _ _ _ [TNotInSequencerBlock] Hv). cbn [rbind].
    destruct (eci_parse (e_bytes B x)); try discriminate Hp. cbn [wrap rbind]. destruct x. reflexivity.
  Qed.

  (** * lists of hashes and ids *)

  Lemma uch_np l : uch_from_raw l <> RPanic.
  Proof.
    unfold DecodeModel.uch_from_raw. apply rmap_np. intros x.
    apply rbind_np; [apply require_np|intros; discriminate].
  Qed.

  Lemma ids_np t l : ids_from_raw t l <> RPanic.
  Proof.
    unfold DecodeModel.ids_from_raw. apply rmap_np. intros x.
    apply rbind_np; [apply require_np|intros; discriminate].
  Qed.

  Lemma uch_ok l vs : uch_from_raw l = ROk vs -> vs = l /\ uch_from_raw vs = ROk vs.
  Proof.
    unfold DecodeModel.uch_from_raw. intros H.
    destruct (rmap_check_id _ _ _ _ H) as [-> Hall]. split; [reflexivity|].
    apply rmap_check_id_conv. exact Hall.
  Qed.

  Lemma ids_ok t l vs : ids_from_raw t l = ROk vs -> vs = l /\ ids_from_raw t vs = ROk vs.
  Proof.
    unfold DecodeModel.ids_from_raw. intros H.
    destruct (rmap_check_id _ _ _ _ H) as [-> Hall]. split; [reflexivity|].
    apply rmap_check_id_conv. exact Hall.
  Qed.

  (** * the IndexMap of rollup transactions *)

  Definition vals_ok (P : RollupTxs B -> Prop) (m : list (B * RollupTxs B)) : Prop :=
    Forall (fun kv => P (snd kv)) m.

  Lemma imap_insert_vals P (m : list (B * RollupTxs B)) k v :
    vals_ok P m -> P v -> vals_ok P (imap_insert B beq m k v).
  Proof.
    unfold vals_ok. induction m as [|[k' v'] r IH]; cbn [imap_insert]; intros Hm Hv.
    - constructor; [exact Hv|constructor].
    - inversion Hm as [|? ? Hh Ht]; subst. destruct (beq k' k).
      + constructor; [exact Hv|exact Ht].
      + constructor; [exact Hh|apply IH; assumption].
  Qed.

  Lemma collect_vals P (l : list (RollupTxs B)) :
    Forall P l -> vals_ok P (rollup_txs_collect l).
  Proof.
    unfold DecodeModel.rollup_txs_collect, imap_collect.
    assert (G : forall acc, vals_ok P acc -> Forall P l ->
              vals_ok P (fold_left (fun m kv => imap_insert B beq m (fst kv) (snd kv))
                                   (map (fun rt => (r_id B rt, rt)) l) acc)).
    { induction l as [|x r IH]; cbn [map fold_left]; intros acc Hacc Hl; [exact Hacc|].
      inversion Hl; subst. apply IH; [|assumption]. apply imap_insert_vals; assumption. }
    intros Hl. apply G; [constructor|exact Hl].
  Qed.

  Lemma check_rollup_proofs_np e rtr m :
    vals_ok (fun rt => proof_wf (r_proof B rt) = true) m -> check_rollup_proofs e rtr m <> RPanic.
  Proof.
    unfold vals_ok. induction m as [|[k rt] r IH]; cbn [DecodeModel.check_rollup_proofs]; intros H.
    - discriminate.
    - inversion H as [|? ? Hh Ht]; subst. cbn [snd] in Hh.
      apply rbind_np; [apply check_verify_np; exact Hh|intros _ _; apply IH; exact Ht].
  Qed.

  Lemma check_rollup_proofs_ok e rtr m u :
    check_rollup_proofs e rtr m = ROk u -> rollup_proofs_verify rtr m = true.
  Proof.
    unfold DecodeModel.rollup_proofs_verify.
    induction m as [|[k rt] r IH]; cbn [DecodeModel.check_rollup_proofs forallb]; intros H.
    - reflexivity.
    - apply rbind_ok in H. destruct H as [u' [Hv H]]. apply check_verify_ok in Hv.
      cbn [snd]. rewrite Hv, (IH H). reflexivity.
  Qed.

  Lemma rollup_proofs_verify_check e rtr m :
    rollup_proofs_verify rtr m = true -> check_rollup_proofs e rtr m = ROk tt.
  Proof.
    unfold DecodeModel.rollup_proofs_verify.
    induction m as [|[k rt] r IH]; cbn [DecodeModel.check_rollup_proofs forallb]; intros H.
    - reflexivity.
    - apply andb_prop in H. destruct H as [Hv Hr]. cbn [snd] in Hv.
      rewrite (verifies_check _ _ _ _ Hv). cbn [rbind]. apply IH. exact Hr.
  Qed.

  Section Beq.
    Hypothesis Hbeq : BeqSpec B beq.

    Lemma beq_false a b : a <> b -> beq a b = false.
    Proof.
      intros Hne. destruct (beq a b) eqn:E; [|reflexivity]. apply Hbeq in E. contradiction.
    Qed.

    Lemma beq_refl a : beq a a = true.
    Proof. apply Hbeq. reflexivity. Qed.

    (** keys are the ids of their values and pairwise distinct *)
    Definition imap_inv (m : list (B * RollupTxs B)) : Prop :=
      Forall (fun kv => fst kv = r_id B (snd kv)) m /\ NoDup (map fst m).

    Lemma imap_insert_fresh (m : list (B * RollupTxs B)) k v :
      ~ In k (map fst m) -> imap_insert B beq m k v = m ++ [(k, v)].
    Proof.
      induction m as [|[k' v'] r IH]; cbn [imap_insert map fst In app]; intros Hn; [reflexivity|].
      rewrite beq_false by (intros ->; apply Hn; left; reflexivity).
      rewrite IH; [reflexivity|]. intros Hin. apply Hn. right. exact Hin.
    Qed.

    Lemma imap_insert_keys (m : list (B * RollupTxs B)) k v :
      In k (map fst m) -> map fst (imap_insert B beq m k v) = map fst m.
    Proof.
      induction m as [|[k' v'] r IH]; cbn [imap_insert map fst In]; intros Hin; [contradiction|].
      destruct (beq k' k) eqn:E; cbn [map fst]; [reflexivity|].
      destruct Hin as [->|Hin]; [rewrite beq_refl in E; discriminate|].
      rewrite (IH Hin). reflexivity.
    Qed.

    Lemma imap_insert_ids (m : list (B * RollupTxs B)) v :
      Forall (fun kv => fst kv = r_id B (snd kv)) m ->
      Forall (fun kv => fst kv = r_id B (snd kv)) (imap_insert B beq m (r_id B v) v).
    Proof.
      induction m as [|[k' v'] r IH]; cbn [imap_insert]; intros Hm.
      - constructor; [reflexivity|constructor].
      - inversion Hm as [|? ? Hh Ht]; subst. destruct (beq k' (r_id B v)) eqn:E.
        + apply Hbeq in E. constructor; [exact E|exact Ht].
        + constructor; [exact Hh|apply IH; exact Ht].
    Qed.

    Lemma In_dec_keys k (l : list B) : In k l \/ ~ In k l.
    Proof.
      induction l as [|x r IH]; [right; intros []|].
      destruct (beq x k) eqn:E.
      - left. left. apply Hbeq. exact E.
      - destruct IH as [Hin|Hn]; [left; right; exact Hin|].
        right. intros [->|Hin]; [rewrite beq_refl in E; discriminate|contradiction].
    Qed.

    Lemma imap_insert_inv m v : imap_inv m -> imap_inv (imap_insert B beq m (r_id B v) v).
    Proof.
      intros [Hids Hnd]. split; [apply imap_insert_ids; exact Hids|].
      destruct (In_dec_keys (r_id B v) (map fst m)) as [Hin|Hn].
      - rewrite imap_insert_keys by exact Hin. exact Hnd.
      - rewrite imap_insert_fresh by exact Hn. rewrite map_app. cbn [map fst].
        apply NoDup_app_one; assumption.
    Qed.

    Lemma collect_inv (l : list (RollupTxs B)) : imap_inv (rollup_txs_collect l).
    Proof.
      unfold DecodeModel.rollup_txs_collect, imap_collect.
      assert (G : forall acc, imap_inv acc ->
                imap_inv (fold_left (fun m kv => imap_insert B beq m (fst kv) (snd kv))
                                    (map (fun rt => (r_id B rt, rt)) l) acc)).
      { induction l as [|x r IH]; cbn [map fold_left]; intros acc Hacc; [exact Hacc|].
        apply IH. cbn [fst snd]. apply imap_insert_inv. exact Hacc. }
      apply G. split; constructor.
    Qed.

    (** re-collecting the values of a well-formed map gives the map back *)
    Lemma collect_idem (m : list (B * RollupTxs B)) :
      imap_inv m -> rollup_txs_collect (map snd m) = m.
    Proof.
      unfold DecodeModel.rollup_txs_collect, imap_collect.
      assert (G : forall m2 acc, imap_inv (acc ++ m2) ->
                fold_left (fun m kv => imap_insert B beq m (fst kv) (snd kv))
                          (map (fun rt => (r_id B rt, rt)) (map snd m2)) acc = acc ++ m2).
      { induction m2 as [|[k v] r IH]; cbn [map fold_left snd fst]; intros acc Hinv.
        - rewrite app_nil_r. reflexivity.
        - destruct Hinv as [Hids Hnd].
          assert (Hk : k = r_id B v).
          { rewrite Forall_app in Hids. destruct Hids as [_ Hids].
            inversion Hids; subst. assumption. }
          rewrite <- Hk.
          rewrite imap_insert_fresh.
          + replace (acc ++ (k, v) :: r) with ((acc ++ [(k, v)]) ++ r)
              by (rewrite <- app_assoc; reflexivity).
            apply IH. rewrite <- app_assoc. cbn [app]. split; assumption.
          + rewrite map_app in Hnd. cbn [map fst] in Hnd.
            apply NoDup_remove_2 in Hnd. intros Hin. apply Hnd. apply in_or_app. left. exact Hin. }
      intros Hinv. apply (G m []). exact Hinv.
    Qed.
  End Beq.

  Lemma rollup_txs_list_roundtrip (m : list (B * RollupTxs B)) :
    vals_ok (fun rt => rt_wf rt = true) m ->
    rmap rollup_txs_from_raw (map (fun kv => rollup_txs_to_raw B (snd kv)) m) = ROk (map snd m).
  Proof.
    unfold vals_ok. intros H. apply Forall2_rmap.
    induction H as [|kv r Hh _ IH]; cbn [map]; constructor; [|exact IH].
    apply rollup_txs_roundtrip. exact Hh.
  Qed.

  Lemma rt_wf_proof_wf m :
    vals_ok (fun rt => rt_wf rt = true) m -> vals_ok (fun rt => proof_wf (r_proof B rt) = true) m.
  Proof.
    unfold vals_ok. intros H. eapply Forall_impl; [|exact H].
    intros kv Hkv. unfold rt_wf in Hkv. apply andb_prop in Hkv. tauto.
  Qed.

  Lemma rmap_rollup_txs_wf l rts :
    rmap rollup_txs_from_raw l = ROk rts -> Forall (fun rt => rt_wf rt = true) rts.
  Proof.
    intros H. apply rmap_ok_Forall2 in H.
    induction H as [|x v l vs Hx _ IH]; constructor; [|exact IH].
    eapply rollup_txs_ok. exact Hx.
  Qed.

  (** * sequencer block *)

  Lemma seq_block_np r : seq_block_from_raw r <> RPanic.
  Proof.
    unfold DecodeModel.seq_block_from_raw.
    apply rbind_np; [apply require_np|intros _ _].
    apply rbind_np; [apply field_proof_np|intros rtp Hrtp]. apply field_proof_wf in Hrtp.
    apply rbind_np; [apply field_proof_np|intros rip Hrip]. apply field_proof_wf in Hrip.
    destruct (rs_hdr B r) as [rh|]; [|discriminate].
    apply rbind_np; [apply wrap_np, header_np|intros h _].
    apply rbind_np; [apply wrap_np, rmap_np, rollup_txs_np|intros rts Hrts].
    apply wrap_ok in Hrts. apply rmap_rollup_txs_wf in Hrts.
    cbv zeta.
    apply rbind_np; [apply check_verify_np; exact Hrtp|intros _ _].
    apply rbind_np; [apply check_verify_np; exact Hrtp|intros _ _].
    apply rbind_np; [apply check_verify_np; exact Hrip|intros _ _].
    apply rbind_np; [apply check_rollup_proofs_np, rt_wf_proof_wf, collect_vals; exact Hrts|intros _ _].
    apply rbind_np; [apply uch_np|intros ? _].
    apply rbind_np; [apply opt_eci_np|intros; discriminate].
  Qed.

  (** everything the decoder establishes about an accepted block *)
  Record seq_block_facts (v : SeqBlock B) : Prop := {
    sf_checks : seq_block_checks B blen beq cat sha leafH nodeH emptyH cid_ok eci_parse v = true;
    sf_rtp : proof_wf (s_rtp B v) = true;
    sf_rip : proof_wf (s_rip B v) = true;
    sf_vals : vals_ok (fun rt => rt_wf rt = true) (s_rts B v);
    sf_collected : exists rts, s_rts B v = rollup_txs_collect rts;
    sf_uch : uch_from_raw (s_uch B v) = ROk (s_uch B v);
    sf_eci : match s_eci B v with Some x => proof_wf (e_proof B x) = true | None => True end
  }.

  Lemma seq_block_ok r v : seq_block_from_raw r = ROk v -> seq_block_facts v.
  Proof.
    unfold DecodeModel.seq_block_from_raw. intros H.
    apply rbind_ok in H. destruct H as [u0 [Hbh H]]. apply require_ok in Hbh.
    apply rbind_ok in H. destruct H as [rtp [Hrtp H]]. apply field_proof_wf in Hrtp.
    apply rbind_ok in H. destruct H as [rip [Hrip H]]. apply field_proof_wf in Hrip.
    destruct (rs_hdr B r) as [rh|]; [|discriminate].
    apply rbind_ok in H. destruct H as [h [Hh H]]. apply wrap_ok in Hh.
    apply header_ok in Hh. destruct Hh as [Hhc _].
    apply rbind_ok in H. destruct H as [rts [Hrts H]]. apply wrap_ok in Hrts.
    apply rmap_rollup_txs_wf in Hrts.
    cbv zeta in H.
    apply rbind_ok in H. destruct H as [u1 [Hv1 H]]. apply check_verify_ok in Hv1.
    apply rbind_ok in H. destruct H as [u2 [Hv2 H]]. apply check_verify_ok in Hv2.
    apply rbind_ok in H. destruct H as [u3 [Hv3 H]]. apply check_verify_ok in Hv3.
    apply rbind_ok in H. destruct H as [u4 [Hv4 H]]. apply check_rollup_proofs_ok in Hv4.
    apply rbind_ok in H. destruct H as [uch [Huch H]]. apply uch_ok in Huch.
    destruct Huch as [-> Huch].
    apply rbind_ok in H. destruct H as [eci [Heci H]]. apply opt_eci_ok in Heci.
    destruct Heci as [Hec Hewf].
    injection H as <-. constructor; cbn [s_bh s_hdr s_rts s_rtp s_rip s_uch s_eci].
    - unfold DecodeModel.seq_block_checks. cbn [s_bh s_hdr s_rts s_rtp s_rip s_uch s_eci].
      rewrite Hbh, Hhc, Hv1, Hv2, Hv3, Hv4, Hec. reflexivity.
    - exact Hrtp.
    - exact Hrip.
    - apply collect_vals. exact Hrts.
    - eexists. reflexivity.
    - exact Huch.
    - exact Hewf.
  Qed.

  Lemma seq_block_roundtrip (Hbeq : BeqSpec B beq) v :
    seq_block_facts v -> seq_block_from_raw (seq_block_to_raw B v) = ROk v.
  Proof.
    intros [Hc Hrtp Hrip Hvals [rts Hcol] Huch Heci].
    unfold DecodeModel.seq_block_checks in Hc. cbv zeta in Hc.
    repeat (apply andb_prop in Hc; let C := fresh "C" in destruct Hc as [Hc C]).
    unfold DecodeModel.seq_block_from_raw, seq_block_to_raw.
    cbn [rs_bh rs_hdr rs_rts rs_rtp rs_rip rs_uch rs_eci].
    rewrite Hc. cbn [require rbind].
    rewrite (field_proof_roundtrip _ _ _ Hrtp). cbn [rbind].
    rewrite (field_proof_roundtrip _ _ _ Hrip). cbn [rbind].
    rewrite (header_roundtrip _ C4). cbn [wrap rbind].
    rewrite (rollup_txs_list_roundtrip _ Hvals). cbn [wrap rbind]. cbv zeta.
    assert (Hm : rollup_txs_collect (map snd (s_rts B v)) = s_rts B v).
    { apply (collect_idem Hbeq). rewrite Hcol. apply (collect_inv Hbeq). }
    rewrite Hm.
    rewrite (verifies_check _ _ _ _ C3). cbn [rbind].
    rewrite (verifies_check _ _ _ _ C2). cbn [rbind].
    rewrite (verifies_check _ _ _ _ C1). cbn [rbind].
    rewrite (rollup_proofs_verify_check _ _ _ C0). cbn [rbind].
    rewrite Huch. cbn [rbind].
    rewrite (opt_eci_roundtrip _ _ C Heci). cbn [rbind].
    destruct v. reflexivity.
  Qed.

  (** * filtered block *)

  Lemma filtered_np r : filtered_from_raw r <> RPanic.
  Proof.
    unfold DecodeModel.filtered_from_raw.
    apply rbind_np; [apply require_np|intros _ _].
    apply rbind_np; [apply field_proof_np|intros rtp Hrtp]. apply field_proof_wf in Hrtp.
    apply rbind_np; [apply field_proof_np|intros rip Hrip]. apply field_proof_wf in Hrip.
    destruct (rf_hdr B r) as [rh|]; [|discriminate].
    apply rbind_np; [apply wrap_np, header_np|intros h _].
    apply rbind_np; [apply wrap_np, rmap_np, rollup_txs_np|intros rts Hrts].
    apply wrap_ok in Hrts. apply rmap_rollup_txs_wf in Hrts.
    cbv zeta.
    apply rbind_np; [apply ids_np|intros all _].
    apply rbind_np; [apply check_verify_np; exact Hrtp|intros _ _].
    apply rbind_np; [apply check_rollup_proofs_np, rt_wf_proof_wf, collect_vals; exact Hrts|intros _ _].
    apply rbind_np; [apply check_verify_np; exact Hrip|intros _ _].
    apply rbind_np; [apply uch_np|intros ? _].
    apply rbind_np; [apply opt_eci_np|intros; discriminate].
  Qed.

  Record filtered_facts (v : Filtered B) : Prop := {
    ff_checks : filtered_checks B blen beq cat sha leafH nodeH emptyH cid_ok eci_parse v = true;
    ff_rtp : proof_wf (f_rtp B v) = true;
    ff_rip : proof_wf (f_rip B v) = true;
    ff_vals : vals_ok (fun rt => rt_wf rt = true) (f_rts B v);
    ff_collected : exists rts, f_rts B v = rollup_txs_collect rts;
    ff_all : ids_from_raw [TInvalidRollupId] (f_all B v) = ROk (f_all B v);
    ff_uch : uch_from_raw (f_uch B v) = ROk (f_uch B v);
    ff_eci : match f_eci B v with Some x => proof_wf (e_proof B x) = true | None => True end
  }.

  Lemma filtered_ok r v : filtered_from_raw r = ROk v -> filtered_facts v.
  Proof.
    unfold DecodeModel.filtered_from_raw. intros H.
    apply rbind_ok in H. destruct H as [u0 [Hbh H]]. apply require_ok in Hbh.
    apply rbind_ok in H. destruct H as [rtp [Hrtp H]]. apply field_proof_wf in Hrtp.
    apply rbind_ok in H. destruct H as [rip [Hrip H]]. apply field_proof_wf in Hrip.
    destruct (rf_hdr B r) as [rh|]; [|discriminate].
    apply rbind_ok in H. destruct H as [h [Hh H]]. apply wrap_ok in Hh.
    apply header_ok in Hh. destruct Hh as [Hhc _].
    apply rbind_ok in H. destruct H as [rts [Hrts H]]. apply wrap_ok in Hrts.
    apply rmap_rollup_txs_wf in Hrts.
    cbv zeta in H.
    apply rbind_ok in H. destruct H as [all [Hall H]]. apply ids_ok in Hall.
    destruct Hall as [-> Hall].
    apply rbind_ok in H. destruct H as [u1 [Hv1 H]]. apply check_verify_ok in Hv1.
    apply rbind_ok in H. destruct H as [u2 [Hv2 H]]. apply check_rollup_proofs_ok in Hv2.
    apply rbind_ok in H. destruct H as [u3 [Hv3 H]]. apply check_verify_ok in Hv3.
    apply rbind_ok in H. destruct H as [uch [Huch H]]. apply uch_ok in Huch.
    destruct Huch as [-> Huch].
    apply rbind_ok in H. destruct H as [eci [Heci H]]. apply opt_eci_ok in Heci.
    destruct Heci as [Hec Hewf].
    injection H as <-. constructor; cbn [f_bh f_hdr f_rts f_rtp f_all f_rip f_uch f_eci].
    - unfold DecodeModel.filtered_checks. cbn [f_bh f_hdr f_rts f_rtp f_all f_rip f_uch f_eci].
      rewrite Hbh, Hhc, Hv1, Hv2, Hv3, Hec. reflexivity.
    - exact Hrtp.
    - exact Hrip.
    - apply collect_vals. exact Hrts.
    - eexists. reflexivity.
    - exact Hall.
    - exact Huch.
    - exact Hewf.
  Qed.

  Lemma filtered_roundtrip (Hbeq : BeqSpec B beq) v :
    filtered_facts v -> filtered_from_raw (filtered_to_raw B v) = ROk v.
  Proof.
    intros [Hc Hrtp Hrip Hvals [rts Hcol] Hall Huch Heci].
    unfold DecodeModel.filtered_checks in Hc. cbv zeta in Hc.
    repeat (apply andb_prop in Hc; let C := fresh "C" in destruct Hc as [Hc C]).
    unfold DecodeModel.filtered_from_raw, filtered_to_raw.
    cbn [rf_bh rf_hdr rf_rts rf_rtp rf_all rf_rip rf_uch rf_eci].
    rewrite Hc. cbn [require rbind].
    rewrite (field_proof_roundtrip _ _ _ Hrtp). cbn [rbind].
    rewrite (field_proof_roundtrip _ _ _ Hrip). cbn [rbind].
    rewrite (header_roundtrip _ C3). cbn [wrap rbind].
    rewrite (rollup_txs_list_roundtrip _ Hvals). cbn [wrap rbind]. cbv zeta.
    assert (Hm : rollup_txs_collect (map snd (f_rts B v)) = f_rts B v).
    { apply (collect_idem Hbeq). rewrite Hcol. apply (collect_inv Hbeq). }
    rewrite Hm. rewrite Hall. cbn [rbind].
    rewrite (verifies_check _ _ _ _ C2). cbn [rbind].
    rewrite (rollup_proofs_verify_check _ _ _ C1). cbn [rbind].
    rewrite (verifies_check _ _ _ _ C0). cbn [rbind].
    rewrite Huch. cbn [rbind].
    rewrite (opt_eci_roundtrip _ _ C Heci). cbn [rbind].
    destruct v. reflexivity.
  Qed.

  (** * celestia metadata *)

  Lemma meta_np r : meta_from_raw r <> RPanic.
  Proof.
    unfold DecodeModel.meta_from_raw.
    destruct (rm_hdr B r) as [rh|]; [|discriminate].
    apply rbind_np; [apply wrap_np, header_np|intros h _].
    apply rbind_np; [apply ids_np|intros ids _].
    apply rbind_np; [apply field_proof_np|intros rtp Hrtp]. apply field_proof_wf in Hrtp.
    apply rbind_np; [apply field_proof_np|intros rip Hrip]. apply field_proof_wf in Hrip.
    apply rbind_np; [apply require_np|intros _ _].
    cbv zeta.
    apply rbind_np; [apply uch_np|intros ? _].
    apply rbind_np; [apply opt_eci_np|intros ? _].
    apply rbind_np; [apply check_verify_np; exact Hrtp|intros _ _].
    apply rbind_np; [apply check_verify_np; exact Hrip|intros; discriminate].
  Qed.

  Record meta_facts (v : Meta B) : Prop := {
    mf_checks : meta_checks B blen beq sha leafH nodeH emptyH cid_ok eci_parse v = true;
    mf_rtp : proof_wf (m_rtp B v) = true;
    mf_rip : proof_wf (m_rip B v) = true;
    mf_ids : ids_from_raw [TRollupIds] (m_ids B v) = ROk (m_ids B v);
    mf_uch : uch_from_raw (m_uch B v) = ROk (m_uch B v);
    mf_eci : match m_eci B v with Some x => proof_wf (e_proof B x) = true | None => True end
  }.

  Lemma meta_ok r v : meta_from_raw r = ROk v -> meta_facts v.
  Proof.
    unfold DecodeModel.meta_from_raw. intros H.
    destruct (rm_hdr B r) as [rh|]; [|discriminate].
    apply rbind_ok in H. destruct H as [h [Hh H]]. apply wrap_ok in Hh.
    apply header_ok in Hh. destruct Hh as [Hhc _].
    apply rbind_ok in H. destruct H as [ids [Hids H]]. apply ids_ok in Hids.
    destruct Hids as [-> Hids].
    apply rbind_ok in H. destruct H as [rtp [Hrtp H]]. apply field_proof_wf in Hrtp.
    apply rbind_ok in H. destruct H as [rip [Hrip H]]. apply field_proof_wf in Hrip.
    apply rbind_ok in H. destruct H as [u0 [Hbh H]]. apply require_ok in Hbh.
    cbv zeta in H.
    apply rbind_ok in H. destruct H as [uch [Huch H]]. apply uch_ok in Huch.
    destruct Huch as [-> Huch].
    apply rbind_ok in H. destruct H as [eci [Heci H]]. apply opt_eci_ok in Heci.
    destruct Heci as [Hec Hewf].
    apply rbind_ok in H. destruct H as [u1 [Hv1 H]]. apply check_verify_ok in Hv1.
    apply rbind_ok in H. destruct H as [u3 [Hv3 H]]. apply check_verify_ok in Hv3.
    injection H as <-. constructor; cbn [m_bh m_hdr m_ids m_rtp m_rip m_uch m_eci].
    - unfold DecodeModel.meta_checks. cbn [m_bh m_hdr m_ids m_rtp m_rip m_uch m_eci].
      rewrite Hbh, Hhc, Hv1, Hv3, Hec. reflexivity.
    - exact Hrtp.
    - exact Hrip.
    - exact Hids.
    - exact Huch.
    - exact Hewf.
  Qed.

  Lemma meta_roundtrip v : meta_facts v -> meta_from_raw (meta_to_raw B v) = ROk v.
  Proof.
    intros [Hc Hrtp Hrip Hids Huch Heci].
    unfold DecodeModel.meta_checks in Hc. cbv zeta in Hc.
    repeat (apply andb_prop in Hc; let C := fresh "C" in destruct Hc as [Hc C]).
    unfold DecodeModel.meta_from_raw, meta_to_raw.
    cbn [rm_bh rm_hdr rm_ids rm_rtp rm_rip rm_uch rm_eci].
    rewrite (header_roundtrip _ C2). cbn [wrap rbind].
    rewrite Hids. cbn [rbind].
    rewrite (field_proof_roundtrip _ _ _ Hrtp). cbn [rbind].
    rewrite (field_proof_roundtrip _ _ _ Hrip). cbn [rbind].
    rewrite Hc. cbn [require rbind]. cbv zeta.
    rewrite Huch. cbn [rbind].
    rewrite (opt_eci_roundtrip _ _ C Heci). cbn [rbind].
    rewrite (verifies_check _ _ _ _ C1). cbn [rbind].
    rewrite (verifies_check _ _ _ _ C0). cbn [rbind].
    destruct v. reflexivity.
  Qed.

  (** * celestia rollup data *)

  Lemma rollup_data_np r : rollup_data_from_raw r <> RPanic.
  Proof.
    unfold DecodeModel.rollup_data_from_raw. destruct (rd_id B r); [|discriminate].
    apply rbind_np; [apply require_np|intros _ _].
    apply rbind_np; [apply require_np|intros _ _].
    destruct (rd_proof B r); [|discriminate].
    apply rbind_np; [apply wrap_np, proof_from_raw_np|intros; discriminate].
  Qed.

  Lemma rollup_data_ok r v : rollup_data_from_raw r = ROk v ->
    rollup_data_checks B blen v = true.
  Proof.
    unfold DecodeModel.rollup_data_from_raw, DecodeModel.rollup_data_checks.
    destruct (rd_id B r) as [id|]; [|discriminate]. intros H.
    apply rbind_ok in H. destruct H as [u1 [H1 H]]. apply require_ok in H1.
    apply rbind_ok in H. destruct H as [u2 [H2 H]]. apply require_ok in H2.
    destruct (rd_proof B r) as [rp|]; [|discriminate].
    apply rbind_ok in H. destruct H as [p [Hp H]]. apply wrap_ok in Hp.
    apply proof_from_raw_wf in Hp. destruct Hp as [Hwf _].
    injection H as <-. cbn [d_bh d_id d_proof]. rewrite H1, H2, Hwf. reflexivity.
  Qed.

  Lemma rollup_data_roundtrip v : rollup_data_checks B blen v = true ->
    rollup_data_from_raw (rollup_data_to_raw B v) = ROk v.
  Proof.
    unfold DecodeModel.rollup_data_checks, DecodeModel.rollup_data_from_raw, rollup_data_to_raw.
    cbn [rd_bh rd_id rd_txs rd_proof]. intros H.
    apply andb_prop in H. destruct H as [H Hp]. apply andb_prop in H. destruct H as [Hbh Hid].
    rewrite Hid, Hbh. cbn [require rbind]. rewrite (proof_roundtrip _ Hp). cbn [wrap rbind].
    destruct v. reflexivity.
  Qed.

  (** * transaction *)

  Lemma tx_np r : tx_from_raw r <> RPanic.
  Proof.
    unfold DecodeModel.tx_from_raw.
    apply rbind_np; [apply require_np|intros _ _].
    apply rbind_np; [apply require_np|intros _ _].
    destruct (rt_body B r) as [[url value]|]; [|discriminate].
    apply rbind_np; [apply require_np|intros _ _].
    apply rbind_np; [apply require_np|intros _ _].
    destruct (body_parse value); discriminate.
  Qed.

  Lemma tx_ok r v : tx_from_raw r = ROk v -> tx_checks B blen vk_ok sig_ok body_parse v = true.
  Proof.
    unfold DecodeModel.tx_from_raw, DecodeModel.tx_checks. intros H.
    apply rbind_ok in H. destruct H as [u1 [H1 H]]. apply require_ok in H1.
    apply rbind_ok in H. destruct H as [u2 [H2 H]]. apply require_ok in H2.
    apply andb_prop in H2. destruct H2 as [H2 H2'].
    destruct (rt_body B r) as [[url value]|]; [|discriminate].
    apply rbind_ok in H. destruct H as [u3 [H3 H]]. apply require_ok in H3.
    apply rbind_ok in H. destruct H as [u4 [H4 H]]. apply require_ok in H4.
    destruct (body_parse value) eqn:Hb; [|discriminate].
    injection H as <-. cbn [t_sig t_vk t_body]. rewrite H1, H2, H2', H3, Hb. reflexivity.
  Qed.

  Lemma tx_roundtrip (Hbeq : BeqSpec B beq) v :
    tx_checks B blen vk_ok sig_ok body_parse v = true ->
    tx_from_raw (tx_to_raw B body_url v) = ROk v.
  Proof.
    unfold DecodeModel.tx_checks, DecodeModel.tx_from_raw, tx_to_raw.
    cbn [rt_sig rt_pk rt_body]. intros H.
    repeat (apply andb_prop in H; let C := fresh "C" in destruct H as [H C]).
    rewrite H, C2, C1, C0. cbn [andb require rbind].
    rewrite (beq_refl Hbeq). cbn [require rbind].
    destruct (body_parse (t_body B v)); [|discriminate C]. destruct v. reflexivity.
  Qed.

  (** * the three statements *)

  Theorem decode_total_sec :
    stmt_decode_total B blen beq cat sha leafH nodeH emptyH cid_ok eci_parse vk_ok sig_ok
                      body_url body_parse.
  Proof.
    unfold stmt_decode_total. repeat split.
    - exact tx_np.
    - exact seq_block_np.
    - exact filtered_np.
    - exact meta_np.
    - exact rollup_data_np.
    - intros l. unfold meta_list_from_raw. apply rmap_idx_np. exact meta_np.
    - intros l. unfold rollup_data_list_from_raw. apply rmap_idx_np. exact rollup_data_np.
  Qed.

  Lemma Forall2_forallb {A C} (f : A -> res C) (c : C -> bool) l vs :
    (forall x v, f x = ROk v -> c v = true) ->
    Forall2 (fun x v => f x = ROk v) l vs -> forallb c vs = true.
  Proof.
    intros Hc. induction 1 as [|x v l vs Hx _ IH]; cbn [forallb]; [reflexivity|].
    rewrite (Hc _ _ Hx), IH. reflexivity.
  Qed.

  Theorem accepted_consistent_sec :
    stmt_accepted_consistent B blen beq cat sha leafH nodeH emptyH cid_ok eci_parse vk_ok sig_ok
                             body_url body_parse.
  Proof.
    unfold stmt_accepted_consistent. repeat split.
    - exact tx_ok.
    - intros r v H. apply (sf_checks _ (seq_block_ok _ _ H)).
    - intros r v H. apply (ff_checks _ (filtered_ok _ _ H)).
    - intros r v H. apply (mf_checks _ (meta_ok _ _ H)).
    - exact rollup_data_ok.
    - intros l vs H. unfold meta_list_from_raw in H. apply rmap_idx_ok_Forall2 in H.
      eapply Forall2_forallb; [|exact H]. intros r v Hv. apply (mf_checks _ (meta_ok _ _ Hv)).
    - intros l vs H. unfold rollup_data_list_from_raw in H. apply rmap_idx_ok_Forall2 in H.
      eapply Forall2_forallb; [|exact H]. exact rollup_data_ok.
  Qed.

  Lemma Forall2_roundtrip {R V} (f : R -> res V) (g : V -> R) l vs :
    (forall x v, f x = ROk v -> f (g v) = ROk v) ->
    Forall2 (fun x v => f x = ROk v) l vs ->
    Forall2 (fun x v => f x = ROk v) (map g vs) vs.
  Proof.
    intros Hr. induction 1 as [|x v l vs Hx _ IH]; cbn [map]; constructor; [|exact IH].
    eapply Hr. exact Hx.
  Qed.

  Theorem reencode_sec :
    stmt_reencode B blen beq cat sha leafH nodeH emptyH cid_ok eci_parse vk_ok sig_ok
                  body_url body_parse.
  Proof.
    unfold stmt_reencode. intros Hbeq. repeat split.
    - intros r v H. apply (tx_roundtrip Hbeq), (tx_ok _ _ H).
    - intros r v H. apply (seq_block_roundtrip Hbeq), (seq_block_ok _ _ H).
    - intros r v H. apply (filtered_roundtrip Hbeq), (filtered_ok _ _ H).
    - intros r v H. apply meta_roundtrip, (meta_ok _ _ H).
    - intros r v H. apply rollup_data_roundtrip, (rollup_data_ok _ _ H).
    - intros l vs H. unfold meta_list_from_raw in *. apply rmap_idx_ok_Forall2 in H.
      apply Forall2_rmap_idx. eapply Forall2_roundtrip; [|exact H].
      intros r v Hv. apply meta_roundtrip, (meta_ok _ _ Hv).
    - intros l vs H. unfold rollup_data_list_from_raw in *. apply rmap_idx_ok_Forall2 in H.
      apply Forall2_rmap_idx. eapply Forall2_roundtrip; [|exact H].
      intros r v Hv. apply rollup_data_roundtrip, (rollup_data_ok _ _ Hv).
  Qed.
  Theorem rollup_proofs_verify_accepted_sec :
    (forall r v, seq_block_from_raw r = ROk v ->
                 rollup_proofs_verify (h_rtr B (s_hdr B v)) (s_rts B v) = true) /\
    (forall r v, filtered_from_raw r = ROk v ->
                 rollup_proofs_verify (h_rtr B (f_hdr B v)) (f_rts B v) = true).
  Proof.
    split; intros r v H.
    - apply seq_block_ok in H. destruct H as [Hc _ _ _ _ _ _].
      unfold DecodeModel.seq_block_checks in Hc. cbv zeta in Hc.
      repeat (apply andb_prop in Hc; let C := fresh "C" in destruct Hc as [Hc C]). exact C0.
    - apply filtered_ok in H. destruct H as [Hc _ _ _ _ _ _ _].
      unfold DecodeModel.filtered_checks in Hc. cbv zeta in Hc.
      repeat (apply andb_prop in Hc; let C := fresh "C" in destruct Hc as [Hc C]). exact C1.
  Qed.
End Proofs.

Theorem decode_total : forall B blen beq cat sha leafH nodeH emptyH cid_ok eci_parse vk_ok sig_ok
                              body_url body_parse,
  stmt_decode_total B blen beq cat sha leafH nodeH emptyH cid_ok eci_parse vk_ok sig_ok
                    body_url body_parse.
Proof. exact decode_total_sec. Qed.

Theorem accepted_consistent : forall B blen beq cat sha leafH nodeH emptyH cid_ok eci_parse vk_ok
                                     sig_ok body_url body_parse,
  stmt_accepted_consistent B blen beq cat sha leafH nodeH emptyH cid_ok eci_parse vk_ok sig_ok
                           body_url body_parse.
Proof. exact accepted_consistent_sec. Qed.

Theorem reencode : forall B blen beq cat sha leafH nodeH emptyH cid_ok eci_parse vk_ok sig_ok
                          body_url body_parse,
  stmt_reencode B blen beq cat sha leafH nodeH emptyH cid_ok eci_parse vk_ok sig_ok
                body_url body_parse.
Proof. exact reencode_sec. Qed.

Theorem rollup_proofs_verify_accepted :
  forall B blen beq cat sha leafH nodeH emptyH cid_ok eci_parse,
    (forall r v,
       seq_block_from_raw B blen beq cat sha leafH nodeH emptyH cid_ok eci_parse r = ROk v ->
       rollup_proofs_verify B beq cat leafH nodeH emptyH (h_rtr B (s_hdr B v)) (s_rts B v) = true) /\
    (forall r v,
       filtered_from_raw B blen beq cat sha leafH nodeH emptyH cid_ok eci_parse r = ROk v ->
       rollup_proofs_verify B beq cat leafH nodeH emptyH (h_rtr B (f_hdr B v)) (f_rts B v) = true).
Proof.
  intros. apply (rollup_proofs_verify_accepted_sec B blen beq cat sha leafH nodeH emptyH cid_ok eci_parse
                   (fun _ => true) (fun _ _ _ => true) (fun _ => BodyOk)).
Qed.

(** * lifting through the abstract wire codec *)

Theorem wire_lift : stmt_wire_lift.
Proof.
  unfold stmt_wire_lift, blob_decode, wire_decode.
  intros W Raw V wdec wenc decompress compress from_raw to_raw checks Hcodec Hbrotli Hnp Hchk Hrt w.
  repeat split.
  - destruct (wdec w); [apply Hnp|discriminate].
  - destruct (decompress w) as [d|]; [|discriminate]. destruct (wdec d); [apply Hnp|discriminate].
  - destruct (wdec w) as [r|]; [|discriminate]. eapply Hchk. exact H.
  - destruct (wdec w) as [r|]; [|discriminate]. rewrite Hcodec. eapply Hrt. exact H.
  - destruct (decompress w) as [d|]; [|discriminate].
    destruct (wdec d) as [r|]; [|discriminate]. eapply Hchk. exact H.
  - destruct (decompress w) as [d|]; [|discriminate].
    destruct (wdec d) as [r|]; [|discriminate]. rewrite Hbrotli, Hcodec. eapply Hrt. exact H.
Qed.

(** * a toy instantiation: non-vacuity and the refutation witness *)

Module Toy.
  Definition B : Type := (N * N)%type.           (* (length, content) *)
  Definition blen (x : B) : N := fst x.
  Definition beq (a b : B) : bool := (fst a =? fst b) && (snd a =? snd b).
  Definition cat (a b : B) : B := (fst a + fst b, snd a * 1000003 + snd b + 1).
  Definition sha (x : B) : B := (32, 7 * snd x + fst x + 3).
  Definition leafH (x : B) : B := (32, 2 * snd x + 1).
  Definition nodeH (a b : B) : B := (32, 3 * snd a + 5 * snd b + 11).
  Definition emptyH : B := (32, 0).
  Definition cid_ok (x : B) : bool := negb (fst x =? 0) && (fst x <=? 50).
  Definition eci_parse (_ : B) : eci_res := EciOk.
  Definition vk_ok (_ : B) : bool := true.
  Definition sig_ok (k s m : B) : bool := snd s =? snd k + snd m.
  Definition body_url : B := (5, 99).
  Definition body_parse (_ : B) : body_res := BodyOk.

  Lemma beq_spec : BeqSpec B beq.
  Proof.
    intros [a1 a2] [b1 b2]. unfold beq. cbn [fst snd]. split.
    - intros H. apply andb_prop in H. destruct H as [H1 H2].
      apply N.eqb_eq in H1, H2. subst. reflexivity.
    - intros H. injection H as -> ->. rewrite !N.eqb_refl. reflexivity.
  Qed.

  Definition seq_block_from_raw :=
    seq_block_from_raw B blen beq cat sha leafH nodeH emptyH cid_ok eci_parse.
  Definition filtered_from_raw :=
    filtered_from_raw B blen beq cat sha leafH nodeH emptyH cid_ok eci_parse.
  Definition meta_from_raw := meta_from_raw B blen beq sha leafH nodeH emptyH cid_ok eci_parse.
  Definition tx_from_raw := tx_from_raw B blen beq vk_ok sig_ok body_url body_parse.

  (** a block with one rollup without transactions *)
  Definition id0 : B := (32, 5).
  Definition good_rollup_proof : RawProof B :=
    {| rp_path := []; rp_extra := 0; rp_idx := 0; rp_size := 1 |}.
  Definition bad_rollup_proof : RawProof B :=
    {| rp_path := [(32, 12345)]; rp_extra := 0; rp_idx := 0; rp_size := 1 |}.
  Definition rtr : B := rollup_leaf B cat leafH nodeH emptyH id0 [].
  Definition l0 : B := leafH (sha rtr).
  Definition l1 : B := leafH (sha (ids_root B leafH nodeH emptyH [id0])).
  Definition dh : B := nodeH l0 l1.
  Definition hdr : RawHeader B :=
    {| rh_cid := (4, 1); rh_height := 7; rh_time := Some (1700000000, 5)%Z;
       rh_rtr := rtr; rh_dh := dh; rh_pa := (20, 9) |}.
  Definition rtp : RawProof B := {| rp_path := [l1]; rp_extra := 0; rp_idx := 0; rp_size := 3 |}.
  Definition rip : RawProof B := {| rp_path := [l0]; rp_extra := 0; rp_idx := 1; rp_size := 3 |}.
  Definition eci0 : B := (0, 0).
  Definition dh_eci : B := nodeH (nodeH l0 l1) (leafH (sha eci0)).

  Definition block (p : RawProof B) : RawSeqBlock B :=
    {| rs_bh := (32, 1); rs_hdr := Some hdr;
       rs_rts := [{| rr_id := Some id0; rr_txs := []; rr_proof := Some p |}];
       rs_rtp := Some rtp; rs_rip := Some rip; rs_uch := [(32, 77)]; rs_eci := None |}.

  Definition filtered (p : RawProof B) : RawFiltered B :=
    {| rf_bh := (32, 1); rf_hdr := Some hdr;
       rf_rts := [{| rr_id := Some id0; rr_txs := []; rr_proof := Some p |}];
       rf_rtp := Some rtp; rf_all := [id0]; rf_rip := Some rip; rf_uch := []; rf_eci := None |}.

  Definition meta : RawMeta B :=
    {| rm_bh := (32, 1); rm_hdr := Some hdr; rm_ids := [id0];
       rm_rtp := Some rtp; rm_rip := Some rip; rm_uch := []; rm_eci := None |}.

  Definition tx : RawTx B :=
    {| rt_sig := (64, 30); rt_pk := (32, 10); rt_body := Some (body_url, (9, 20)) |}.

  Definition is_ok {A} (x : res A) : bool := match x with ROk _ => true | _ => false end.

  (** non-vacuity: every decoder accepts something *)
  Example block_accepted : is_ok (seq_block_from_raw (block good_rollup_proof)) = true.
  Proof. vm_compute. reflexivity. Qed.
  Example filtered_accepted : is_ok (filtered_from_raw (filtered good_rollup_proof)) = true.
  Proof. vm_compute. reflexivity. Qed.
  Example meta_accepted : is_ok (meta_from_raw meta) = true.
  Proof. vm_compute. reflexivity. Qed.
  Example tx_accepted : is_ok (tx_from_raw tx) = true.
  Proof. vm_compute. reflexivity. Qed.
  Example rollup_data_accepted :
    is_ok (rollup_data_from_raw B blen {| rd_bh := (32, 1); rd_id := Some id0; rd_txs := [];
                                          rd_proof := Some good_rollup_proof |}) = true.
  Proof. vm_compute. reflexivity. Qed.
  (** and rejects something for the reason the code gives *)
  Example filtered_rejects_bad_rollup_proof :
    filtered_from_raw (filtered bad_rollup_proof) =
    RErr [TRollupTransactionForIdNotInSequencerBlock].
  Proof. vm_compute. reflexivity. Qed.
  Example block_rejects_big_index :
    seq_block_from_raw
      (block {| rp_path := []; rp_extra := 0; rp_idx := 9223372036854775808; rp_size := 1 |}) =
    RErr [TParseRollupTransactions; TProofInvalid; TInvalidProof; TLeafIndexOutsideTree].
  Proof. vm_compute. reflexivity. Qed.

  (** BEFORE the F11 fix the full sequencer block was accepted although the inclusion proof of its
      only rollup does not verify against the header's rollup transactions root *)
  Definition seq_block_from_raw_before_F11_fix :=
    seq_block_from_raw_before_F11_fix B blen beq cat sha leafH nodeH emptyH cid_ok eci_parse.

  (** the repaired decoder rejects the witness, with the error the fix returns *)
  Example block_rejects_bad_rollup_proof :
    seq_block_from_raw (block bad_rollup_proof) = RErr [TRollupTransactionsNotInSequencerBlock].
  Proof. vm_compute. reflexivity. Qed.
  (** both decoders agree on the honest block *)
  Example before_fix_accepts_good_block :
    seq_block_from_raw_before_F11_fix (block good_rollup_proof) =
    seq_block_from_raw (block good_rollup_proof).
  Proof. vm_compute. reflexivity. Qed.

  Definition accepted_with_bad_proof : bool :=
    match seq_block_from_raw_before_F11_fix (block bad_rollup_proof) with
    | ROk v => negb (rollup_proofs_verify B beq cat leafH nodeH emptyH (h_rtr B (s_hdr B v)) (s_rts B v))
    | _ => false
    end.

  Lemma accepted_with_bad_proof_true : accepted_with_bad_proof = true.
  Proof. vm_compute. reflexivity. Qed.

  Lemma block_with_bad_rollup_proof_accepted :
    exists v, seq_block_from_raw_before_F11_fix (block bad_rollup_proof) = ROk v /\
              rollup_proofs_verify B beq cat leafH nodeH emptyH (h_rtr B (s_hdr B v)) (s_rts B v)
              = false.
  Proof.
    pose proof accepted_with_bad_proof_true as H. unfold accepted_with_bad_proof in H.
    destruct (seq_block_from_raw_before_F11_fix (block bad_rollup_proof)) as [v|e|]; try discriminate H.
    exists v. split; [reflexivity|]. apply negb_true_iff. exact H.
  Qed.
End Toy.

Theorem seq_block_before_F11_fix_refuted :
  exists B blen beq cat sha leafH nodeH emptyH cid_ok eci_parse,
    BeqSpec B beq /\
    ~ stmt_seq_block_rollup_proofs_before_F11_fix B blen beq cat sha leafH nodeH emptyH cid_ok
        eci_parse.
Proof.
  exists Toy.B, Toy.blen, Toy.beq, Toy.cat, Toy.sha, Toy.leafH, Toy.nodeH, Toy.emptyH,
         Toy.cid_ok, Toy.eci_parse.
  split; [exact Toy.beq_spec|].
  intros H. destruct Toy.block_with_bad_rollup_proof_accepted as [v [Hv Hbad]].
  specialize (H _ _ Hv). rewrite H in Hbad. discriminate.
Qed.
