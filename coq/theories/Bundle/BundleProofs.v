(** C16 — proofs about the [BundleFactory] model. *)
From Astria Require Import Bundle.BundleModel.
Arguments N.add : simpl never.
Arguments N.mul : simpl never.
Arguments N.leb : simpl never.
Arguments N.ltb : simpl never.
Arguments N.min : simpl never.

Definition ids (b : bundle) : list N := map it_id (b_items b).
Definition true_size (b : bundle) : N := sumN (map it_size (b_items b)).

(** A bundle is well-formed w.r.t. [mx]: its recorded size is the true sum and within the limit. *)
Definition WF (mx : N) (b : bundle) : Prop :=
  b_size b = true_size b /\ true_size b <= mx.

Definition Inv (s : st) : Prop :=
  WF (maxb s) (cur s) /\ Forall (WF (maxb s)) (fin s) /\ lenN (fin s) <= capq s.

(** everything accepted and not yet emitted, oldest first *)
Definition pending (s : st) : list N := concat (map ids (fin s)) ++ ids (cur s).

Definition accepted1 (o : op) (x : out) : list N :=
  match o, x with Push id _, OOk => [id] | _, _ => [] end.
Definition emitted1 (x : out) : list N :=
  match x with OBundle b => ids b | _ => [] end.

Fixpoint accepted (ops : list op) (outs : list out) : list N :=
  match ops, outs with
  | o :: r, x :: xs => accepted1 o x ++ accepted r xs
  | _, _ => []
  end.
Definition emitted (outs : list out) : list N := concat (map emitted1 outs).

Lemma WF_empty mx : WF mx empty_bundle.
Proof. unfold WF, true_size; cbn. split; [reflexivity|lia]. Qed.

(** [SizedBundle::try_push] characterised arithmetically (no saturation under [2*mx <= U64_MAX]). *)
Lemma sb_try_push_spec mx b it :
  2 * mx <= U64_MAX -> WF mx b ->
  match sb_try_push mx b it with
  | inr TooLarge => mx < it_size it
  | inr NotEnoughSpace => it_size it <= mx /\ mx < true_size b + it_size it
  | inl b' => it_size it <= mx /\ true_size b + it_size it <= mx /\
              b_items b' = b_items b ++ [it] /\ WF mx b'
  end.
Proof.
  intros Hmx [Hsz Hle]. unfold sb_try_push.
  destruct (N.ltb_spec mx (it_size it)) as [Hl|Hl]; [exact Hl|].
  assert (Hsat : saturating_add U64_MAX (b_size b) (it_size it) = true_size b + it_size it).
  { rewrite saturating_add_exact; rewrite Hsz; lia. }
  rewrite Hsat.
  destruct (N.ltb_spec mx (true_size b + it_size it)) as [Hl2|Hl2].
  - split; assumption.
  - repeat split; try assumption; cbn [b_items b_size].
    + unfold true_size; cbn [b_items]. rewrite map_app, sumN_app; cbn [map sumN]. 
      unfold true_size in *. lia.
    + unfold true_size in *; cbn [b_items]. rewrite map_app, sumN_app; cbn [map sumN]. lia.
Qed.

Lemma lenN_app {A} (l : list A) x : lenN (l ++ [x]) = lenN l + 1.
Proof. unfold lenN. rewrite app_length; cbn [length]. lia. Qed.

Lemma lenN_cons {A} (l : list A) x : lenN (x :: l) = lenN l + 1.
Proof. unfold lenN. cbn [length]. lia. Qed.

(** One step preserves the invariant, keeps [maxb]/[capq], and
    emitted ++ pending' = pending ++ accepted. *)
Lemma step_inv s o :
  2 * maxb s <= U64_MAX -> Inv s ->
  let '(s', x) := step s o in
  Inv s' /\ maxb s' = maxb s /\ capq s' = capq s /\
  emitted1 x ++ pending s' = pending s ++ accepted1 o x /\
  (forall b, x = OBundle b -> WF (maxb s) b).
Proof.
  intros Hmx HI. pose proof HI as (Hcur & Hfin & Hlen).
  destruct o as [id sz| |]; cbn [step].
  - (* Push *)
    unfold try_push.
    pose proof (sb_try_push_spec (maxb s) (cur s) {| it_id := id; it_size := sz |} Hmx Hcur) as Hs.
    destruct (sb_try_push (maxb s) (cur s) {| it_id := id; it_size := sz |}) as [b'|[|]].
    + destruct Hs as (H1 & H2 & H3 & H4).
      split; [|split; [|split; [|split]]]; cbn [maxb capq fin cur]; try reflexivity.
      * split; [|split]; assumption.
      * unfold pending, ids; cbn [fin cur accepted1 emitted1 app]. rewrite H3, map_app; cbn [map it_id].
        now rewrite app_assoc.
      * intros ? ?; discriminate.
    + (* NotEnoughSpace *)
      destruct (N.leb_spec (capq s) (lenN (fin s))) as [Hc|Hc].
      * split; [|split; [|split; [|split]]]; try reflexivity; try assumption.
        -- cbn [accepted1 emitted1 app]. now rewrite app_nil_r.
        -- intros ? ?; discriminate.
      * pose proof (sb_try_push_spec (maxb s) empty_bundle {| it_id := id; it_size := sz |} Hmx
                      (WF_empty _)) as Hs2.
        destruct (sb_try_push (maxb s) empty_bundle {| it_id := id; it_size := sz |}) as [b2|[|]].
        -- destruct Hs2 as (H1 & H2 & H3 & H4).
           split; [|split; [|split; [|split]]]; cbn [maxb capq fin cur]; try reflexivity.
           ++ split; [|split]; cbn [maxb capq fin cur]; try assumption.
              ** apply Forall_app; split; [assumption|constructor; [assumption|constructor]].
              ** rewrite lenN_app. lia.
           ++ unfold pending, ids; cbn [fin cur accepted1 emitted1 app].
              rewrite H3; cbn [b_items empty_bundle app map it_id].
              rewrite map_app, concat_app; cbn [map concat]. rewrite app_nil_r.
              now rewrite <- app_assoc.
           ++ intros ? ?; discriminate.
        -- exfalso. destruct Hs as [Hs _]. cbn [it_size] in *.
           destruct Hs2 as [_ Hs2]. unfold true_size in Hs2; cbn in Hs2. lia.
        -- exfalso. destruct Hs as [Hs _]. cbn [it_size] in *. lia.
    + split; [|split; [|split; [|split]]]; try reflexivity; try assumption.
      * cbn [accepted1 emitted1 app]. now rewrite app_nil_r.
      * intros ? ?; discriminate.
  - (* PopFinished *)
    destruct (fin s) as [|b r] eqn:Hf.
    + split; [|split; [|split; [|split]]]; try reflexivity; try assumption.
      * cbn [accepted1 emitted1 app]. now rewrite app_nil_r.
      * intros ? ?; discriminate.
    + inversion Hfin as [|? ? Hb Hr]; subst.
      split; [|split; [|split; [|split]]]; cbn [maxb capq fin cur]; try reflexivity.
      * split; [|split]; cbn [maxb capq fin cur]; try assumption.
        rewrite lenN_cons in Hlen. lia.
      * unfold pending; cbn [fin cur accepted1 emitted1]. rewrite Hf; cbn [map concat].
        rewrite app_nil_r. now rewrite app_assoc.
      * intros b0 Hb0; inversion Hb0; subst; assumption.
  - (* PopNow *)
    destruct (fin s) as [|b r] eqn:Hf.
    + split; [|split; [|split; [|split]]]; cbn [maxb capq fin cur]; try reflexivity.
      * unfold Inv; cbn [maxb capq fin cur].
        split; [apply WF_empty | split; [constructor | unfold lenN; cbn [length]; lia]].
      * unfold pending; cbn [fin cur accepted1 emitted1]. rewrite Hf; cbn [map concat app ids b_items empty_bundle].
        now rewrite !app_nil_r.
      * intros b0 Hb0; inversion Hb0; subst; assumption.
    + inversion Hfin as [|? ? Hb Hr]; subst.
      split; [|split; [|split; [|split]]]; cbn [maxb capq fin cur]; try reflexivity.
      * split; [|split]; cbn [maxb capq fin cur]; try assumption.
        rewrite lenN_cons in Hlen. lia.
      * unfold pending; cbn [fin cur accepted1 emitted1]. rewrite Hf; cbn [map concat].
        rewrite app_nil_r. now rewrite app_assoc.
      * intros b0 Hb0; inversion Hb0; subst; assumption.
Qed.

Lemma Inv_init mx cap : Inv (init mx cap).
Proof.
  unfold Inv, init; cbn [cur fin maxb capq].
  split; [apply WF_empty | split; [constructor | unfold lenN; cbn [length]; lia]].
Qed.

(** Lift to every script. *)
Lemma run_inv ops : forall s,
  2 * maxb s <= U64_MAX -> Inv s ->
  let '(s', outs) := run s ops in
  Inv s' /\ maxb s' = maxb s /\ capq s' = capq s /\
  emitted outs ++ pending s' = pending s ++ accepted ops outs /\
  Forall (fun x => forall b, x = OBundle b -> WF (maxb s) b) outs.
Proof.
  induction ops as [|o r IH]; intros s Hmx HI; cbn [run].
  - split; [assumption|split; [reflexivity|split; [reflexivity|split]]].
    + cbn [accepted emitted map concat app]. now rewrite app_nil_r.
    + constructor.
  - pose proof (step_inv s o Hmx HI) as Hst.
    destruct (step s o) as [s1 x].
    destruct Hst as (HI1 & Hm1 & Hc1 & Hq1 & Hb1).
    assert (Hmx1 : 2 * maxb s1 <= U64_MAX) by (rewrite Hm1; exact Hmx).
    specialize (IH s1 Hmx1 HI1).
    destruct (run s1 r) as [s2 xs].
    destruct IH as (HI2 & Hm2 & Hc2 & Hq2 & Hb2).
    split; [assumption|split; [congruence|split; [congruence|split]]].
    + unfold emitted in *; cbn [map concat accepted].
      rewrite <- app_assoc, Hq2, app_assoc, Hq1, <- app_assoc. reflexivity.
    + constructor; [assumption|]. rewrite Hm1 in Hb2. exact Hb2.
Qed.

(** ---- The C16 theorems ---- *)

(** (1) exactly once, in order: what has been emitted, followed by what is still queued, is
        exactly the sequence of accepted transactions — after every script. *)
Theorem fifo_exactly_once mx cap ops :
  2 * mx <= U64_MAX ->
  let '(s', outs) := run (init mx cap) ops in
  emitted outs ++ pending s' = accepted ops outs.
Proof.
  intros Hmx. pose proof (run_inv ops (init mx cap) Hmx (Inv_init mx cap)) as H.
  destruct (run (init mx cap) ops) as [s' outs].
  destruct H as (_ & _ & _ & H & _). exact H.
Qed.

(** (2) no emitted bundle exceeds the maximum, and its reported size is its true size. *)
Theorem emitted_within_limit mx cap ops :
  2 * mx <= U64_MAX ->
  let '(_, outs) := run (init mx cap) ops in
  forall b, In (OBundle b) outs -> true_size b <= mx /\ b_size b = true_size b.
Proof.
  intros Hmx. pose proof (run_inv ops (init mx cap) Hmx (Inv_init mx cap)) as H.
  destruct (run (init mx cap) ops) as [s' outs].
  destruct H as (_ & _ & _ & _ & H). intros b Hb.
  rewrite Forall_forall in H. destruct (H _ Hb b eq_refl) as [H1 H2]. split; assumption.
Qed.

(** (3) refusal: only when the item alone is too large, or it does not fit the current bundle
        and the finished queue is full; a refusal changes nothing. *)
Theorem refusal_exact s id sz :
  2 * maxb s <= U64_MAX -> Inv s ->
  let '(s', x) := step s (Push id sz) in
  (x = OTooLarge <-> maxb s < sz) /\
  (x = OQueueFull <-> (sz <= maxb s /\ maxb s < true_size (cur s) + sz /\ capq s <= lenN (fin s))) /\
  (x = OOk \/ x = OTooLarge \/ x = OQueueFull) /\
  (x <> OOk -> s' = s).
Proof.
  intros Hmx (Hcur & Hfin & Hlen). cbn [step]. unfold try_push.
  pose proof (sb_try_push_spec (maxb s) (cur s) {| it_id := id; it_size := sz |} Hmx Hcur) as Hs.
  destruct (sb_try_push (maxb s) (cur s) {| it_id := id; it_size := sz |}) as [b'|[|]];
    cbn [it_size] in Hs.
  - destruct Hs as (H1 & H2 & _).
    split; [|split; [|split]].
    + split; [discriminate | lia].
    + split; [discriminate | intros (_ & ? & _); lia].
    + left; reflexivity.
    + intros Hne; contradiction Hne; reflexivity.
  - destruct Hs as (H1 & H2).
    destruct (N.leb_spec (capq s) (lenN (fin s))) as [Hc|Hc].
    + split; [|split; [|split]].
      * split; [discriminate | lia].
      * split; [intros _; repeat split; assumption | reflexivity].
      * right; right; reflexivity.
      * reflexivity.
    + pose proof (sb_try_push_spec (maxb s) empty_bundle {| it_id := id; it_size := sz |} Hmx
                    (WF_empty _)) as Hs2.
      destruct (sb_try_push (maxb s) empty_bundle {| it_id := id; it_size := sz |}) as [b2|[|]];
        cbn [it_size] in Hs2.
      * split; [|split; [|split]].
        -- split; [discriminate | lia].
        -- split; [discriminate | intros (_ & _ & ?); lia].
        -- left; reflexivity.
        -- intros Hne; contradiction Hne; reflexivity.
      * exfalso. destruct Hs2 as [_ Hs2]. unfold true_size in Hs2; cbn in Hs2. lia.
      * exfalso. lia.
  - split; [|split; [|split]].
    + split; [intros _; exact Hs | intros _; reflexivity].
    + split; [discriminate | intros (? & _); lia].
    + right; left; reflexivity.
    + reflexivity.
Qed.

(** (4) the finished queue never exceeds its capacity, in every reachable state. *)
Theorem finished_within_capacity mx cap ops :
  2 * mx <= U64_MAX ->
  let '(s', _) := run (init mx cap) ops in lenN (fin s') <= cap.
Proof.
  intros Hmx. pose proof (run_inv ops (init mx cap) Hmx (Inv_init mx cap)) as H.
  destruct (run (init mx cap) ops) as [s' outs].
  destruct H as ((_ & _ & H) & _ & Hc & _). cbn [init capq] in Hc. rewrite Hc in H. exact H.
Qed.

(** Non-vacuity: a concrete run with flushes, refusals and pops. *)
Example c16_run_example :
  let ops := [Push 1 40; Push 2 40; Push 3 40; Push 4 101; Push 5 60; Push 6 60; PopFinished; PopNow; PopNow] in
  let '(s', outs) := run (init 100 1) ops in
  outs = [OOk; OOk; OOk; OTooLarge; OOk; OQueueFull;
          OBundle {| b_items := [{|it_id:=1;it_size:=40|};{|it_id:=2;it_size:=40|}]; b_size := 80 |};
          OBundle {| b_items := [{|it_id:=3;it_size:=40|};{|it_id:=5;it_size:=60|}]; b_size := 100 |};
          OBundle empty_bundle].
Proof. vm_compute. reflexivity. Qed.
