(** C16 — model of astria-composer's [BundleFactory]
    (crates/astria-composer/src/executor/bundle_factory/mod.rs).
    Proof-free: this file is what gets extracted and run against the code. *)
From Astria Require Export Base.Bounded.

Record item := { it_id : N; it_size : N }.

(** [SizedBundle]: [buffer] oldest first, [curr_size], [max_size]. *)
Record bundle := { b_items : list item; b_size : N }.

Definition empty_bundle : bundle := {| b_items := []; b_size := 0 |}.

Record st := {
  cur  : bundle;          (* curr_bundle *)
  fin  : list bundle;     (* finished: VecDeque, front first *)
  maxb : N;               (* max_bytes_per_bundle *)
  capq : N                (* finished_queue_capacity *)
}.

Definition init (mx cap : N) : st :=
  {| cur := empty_bundle; fin := []; maxb := mx; capq := cap |}.

Inductive op :=
| Push (id size : N)      (* try_push of an action whose encoded_len is [size] *)
| PopFinished             (* next_finished().map(pop) *)
| PopNow.                 (* pop_now() *)

Inductive out :=
| OOk
| OTooLarge
| OQueueFull
| ONone
| OBundle (b : bundle).

Inductive sb_err := NotEnoughSpace | TooLarge.

(** [SizedBundle::try_push] *)
Definition sb_try_push (mx : N) (b : bundle) (it : item) : bundle + sb_err :=
  if mx <? it_size it then inr TooLarge
  else
    let new_size := saturating_add U64_MAX (b_size b) (it_size it) in
    if mx <? new_size then inr NotEnoughSpace
    else inl {| b_items := b_items b ++ [it]; b_size := new_size |}.

Definition lenN {A} (l : list A) : N := N.of_nat (length l).

(** [BundleFactory::try_push] *)
Definition try_push (s : st) (it : item) : st * out :=
  match sb_try_push (maxb s) (cur s) it with
  | inr TooLarge => (s, OTooLarge)
  | inr NotEnoughSpace =>
      if capq s <=? lenN (fin s) then (s, OQueueFull)
      else
        match sb_try_push (maxb s) empty_bundle it with
        | inl b' => ({| cur := b'; fin := fin s ++ [cur s]; maxb := maxb s; capq := capq s |}, OOk)
        | inr _ => (s, OTooLarge)   (* the [expect] in the code; unreachable, see Proofs *)
        end
  | inl b' => ({| cur := b'; fin := fin s; maxb := maxb s; capq := capq s |}, OOk)
  end.

Definition step (s : st) (o : op) : st * out :=
  match o with
  | Push id sz => try_push s {| it_id := id; it_size := sz |}
  | PopFinished =>
      match fin s with
      | [] => (s, ONone)
      | b :: r => ({| cur := cur s; fin := r; maxb := maxb s; capq := capq s |}, OBundle b)
      end
  | PopNow =>
      match fin s with
      | b :: r => ({| cur := cur s; fin := r; maxb := maxb s; capq := capq s |}, OBundle b)
      | [] => ({| cur := empty_bundle; fin := []; maxb := maxb s; capq := capq s |}, OBundle (cur s))
      end
  end.

(** Run a whole script, collecting outputs. *)
Fixpoint run (s : st) (ops : list op) : st * list out :=
  match ops with
  | [] => (s, [])
  | o :: r => let '(s1, x) := step s o in
              let '(s2, xs) := run s1 r in (s2, x :: xs)
  end.
