(** C08 — pinned statements only.  [None] = the Rust code would panic; hashes are abstract. *)
From Astria Require Import Merkle.MerkleModel Merkle.MerkleSpec Merkle.MerkleSound Merkle.MerkleTotal Merkle.MerkleRootFull.

(** A proof verifies only for the leaf it was built for (else an explicit hash collision). *)
Theorem C08_sound_leaf : forall (D : Type) (nodeH : D -> D -> D) (eqD : D -> D -> bool),
  EqDSpec D eqD -> forall p l l' r,
  verify D nodeH eqD p l r = Some true -> verify D nodeH eqD p l' r = Some true ->
  l = l' \/ Collision D nodeH.
Proof. exact sound_leaf. Qed.
Print Assumptions C08_sound_leaf.

(** Changing any element of the audit path makes verification fail (else a collision). *)
Theorem C08_sound_path : forall (D : Type) (nodeH : D -> D -> D) (eqD : D -> D -> bool),
  EqDSpec D eqD -> forall path path' li n l r,
  length path = length path' ->
  verify D nodeH eqD {| audit_path := path; leaf_index := li; tree_size := n |} l r = Some true ->
  verify D nodeH eqD {| audit_path := path'; leaf_index := li; tree_size := n |} l r = Some true ->
  path = path' \/ Collision D nodeH.
Proof. exact sound_path. Qed.
Print Assumptions C08_sound_path.

(** Changing the claimed root makes verification fail. *)
Theorem C08_sound_root : forall (D : Type) (nodeH : D -> D -> D) (eqD : D -> D -> bool),
  EqDSpec D eqD -> forall p l r r',
  verify D nodeH eqD p l r = Some true -> verify D nodeH eqD p l r' = Some true -> r = r'.
Proof. exact sound_root. Qed.
Print Assumptions C08_sound_root.

(** Verifying any decodable (audit path, leaf index, tree size) triple against any leaf and root
    yields true or false: never a panic. *)
Theorem C08_verify_total : forall (D : Type) (nodeH : D -> D -> D) (eqD : D -> D -> bool),
  forall path extra li size, li <= MAXU -> size <= MAXU ->
  match try_into_proof D path extra li size with
  | DOk p => forall l r, exists b, verify D nodeH eqD p l r = Some b
  | _ => True
  end.
Proof. exact verify_total. Qed.
Print Assumptions C08_verify_total.

(** The root of the flat tree built by successive pushes equals the RFC 6962 Merkle Tree Hash, for
    every leaf sequence of up to 2^62 leaves (the 64-bit index arithmetic never panics there). *)
Theorem C08_root_is_mth : forall (D : Type) (nodeH : D -> D -> D) (emptyH zeroD : D),
  forall ls : list D, (length ls <= N.to_nat (2 ^ 62))%nat ->
  exists t, from_leaves D nodeH zeroD ls = Some t /\ root D emptyH t = Some (mth D nodeH emptyH ls).
Proof. exact root_is_mth. Qed.
Print Assumptions C08_root_is_mth.

(** The proof constructed for any leaf is the RFC 6962 audit path and reconstructs the root. *)
Theorem C08_proof_complete : forall (D : Type) (nodeH : D -> D -> D) (emptyH zeroD : D),
  forall (ls : list D) t i d, (length ls <= N.to_nat (2 ^ 62))%nat ->
  from_leaves D nodeH zeroD ls = Some t -> nth_error ls i = Some d ->
  exists p, construct_proof D t (N.of_nat i) = Some (Some p) /\
            audit_path p = rfc_path D nodeH emptyH i ls /\
            leaf_index p = N.of_nat i /\
            tree_size p = tlen D t /\
            reconstruct_root D nodeH p d = Some (mth D nodeH emptyH ls).
Proof. exact proof_complete. Qed.
Print Assumptions C08_proof_complete.
