(** C08 — pinned statements only.  [None] = the Rust code would panic; hashes are abstract. *)
From Astria Require Import Merkle.MerkleModel Merkle.MerkleSpec Merkle.MerkleSound Merkle.MerkleTotal Merkle.MerkleRootFull Kernels.KernelEqMerkle.

(** A proof verifies only for the leaf it was built for (else an explicit hash collision). *)
Theorem C08_sound_leaf : forall (D : Type) (nodeH : D -> D -> D) (eqD : D -> D -> bool),
  EqDSpec D eqD -> forall p l l' r,
  verify D nodeH eqD p l r = Some true -> verify D nodeH eqD p l' r = Some true ->
  l = l' \/ Collision D nodeH.
Proof. exact sound_leaf. Qed.
Print Assumptions C08_sound_leaf.

(** Changing any element of the audit path makes verification fail (else a collision). *)
Theorem C08_sound_path : forall (D : Type) (nodeH : D -> D -> D) (eqD : D -> D -> bool),
  EqDSpec D eqD -> forall path path' li n l r,
  length path = length path' ->
  verify D nodeH eqD {| audit_path := path; leaf_index := li; tree_size := n |} l r = Some true ->
  verify D nodeH eqD {| audit_path := path'; leaf_index := li; tree_size := n |} l r = Some true ->
  path = path' \/ Collision D nodeH.
Proof. exact sound_path. Qed.
Print Assumptions C08_sound_path.

(** Changing the claimed root makes verification fail. *)
Theorem C08_sound_root : forall (D : Type) (nodeH : D -> D -> D) (eqD : D -> D -> bool),
  EqDSpec D eqD -> forall p l r r',
  verify D nodeH eqD p l r = Some true -> verify D nodeH eqD p l r' = Some true -> r = r'.
Proof. exact sound_root. Qed.
Print Assumptions C08_sound_root.

(** Verifying any decodable (audit path, leaf index, tree size) triple against any leaf and root
    yields true or false: never a panic. *)
Theorem C08_verify_total : forall (D : Type) (nodeH : D -> D -> D) (eqD : D -> D -> bool),
  forall path extra li size, li <= MAXU -> size <= MAXU ->
  match try_into_proof D path extra li size with
  | DOk p => forall l r, exists b, verify D nodeH eqD p l r = Some b
  | _ => True
  end.
Proof. exact verify_total. Qed.
Print Assumptions C08_verify_total.

(** The root of the flat tree built by successive pushes equals the RFC 6962 Merkle Tree Hash, for
    every leaf sequence of up to 2^62 leaves (the 64-bit index arithmetic never panics there). *)
Theorem C08_root_is_mth : forall (D : Type) (nodeH : D -> D -> D) (emptyH zeroD : D),
  forall ls : list D, (length ls <= N.to_nat (2 ^ 62))%nat ->
  exists t, from_leaves D nodeH zeroD ls = Some t /\ root D emptyH t = Some (mth D nodeH emptyH ls).
Proof. exact root_is_mth. Qed.
Print Assumptions C08_root_is_mth.

(** The proof constructed for any leaf is the RFC 6962 audit path and reconstructs the root. *)
Theorem C08_proof_complete : forall (D : Type) (nodeH : D -> D -> D) (emptyH zeroD : D),
  forall (ls : list D) t i d, (length ls <= N.to_nat (2 ^ 62))%nat ->
  from_leaves D nodeH zeroD ls = Some t -> nth_error ls i = Some d ->
  exists p, construct_proof D t (N.of_nat i) = Some (Some p) /\
            audit_path p = rfc_path D nodeH emptyH i ls /\
            leaf_index p = N.of_nat i /\
            tree_size p = tlen D t /\
            reconstruct_root D nodeH p d = Some (mth D nodeH emptyH ls).
Proof. exact proof_complete. Qed.
Print Assumptions C08_proof_complete.

(** Tie to the source: the index kernels regenerated from crates/astria-merkle/src/lib.rs on every
    run (tools/rs2v.py -> Kernels/KMerkle.v) are equal to the model's functions the theorems above
    are about. *)
Theorem C08_kernels_tied :
  (forall i, KMerkle.perfect_parent i = MerkleModel.perfect_parent i) /\
  (forall p, KMerkle.perfect_left_child p = MerkleModel.perfect_left_child p) /\
  (forall p, KMerkle.perfect_right_child p = MerkleModel.perfect_right_child p) /\
  (forall n, KMerkle.complete_root n = MerkleModel.complete_root n) /\
  (forall i n, KMerkle.complete_parent i n = MerkleModel.complete_parent i n) /\
  (forall i n, KMerkle.checked_complete_parent i n = MerkleModel.checked_complete_parent i n) /\
  (forall i n, KMerkle.complete_right_child i n = MerkleModel.complete_right_child i n) /\
  (forall i n, KMerkle.complete_parent_and_sibling i n = MerkleModel.complete_parent_and_sibling i n) /\
  (forall i n, KMerkle.is_leaf_index_in_tree i n = Some (MerkleModel.is_leaf_index_in_tree i n)) /\
  (forall j, KMerkle.leaf_index_to_tree_index j = MerkleModel.leaf_index_to_tree_index j).
Proof.
  exact (conj keq_perfect_parent (conj keq_perfect_left_child (conj keq_perfect_right_child
        (conj keq_complete_root (conj keq_complete_parent (conj keq_checked_complete_parent
        (conj keq_complete_right_child (conj keq_complete_parent_and_sibling
        (conj keq_is_leaf_index_in_tree keq_leaf_index_to_tree_index))))))))).
Qed.
Print Assumptions C08_kernels_tied.
