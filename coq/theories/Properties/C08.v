(** C08 — pinned statements only.  [None] = the Rust code would panic; hashes are abstract. *)
From Astria Require Import Merkle.MerkleModel Merkle.MerkleSpec Merkle.MerkleSound Merkle.MerkleTotal.

(** A proof verifies only for the leaf it was built for (else an explicit hash collision). *)
Theorem C08_sound_leaf : forall (D : Type) (nodeH : D -> D -> D) (eqD : D -> D -> bool),
  EqDSpec D eqD -> forall p l l' r,
  verify D nodeH eqD p l r = Some true -> verify D nodeH eqD p l' r = Some true ->
  l = l' \/ Collision D nodeH.
Proof. exact sound_leaf. Qed.
Print Assumptions C08_sound_leaf.

(** Changing any element of the audit path makes verification fail (else a collision). *)
Theorem C08_sound_path : forall (D : Type) (nodeH : D -> D -> D) (eqD : D -> D -> bool),
  EqDSpec D eqD -> forall path path' li n l r,
  length path = length path' ->
  verify D nodeH eqD {| audit_path := path; leaf_index := li; tree_size := n |} l r = Some true ->
  verify D nodeH eqD {| audit_path := path'; leaf_index := li; tree_size := n |} l r = Some true ->
  path = path' \/ Collision D nodeH.
Proof. exact sound_path. Qed.
Print Assumptions C08_sound_path.

(** Changing the claimed root makes verification fail. *)
Theorem C08_sound_root : forall (D : Type) (nodeH : D -> D -> D) (eqD : D -> D -> bool),
  EqDSpec D eqD -> forall p l r r',
  verify D nodeH eqD p l r = Some true -> verify D nodeH eqD p l r' = Some true -> r = r'.
Proof. exact sound_root. Qed.
Print Assumptions C08_sound_root.

(** Verifying any decodable (audit path, leaf index, tree size) triple against any leaf and root
    yields true or false: never a panic. *)
Theorem C08_verify_total : forall (D : Type) (nodeH : D -> D -> D) (eqD : D -> D -> bool),
  forall path extra li size, li <= MAXU -> size <= MAXU ->
  match try_into_proof D path extra li size with
  | DOk p => forall l r, exists b, verify D nodeH eqD p l r = Some b
  | _ => True
  end.
Proof. exact verify_total. Qed.
Print Assumptions C08_verify_total.
