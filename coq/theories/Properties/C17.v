(** C17 -- pinned statements only.  The validation layer of astria-core over already-parsed raw
    protobuf structs (DecodeModel.v); [RPanic] = the Rust code would panic.  Byte strings, the
    hash functions, ed25519 key / signature checks and the prost decoding of nested payloads are
    section variables: the closed theorems are universally quantified over them.  The wire
    codecs (prost, brotli) enter only through the round-trip law of [C17_wire_lift]. *)
From Astria Require Import Decode.DecodeModel Decode.DecodeSpec Decode.DecodeProofs.

Section C17.
  Variable B : Type.
  Variable blen : B -> N.
  Variable beq : B -> B -> bool.
  Variable cat : B -> B -> B.
  Variable sha leafH : B -> B.
  Variable nodeH : B -> B -> B.
  Variable emptyH : B.
  Variable cid_ok : B -> bool.
  Variable eci_parse : B -> eci_res.
  Variable vk_ok : B -> bool.
  Variable sig_ok : B -> B -> B -> bool.
  Variable body_url : B.
  Variable body_parse : B -> body_res.

  Local Notation tx_from_raw := (tx_from_raw B blen beq vk_ok sig_ok body_url body_parse).
  Local Notation seq_block_from_raw :=
    (seq_block_from_raw B blen beq cat sha leafH nodeH emptyH cid_ok eci_parse).
  Local Notation filtered_from_raw :=
    (filtered_from_raw B blen beq cat sha leafH nodeH emptyH cid_ok eci_parse).
  Local Notation meta_from_raw := (meta_from_raw B blen beq sha leafH nodeH emptyH cid_ok eci_parse).
  Local Notation rollup_data_from_raw := (rollup_data_from_raw B blen).
  Local Notation meta_list_from_raw :=
    (meta_list_from_raw B blen beq sha leafH nodeH emptyH cid_ok eci_parse).
  Local Notation rollup_data_list_from_raw := (rollup_data_list_from_raw B blen).
  Local Notation tx_checks := (tx_checks B blen vk_ok sig_ok body_parse).
  Local Notation seq_block_checks :=
    (seq_block_checks B blen beq cat sha leafH nodeH emptyH cid_ok eci_parse).
  Local Notation filtered_checks :=
    (filtered_checks B blen beq cat sha leafH nodeH emptyH cid_ok eci_parse).
  Local Notation meta_checks := (meta_checks B blen beq sha leafH nodeH emptyH cid_ok eci_parse).
  Local Notation rollup_data_checks := (rollup_data_checks B blen).

  (** No raw transaction, sequencer block, filtered block, Celestia metadata (list) or rollup
      data (list) makes its decoder panic. *)
  Theorem C17_decode_total :
    (forall r, tx_from_raw r <> RPanic) /\
    (forall r, seq_block_from_raw r <> RPanic) /\
    (forall r, filtered_from_raw r <> RPanic) /\
    (forall r, meta_from_raw r <> RPanic) /\
    (forall r, rollup_data_from_raw r <> RPanic) /\
    (forall l, meta_list_from_raw l <> RPanic) /\
    (forall l, rollup_data_list_from_raw l <> RPanic).
  Proof.
    exact (decode_total B blen beq cat sha leafH nodeH emptyH cid_ok eci_parse vk_ok sig_ok
                        body_url body_parse).
  Qed.

  (** An accepted value satisfies the checks of its type: the signature is valid for the key and
      the body; the block level inclusion proofs verify against the header's data hash; for the
      full AND the filtered sequencer block every per-rollup proof verifies against the header's
      rollup transactions root ([seq_block_checks] / [filtered_checks] contain
      [rollup_proofs_verify]; stated separately as [C17_rollup_proofs_verify]). *)
  Theorem C17_accepted_consistent :
    (forall r v, tx_from_raw r = ROk v -> tx_checks v = true) /\
    (forall r v, seq_block_from_raw r = ROk v -> seq_block_checks v = true) /\
    (forall r v, filtered_from_raw r = ROk v -> filtered_checks v = true) /\
    (forall r v, meta_from_raw r = ROk v -> meta_checks v = true) /\
    (forall r v, rollup_data_from_raw r = ROk v -> rollup_data_checks v = true) /\
    (forall l vs, meta_list_from_raw l = ROk vs -> forallb meta_checks vs = true) /\
    (forall l vs, rollup_data_list_from_raw l = ROk vs -> forallb rollup_data_checks vs = true).
  Proof.
    exact (accepted_consistent B blen beq cat sha leafH nodeH emptyH cid_ok eci_parse vk_ok sig_ok
                               body_url body_parse).
  Qed.

  (** An accepted value re-encodes to a raw struct that decodes to the same value. *)
  Theorem C17_reencode :
    (forall a b : B, beq a b = true <-> a = b) ->
    (forall r v, tx_from_raw r = ROk v -> tx_from_raw (tx_to_raw B body_url v) = ROk v) /\
    (forall r v, seq_block_from_raw r = ROk v ->
                 seq_block_from_raw (seq_block_to_raw B v) = ROk v) /\
    (forall r v, filtered_from_raw r = ROk v ->
                 filtered_from_raw (filtered_to_raw B v) = ROk v) /\
    (forall r v, meta_from_raw r = ROk v -> meta_from_raw (meta_to_raw B v) = ROk v) /\
    (forall r v, rollup_data_from_raw r = ROk v ->
                 rollup_data_from_raw (rollup_data_to_raw B v) = ROk v) /\
    (forall l vs, meta_list_from_raw l = ROk vs ->
                  meta_list_from_raw (map (meta_to_raw B) vs) = ROk vs) /\
    (forall l vs, rollup_data_list_from_raw l = ROk vs ->
                  rollup_data_list_from_raw (map (rollup_data_to_raw B) vs) = ROk vs).
  Proof.
    exact (reencode B blen beq cat sha leafH nodeH emptyH cid_ok eci_parse vk_ok sig_ok
                    body_url body_parse).
  Qed.
End C17.

(** Any wire codec with a round-trip law (prost decode, optionally after brotli decompression)
    in front of a total, consistent, re-encodable validation layer gives a byte level decoder
    that never panics and whose accepted values pass their checks and survive re-encoding. *)
Theorem C17_wire_lift :
  forall (W Raw V : Type) (wdec : W -> option Raw) (wenc : Raw -> W)
         (decompress : W -> option W) (compress : W -> W)
         (from_raw : Raw -> res V) (to_raw : V -> Raw) (checks : V -> bool),
    (forall r, wdec (wenc r) = Some r) ->
    (forall w, decompress (compress w) = Some w) ->
    (forall r, from_raw r <> RPanic) ->
    (forall r v, from_raw r = ROk v -> checks v = true) ->
    (forall r v, from_raw r = ROk v -> from_raw (to_raw v) = ROk v) ->
    forall w,
      wire_decode W Raw V wdec from_raw w <> RPanic /\
      blob_decode W Raw V wdec decompress from_raw w <> RPanic /\
      (forall v, wire_decode W Raw V wdec from_raw w = ROk v ->
                 checks v = true /\
                 wire_decode W Raw V wdec from_raw (wenc (to_raw v)) = ROk v) /\
      (forall v, blob_decode W Raw V wdec decompress from_raw w = ROk v ->
                 checks v = true /\
                 blob_decode W Raw V wdec decompress from_raw (compress (wenc (to_raw v))) = ROk v).
Proof. exact wire_lift. Qed.

(** Every per-rollup inclusion proof of an accepted full or filtered sequencer block verifies
    against the rollup transactions root of its header (for the full block since the repair of
    finding F11). *)
Theorem C17_rollup_proofs_verify :
  forall (B : Type) (blen : B -> N) (beq : B -> B -> bool) (cat : B -> B -> B)
         (sha leafH : B -> B) (nodeH : B -> B -> B) (emptyH : B) (cid_ok : B -> bool)
         (eci_parse : B -> eci_res),
    (forall r v,
       seq_block_from_raw B blen beq cat sha leafH nodeH emptyH cid_ok eci_parse r = ROk v ->
       rollup_proofs_verify B beq cat leafH nodeH emptyH (h_rtr B (s_hdr B v)) (s_rts B v) = true) /\
    (forall r v,
       filtered_from_raw B blen beq cat sha leafH nodeH emptyH cid_ok eci_parse r = ROk v ->
       rollup_proofs_verify B beq cat leafH nodeH emptyH (h_rtr B (f_hdr B v)) (f_rts B v) = true).
Proof. exact rollup_proofs_verify_accepted. Qed.

(** What finding F11 was: for the decoder as it was BEFORE the repair
    ([seq_block_from_raw_before_F11_fix]: the same checks without the per-rollup audit) there is an
    instantiation (with a sound equality test) and a raw block that it accepts although a
    [RollupTransactions.proof] does not verify against the header. *)
Theorem C17_seq_block_before_F11_fix_refuted :
  exists (B : Type) (blen : B -> N) (beq : B -> B -> bool) (cat : B -> B -> B)
         (sha leafH : B -> B) (nodeH : B -> B -> B) (emptyH : B) (cid_ok : B -> bool)
         (eci_parse : B -> eci_res),
    (forall a b : B, beq a b = true <-> a = b) /\
    ~ (forall r v,
         seq_block_from_raw_before_F11_fix B blen beq cat sha leafH nodeH emptyH cid_ok eci_parse r
         = ROk v ->
         rollup_proofs_verify B beq cat leafH nodeH emptyH (h_rtr B (s_hdr B v)) (s_rts B v) = true).
Proof. exact seq_block_before_F11_fix_refuted. Qed.

Print Assumptions C17_decode_total.
Print Assumptions C17_accepted_consistent.
Print Assumptions C17_reencode.
Print Assumptions C17_wire_lift.
Print Assumptions C17_rollup_proofs_verify.
Print Assumptions C17_seq_block_before_F11_fix_refuted.
