(** C01 - ledger conservation, exact fees, fee routing: pinned statements only (model: Ledger/LedgerModel.v, vocabulary: Ledger/LedgerSpec.v). *)
From Astria Require Import Base.Bounded Ledger.LedgerModel Ledger.LedgerSpec Ledger.LedgerProofsC01a Ledger.LedgerProofsC01b.

Theorem C01_action_conserves :
  forall s signer tx idx ca s' evs L C ast,
    NoDup L -> NoDup C -> In signer L ->
    incl (action_accounts (fst ca)) L -> incl (action_channels (fst ca)) C ->
    pay_fees_and_execute s signer tx idx ca = Ok (s', evs) ->
    supply L C s' ast + burned_action (fst ca) ast = supply L C s ast.
Proof. exact action_conserves. Qed.
Print Assumptions C01_action_conserves.

Theorem C01_tx_conserves :
  forall s c s' evs L C ast,
    NoDup L -> NoDup C -> incl (tx_accounts c) L -> incl (tx_channels c) C ->
    exec_tx s c = (s', OutOk evs) ->
    supply L C s' ast + burned_tx c ast = supply L C s ast.
Proof. exact tx_conserves. Qed.
Print Assumptions C01_tx_conserves.

Theorem C01_end_block_conserves :
  forall s s' ds L C ast,
    NoDup L -> In (sudo s) L ->
    end_block s = Ok (s', ds) ->
    supply0 L C s' ast = supply L C s ast /\ block_fees s' = [].
Proof. exact end_block_conserves. Qed.
Print Assumptions C01_end_block_conserves.

Theorem C01_block_conserves :
  forall s bbh h cs s' outs L C ast,
    NoDup L -> NoDup C -> In (sudo s) L ->
    (forall c, In c cs -> incl (tx_accounts c) L /\ incl (tx_channels c) C) ->
    run s (OpBegin bbh h :: map OpExec cs ++ [OpEnd]) = (s', outs) ->
    (exists ds, last outs SNone = SEnd (Some ds)) ->
    supply0 L C s' ast + burned_run (OpBegin bbh h :: map OpExec cs ++ [OpEnd]) outs ast
    = supply0 L C s ast.
Proof. exact block_conserves. Qed.
Print Assumptions C01_block_conserves.

Theorem C01_fee_exact :
  forall s signer k a var pos s' evs,
    pay_fee s signer k (Some a) var pos = Ok (s', evs) ->
    exists base mult,
      fees s k = Some (base, mult) /\
      evs = [ {| fe_pos := pos; fe_kind := k; fe_asset := a;
                 fe_amount := fee_amount base mult var |} ] /\
      (base + mult * var <= U128_MAX -> fee_amount base mult var = base + mult * var) /\
      bal s' signer a + fee_amount base mult var = bal s signer a /\
      (forall x b, (x, b) <> (signer, a) -> bal s' x b = bal s x b) /\
      block_fees s' = (a, fee_amount base mult var) :: block_fees s.
Proof. exact fee_exact. Qed.
Print Assumptions C01_fee_exact.

Theorem C01_fee_free :
  forall s signer k var pos s' evs,
    pay_fee s signer k None var pos = Ok (s', evs) -> s' = s /\ evs = [].
Proof. exact fee_free. Qed.
Print Assumptions C01_fee_free.

Theorem C01_fee_saturates_refuted :
  exists base mult var,
    base <= U128_MAX /\ mult <= U128_MAX /\ var <= U64_MAX /\
    fee_amount base mult var <> base + mult * var.
Proof. exact fee_saturates_refuted. Qed.
Print Assumptions C01_fee_saturates_refuted.

Theorem C01_fee_log_exact :
  forall s c s' evs,
    exec_tx s c = (s', OutOk evs) ->
    block_fees s' = rev (map (fun e => (fe_asset e, fe_amount e)) evs) ++ block_fees s.
Proof. exact fee_log_exact. Qed.
Print Assumptions C01_fee_log_exact.

Theorem C01_fees_routed :
  forall s s' ds,
    end_block s = Ok (s', ds) ->
    forall a,
      bal s' (sudo s) a = bal s (sudo s) a + bf_total (block_fees s) a /\
      (forall x, x <> sudo s -> bal s' x a = bal s x a).
Proof. exact fees_routed. Qed.
Print Assumptions C01_fees_routed.

(** Tie to the source: the fee formula cut out of [fee]
    (crates/astria-sequencer/src/checked_actions/utils.rs, the two arithmetic statements) on every
    run by tools/rs2v.py (Kernels/KFee.v) is the model's [fee_amount]; it cannot panic. *)
From Astria Require Import Kernels.KernelEqFee.
Theorem C01_kernels_tied : forall base mult var,
  KFee.total_fee base mult var = Some (fee_amount base mult var).
Proof. exact keq_total_fee. Qed.
Print Assumptions C01_kernels_tied.
