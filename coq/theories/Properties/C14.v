(** C14 — pinned statements only.  [apply_updates] (inside [fold_strict]) is the rule of
    CometBFT's [ValidatorSet.UpdateWithChangeSet], taken from CometBFT's documentation (CometBFT
    is not in the repository); [fold_lenient] applies batches without validation. *)
From Astria Require Import Base.Bounded Validators.ValidatorsModel Validators.ValidatorsSpec
  Validators.ValidatorsProofs.

(** Mirror, for every history across the upgrade, on both block paths. *)
Theorem C14_mirror : forall c bs,
  size_ok c bs ->
  let '(st, batches) := run_blocks (genesis c) bs in
  fold_lenient (cgenesis c) batches = proj (st_vals st) /\
  (st_aspen st = true -> st_count st = Some (vlen (st_vals st))) /\
  st_upds st = [].
Proof. exact mirror. Qed.
Print Assumptions C14_mirror.

(** "Every returned batch is applicable" is false of the code (finding F6) ... *)
Theorem C14_updates_applicable_refuted :
  ~ (forall c bs, g_vals c <> [] -> size_ok c bs ->
       let '(_, batches) := run_blocks (genesis c) bs in
       fold_strict (cgenesis c) batches <> None).
Proof. exact updates_applicable_refuted. Qed.
Print Assumptions C14_updates_applicable_refuted.

(** ... with one witness per known class: the history is in the class and CometBFT cannot
    apply its batches. *)
Theorem C14_known_witness_post_aspen_add_then_remove :
  g_vals witness_a_config <> [] /\ size_ok witness_a_config witness_a_blocks /\
  hist_any block_known (genesis witness_a_config) witness_a_blocks = true /\
  fold_strict (cgenesis witness_a_config)
    (snd (run_blocks (genesis witness_a_config) witness_a_blocks)) = None.
Proof. exact witness_a_refutes. Qed.
Print Assumptions C14_known_witness_post_aspen_add_then_remove.

Theorem C14_known_witness_pre_aspen_remove_all :
  g_vals witness_b_config <> [] /\ size_ok witness_b_config witness_b_blocks /\
  hist_any block_known (genesis witness_b_config) witness_b_blocks = true /\
  fold_strict (cgenesis witness_b_config)
    (snd (run_blocks (genesis witness_b_config) witness_b_blocks)) = None.
Proof. exact witness_b_refutes. Qed.
Print Assumptions C14_known_witness_pre_aspen_remove_all.

(** Outside the two classes every batch is applicable, CometBFT's set is the stored set, and it
    is never empty. *)
Theorem C14_updates_applicable_outside_known : forall c bs,
  g_vals c <> [] -> size_ok c bs ->
  hist_any block_known (genesis c) bs = false ->
  let '(st, batches) := run_blocks (genesis c) bs in
  fold_strict (cgenesis c) batches = Some (proj (st_vals st)) /\ st_vals st <> [].
Proof. exact applicable_outside_known. Qed.
Print Assumptions C14_updates_applicable_outside_known.

(** The post-Aspen class needs the proposer's path (transactions constructed before the block);
    blocks whose transactions are constructed at the start of the block are never in it. *)
Theorem C14_finalize_never_class_a : forall c bs,
  all_finalize bs -> hist_any (block_class known_a) (genesis c) bs = false.
Proof. exact finalize_never_class_a. Qed.
Print Assumptions C14_finalize_never_class_a.

Theorem C14_updates_applicable_post_aspen_finalize : forall c bs,
  g_vals c <> [] -> size_ok c bs -> g_aspen_h c = 1 -> all_finalize bs ->
  let '(st, batches) := run_blocks (genesis c) bs in
  fold_strict (cgenesis c) batches = Some (proj (st_vals st)) /\ st_vals st <> [].
Proof. exact applicable_post_aspen_finalize. Qed.
Print Assumptions C14_updates_applicable_post_aspen_finalize.

(** Tie lemma: constructing a block's transactions before or after the migration of that
    height accepts the same transactions. *)
Theorem C14_construct_at_migration : forall st t,
  st_aspen st = false -> constructible (migrate st) t = constructible st t.
Proof. exact construct_at_migration. Qed.
Print Assumptions C14_construct_at_migration.
