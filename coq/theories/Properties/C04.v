(** C04 - bridge solvency (transaction level): deposits are backed, event ids are honoured at most once: pinned statements only (model: Ledger/LedgerModel.v, vocabulary: Ledger/LedgerSpec.v). *)
From Astria Require Import Base.Bounded Ledger.LedgerModel Ledger.LedgerSpec Ledger.LedgerProofsC04.

Theorem C04_constructed_deposit_targets_bridge :
  forall s signer a ca,
    construct_action s signer a = Ok ca ->
    match ca with
    | (ALock to _ ast _ _ _ _ _, cap) =>
      exists br, bridge s to = Some br /\ cap = CapLock (br_rollup br) /\ br_asset br = ast
    | (ABTransfer to _ _ _ _ b _ _ _, cap) =>
      exists br brt, bridge s b = Some br /\ bridge s to = Some brt /\
                     cap = CapBTransfer (br_asset br) (br_rollup brt) /\
                     br_asset brt = br_asset br
    | _ => True
    end.
Proof. exact constructed_deposit_targets_bridge. Qed.
Print Assumptions C04_constructed_deposit_targets_bridge.

Theorem C04_bridge_identity_stable :
  forall s o b br,
    bridge s b = Some br ->
    exists br', bridge (fst (step s o)) b = Some br' /\
                br_rollup br' = br_rollup br /\ br_asset br' = br_asset br.
Proof. exact bridge_identity_stable. Qed.
Print Assumptions C04_bridge_identity_stable.

Theorem C04_deposit_backed :
  forall s signer tx idx ca s',
    execute_action s signer tx idx ca = Ok s' ->
    exists new, deposits s' = deposits s ++ new /\
    match fst ca with
    | ALock to amt ast _ _ _ _ _ =>
      exists d, new = [d] /\ d_bridge d = to /\ d_amount d = amt /\ d_asset d = ast /\
                d_tx d = tx /\ d_idx d = idx /\
                (is_bridge s to = true -> bal s' to ast = bal s to ast + amt)
    | ABTransfer to amt _ _ _ b _ _ _ =>
      exists d, new = [d] /\ d_bridge d = to /\ d_amount d = amt /\
                d_tx d = tx /\ d_idx d = idx /\
                (b <> to -> bal s' to (d_asset d) = bal s to (d_asset d) + amt /\
                            bal s' b (d_asset d) + amt = bal s b (d_asset d)) /\
                (b = to -> bal s' to (d_asset d) = bal s to (d_asset d) /\
                           amt <= bal s to (d_asset d))
    | _ => new = []
    end.
Proof. exact deposit_backed. Qed.
Print Assumptions C04_deposit_backed.

Theorem C04_no_deposit_without_effect :
  (forall s c s' e, exec_tx s c = (s', OutErr e) -> deposits s' = deposits s) /\
  (forall s c s' evs, exec_tx s c = (s', OutOk evs) ->
      exists new, deposits s' = deposits s ++ new /\ forall d, In d new -> d_tx d = ct_id c) /\
  (forall s signer k fa var pos s' evs,
      pay_fee s signer k fa var pos = Ok (s', evs) -> deposits s' = deposits s) /\
  (forall s s' ds, end_block s = Ok (s', ds) -> ds = deposits s /\ deposits s' = []).
Proof. exact no_deposit_without_effect. Qed.
Print Assumptions C04_no_deposit_without_effect.

Theorem C04_event_id_checked_and_recorded :
  forall s signer tx idx ca s' b e,
    execute_action s signer tx idx ca = Ok s' ->
    carries (fst ca) b e = true ->
    wevent s b e = None /\ wevent s' b e <> None.
Proof. exact event_id_checked_and_recorded. Qed.
Print Assumptions C04_event_id_checked_and_recorded.

Theorem C04_event_id_once :
  forall s ops s' outs b e,
    run s ops = (s', outs) ->
    (carried_run ops outs b e <= 1)%nat /\
    (wevent s b e <> None -> carried_run ops outs b e = 0%nat) /\
    (wevent s b e <> None -> wevent s' b e <> None).
Proof. exact event_id_once. Qed.
Print Assumptions C04_event_id_once.
