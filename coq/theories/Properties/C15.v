(** C15 — pinned statements only.  [sig_ok] (ed25519) is arbitrary; prices are i128 ([Z]),
    powers and heights u64 ([N]); [Panic] = an [expect] of the Rust code would fire. *)
From Astria Require Import Oracle.OracleModel Oracle.OracleSpec Oracle.OracleProofs
  Oracle.OraclePriceProofs.

(** [validate_vote_extensions] accepts exactly the well-formed extended commits in which the
    validators that submitted a signed extension hold strictly more than two thirds of the listed
    power -- provided twice the listed power fits in a u64. *)
Theorem C15_threshold_exact :
  forall (Key Sig : Type) (sig_ok : Key -> ext -> N -> N -> N -> Sig -> bool)
         (st : state Key) (h : N) (ec : ecommit Sig),
    validate_vote_extensions Key Sig sig_ok st h ec = Ok tt <->
    (votes_wf Key Sig sig_ok st h ec /\
     2 * total_power Sig (ec_votes Sig ec) <= U64_MAX /\
     2 * total_power Sig (ec_votes Sig ec) < 3 * submitted_power Sig (ec_votes Sig ec)).
Proof. exact threshold_exact. Qed.
Print Assumptions C15_threshold_exact.

(** ... and when it does not fit, the refusal is one of the two overflow errors. *)
Theorem C15_threshold_overflow :
  forall (Key Sig : Type) (sig_ok : Key -> ext -> N -> N -> N -> Sig -> bool)
         (st : state Key) (h : N) (ec : ecommit Sig),
    votes_wf Key Sig sig_ok st h ec -> U64_MAX < 2 * total_power Sig (ec_votes Sig ec) ->
    validate_vote_extensions Key Sig sig_ok st h ec = Err ETotalOverflow \/
    validate_vote_extensions Key Sig sig_ok st h ec = Err EMulOverflow.
Proof. exact threshold_overflow. Qed.
Print Assumptions C15_threshold_overflow.

(** The other two checked operations of the function never fail. *)
Theorem C15_no_spurious_overflow :
  forall (Key Sig : Type) (sig_ok : Key -> ext -> N -> N -> N -> Sig -> bool)
         (st : state Key) (h : N) (ec : ecommit Sig),
    validate_vote_extensions Key Sig sig_ok st h ec <> Err ESubOverflow /\
    validate_vote_extensions Key Sig sig_ok st h ec <> Err EAddOverflow.
Proof. exact no_spurious_overflow. Qed.
Print Assumptions C15_no_spurious_overflow.

(** Every counted extension is validly signed by the validator it is attributed to (key looked up
    in the stored validator set under the vote's address; message = extension, height-1, round,
    chain id), and no validator is counted twice. *)
Theorem C15_counted_signed :
  forall (Key Sig : Type) (sig_ok : Key -> ext -> N -> N -> N -> Sig -> bool)
         (st : state Key) (h : N) (ec : ecommit Sig),
    validate_vote_extensions Key Sig sig_ok st h ec = Ok tt ->
    NoDup (map (v_addr Sig) (ec_votes Sig ec)) /\
    forall v, In v (ec_votes Sig ec) -> is_commit Sig v = true ->
      exists k sg hm,
        lookupN (v_addr Sig v) (st_vals Key st) = Some k /\ v_sig Sig v = Some sg /\
        height_msg h = Some hm /\
        sig_ok k (v_ext Sig v) hm (ec_round Sig ec) (st_chain Key st) sg = true.
Proof. exact counted_signed. Qed.
Print Assumptions C15_counted_signed.

(** The extended commit must match the last commit: same round, same validators and powers in
    the same order, same vote flag except for votes pruned by the proposer. *)
Theorem C15_matches_last_commit :
  forall (Sig : Type) (lc : lcommit) (ec : ecommit Sig),
    validate_against_last_commit Sig lc ec = Ok tt <->
    (lc_round lc = ec_round Sig ec /\
     Forall2 (fun l v => l_addr l = v_addr Sig v /\ l_power l = v_power Sig v /\
                         (pruned Sig v = true \/ v_flag Sig v = l_flag l))
             (lc_votes lc) (ec_votes Sig ec)).
Proof. exact matches_last_commit_iff. Qed.
Print Assumptions C15_matches_last_commit.

(** process_proposal side: a non-empty extended commit (above height 1) is accepted only if it
    matches the last commit, every counted extension is validly signed by its validator, no
    validator appears twice and more than 2/3 of the listed power contributed. *)
Theorem C15_accept_only_if :
  forall (Key Sig : Type) (sig_ok : Key -> ext -> N -> N -> N -> Sig -> bool)
         (st : state Key) (h : N) (lc : lcommit) (ec : ecommit Sig) (mp : list (N * pinfo)),
    h <> 1 -> ec_votes Sig ec <> [] ->
    validate_proposal Key Sig sig_ok st h lc ec mp = Ok tt ->
    matches_last_commit Sig lc ec /\
    NoDup (map (v_addr Sig) (ec_votes Sig ec)) /\
    (forall v, In v (ec_votes Sig ec) -> is_commit Sig v = true ->
               signed_by_attributed Key Sig sig_ok st h (ec_round Sig ec) v) /\
    2 * total_power Sig (ec_votes Sig ec) < 3 * submitted_power Sig (ec_votes Sig ec).
Proof. exact accept_only_if. Qed.
Print Assumptions C15_accept_only_if.

(** ... and the exact acceptance condition (so everything else is rejected). *)
Theorem C15_validate_proposal_exact :
  forall (Key Sig : Type) (sig_ok : Key -> ext -> N -> N -> N -> Sig -> bool)
         (st : state Key) (h : N) (lc : lcommit) (ec : ecommit Sig) (mp : list (N * pinfo)),
    h <> 1 -> ec_votes Sig ec <> [] ->
    (validate_proposal Key Sig sig_ok st h lc ec mp = Ok tt <->
     (matches_last_commit Sig lc ec /\
      (votes_wf Key Sig sig_ok st h ec /\
       2 * total_power Sig (ec_votes Sig ec) <= U64_MAX /\
       2 * total_power Sig (ec_votes Sig ec) < 3 * submitted_power Sig (ec_votes Sig ec)) /\
      exists ids, all_ve_ids Sig (ec_votes Sig ec) (st_maxpairs Key st) = Ok ids /\
                  mapping_eqb (expected_mapping Key st ids) mp = true)).
Proof. exact validate_proposal_exact. Qed.
Print Assumptions C15_validate_proposal_exact.

(** An empty extended commit carrying the last commit's round is always acceptable. *)
Theorem C15_empty_ok :
  forall (Key Sig : Type) (sig_ok : Key -> ext -> N -> N -> N -> Sig -> bool)
         (st : state Key) (h : N) (lc : lcommit) (ec : ecommit Sig) (mp : list (N * pinfo)),
    ec_votes Sig ec = [] -> lc_round lc = ec_round Sig ec ->
    validate_proposal Key Sig sig_ok st h lc ec mp = Ok tt.
Proof. exact empty_ok. Qed.
Print Assumptions C15_empty_ok.

(** The round is the only thing checked on an empty extended commit. *)
Theorem C15_empty_round :
  forall (Key Sig : Type) (sig_ok : Key -> ext -> N -> N -> N -> Sig -> bool)
         (st : state Key) (h : N) (lc : lcommit) (ec : ecommit Sig) (mp : list (N * pinfo)),
    ec_votes Sig ec = [] -> h <> 1 -> lc_round lc <> ec_round Sig ec ->
    validate_proposal Key Sig sig_ok st h lc ec mp = Err ERound.
Proof. exact empty_round. Qed.
Print Assumptions C15_empty_round.

(** Blocks that carry an extended commit have height >= 2 (the height-1 shortcut is dead). *)
Theorem C15_enabled_above_one :
  forall eh h, vote_extensions_enabled eh h = true -> h <> 1 /\ h <> 0.
Proof. exact enabled_above_one. Qed.
Print Assumptions C15_enabled_above_one.

(** Block production continues: whatever the proposer's local extended commit looks like, what
    it proposes (pruned commit, or the empty commit after any error) passes [validate_proposal]
    against the corresponding last commit. *)
Theorem C15_honest_proposal_accepted :
  forall (Key Sig : Type) (sig_ok : Key -> ext -> N -> N -> N -> Sig -> bool)
         (st : state Key) (h : N) (ec : ecommit Sig) p,
    prepare_or_empty Key Sig sig_ok st h ec = Some p ->
    validate_proposal Key Sig sig_ok st h (project Sig ec) (fst p) (snd p) = Ok tt.
Proof. exact honest_proposal_accepted. Qed.
Print Assumptions C15_honest_proposal_accepted.

(** [median] never panics on i128 values and is [None] exactly for the empty list. *)
Theorem C15_median_total :
  forall l, Forall in_i128 l -> exists o, median l = Ok o /\ (o = None <-> l = []).
Proof. exact median_total. Qed.
Print Assumptions C15_median_total.

(** The property's range claim is FALSE of the code for negative prices: two reports of -3 are
    aggregated to -2, above every reported price. *)
Theorem C15_median_in_range_refuted :
  exists l, Forall in_i128 l /\ l <> [] /\
    exists m, median l = Ok (Some m) /\ forall b, In b l -> (b < m)%Z.
Proof. exact median_in_range_refuted. Qed.
Print Assumptions C15_median_in_range_refuted.

(** It holds for every list outside the class "even count, the two middle values are the same
    negative odd number" ... *)
Theorem C15_median_in_range :
  forall l, Forall in_i128 l -> l <> [] -> ~ neg_odd_tie l ->
    exists m a b, median l = Ok (Some m) /\ In a l /\ In b l /\ (a <= m <= b)%Z.
Proof. exact median_in_range. Qed.
Print Assumptions C15_median_in_range.

(** ... in particular whenever no reported price is negative ... *)
Theorem C15_median_in_range_nonneg :
  forall l, Forall (fun z => 0 <= z <= I128_MAX)%Z l -> l <> [] ->
    exists m a b, median l = Ok (Some m) /\ In a l /\ In b l /\ (a <= m <= b)%Z.
Proof. exact median_in_range_nonneg. Qed.
Print Assumptions C15_median_in_range_nonneg.

(** ... inside the class the result is the tie value plus one, and it is never further off. *)
Theorem C15_median_tie_off_by_one :
  forall l, Forall in_i128 l -> neg_odd_tie l ->
    exists x, In x l /\ (x < 0)%Z /\ median l = Ok (Some (x + 1)%Z).
Proof. exact median_tie_off_by_one. Qed.
Print Assumptions C15_median_tie_off_by_one.

Theorem C15_median_within_one :
  forall l, Forall in_i128 l -> l <> [] ->
    exists m a b, median l = Ok (Some m) /\ In a l /\ In b l /\ (a <= m <= b + 1)%Z.
Proof. exact median_within_one. Qed.
Print Assumptions C15_median_within_one.

(** Prices are published only for pairs reported in that block: each published price is the
    median of a non-empty list of prices that votes of this block report under an id the block's
    mapping sends to that pair. *)
Theorem C15_published_only_reported :
  forall mp votes out p m,
    aggregate mp votes = Ok out -> In (p, m) out ->
    exists zs, zs <> [] /\ median zs = Ok (Some m) /\
               forall z, In z zs -> reported mp votes p z.
Proof. exact aggregate_sound. Qed.
Print Assumptions C15_published_only_reported.

(** What reaches the state is exactly the aggregate. *)
Theorem C15_apply_publishes_aggregate :
  forall known exts mp out,
    apply_prices known exts mp = Ok out -> calculate_prices exts mp = Ok out.
Proof. exact apply_publishes_aggregate. Qed.
Print Assumptions C15_apply_publishes_aggregate.

(** End to end for one block. *)
Theorem C15_published_in_range :
  forall exts mp votes out p m,
    decode_all exts = Ok votes ->
    Forall (Forall (fun iz => in_i128 (snd iz))) votes ->
    calculate_prices exts mp = Ok out -> In (p, m) out ->
    exists zs, zs <> [] /\ median zs = Ok (Some m) /\
               (forall z, In z zs -> reported mp votes p z) /\
               (~ neg_odd_tie zs ->
                exists a b, reported mp votes p a /\ reported mp votes p b /\ (a <= m <= b)%Z).
Proof. exact published_in_range. Qed.
Print Assumptions C15_published_in_range.

(** Tie to the source: FRAGMENTS cut out of the Rust source on every run by tools/rs2v.py -- the
    zero-total test, the required-voting-power arithmetic and the [submitted >= required]
    comparison of [validate_vote_extensions] (crates/astria-sequencer/src/app/vote_extension.rs ->
    Kernels/KOracleVote.v) and the half/half/+1 tail of [median]
    (crates/astria-core/src/oracles/price_feed/utils.rs -> Kernels/KOracleMedian.v; the one-line
    forwarding methods of [Price(i128)] are pinned token by token) -- are the model's [vve_tail]
    and the even-length branch of the model's [median].  [res_to_kernel] forgets the model's error
    classes ([Ok a -> Some (ROk a)], [Err _ -> Some RErr], [Panic -> None]). *)
From Astria Require Import Kernels.KernelEqOracle.
Theorem C15_kernels_tied :
  (forall total sub, KOracleVote.voting_power_check total sub = res_to_kernel (vve_tail total sub)) /\
  (forall total, KOracleVote.required_voting_power total
                 = Some (if (total * 2 <=? U64_MAX)%N then KernelLib.ROk (total * 2 / 3 + 1)%N
                         else KernelLib.RErr)) /\
  (forall l lower hi lo,
     Nat.eqb (Nat.modulo (length (sortZ l)) 2) 1 = false ->
     Nat.div (length (sortZ l)) 2 = S lower ->
     nth_error (sortZ l) (S lower) = Some hi ->
     nth_error (sortZ l) lower = Some lo ->
     median l = match KOracleMedian.median_tail hi lo with
                | Some m => Ok (Some m)
                | None => Panic
                end).
Proof.
  exact (conj keq_voting_power_check (conj keq_required_voting_power keq_median_even)).
Qed.
Print Assumptions C15_kernels_tied.
