(** C02 - only the owner or the designated authority moves funds or changes privileged state: pinned statements only (model: Ledger/LedgerModel.v, vocabulary: Ledger/LedgerSpec.v). *)
From Astria Require Import Base.Bounded Ledger.LedgerModel Ledger.LedgerSpec Ledger.LedgerProofsC02.

Theorem C02_debit_needs_authority :
  forall s signer tx idx ca s' evs x a,
    pay_fees_and_execute s signer tx idx ca = Ok (s', evs) ->
    bal s' x a < bal s x a ->
    x = signer \/ withdrawer_of s x = Some signer.
Proof. exact debit_needs_authority. Qed.
Print Assumptions C02_debit_needs_authority.

Theorem C02_tx_debit_needs_authority :
  forall s c s' evs x a,
    build_group (map fst (ct_actions c)) <> None ->
    exec_tx s c = (s', OutOk evs) ->
    bal s' x a < bal s x a ->
    x = ct_signer c \/ withdrawer_of s x = Some (ct_signer c).
Proof. exact tx_debit_needs_authority. Qed.
Print Assumptions C02_tx_debit_needs_authority.

Theorem C02_blocks_never_debit :
  forall s bbh h x a,
    bal (begin_block s bbh h) x a = bal s x a /\
    (forall s' ds, end_block s = Ok (s', ds) -> bal s x a <= bal s' x a).
Proof. exact blocks_never_debit. Qed.
Print Assumptions C02_blocks_never_debit.

Theorem C02_privileged_write_needs_holder :
  forall s signer tx idx ca s' evs,
    pay_fees_and_execute s signer tx idx ca = Ok (s', evs) ->
    (sudo s' <> sudo s -> sudo s = signer) /\
    (ibc_sudo s' <> ibc_sudo s -> sudo s = signer) /\
    ((exists x, relayer s' x <> relayer s x) -> ibc_sudo s = signer) /\
    ((exists k, fees s' k <> fees s k) -> sudo s = signer) /\
    (fee_assets s' <> fee_assets s -> sudo s = signer) /\
    (((exists k, validators s' k <> validators s k) \/ valcount s' <> valcount s) ->
     sudo s = signer) /\
    (forall b, bridge_priv (bridge s' b) <> bridge_priv (bridge s b) ->
               bridge_sudo_of s b = Some signer \/ (bridge s b = None /\ b = signer)).
Proof. exact privileged_write_needs_holder. Qed.
Print Assumptions C02_privileged_write_needs_holder.

Theorem C02_privileged_untouched_elsewhere :
  (forall s signer k fa var pos s' evs,
      pay_fee s signer k fa var pos = Ok (s', evs) -> priv_equal s s') /\
  (forall s x t, priv_equal s (put_lasttx s x t)) /\
  (forall s bbh h, priv_equal s (begin_block s bbh h)) /\
  (forall s s' ds, end_block s = Ok (s', ds) -> priv_equal s s') /\
  (forall s c s' e, exec_tx s c = (s', OutErr e) -> s' = s).
Proof. exact privileged_untouched_elsewhere. Qed.
Print Assumptions C02_privileged_untouched_elsewhere.

Theorem C02_bridge_source_rules :
  forall s signer tx idx a cap,
    is_bridge s signer = true ->
    (match a with
     | ATransfer _ _ _ _ | ALock _ _ _ _ _ _ _ _ | AIcs20 _ _ _ _ _ None _ => True
     | _ => False
     end) ->
    (exists e, execute_action s signer tx idx (a, cap) = Err e) /\
    (exists e, construct_action s signer a = Err e).
Proof. exact bridge_source_rules. Qed.
Print Assumptions C02_bridge_source_rules.
