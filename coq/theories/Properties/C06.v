(** C06 — pinned statements only.  Model: Proposal/ProposalModel.v (prepare_proposal and
    process_proposal of crates/astria-sequencer/src/app/mod.rs with BlockSizeConstraints and the
    fixed data-item order), quantified over the chain state, transaction execution, the
    construction-time checks and the commitment functions; vocabulary: Proposal/ProposalSpec.v;
    concrete instance and witnesses: Proposal/ProposalLedger.v, Proposal/ProposalWitness.v. *)
From Astria Require Import Base.Bounded Proposal.ProposalModel Proposal.ProposalSpec
  Proposal.ProposalLedger Proposal.ProposalProofs Proposal.ProposalWitness.
From Coq Require Import ZArith.
Open Scope N_scope.

(** A prepared block stays within max_tx_bytes (sum of the lengths of all entries of the
    response, injected items included) and within the 256 000-byte sequenced-data limit. *)
Theorem C06_prepare_within_limits :
  forall (S T C : Type) (exec : S -> tx T -> outcome S)
         (commit_datas commit_ids : list (tx T) -> S -> C) e s0 q mx p,
    prepare exec commit_datas commit_ids e s0 q mx = inl p ->
    (0 <= mx)%Z /\
    proposal_len (e_typed e) (p_entries p) <= Z.to_N mx /\
    seq_total (p_included p) <= MAX_SEQ.
Proof. intros S T C exec cd ci. exact (prepare_within_limits exec cd ci). Qed.
Print Assumptions C06_prepare_within_limits.

(** Its transactions are ordered by action group (never increasing, from BundleableGeneral). *)
Theorem C06_prepare_group_sorted :
  forall (S T C : Type) (exec : S -> tx T -> outcome S)
         (commit_datas commit_ids : list (tx T) -> S -> C) e s0 q mx p,
    prepare exec commit_datas commit_ids e s0 q mx = inl p ->
    nonincreasing_from G_BUNDLEABLE_GENERAL (map tx_group (p_included p)).
Proof. intros S T C exec cd ci. exact (prepare_group_sorted exec cd ci). Qed.
Print Assumptions C06_prepare_group_sorted.

(** Executed in order from the block-start state none of them fails fatally, and all of them
    come from the mempool's builder queue. *)
Theorem C06_prepare_only_nonfatal :
  forall (S T C : Type) (exec : S -> tx T -> outcome S)
         (commit_datas commit_ids : list (tx T) -> S -> C) e s0 q mx p,
    prepare exec commit_datas commit_ids e s0 q mx = inl p ->
    run_nonfatal exec s0 (p_included p) (p_state p) /\
    (forall t, In t (p_included p) -> In t q).
Proof. intros S T C exec cd ci. exact (prepare_only_nonfatal exec cd ci). Qed.
Print Assumptions C06_prepare_only_nonfatal.

(** Acceptance implies: the items parse in the fixed order, every transaction is decodable,
    signed and constructible in the block-start state, groups are sorted, no fatal failure, the
    sequenced data is within the limit, and both commitments equal the recomputed ones. *)
Theorem C06_process_rejects_bad :
  forall (S T C : Type) (exec : S -> tx T -> outcome S) (construct : S -> tx T -> bool)
         (commit_datas commit_ids : list (tx T) -> S -> C) (ceqb : C -> C -> bool) e s0 p,
    process exec construct commit_datas commit_ids ceqb e s0 p = Accept ->
    exists pd txs s1,
      parse e p = Some pd /\
      Forall2 (fun (x : entry T C) (t : tx T) =>
                 exists r, x = ETx r /\ r_tx r = t /\ r_decodable r = true /\ r_signed r = true /\
                           construct s0 t = true) (pd_raw pd) txs /\
      nonincreasing_from G_BUNDLEABLE_GENERAL (map tx_group txs) /\
      run_nonfatal exec s0 txs s1 /\
      seq_total txs <= MAX_SEQ /\
      ceqb (pd_datas pd) (commit_datas txs s1) = true /\
      ceqb (pd_ids pd) (commit_ids txs s1) = true.
Proof. intros S T C exec k cd ci ceqb. exact (process_rejects_bad exec k cd ci ceqb). Qed.
Print Assumptions C06_process_rejects_bad.

(** The same, read as rejection: unparseable items, an injected item among the transactions, an
    undecodable / unsigned / unconstructible transaction, mis-ordered groups, more than 256 000
    bytes of sequenced data, a fatally failing transaction, or a commitment that differs from
    the recomputed one each prevent acceptance. *)
Theorem C06_process_rejects_each :
  forall (S T C : Type) (exec : S -> tx T -> outcome S) (construct : S -> tx T -> bool)
         (commit_datas commit_ids : list (tx T) -> S -> C) (ceqb : C -> C -> bool) e s0 p,
    (parse (T:=T) (C:=C) e p = None ->
       process exec construct commit_datas commit_ids ceqb e s0 p = Reject RParse) /\
    (forall pd, parse e p = Some pd ->
       (exists i, In (EItem i) (pd_raw pd)) ->
       process exec construct commit_datas commit_ids ceqb e s0 p <> Accept) /\
    (forall pd raws, parse e p = Some pd -> pd_raw pd = map (fun r => ETx r) raws ->
       (let txs := map r_tx raws in
        Exists (fun r => r_decodable r = false \/ r_signed r = false \/ construct s0 (r_tx r) = false) raws
        \/ ~ nonincreasing_from G_BUNDLEABLE_GENERAL (map tx_group txs)
        \/ MAX_SEQ < seq_total txs
        \/ (forall s1, ~ run_nonfatal exec s0 txs s1)
        \/ (exists s1, run_nonfatal exec s0 txs s1 /\
             (ceqb (pd_datas pd) (commit_datas txs s1) = false \/
              ceqb (pd_ids pd) (commit_ids txs s1) = false))) ->
       process exec construct commit_datas commit_ids ceqb e s0 p <> Accept).
Proof. intros S T C exec k cd ci ceqb. exact (process_rejects_each exec k cd ci ceqb). Qed.
Print Assumptions C06_process_rejects_each.

(** prepare => process, for every queue and every max_tx_bytes (also when the extended commit info
    does not fit and prepare_proposal substitutes the empty one), PROVIDED every included
    transaction passes the construction-time checks in the block-start state (see
    C06_prepare_accepted_refuted). *)
Theorem C06_prepare_accepted :
  forall (S T C : Type) (exec : S -> tx T -> outcome S) (construct : S -> tx T -> bool)
         (commit_datas commit_ids : list (tx T) -> S -> C) (ceqb : C -> C -> bool) e s0 q mx p,
    (forall c, ceqb c c = true) ->
    env_wf e ->
    (mx <= Z.of_N I64_MAX)%Z ->
    prepare exec commit_datas commit_ids e s0 q mx = inl p ->
    Forall (fun t => construct s0 t = true) (p_included p) ->
    process exec construct commit_datas commit_ids ceqb e s0 (p_entries p) = Accept.
Proof. intros S T C exec k cd ci ceqb. exact (prepare_accepted exec k cd ci ceqb). Qed.
Print Assumptions C06_prepare_accepted.

(** Without that hypothesis the statement is false of the faithful model (finding F10): the
    proposer executes cached CheckedTransactions, validators construct every transaction of the
    block against the block-start state. *)
Theorem C06_prepare_accepted_refuted :
  exists (e : env) (s0 : lstate) (q : list ltx) (mx : Z) p,
    env_wf e /\ (mx <= Z.of_N I64_MAX)%Z /\
    lprepare e s0 q mx = inl p /\
    p_included p = q /\
    run_nonfatal lexec s0 (p_included p) (p_state p) /\
    ~ Forall (fun t => lconstruct s0 t = true) (p_included p) /\
    lprocess e s0 (p_entries p) = Reject RConstruct.
Proof. exact prepare_accepted_refuted. Qed.
Print Assumptions C06_prepare_accepted_refuted.

(** For the record (finding F10b, repaired by repository commit a321bb4): with the fallback item
    prepare_proposal used before that commit, an item holding empty bytes, a block within
    max_tx_bytes whose transactions are all constructible was refused as unparseable.
    [lprepare_before_a321bb4] (Proposal/ProposalWitness.v) differs from [prepare] in that item
    only and is not part of the extracted model. *)
Theorem C06_prepare_before_a321bb4_rejected :
  exists (e : env) (s0 : lstate) (q : list ltx) (mx : Z) p,
    env_wf e /\ (mx <= Z.of_N I64_MAX)%Z /\
    lprepare_before_a321bb4 e s0 q mx = inl p /\
    Forall (fun t => lconstruct s0 t = true) (p_included p) /\
    proposal_len (e_typed e) (p_entries p) <= Z.to_N mx /\
    lprocess e s0 (p_entries p) = Reject RParse.
Proof. exact prepare_before_a321bb4_rejected. Qed.
Print Assumptions C06_prepare_before_a321bb4_rejected.

(** Tie to the source: the block-size accounting regenerated on every run from
    crates/astria-sequencer/src/proposal/block_size_constraints.rs by tools/rs2v.py
    (Kernels/KProposal.v) is the model's.  A method is regenerated as a function of the fields it
    reads; a [&mut self] method also returns the new value of the field it assigns, also on
    [Err] ([KernelLib.RErr]; [None] would be a panic): the Rust methods never panic, return an
    error exactly where the model returns [None], and then leave the size as it was. *)
From Astria Require Import Kernels.KernelEqProposal.
Theorem C06_kernels_tied :
  KProposal.MAX_SEQUENCE_DATA_BYTES_PER_BLOCK = MAX_SEQ /\
  (forall c n, KProposal.sequencer_has_space (max_seq c) (cur_seq c) n = Some (seq_has_space c n)) /\
  (forall c n, KProposal.cometbft_has_space (max_comet c) (cur_comet c) n = Some (comet_has_space c n)) /\
  (forall c n, KProposal.sequencer_checked_add (max_seq c) (cur_seq c) n
               = Some (match seq_checked_add c n with
                       | Some c' => (KernelLib.ROk tt, cur_seq c')
                       | None => (KernelLib.RErr, cur_seq c)
                       end)) /\
  (forall c n, KProposal.cometbft_checked_add (max_comet c) (cur_comet c) n
               = Some (match comet_checked_add c n with
                       | Some c' => (KernelLib.ROk tt, cur_comet c')
                       | None => (KernelLib.RErr, cur_comet c)
                       end)) /\
  (forall c n, seq_checked_add c n
               = KernelLib.bind (KProposal.sequencer_checked_add (max_seq c) (cur_seq c) n) (put_cur_seq c)) /\
  (forall c n, comet_checked_add c n
               = KernelLib.bind (KProposal.cometbft_checked_add (max_comet c) (cur_comet c) n) (put_cur_comet c)).
Proof.
  exact (conj keq_max_sequence_data_bytes (conj keq_sequencer_has_space (conj keq_cometbft_has_space
        (conj keq_sequencer_checked_add (conj keq_cometbft_checked_add
        (conj keq_seq_checked_add_model keq_comet_checked_add_model)))))).
Qed.
Print Assumptions C06_kernels_tied.
