(** C18 — pinned statements only. *)
From Astria Require Import Ics20.Ics20Model Ics20.Ics20Spec Ics20.Ics20Proofs Ics20.Ics20Examples.

(** Escrow accounting: for every channel [c] and asset [a] that is sequencer-origin with respect
    to [c], after any history that contains none of the recorded inputs (a withdrawal naming a
    sequencer-origin asset by its ibc/<hash> form — F8; an incoming source-zone packet whose
    credit overflows after the escrow was decreased — F5), escrow = initial + sent out - returned
    - refunded. *)
Theorem C18_escrow_identity : forall ops s c a,
  origin c a = true -> clean s ops = true ->
  esc (fst (run s ops)) c a + returned_sum s ops c a + refunded_sum s ops c a
  = esc s c a + sent_sum s ops c a.
Proof. exact escrow_identity. Qed.
Print Assumptions C18_escrow_identity.

(** The same statement without the exclusion is false (F8 witness, no F5 input involved). *)
Theorem C18_escrow_identity_refuted :
  exists s ops c a, origin c a = true /\
    esc (fst (run s ops)) c a + returned_sum s ops c a + refunded_sum s ops c a
    <> esc s c a + sent_sum s ops c a.
Proof. exact escrow_identity_refuted. Qed.
Print Assumptions C18_escrow_identity_refuted.

(** One step of the identity (what the monitor evaluates after every operation). *)
Theorem C18_step_identity : forall s o s' x c a,
  step s o = (s', x) -> origin c a = true -> known_for_identity s o = false ->
  esc s' c a + returned_of s o x c a + refunded_of s o x c a = esc s c a + sent_of o x c a.
Proof. exact step_identity. Qed.
Print Assumptions C18_step_identity.

(** Never release more than is escrowed (unconditional): an incoming packet, acknowledgement or
    timeout never makes an escrow balance grow; a successful source-zone receive / refund takes
    exactly the credited amount out of an escrow balance that held at least that much. *)
Theorem C18_never_release_more_monotone : forall s o s' x,
  step s o = (s', x) -> incoming o = true -> forall c a, esc s' c a <= esc s c a.
Proof. exact incoming_escrow_monotone. Qed.
Print Assumptions C18_never_release_more_monotone.

Theorem C18_never_release_more_recv : forall s q p s',
  step s (ORecv true q p) = (s', OutAck true) ->
  forall d, resolve s (p_denom p) = Some d -> has_prefix d (p_sport p) (p_schan p) = true ->
  exists rcpt, p_receiver p = Some rcpt /\
    amount_of p <= esc s (p_dchan p) (pop d) /\
    esc s' (p_dchan p) (pop d) = esc s (p_dchan p) (pop d) - amount_of p /\
    bal s' rcpt (pop d) = bal s rcpt (pop d) + amount_of p.
Proof. exact release_exact_recv. Qed.
Print Assumptions C18_never_release_more_recv.

Theorem C18_never_release_more_refund : forall s p s',
  refund_execute s p = (s', OutOk) ->
  forall d, resolve s (p_denom p) = Some d -> refund_is_source p d = true ->
  exists rcv, p_sender p = Some rcv /\
    amount_of p <= esc s (p_schan p) d /\
    esc s' (p_schan p) d = esc s (p_schan p) d - amount_of p /\
    bal s' rcv d = bal s rcv d + amount_of p.
Proof. exact release_exact_refund. Qed.
Print Assumptions C18_never_release_more_refund.

Theorem C18_total_release_bounded : forall ops s c a,
  origin c a = true -> clean s ops = true ->
  returned_sum s ops c a + refunded_sum s ops c a <= esc s c a + sent_sum s ops c a.
Proof. exact total_release_bounded. Qed.
Print Assumptions C18_total_release_bounded.

(** A failed receive has no side effect — outside F5. *)
Theorem C18_failed_receive_no_effect : forall s p s' st,
  receive_tokens s p = (s', TErr st) -> f5_partial s p = false -> obs_eq s s'.
Proof. exact failed_receive_no_effect. Qed.
Print Assumptions C18_failed_receive_no_effect.

Theorem C18_failed_receive_step_no_effect : forall s q p s',
  step s (ORecv true q p) = (s', OutAck false) -> f5_partial s p = false -> obs_eq s s'.
Proof. exact failed_receive_step_no_effect. Qed.
Print Assumptions C18_failed_receive_step_no_effect.

(** The full-strength statement is false (F5): the deposit of a bridge recipient is cached and
    its event recorded before the escrow check; the escrow is decreased before the credit. *)
Theorem C18_failed_receive_no_effect_refuted :
  exists s p s' st, receive_tokens s p = (s', TErr st) /\ ~ obs_eq s s'.
Proof. exact failed_receive_no_effect_refuted. Qed.
Print Assumptions C18_failed_receive_no_effect_refuted.

Theorem C18_failed_receive_escrow_leak_refuted :
  exists s p s' st, receive_tokens s p = (s', TErr st) /\ esc s' 0 NRIA <> esc s 0 NRIA.
Proof. exact failed_receive_escrow_leak_refuted. Qed.
Print Assumptions C18_failed_receive_escrow_leak_refuted.

(** Rejected packets, failing callbacks and failing withdrawals change nothing at all. *)
Theorem C18_failed_callback_no_effect : forall s o s',
  (step s o = (s', OutFail) \/ step s o = (s', OutRejected) \/ step s o = (s', OutWd false)) ->
  s' = s.
Proof. exact failed_callback_no_effect. Qed.
Print Assumptions C18_failed_callback_no_effect.

(** F8: the trace-prefixed name of a sequencer-origin asset is escrowed, its ibc/<hash> name is
    not (the tokens are burned). *)
Theorem C18_withdraw_trace_form_escrows : forall s w s' d,
  withdraw s w = (s', true) -> w_denom w = PTrace d -> origin (w_chan w) d = true ->
  esc s' (w_chan w) d = esc s (w_chan w) d + w_amount w.
Proof. exact withdraw_trace_form_escrows. Qed.
Print Assumptions C18_withdraw_trace_form_escrows.

Theorem C18_withdraw_ibc_form_burns : forall s w s' d,
  withdraw s w = (s', true) -> w_denom w = PIbc d -> forall c a, esc s' c a = esc s c a.
Proof. exact withdraw_ibc_form_burns. Qed.
Print Assumptions C18_withdraw_ibc_form_burns.

Theorem C18_f8_refund_drains_foreign_escrow :
  snd (run f8_state f8_history) = [OutWd true; OutWd true; OutOk; OutRejected] /\
  bal (fst (run f8_state f8_history)) 1 NRIA = 0 /\
  bal (fst (run f8_state f8_history)) 2 NRIA = 10 /\
  esc (fst (run f8_state f8_history)) 0 NRIA = 0.
Proof. exact f8_refund_drains_foreign_escrow. Qed.
Print Assumptions C18_f8_refund_drains_foreign_escrow.
