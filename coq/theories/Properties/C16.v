(** C16 — pinned statements only. *)
From Astria Require Import Bundle.BundleModel Bundle.BundleProofs.

Theorem C16_fifo_exactly_once : forall mx cap ops,
  2 * mx <= U64_MAX ->
  let '(s', outs) := run (init mx cap) ops in
  emitted outs ++ pending s' = accepted ops outs.
Proof. exact fifo_exactly_once. Qed.
Print Assumptions C16_fifo_exactly_once.

Theorem C16_emitted_within_limit : forall mx cap ops,
  2 * mx <= U64_MAX ->
  let '(_, outs) := run (init mx cap) ops in
  forall b, In (OBundle b) outs -> true_size b <= mx /\ b_size b = true_size b.
Proof. exact emitted_within_limit. Qed.
Print Assumptions C16_emitted_within_limit.

Theorem C16_refusal_exact : forall s id sz,
  2 * maxb s <= U64_MAX -> Inv s ->
  let '(s', x) := step s (Push id sz) in
  (x = OTooLarge <-> maxb s < sz) /\
  (x = OQueueFull <-> (sz <= maxb s /\ maxb s < true_size (cur s) + sz /\ capq s <= lenN (fin s))) /\
  (x = OOk \/ x = OTooLarge \/ x = OQueueFull) /\
  (x <> OOk -> s' = s).
Proof. exact refusal_exact. Qed.
Print Assumptions C16_refusal_exact.

Theorem C16_finished_within_capacity : forall mx cap ops,
  2 * mx <= U64_MAX ->
  let '(s', _) := run (init mx cap) ops in lenN (fin s') <= cap.
Proof. exact finished_within_capacity. Qed.
Print Assumptions C16_finished_within_capacity.

(** Every reachable state satisfies [Inv] (so C16_refusal_exact's hypothesis is met). *)
Theorem C16_reachable_inv : forall mx cap ops,
  2 * mx <= U64_MAX -> Inv (fst (run (init mx cap) ops)).
Proof.
  intros mx cap ops Hmx. pose proof (run_inv ops (init mx cap) Hmx (Inv_init mx cap)) as H.
  destruct (run (init mx cap) ops) as [s' outs]. exact (proj1 H).
Qed.
Print Assumptions C16_reachable_inv.
