(** C13 — pinned statements only.  Model: Mempool/MempoolModel.v (the code after the repairs
    COMMIT_F12 and COMMIT_F12B); vocabulary and ghost bookkeeping (what the mempool has accepted /
    has been shown): Mempool/MempoolSpec.v; the pre-repair definitions: Mempool/MempoolPrefix.v. *)
From Astria Require Import Mempool.MempoolSpec Mempool.MempoolPrefix Mempool.MempoolOnePlace
  Mempool.MempoolLight3 Mempool.MempoolQueue Mempool.MempoolWitness.

(** Every accepted transaction that has not yet been reported to its submitter as removed has a
    place (pending, parked, or removed with a reason); the place reported by transaction_status is
    where the transaction is held; no id is held twice.  No exception, no hypothesis on nonces. *)
Theorem C13_one_place : forall pmax k na ops,
  let '(s, g) := grun (init pmax k na) ghost0 ops in
  (forall id, In id (g_live g) -> tx_status (s_universe s) (s_pool s) id <> None) /\
  (forall id, place_consistent s id) /\
  (forall id, (occurrences (s_universe s) (s_pool s) id <= 1)%nat).
Proof. exact one_place. Qed.
Print Assumptions C13_one_place.

Theorem C13_ready_consecutive : forall pmax k na ops,
  let '(s, g) := grun (init pmax k na) ghost0 ops in
  forall a, gapfree (p_pending (s_pool s) a) (g_shown_nonce g a) /\
            run_from (p_pending (s_pool s) a) (g_shown_nonce g a) /\
            g_shown_nonce g a <= c_nonce (s_chain s) a.
Proof. exact ready_consecutive. Qed.
Print Assumptions C13_ready_consecutive.

(** the literal reading (stale entries count as ready) is false; not a defect *)
Theorem C13_ready_consecutive_literal_refuted :
  ~ (forall pmax k na ops,
     let s := fst (run (init pmax k na) ops) in
     forall a n m j, has_nonce (p_pending (s_pool s) a) n = true ->
                     has_nonce (p_pending (s_pool s) a) m = true ->
                     n <= j -> j <= m -> has_nonce (p_pending (s_pool s) a) j = true).
Proof. exact ready_consecutive_literal_refuted. Qed.
Print Assumptions C13_ready_consecutive_literal_refuted.

Theorem C13_ready_affordable : forall pmax k na ops,
  let '(s, g) := grun (init pmax k na) ghost0 ops in
  forall a asset, total_cost (p_pending (s_pool s) a) asset <= g_shown_bal g a asset.
Proof. exact ready_affordable. Qed.
Print Assumptions C13_ready_affordable.

Theorem C13_queue_order : forall pmax k na ops,
  let s := fst (run (init pmax k na) ops) in
  let q := builder_queue (s_universe s) (s_pool s) in
  NoDup q /\
  forall a e1 e2, In a (s_universe s) ->
    In e1 (p_pending (s_pool s) a) -> In e2 (p_pending (s_pool s) a) ->
    t_group (e_tx e1) = t_group (e_tx e2) -> e_nonce e1 < e_nonce e2 ->
    before_in (e_id e1) (e_id e2) q.
Proof. exact queue_order. Qed.
Print Assumptions C13_queue_order.

Theorem C13_after_maintenance_no_stale : forall pmax k na ops recost h ids,
  let s := fst (run (init pmax k na) (ops ++ [OpMaint recost h ids])) in
  forall a e, In e (p_pending (s_pool s) a) \/ In e (p_parked (s_pool s) a) ->
  c_nonce (s_chain s) a <= e_nonce e.
Proof. exact after_maintenance_no_stale. Qed.
Print Assumptions C13_after_maintenance_no_stale.

Theorem C13_parked_limits : forall pmax k na ops,
  let s := fst (run (init pmax k na) ops) in
  parked_len (s_universe s) (p_parked (s_pool s)) <= pmax /\
  forall a, llen (p_parked (s_pool s) a) <= MAX_PARKED_PER_ACCOUNT.
Proof. exact parked_limits. Qed.
Print Assumptions C13_parked_limits.

(** The two repaired defects, stated about the PRE-FIX definitions ([run_maintenance_prefix],
    [insert_pending_prefix] of MempoolPrefix.v). *)
Theorem C13_f12_prefix_lost :
  let s := fst (run (init 1 1 1) (removelast f12_ops)) in
  let p' := run_maintenance_prefix (s_universe s) (s_pmax s) (s_chain s) (s_pool s) false [] 3 in
  tx_status (s_universe s) (s_pool s) 3 = Some SPending /\
  tx_status (s_universe s) p' 3 = None /\
  map e_id (p_pending p' 0) = [1] /\ map e_id (p_parked p' 0) = [2] /\ p_rcache p' = [].
Proof. exact f12_prefix_lost. Qed.
Print Assumptions C13_f12_prefix_lost.

Theorem C13_nonce_max_prefix_panics :
  let s := fst (run (init 4 1 1) (removelast nonce_max_ops)) in
  match insert_pending_prefix (s_pool s) (tr 1 0 U32_MAX 1) U32_MAX (c_bal (s_chain s) 0) [(0, 1)] with
  | Some (p', None) =>
      builder_queue (s_universe s) p' = [1] /\ tx_status (s_universe s) p' 1 = None
  | _ => False
  end.
Proof. exact nonce_max_prefix_panics. Qed.
Print Assumptions C13_nonce_max_prefix_panics.
