(** C10 — pinned statements only.  Vocabulary (Conductor/ConductorSpec.v): [xreach x0 s]: executor
    state [s] is reachable from session [x0] by any sequence of deliveries the commit level admits
    (arbitrary heights) ; [xt s]: its RPC trace, newest first; [every Q tr]: [Q e earlier] for every
    split [tr = later ++ e :: earlier]; [sreach x0 s]: [s] is reachable in the composed system
    (two reader caches, two FIFO channels, executor) by any interleaving. *)
From Astria Require Import Conductor.ConductorSpec Conductor.ConductorProofs Conductor.ConductorSysProofs.

(** every ExecuteBlock is for the height after the previous ExecuteBlock's, on top of the block
    that one returned; the first one is for the session's next height on the session's head *)
Theorem C10_exec_once_in_order : forall x0 s, session x0 -> xreach x0 s ->
  every (fun e earlier =>
    match e with
    | EvExec p h _ =>
        match last_exec earlier with
        | Some (h', m') => p = m_hash m' /\ h = h' + 1
        | None => p = m_hash (head_meta x0) /\ start_height x0 = Some h
        end
    | _ => True
    end) (xt s).
Proof. exact exec_once_in_order. Qed.
Print Assumptions C10_exec_once_in_order.

(** commitment updates never decrease -- except in the input class of the next theorem *)
Theorem C10_commit_monotone : forall x0 s, session x0 ->
  ~ (x_mode x0 = FirmOnly /\ m_num (x_firm x0) < m_num (x_soft x0)) -> xreach x0 s ->
  every (fun e earlier =>
    match e with
    | EvUpdate f so _ =>
        m_num (fst (last_commit x0 earlier)) <= m_num f /\
        m_num (snd (last_commit x0 earlier)) <= m_num so
    | _ => True
    end) (xt s).
Proof. exact commit_monotone. Qed.
Print Assumptions C10_commit_monotone.

(** FirmOnly session starting with soft ahead of firm: the soft commitment goes backwards *)
Theorem C10_commit_monotone_refuted : exists x0 s,
  session x0 /\ (x_mode x0 = FirmOnly /\ m_num (x_firm x0) < m_num (x_soft x0)) /\ xreach x0 s /\
  ~ every (Qmono x0) (xt s).
Proof. exact commit_monotone_refuted. Qed.
Print Assumptions C10_commit_monotone_refuted.

(** firm never exceeds soft in an update, and neither the commitment-state builder check nor the
    execution contract check ever fails *)
Theorem C10_firm_le_soft : forall x0 s, session x0 -> xreach x0 s ->
  every (fun e _ => match e with EvUpdate f so _ => m_num f <= m_num so | _ => True end) (xt s) /\
  xd s <> Some EFirmGtSoft /\ xd s <> Some EContractWrong.
Proof. exact firm_le_soft. Qed.
Print Assumptions C10_firm_le_soft.

(** a changed firm commitment was caused by a firm block of some height h and names either a block
    executed in this session from exactly that height, or the pre-session block whose number maps
    to that height *)
Theorem C10_firm_names_executed_height : forall x0 s, session x0 -> xreach x0 s ->
  every (fun e earlier =>
    match e with
    | EvUpdate f _ _ =>
        f = fst (last_commit x0 earlier) \/
        exists h c, last_took earlier = Some (DFirm h c) /\
          ((exists p, In (EvExec p h (Some f)) earlier) \/
           (m_num f <= m_num (x_soft x0) /\ m_hash f = HGen (m_num f) /\
            s2r (x_sstart x0) (x_rstart x0) h = Some (m_num f)))
    | _ => True
    end) (xt s).
Proof. exact firm_names_executed_height. Qed.
Print Assumptions C10_firm_names_executed_height.

(** a soft block below the expected height: no RPC, no state change *)
Theorem C10_stale_dropped : forall s h es,
  xd s = None -> nexts (xe s) = Some es -> h < es -> deliver s (DSoft h) = tick s (EvTookSoft h).
Proof. exact stale_dropped. Qed.
Print Assumptions C10_stale_dropped.

(** composed system, any interleaving: the executor never sees a soft block above the expected
    height nor a firm block at an unexpected height *)
Theorem C10_never_greater : forall x0 s, session x0 -> sreach x0 s ->
  xd (s_x s) <> Some EOutOfOrder /\ xd (s_x s) <> Some EFirmHeight /\
  xd (s_x s) <> Some EFirmGtSoft /\ xd (s_x s) <> Some EContractWrong.
Proof. exact never_greater. Qed.
Print Assumptions C10_never_greater.

(** the executor of the composed system only moves by admitted deliveries, so the theorems above
    hold for every interleaving of the composed system *)
Theorem C10_system_refines : forall x0 s, session x0 -> sreach x0 s -> xreach x0 (s_x s).
Proof. exact system_refines. Qed.
Print Assumptions C10_system_refines.

(** the harness' `run` (the executor's biased select until it would block) is an interleaving *)
Theorem C10_run_is_interleaving : forall s, exists ls,
  hsteps s ls = Some (fst (do_run s)) /\ Forall (fun l => l = LXf \/ l = LXs \/ l = LXp) ls.
Proof. exact run_is_interleaving. Qed.
Print Assumptions C10_run_is_interleaving.

(** Tie to the source: the kernels regenerated on every run from
    crates/astria-conductor/src/executor/mod.rs ([should_execute_firm_block]; the enum
    [CommitLevel] is read from config.rs) and crates/astria-conductor/src/state.rs (the two
    height/number maps) by tools/rs2v.py are the model's functions the theorems above are about.
    [Some (res_of_opt _)]: the Rust function returns [Err] exactly where the model returns [None],
    and never panics.  [next_of] = the regenerated map, [expect]ed, then tendermint's
    [Height::increment] ([KernelLib.height_increment], transcribed by hand). *)
From Astria Require Import Kernels.KernelEqConductorExec.
Theorem C10_kernels_tied :
  (forall nf ns m, KConductorExec.should_execute_firm_block nf ns (level_of m)
                   = Some (should_execute_firm nf ns m)) /\
  (forall sstart rstart num, KConductorState.map_rollup_number_to_sequencer_height sstart rstart num
                   = Some (KernelLib.res_of_opt (map_r2s sstart rstart num))) /\
  (forall sstart rstart h, KConductorState.try_map_sequencer_height_to_rollup_height sstart rstart h
                   = Some (KernelLib.res_of_opt (s2r sstart rstart h))) /\
  (forall sstart rstart num, next_of sstart rstart num
                   = KernelLib.bind (KConductorState.map_rollup_number_to_sequencer_height sstart rstart num)
                       (fun r => KernelLib.bind (KernelLib.unwrap_res r) KernelLib.height_increment)).
Proof.
  exact (conj keq_should_execute_firm_block_mode (conj keq_map_rollup_number_to_sequencer_height
        (conj keq_try_map_sequencer_height_to_rollup_height keq_next_of))).
Qed.
Print Assumptions C10_kernels_tied.
