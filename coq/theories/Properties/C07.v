(** C07 -- pinned statements only.  Rollup data is complete, ordered and provable from block to
    rollup.  Model: BlockData/BlockDataModel.v (on top of the Merkle model of C08).  Byte strings
    [B], their equality test [beq], the order of rollup ids [ltb], the length function [blen],
    concatenation [cat], the hash functions [sha] (plain SHA-256), [leafH] (0x00 prefix), [nodeH]
    (0x01 prefix), [emptyH], the deposit type [Dp] and the protobuf encoders [encS] / [encD] of one
    rollup data item are universally quantified.

    Named hypotheses (BlockData/BlockDataSpec.v):
    [BeqSpec]: [beq a b = true <-> a = b].   [LtbSpec]: [ltb] is a strict total order.
    [CatInj]: [blen a = blen c -> cat a b = cat c d -> a = c /\ b = d].
    [HashLen]: the digests [leafH x], [nodeH a b], [emptyH] are 32 bytes long.
    [Coll]: an explicit SHA-256 collision -- two different inputs of [nodeH], of [leafH] or of [sha]
    with equal digests, or a digest shared between the leaf domain, the node domain and the empty
    string.
    [expected r subs deps] = payloads of the block's submissions for rollup [r] in block order
    (each encoded by [encS]) followed by the deposits of [r] (encoded by [encD]);
    [touched r subs deps] = [r] occurs among the submissions or the deposit keys.
    [size_ok]: at most 2^62 items (the 64-bit index arithmetic of the flat tree is exact there, C08). *)
From Astria Require Import BlockData.BlockDataModel BlockData.BlockDataSpec.
From Astria Require Import BlockData.BlockDataGroup BlockData.BlockDataServe BlockData.BlockDataTamper.
From Astria Require Import BlockData.BlockDataExamples BlockData.BlockDataForge.
From Astria Require Decode.DecodeModel BlockData.BlockDataBridge.

Section C07.
  Variable B : Type.
  Variable beq ltb : B -> B -> bool.
  Variable blen : B -> N.
  Variable cat : B -> B -> B.
  Variable sha leafH : B -> B.
  Variable nodeH : B -> B -> B.
  Variable emptyH zeroD : B.
  Variable Dp : Type.
  Variable encS : B -> B.
  Variable encD : Dp -> B.

  Local Notation BeqSpec := (BeqSpec B beq).
  Local Notation LtbSpec := (LtbSpec B ltb).
  Local Notation CatInj := (CatInj B blen cat).
  Local Notation HashLen := (HashLen B blen leafH nodeH emptyH).
  Local Notation Coll := (Coll B sha leafH nodeH emptyH).
  Local Notation expected := (expected B beq Dp encS encD).
  Local Notation touched := (touched B beq Dp).
  Local Notation size_ok := (size_ok B Dp).
  Local Notation ids32 := (ids32 B blen Dp).
  Local Notation sorted_ids := (sorted_ids B ltb).
  Local Notation unique_ids := (unique_ids B).
  Local Notation im_get := (im_get B beq).
  Local Notation mem := (mem B beq).
  Local Notation build_group := (build_group B beq ltb Dp encS encD).
  Local Notation commit_group := (commit_group B beq ltb Dp encS encD).
  Local Notation finalize := (finalize B beq ltb cat sha leafH nodeH emptyH zeroD Dp encS encD).
  Local Notation stored_block := (stored_block B beq).
  Local Notation serve_filtered := (serve_filtered B beq ltb).
  Local Notation to_filtered := (to_filtered B beq).
  Local Notation split := (split_celestia B).
  Local Notation collect := (collect B beq).
  Local Notation entry_data := (entry_data B).
  Local Notation rollup_leaf := (rollup_leaf B cat leafH nodeH emptyH).
  Local Notation pverifies := (pverifies B beq nodeH).
  Local Notation recv_full := (recv_full B beq blen cat sha leafH nodeH emptyH).
  Local Notation recv_filtered := (recv_filtered B beq blen cat sha leafH nodeH emptyH).
  Local Notation recv_meta := (recv_meta B beq blen sha leafH nodeH emptyH).
  Local Notation blob_ok := (blob_ok B blen).
  Local Notation audit_blob := (audit_blob B beq cat leafH nodeH emptyH).
  Local Notation reconstruct := (reconstruct B beq cat leafH nodeH emptyH).
  Local Notation reconstruct_before_F16_fix := (reconstruct_before_F16_fix B beq cat leafH nodeH emptyH).
  Local Notation tamper_f := (tamper_f B).
  Local Notation tamper_full := (tamper_full B).
  Local Notation tamper_cel := (tamper_cel B).
  Local Notation ids_root := (ids_root B leafH nodeH emptyH).
  Local Notation LeafConf := (LeafConf B sha).
  Local Notation Honest := (Honest B beq ltb blen cat sha leafH nodeH emptyH zeroD Dp encS encD).

  (** * data_exact *)

  (** The grouped rollup data of a block: rollup ids strictly ascending (hence unique) and exactly
      the rollups that occur; for each, the sequenced payloads in block order followed by its
      deposits; the proposer's grouping (commitment.rs) and the builder's (try_build) agree. *)
  Theorem C07_group_exact :
    BeqSpec -> LtbSpec -> forall subs deps,
      let m := build_group subs deps in
      sorted_ids (map fst m) /\
      (forall r, In r (map fst m) <-> touched r subs deps = true) /\
      (forall r, im_get m r = if touched r subs deps then Some (expected r subs deps) else None) /\
      commit_group subs deps = m.
  Proof. exact (group_exact B beq ltb Dp encS encD). Qed.

  (** The list of rollup ids is exactly the set of rollups with data (the deposits map never holds
      an empty list). *)
  Theorem C07_ids_with_data :
    BeqSpec -> forall subs deps, (forall d, In d deps -> snd d <> []) ->
      forall r, touched r subs deps = true <-> expected r subs deps <> [].
  Proof. exact (ids_with_data B beq Dp encS encD). Qed.

  (** The iteration order of the deposits HashMap does not influence the result. *)
  Theorem C07_group_dep_order :
    BeqSpec -> LtbSpec -> forall subs deps deps',
      Permutation deps deps' -> NoDup (map fst deps) ->
      build_group subs deps = build_group subs deps'.
  Proof. exact (group_dep_order B beq ltb Dp encS encD). Qed.

  (** The built block, the block read back from storage, every filtered form (gRPC service and
      [to_filtered_block]) and the Celestia split carry exactly the grouped data and id list. *)
  Theorem C07_served_exact :
    BeqSpec -> LtbSpec -> forall bh rest subs deps b,
      finalize bh rest subs deps = BuildOk b ->
      let d := build_group subs deps in
      b_hash b = bh /\
      map entry_data (b_entries b) = d /\
      stored_block b = b /\
      (forall req,
         f_all (serve_filtered b req) = map fst d /\
         map entry_data (f_entries (serve_filtered b req))
         = filter_opt (fun r => option_map (fun l => (r, l)) (im_get d r)) req) /\
      (forall req,
         f_all (to_filtered b req) = map fst d /\
         NoDup (map e_id (f_entries (to_filtered b req))) /\
         (forall e, In e (f_entries (to_filtered b req)) <->
                    In e (b_entries b) /\ mem (e_id e) req = true)) /\
      m_ids (fst (split b)) = map fst d /\
      map (fun bl => (bl_id bl, bl_txs bl)) (snd (split b)) = d /\
      (forall bl, In bl (snd (split b)) -> bl_hash bl = bh).
  Proof. exact (served_exact B beq ltb cat sha leafH nodeH emptyH zeroD Dp encS encD). Qed.

  (** * served_verifies *)

  (** An honest proposal is always built: neither of the two root comparisons of [try_build]
      fails and nothing panics. *)
  Theorem C07_finalize_ok :
    BeqSpec -> LtbSpec -> forall bh rest subs deps,
      size_ok subs deps rest -> exists b, finalize bh rest subs deps = BuildOk b.
  Proof. exact (finalize_ok B beq ltb cat sha leafH nodeH emptyH zeroD Dp encS encD). Qed.

  (** All proofs that accompany the full block (as built and as read back from storage), every
      filtered block (any request list) and the Celestia split verify against the commitments
      placed in the block; the conductor of every rollup, given ALL published blobs of the block,
      reconstructs exactly its own data (or an empty block for a rollup without data). *)
  Theorem C07_served_verifies :
    BeqSpec -> LtbSpec -> HashLen -> forall bh rest subs deps b,
      size_ok subs deps rest -> ids32 subs deps -> blen bh = 32 ->
      finalize bh rest subs deps = BuildOk b ->
      recv_full b = true /\
      recv_full (stored_block b) = true /\
      (forall req, recv_filtered (serve_filtered b req) = true) /\
      (forall req, recv_filtered (to_filtered b req) = true) /\
      recv_meta (fst (split b)) = true /\
      (forall bl, In bl (snd (split b)) ->
                  blob_ok bl = true /\ audit_blob (fst (split b)) bl = true) /\
      (forall r, reconstruct [fst (split b)] (snd (split b)) r
                 = [(bh, if touched r subs deps then expected r subs deps else [])]).
  Proof. exact (served_verifies B beq ltb blen cat sha leafH nodeH emptyH zeroD Dp encS encD). Qed.

  (** * tamper_detected *)

  (** One inclusion proof binds one (rollup id, data list) to a rollup transactions root. *)
  Theorem C07_entry_binding :
    BeqSpec -> CatInj -> forall p rtr id txs id' txs',
      blen id = 32 -> blen id' = 32 ->
      pverifies p (rollup_leaf id txs) rtr = true ->
      pverifies p (rollup_leaf id' txs') rtr = true ->
      (id = id' /\ txs = txs') \/ Coll.
  Proof. exact (entry_binding B beq blen cat sha leafH nodeH emptyH). Qed.

  (** [SequencerBlock::try_from_raw]: every single tampering (any constructor of [tamper]) of an
      accepted full block that is accepted again leaves the decoded rollup data (all rollups, in
      order), the rollup transactions root and the data hash as they were -- or exhibits a
      collision. *)
  Theorem C07_full_tamper :
    BeqSpec -> CatInj -> forall b t,
      recv_full b = true -> unique_ids (b_entries b) ->
      recv_full (tamper_full t b) = true ->
      (map entry_data (collect (b_entries (tamper_full t b))) = map entry_data (b_entries b) /\
       b_rtr (tamper_full t b) = b_rtr b /\ b_dh (tamper_full t b) = b_dh b) \/ Coll.
  Proof. exact (full_tamper B beq blen cat sha leafH nodeH emptyH). Qed.

  (** [FilteredSequencerBlock::try_from_raw]: every rollup entry that survives decoding of an
      accepted tampered block is one of the served ones, and the list of all rollup ids and the
      two roots are unchanged. *)
  Theorem C07_filtered_tamper :
    BeqSpec -> CatInj -> forall f t,
      recv_filtered f = true -> unique_ids (f_entries f) ->
      recv_filtered (tamper_f t f) = true ->
      ((forall e, In e (collect (f_entries (tamper_f t f))) ->
                  In (entry_data e) (map entry_data (f_entries f))) /\
       f_all (tamper_f t f) = f_all f /\
       f_rtr (tamper_f t f) = f_rtr f /\ f_dh (tamper_f t f) = f_dh f) \/ Coll.
  Proof. exact (filtered_tamper B beq blen cat sha leafH nodeH emptyH). Qed.

  (** [SubmittedMetadata::try_from_raw] + the conductor's rollup blob audit: if the tampered
      metadata is accepted its id list and roots are unchanged, and every tampered rollup blob
      that passes the audit against it carries the id and the data of a published blob. *)
  Theorem C07_celestia_tamper :
    BeqSpec -> CatInj -> forall m bs bh t,
      recv_meta m = true ->
      (forall bl, In bl bs -> blob_ok bl = true /\ audit_blob m bl = true) ->
      let m' := fst (tamper_cel t bh (m, bs)) in
      let bs' := snd (tamper_cel t bh (m, bs)) in
      recv_meta m' = true ->
      (m_ids m' = m_ids m /\ m_rtr m' = m_rtr m /\ m_dh m' = m_dh m /\
       forall bl', In bl' bs' -> blob_ok bl' = true -> audit_blob m' bl' = true ->
                   In (bl_id bl', bl_txs bl') (map (fun bl => (bl_id bl, bl_txs bl)) bs)) \/ Coll.
  Proof. exact (celestia_tamper B beq blen cat sha leafH nodeH emptyH). Qed.

  (** The named tamperings of one rollup's list in a filtered block are rejected: one element
      altered, two different neighbours exchanged, one element removed, one element repeated or
      appended, the entry attributed to another rollup id, the entry given another rollup's proof. *)
  Theorem C07_filtered_named :
    BeqSpec -> CatInj -> forall f j e,
      recv_filtered f = true -> unique_ids (f_entries f) -> nth_error (f_entries f) j = Some e ->
      (forall k x y, nth_error (e_txs e) k = Some y -> x <> y ->
                     recv_filtered (tamper_f (TAlter j k x) f) = false \/ Coll) /\
      (forall k y z, nth_error (e_txs e) k = Some y -> nth_error (e_txs e) (S k) = Some z -> y <> z ->
                     recv_filtered (tamper_f (TSwap j k) f) = false \/ Coll) /\
      (forall k, (k < length (e_txs e))%nat ->
                 recv_filtered (tamper_f (TDrop j k) f) = false \/ Coll) /\
      (forall k, (k < length (e_txs e))%nat ->
                 recv_filtered (tamper_f (TDup j k) f) = false \/ Coll) /\
      (forall x, recv_filtered (tamper_f (TApp j x) f) = false \/ Coll) /\
      (forall id, id <> e_id e -> ~ In id (map e_id (skipn (S j) (f_entries f))) ->
                  recv_filtered (tamper_f (TReid j id) f) = false \/ Coll) /\
      (forall j2 e2, nth_error (f_entries f) j2 = Some e2 -> j2 <> j ->
                     recv_filtered (tamper_f (TSwapProof j j2) f) = false \/ Coll).
  Proof. exact (filtered_named B beq blen cat sha leafH nodeH emptyH). Qed.

  (** * tamper_detected, strongest form: an adversary who forges EVERYTHING (data, ids, roots and
      all proofs); the receiver only knows the data hash of the honestly built block [b].
      [Honest bh rest subs deps b] = BeqSpec, LtbSpec, CatInj, CatLen, HashLen, size_ok, ids32,
      [blen bh = 32] and [finalize bh rest subs deps = BuildOk b].
      [LeafConf rest x] = [sha x] is the leaf of another data item of the block (the extended
      commit info or a user transaction): it cannot be excluded because no receiver checks the
      POSITION (leaf index 0 / 1) of the two commitments in the data tree. *)

  (** Any (rollup id, data list) that verifies -- with any proof -- against the rollup transactions
      root of the block is an entry of the block. *)
  Theorem C07_entry_member :
    forall bh rest subs deps b, Honest bh rest subs deps b ->
    forall p id txs, blen id = 32 -> pverifies p (rollup_leaf id txs) (b_rtr b) = true ->
      In (id, txs) (build_group subs deps) \/ Coll.
  Proof. exact (entry_member B beq ltb blen cat sha leafH nodeH emptyH zeroD Dp encS encD). Qed.

  (** Anything that verifies as a commitment against the data hash is one of the two commitments
      (or another data item). *)
  Theorem C07_root_anchor :
    forall bh rest subs deps b, Honest bh rest subs deps b ->
    forall p x, pverifies p (leafH (sha x)) (b_dh b) = true ->
      x = b_rtr b \/ x = ids_root (map fst (build_group subs deps)) \/ LeafConf rest x \/ Coll.
  Proof. exact (root_anchor B beq ltb blen cat sha leafH nodeH emptyH zeroD Dp encS encD). Qed.

  (** A forged full block with the honest data hash that [SequencerBlock::try_from_raw] accepts
      carries exactly the block's rollup data (all rollups, in order). *)
  Theorem C07_full_forged :
    forall bh rest subs deps b, Honest bh rest subs deps b ->
    forall b', b_dh b' = b_dh b -> recv_full b' = true ->
      map entry_data (collect (b_entries b')) = build_group subs deps \/
      LeafConf rest (b_rtr b') \/ Coll.
  Proof. exact (full_forged B beq ltb blen cat sha leafH nodeH emptyH zeroD Dp encS encD). Qed.

  (** A forged filtered block with the honest data hash that is accepted carries only entries of
      the block and the block's list of rollup ids. *)
  Theorem C07_filtered_forged :
    forall bh rest subs deps b, Honest bh rest subs deps b ->
    forall f', f_dh f' = b_dh b -> recv_filtered f' = true ->
      ((forall e, In e (collect (f_entries f')) -> In (entry_data e) (build_group subs deps)) /\
       f_all f' = map fst (build_group subs deps)) \/
      LeafConf rest (f_rtr f') \/ LeafConf rest (ids_root (f_all f')) \/ Coll.
  Proof. exact (filtered_forged B beq ltb blen cat sha leafH nodeH emptyH zeroD Dp encS encD). Qed.

  (** Forged Celestia metadata with the honest data hash that is accepted lists the block's
      rollup ids, and any rollup blob that passes the conductor's audit against it is an entry
      of the block. *)
  Theorem C07_celestia_forged :
    forall bh rest subs deps b, Honest bh rest subs deps b ->
    forall m' bl', m_dh m' = b_dh b -> recv_meta m' = true ->
      blob_ok bl' = true -> audit_blob m' bl' = true ->
      (m_ids m' = map fst (build_group subs deps) /\
       In (bl_id bl', bl_txs bl') (build_group subs deps)) \/
      LeafConf rest (m_rtr m') \/ LeafConf rest (ids_root (m_ids m')) \/ Coll.
  Proof. exact (celestia_forged B beq ltb blen cat sha leafH nodeH emptyH zeroD Dp encS encD). Qed.

  (** The conductor ([reconstruct_blocks_from_verified_blobs], with the repair of finding F16):
      whatever metadata with the honest data hash and whatever blobs an adversary publishes into
      the rollup's namespace -- including genuine blobs of OTHER rollups -- every block the
      conductor of rollup [r] reconstructs carries exactly [r]'s data, or nothing when [r] has no
      data in the block.  "Data attributed to another rollup fails verification at the receiver". *)
  Theorem C07_conductor_forged :
    forall bh rest subs deps b, Honest bh rest subs deps b ->
    forall m' bs' r h txs, m_dh m' = b_dh b -> recv_meta m' = true ->
      (forall bl, In bl bs' -> blob_ok bl = true) ->
      In (h, txs) (reconstruct [m'] bs' r) ->
      txs = (if touched r subs deps then expected r subs deps else []) \/
      LeafConf rest (m_rtr m') \/ LeafConf rest (ids_root (m_ids m')) \/ Coll.
  Proof. exact (conductor_forged B beq ltb blen cat sha leafH nodeH emptyH zeroD Dp encS encD). Qed.

  (** The repaired conductor ignores every blob that carries another rollup's id: it behaves like
      the pre-fix loop on the blobs of its own rollup only, and a lone foreign blob -- however
      genuine -- contributes nothing (the header is left over: empty block, or nothing if the
      metadata lists the rollup). *)
  Theorem C07_conductor_skips_foreign :
    BeqSpec ->
    (forall hs bs r,
       reconstruct hs bs r
       = reconstruct_before_F16_fix hs (filter (fun b => beq (bl_id b) r) bs) r) /\
    (forall m bl r, bl_id bl <> r ->
       reconstruct [m] [bl] r = if mem r (m_ids m) then [] else [(m_hash m, [])]).
  Proof. exact (conductor_skips_foreign B beq cat leafH nodeH emptyH). Qed.

  (** * what these receivers do NOT detect (stated exactly) *)

  (** Attribution to another block.  An accepted full block, filtered block or Celestia pair
      relabelled with ANY other 32-byte block hash is accepted again with the same data: no type
      binds [rollup_transactions_root] / [data_hash] to [block_hash]; only the CometBFT header
      does (C09 checks the block hash of Celestia metadata against a commit). *)
  Theorem C07_block_hash_unbound :
    BeqSpec -> forall x, blen x = 32 ->
      (forall b, recv_full b = true -> recv_full (tamper_full (TBh x) b) = true) /\
      (forall f, recv_filtered f = true -> recv_filtered (tamper_f (TBh x) f) = true) /\
      (forall m bl, recv_meta m = true -> audit_blob m bl = true ->
         let m' := fst (tamper_cel (TBh x) x (m, [bl])) in
         let bs' := snd (tamper_cel (TBh x) x (m, [bl])) in
         recv_meta m' = true /\ reconstruct [m'] bs' (bl_id bl) = [(x, bl_txs bl)]).
  Proof. exact (block_hash_unbound B beq blen cat sha leafH nodeH emptyH). Qed.

  (** A filtered block from which a whole rollup entry was removed is accepted; the (verified)
      list of all rollup ids still names the rollup. *)
  Theorem C07_filtered_omission :
    BeqSpec -> forall f j,
      recv_filtered f = true -> unique_ids (f_entries f) ->
      recv_filtered (tamper_f (TRmEntry j) f) = true /\
      f_all (tamper_f (TRmEntry j) f) = f_all f.
  Proof. exact (filtered_omission B beq blen cat sha leafH nodeH emptyH). Qed.

  (** What finding F16 (repaired, b791679) was: the reconstruction as it was BEFORE the repair
      ([reconstruct_before_F16_fix], BlockDataSpec.v; not the model of the current code) never
      compared the rollup id of a rollup blob with the rollup it works for: a blob that passes
      the audit was reconstructed for EVERY rollup [r]. *)
  Theorem C07_conductor_before_F16_fix_ignored_blob_id :
    forall m bl r,
      beq (m_hash m) (bl_hash bl) = true -> audit_blob m bl = true ->
      reconstruct_before_F16_fix [m] [bl] r = [(m_hash m, bl_txs bl)].
  Proof. exact (conductor_before_F16_fix_ignored_blob_id B beq cat leafH nodeH emptyH). Qed.
End C07.

(** Tie to the decoders of C17 (Decode/DecodeModel.v, the faithful model of the [try_from_raw]
    functions with all their checks and error classes): whatever they accept, the boolean
    receivers of this file accept on the value stripped to the fields C07 is about.  Hence every
    "rejected" conclusion above is a rejection by the C17 decoders too. *)
Theorem C07_receivers_are_decoders :
  forall (B : Type) (blen : B -> N) (beq : B -> B -> bool) (cat : B -> B -> B) (sha leafH : B -> B)
         (nodeH : B -> B -> B) (emptyH : B) (cid_ok : B -> bool) (eci_parse : B -> DecodeModel.eci_res),
    BeqSpec B beq ->
    (forall r v, DecodeModel.seq_block_from_raw B blen beq cat sha leafH nodeH emptyH cid_ok eci_parse r
                 = DecodeModel.ROk v ->
                 recv_full B beq blen cat sha leafH nodeH emptyH (BlockDataBridge.abs_full B v) = true) /\
    (forall r v, DecodeModel.filtered_from_raw B blen beq cat sha leafH nodeH emptyH cid_ok eci_parse r
                 = DecodeModel.ROk v ->
                 recv_filtered B beq blen cat sha leafH nodeH emptyH (BlockDataBridge.abs_filtered B v) = true) /\
    (forall r v, DecodeModel.meta_from_raw B blen beq sha leafH nodeH emptyH cid_ok eci_parse r
                 = DecodeModel.ROk v ->
                 recv_meta B beq blen sha leafH nodeH emptyH (BlockDataBridge.abs_meta B v) = true) /\
    (forall r v, DecodeModel.rollup_data_from_raw B blen r = DecodeModel.ROk v ->
                 blob_ok B blen (BlockDataBridge.abs_blob B v) = true).
Proof.
  intros B blen beq cat sha leafH nodeH emptyH cid_ok eci_parse Hb.
  split; [exact (BlockDataBridge.bridge_full B blen beq cat sha leafH nodeH emptyH cid_ok eci_parse Hb)|].
  split; [exact (BlockDataBridge.bridge_filtered B blen beq cat sha leafH nodeH emptyH cid_ok eci_parse Hb)|].
  split; [exact (BlockDataBridge.bridge_meta B blen beq sha leafH nodeH emptyH cid_ok eci_parse)|].
  exact (BlockDataBridge.bridge_blob B blen).
Qed.

(** What finding F16 was, concretely: for the pre-fix reconstruction the property's clause "data
    attributed to another rollup fails verification at the receiver" was false -- a concrete honest
    block (4 rollups), its genuine blob of rollup 3 and the conductor of rollup 4
    (BlockDataExamples.v).  For the current code the clause is [C07_conductor_forged]. *)
Theorem C07_conductor_before_F16_fix_refuted :
  exists (m : meta TB) (bl : blob TB) (r : TB) (txs : list TB),
    recv_meta TB t_beq t_blen t_sha t_leafH t_nodeH t_emptyH m = true /\
    blob_ok TB t_blen bl = true /\
    audit_blob TB t_beq t_cat t_leafH t_nodeH t_emptyH m bl = true /\
    In (m_hash m, txs) (reconstruct_before_F16_fix TB t_beq t_cat t_leafH t_nodeH t_emptyH [m] [bl] r) /\
    bl_id bl <> r /\ txs <> expected TB t_beq TB t_encS t_encD r ex_subs ex_deps /\
    on_block (fun b => fst (split_celestia TB b) = m /\ In bl (snd (split_celestia TB b))) False.
Proof. exact conductor_before_F16_fix_refuted. Qed.

(** Observation (not part of the claim): the upgrade change hashes item is not a leaf of the tree
    whose root becomes [header.data_hash]. *)
Theorem C07_upgrade_item_not_committed :
  forall (B : Type) (sha : B -> B) rtr rir x rest,
    data_leaves B sha rtr rir ((KUpgrade, x) :: rest) = data_leaves B sha rtr rir rest.
Proof. exact upgrade_item_not_committed. Qed.

Print Assumptions C07_group_exact.
Print Assumptions C07_ids_with_data.
Print Assumptions C07_group_dep_order.
Print Assumptions C07_served_exact.
Print Assumptions C07_finalize_ok.
Print Assumptions C07_served_verifies.
Print Assumptions C07_entry_binding.
Print Assumptions C07_full_tamper.
Print Assumptions C07_filtered_tamper.
Print Assumptions C07_celestia_tamper.
Print Assumptions C07_filtered_named.
Print Assumptions C07_entry_member.
Print Assumptions C07_root_anchor.
Print Assumptions C07_full_forged.
Print Assumptions C07_filtered_forged.
Print Assumptions C07_celestia_forged.
Print Assumptions C07_conductor_forged.
Print Assumptions C07_conductor_skips_foreign.
Print Assumptions C07_block_hash_unbound.
Print Assumptions C07_filtered_omission.
Print Assumptions C07_conductor_before_F16_fix_ignored_blob_id.
Print Assumptions C07_receivers_are_decoders.
Print Assumptions C07_conductor_before_F16_fix_refuted.
Print Assumptions C07_upgrade_item_not_committed.
