(** C12 — pinned statements only.  [csize] (the compressed size of the payload built from a
    block list) is an arbitrary function; brotli/protobuf are abstract codecs with a
    round-trip law. *)
From Astria Require Import Relayer.BatchModel Relayer.BatchSpec Relayer.BatchProofs.

(** Every block taken off the channel is in exactly one submission or still held (current
    batch, pending block, or the oversized block run() stopped on), in the order received. *)
Theorem C12_each_block_once_in_order : forall csize f ops,
  let '(s', outs) := run csize (init f) ops in
  emitted outs ++ held s' = received ops outs.
Proof. exact each_block_once_in_order. Qed.
Print Assumptions C12_each_block_once_in_order.

(** The submitter only ever stops on a block whose own single-block payload is over the limit. *)
Theorem C12_halt_only_oversized : forall csize f ops b,
  halted (fst (run csize (init f) ops)) = Some b -> MAX_PAYLOAD < csize [b].
Proof. exact halt_only_oversized. Qed.
Print Assumptions C12_halt_only_oversized.

(** If every block fits on its own, nothing is dropped: submitted ++ current ++ pending = received. *)
Theorem C12_no_block_dropped : forall csize f ops,
  (forall b, csize [b] <= MAX_PAYLOAD) ->
  let '(s', outs) := run csize (init f) ops in
  halted s' = None /\
  emitted outs ++ in_blocks (ns_input (next s')) ++ opt_list (pending s') = received ops outs.
Proof. exact no_block_dropped. Qed.
Print Assumptions C12_no_block_dropped.

(** Blocks received in increasing height order are submitted in increasing height order. *)
Theorem C12_heights_increasing : forall csize f ops,
  let '(_, outs) := run csize (init f) ops in
  StronglySorted N.lt (map bk_height (received ops outs)) ->
  StronglySorted N.lt (map bk_height (emitted outs)).
Proof. exact heights_increasing. Qed.
Print Assumptions C12_heights_increasing.

(** A submission is never empty, never above MAX_PAYLOAD_SIZE_BYTES, and its recorded
    compressed size is that of exactly the blocks it carries. *)
Theorem C12_payload_bounded : forall csize f ops sb,
  In sb (submissions (snd (run csize (init f) ops))) ->
  sub_blocks sb <> [] /\ sub_size sb = csize (sub_blocks sb) /\ sub_size sb <= MAX_PAYLOAD.
Proof. exact payload_bounded. Qed.
Print Assumptions C12_payload_bounded.

(** The rollup filter never touches block metadata and drops exactly the excluded rollups. *)
Theorem C12_filter_only_drops_filtered : forall csize f ops sb,
  In sb (submissions (snd (run csize (init f) ops))) ->
  in_meta (sub_input sb) = map meta_of (sub_blocks sb) /\
  (forall r, rd_for r (in_rd (sub_input sb)) = expected_rd f r (sub_blocks sb)) /\
  NoDup (map fst (in_rd (sub_input sb))) /\
  (forall e, In e (in_rd (sub_input sb)) -> snd e <> []).
Proof. exact filter_only_drops_filtered. Qed.
Print Assumptions C12_filter_only_drops_filtered.

(** Decoding the produced blobs the way conductor does gives back every block's metadata and,
    for every included rollup, exactly that rollup's data (tokens stand for transactions+proof). *)
Theorem C12_decode_inverts_encode :
  forall (bytes : Type) enc_meta dec_meta enc_rd dec_rd,
  CodecLaw bytes enc_meta dec_meta enc_rd dec_rd ->
  forall csize f ops sb,
  In sb (submissions (snd (run csize (init f) ops))) ->
  decode_headers bytes dec_meta (wire_of bytes enc_meta enc_rd sb) = map meta_of (sub_blocks sb) /\
  forall r, decode_rollup bytes dec_rd r (wire_of bytes enc_meta enc_rd sb)
            = expected_rd f r (sub_blocks sb).
Proof. exact decode_inverts_encode. Qed.
Print Assumptions C12_decode_inverts_encode.
