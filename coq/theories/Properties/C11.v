(** C11 — pinned statements only.  System level: [run (init f0) es = Some s] ranges over every
    history of fetches, receives, takes, RPC outcomes, confirmations at any time, crashes at
    any point and restarts.  File level: [write_crash] / [frun] range over every crash point of
    [State::write] (torn temp file, temp written but not renamed, after the rename). *)
From Astria Require Import Relayer.SubmissionModel Relayer.CrashModel Relayer.CrashSpec Relayer.CrashProofs.

(** No gap: if height h is in a confirmed Celestia transaction, so is every height between the
    first relayed one and h.  Duplicates are allowed. *)
Theorem C11_no_gap : forall f0 es s,
  initial_file f0 -> run (init f0) es = Some s ->
  forall h, In h (conf (cel s)) ->
  forall k, file_last f0 < k <= h -> In k (conf (cel s)).
Proof. exact no_gap. Qed.
Print Assumptions C11_no_gap.

(** The file never records a height as completed unless Celestia confirmed everything up to it. *)
Theorem C11_file_truthful : forall f0 es s,
  initial_file f0 -> run (init f0) es = Some s ->
  forall k, file_last f0 < k <= file_last (sdisk s) -> In k (conf (cel s)).
Proof. exact file_truthful. Qed.
Print Assumptions C11_file_truthful.

(** The state file always passes the validity check of State::read ... *)
Theorem C11_file_always_readable : forall f0 es s,
  initial_file f0 -> run (init f0) es = Some s -> valid (sdisk s) = true.
Proof. exact file_always_readable. Qed.
Print Assumptions C11_file_always_readable.

(** ... so a relayer that is down can always be restarted. *)
Theorem C11_restart_enabled : forall f0 es s,
  initial_file f0 -> run (init f0) es = Some s -> proc s = None -> step s ERestart <> None.
Proof. exact restart_enabled. Qed.
Print Assumptions C11_restart_enabled.

(** What the running relayer holds is exactly the run of heights after the last completed one,
    continued without a hole by the channel and the reader. *)
Theorem C11_stream_contiguous : forall f0 es s v,
  initial_file f0 -> run (init f0) es = Some s -> proc s = Some v ->
  taken v = range (v_last v + 1) (length (taken v)) /\
  chan v = range (reader_next v - lenN (chan v)) (length (chan v)) /\
  (reader_next v - lenN (chan v) <= v_last v + 1 + lenN (taken v)).
Proof. exact stream_contiguous. Qed.
Print Assumptions C11_stream_contiguous.

(** The ensure! of into_prepared never fires. *)
Theorem C11_prepare_never_refused : forall f0 es s v a,
  initial_file f0 -> run (init f0) es = Some s -> proc s = Some v ->
  inflight v = Some a -> v_last v < largest a.
Proof. exact prepare_never_refused. Qed.
Print Assumptions C11_prepare_never_refused.

(** One State::write over a readable file: at every crash point the file reads as the old or
    as the new state. *)
Theorem C11_write_crash_safe : forall d old f k,
  read d = Some old -> valid f = true ->
  read (write_crash d f k) = Some old \/ read (write_crash d f k) = Some f.
Proof. exact write_crash_safe. Qed.
Print Assumptions C11_write_crash_safe.

(** No sequence of submission-state API calls, with crashes anywhere, makes a readable state
    file unreadable. *)
Theorem C11_file_always_readable_ops : forall d m ops,
  read d <> None -> forallb api_op ops = true ->
  read (disk (fst (frun {| disk := d; mem := m |} ops))) <> None.
Proof. exact file_always_readable_ops. Qed.
Print Assumptions C11_file_always_readable_ops.
