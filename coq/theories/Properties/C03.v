(** C03 - transactions are atomic and execute at most once, in nonce order: pinned statements only (model: Ledger/LedgerModel.v, vocabulary: Ledger/LedgerSpec.v). *)
From Astria Require Import Base.Bounded Ledger.LedgerModel Ledger.LedgerSpec Ledger.LedgerProofsC03.

Theorem C03_exec_needs_nonce :
  forall s c s' evs,
    exec_tx s c = (s', OutOk evs) -> nonce s (ct_signer c) = ct_nonce c.
Proof. exact exec_needs_nonce. Qed.
Print Assumptions C03_exec_needs_nonce.

Theorem C03_exec_bumps_nonce_by_one :
  forall s c s' evs,
    exec_tx s c = (s', OutOk evs) ->
    nonce s' (ct_signer c) = nonce s (ct_signer c) + 1 /\
    nonce s' (ct_signer c) <= U32_MAX /\
    (forall x, x <> ct_signer c -> nonce s' x = nonce s x).
Proof. exact exec_bumps_nonce_by_one. Qed.
Print Assumptions C03_exec_bumps_nonce_by_one.

Theorem C03_failed_tx_is_identity :
  forall s c s' e,
    exec_tx s c = (s', OutErr e) -> s' = s.
Proof. exact failed_tx_is_identity. Qed.
Print Assumptions C03_failed_tx_is_identity.

Theorem C03_nonfatal_failure_is_identity :
  forall s c s' e,
    exec_tx s c = (s', OutErr (ENonFatal e)) ->
    s' = s /\ blackburn s = true /\
    exists k cap, In (AIbcRelayFailing k, cap) (ct_actions c).
Proof. exact nonfatal_failure_is_identity. Qed.
Print Assumptions C03_nonfatal_failure_is_identity.

Theorem C03_nonce_monotone :
  forall s ops s' outs x,
    run s ops = (s', outs) -> nonce s x <= nonce s' x.
Proof. exact nonce_monotone. Qed.
Print Assumptions C03_nonce_monotone.

Theorem C03_no_replay :
  forall s ops s' outs i j c1 c2 e1 e2,
    run s ops = (s', outs) ->
    (i < j)%nat ->
    nth_error ops i = Some (OpExec c1) -> nth_error ops j = Some (OpExec c2) ->
    ct_signer c1 = ct_signer c2 -> ct_nonce c1 = ct_nonce c2 ->
    nth_error outs i = Some (STx (OutOk e1)) -> nth_error outs j = Some (STx (OutOk e2)) ->
    False.
Proof. exact no_replay. Qed.
Print Assumptions C03_no_replay.
