(** C09 — pinned statements only (model: Quorum/QuorumModel.v, after the fix commits). *)
From Astria Require Import Quorum.QuorumModel Quorum.QuorumSpec Quorum.QuorumProofs Kernels.KernelEqConductor.

(** the acceptance threshold is exactly "strictly more than two thirds" *)
Theorem C09_quorum_exact : forall c t, c <= U64_MAX -> t <= U64_MAX ->
  (quorum c t = true <-> 2 * t < 3 * c).
Proof. exact quorum_exact. Qed.
Print Assumptions C09_quorum_exact.

(** the threshold function of the pinned tree was wrong (recorded as fixed finding F2) *)
Theorem C09_quorum_prefix_refuted : exists c t, c <= U64_MAX /\ t <= U64_MAX /\
  quorum_prefix c t = true /\ ~ (2 * t < 3 * c).
Proof. exact quorum_prefix_refuted. Qed.
Print Assumptions C09_quorum_prefix_refuted.

(** an accepted commit was signed, validly, by DISTINCT validators of the set holding > 2/3 *)
Theorem C09_tally_sound : forall ch sh vs sigs,
  ensure_commit_has_quorum ch sh vs sigs = None ->
  ch = sh /\
  exists total signers,
    total_power vs 0 = Some total /\
    NoDup (map v_addr signers) /\
    (forall v, In v signers ->
       lookup vs (v_addr v) = Some v /\ In (CsCommit (v_addr v) SigValid) sigs) /\
    2 * total < 3 * sumN (map v_power signers).
Proof. exact tally_sound. Qed.
Print Assumptions C09_tally_sound.

(** metadata is kept only with the commit's block hash and chain id *)
Theorem C09_metadata_accept : forall cf m, accept_metadata cf m = true ->
  exists c, cf (md_height m) = Some c /\ ci_chain c = md_chain m /\ ci_hash c = md_hash m.
Proof. exact metadata_accept. Qed.
Print Assumptions C09_metadata_accept.

(** the pinned tree kept mismatching metadata (recorded as fixed finding F4) *)
Theorem C09_metadata_prefix_refuted : exists cf m, accept_metadata_prefix cf m = true /\
  forall c, cf (md_height m) = Some c -> ci_hash c <> md_hash m.
Proof. exact metadata_prefix_refuted. Qed.
Print Assumptions C09_metadata_prefix_refuted.

Theorem C09_verify_all_sound : forall cf nf ms m, In m (verify_all cf nf ms) ->
  In m ms /\ nf <= md_height m /\ accept_metadata cf m = true.
Proof. exact verify_all_sound. Qed.
Print Assumptions C09_verify_all_sound.

(** rollup data is attached only to a verified header with the same block hash whose Merkle audit
    (C08) succeeds *)
Theorem C09_reconstruct_bound : forall audit hs rs m o, In (m, o) (reconstruct audit hs rs) ->
  In m hs /\
  match o with
  | Some rb => In rb rs /\ rb_hash rb = md_hash m /\ audit rb m = true
  | None => True
  end.
Proof. exact reconstruct_bound. Qed.
Print Assumptions C09_reconstruct_bound.

(** Tie to the source: the threshold function regenerated from
    crates/astria-conductor/src/celestia/block_verifier.rs on every run is the model's [quorum],
    hence exactly "3 * committed > 2 * total" and panic-free. *)
Theorem C09_kernel_tied : forall c t, c <= U64_MAX -> t <= U64_MAX ->
  KConductor.does_commit_voting_power_have_quorum c t = Some (quorum c t).
Proof. exact keq_quorum. Qed.
Print Assumptions C09_kernel_tied.
