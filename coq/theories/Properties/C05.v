(** C05 -- pinned statements only.  [L] is everything in the sequencer state except the oracle
    store, [R] the validator / consensus-param updates; [l_pre] (upgrade + begin_block: it sees the
    request's misbehavior, time, proposer, next validators hash, last commit: [bmeta]), [l_check]
    (CheckedTransaction::new), [l_exec] (transaction execution), [l_post] (end_block ..), [commit_of]
    (rollup data commitments), [uh_at] (upgrade change hashes), [height_of] are arbitrary
    deterministic functions.  [decide a rs D] = the rounds [rs] of one height (PrepareProposal /
    ProcessProposal calls, restarts), then FinalizeBlock of the decided block [D] and Commit;
    it yields FinalizeBlock's outcome and the committed state. *)
From Astria Require Import Base.Bounded Abci.AbciModel Abci.AbciSpec Abci.AbciProofs Abci.AbciExamples.
From Coq Require Import Permutation.

(** Call-path independence, for every block that does not carry an oracle price for a currency
    pair which one of its own transactions adds or removes: any two legal call sequences of a
    height give the same FinalizeBlock outcome (response incl. the resulting state, or the same
    error) and the same committed state. *)
Theorem C05_path_independent :
  forall (L R : Type) (l_pre : L -> bmeta -> L) (l_check : L -> tx -> bool) (l_exec : L -> tx -> xres L)
         (l_post : L -> N -> bmeta -> L * R) (commit_of : L -> list tx -> list N) (uh_at height_of : bmeta -> N)
         (c : state L) (D : block),
    known_f7 (b_data D) = false ->
    forall rs1 rs2 : list round,
      legal L R l_pre l_check l_exec commit_of uh_at c rs1 D ->
      legal L R l_pre l_check l_exec commit_of uh_at c rs2 D ->
      decide L R l_pre l_check l_exec l_post commit_of uh_at height_of (init_app L R c) rs1 D =
      decide L R l_pre l_check l_exec l_post commit_of uh_at height_of (init_app L R c) rs2 D.
Proof. exact path_independent. Qed.
Print Assumptions C05_path_independent.

(** The full statement (no side condition) is false of the code: finding F7.  A block with oracle
    prices for BTC/USD and ETH/USD and a transaction removing BTC/USD is accepted by
    ProcessProposal, finalizes on a node that only receives FinalizeBlock, and fails FinalizeBlock
    ("currency pair state not found") on every node that executed it in ProcessProposal. *)
Theorem C05_path_independent_refuted :
  exists (c : state cledger) (rs1 rs2 : list round) (D : block),
    legal cledger N cl_pre cl_check cl_exec cl_commit_of cl_uh_at c rs1 D /\
    legal cledger N cl_pre cl_check cl_exec cl_commit_of cl_uh_at c rs2 D /\
    known_f7 (b_data D) = true /\
    (exists res r s,
        decide cledger N cl_pre cl_check cl_exec cl_post cl_commit_of cl_uh_at cl_height_of
               (init_app cledger N c) rs1 D = (OFinalized cledger N res r s, Some s)) /\
    decide cledger N cl_pre cl_check cl_exec cl_post cl_commit_of cl_uh_at cl_height_of
           (init_app cledger N c) rs2 D = (OErr cledger N EPutPrice, None).
Proof. exact path_independent_refuted. Qed.
Print Assumptions C05_path_independent_refuted.

Theorem C05_full_statement_refuted : ~ stmt_path_independent_full.
Proof. exact path_independent_full_refuted. Qed.
Print Assumptions C05_full_statement_refuted.

(** The mempool hypothesis of [legal] cannot be dropped: finding F15.  Construction checks are
    made on the state a block starts from by ProcessProposal and by a fresh FinalizeBlock, never
    by PrepareProposal.  From a mempool holding a transaction that went stale (constructible
    again only after an earlier transaction of the same block) the proposer builds a block that
    it executes, accepts in ProcessProposal (cached) and finalizes, while every other path --
    validator, syncing node, the proposer itself after a restart -- fails to construct it. *)
Theorem C05_stale_mempool_refuted :
  known_f7 (b_data stale_D) = false /\
  hash_consistent (stale_D :: flat_map (round_blocks cledger N cl_pre cl_exec cl_commit_of cl_uh_at x_c) stale_path_P) /\
  ~ x_legal x_c stale_path_P stale_D /\
  (exists res r s, x_decide (c_init x_c) stale_path_P stale_D = (OFinalized cledger N res r s, Some s)) /\
  x_decide (c_init x_c) [] stale_D = (OErr cledger N EConstruct, None) /\
  x_decide (c_init x_c) [RValidator stale_D] stale_D = (OErr cledger N EConstruct, None) /\
  snd (process cledger N cl_pre cl_check cl_exec cl_post cl_commit_of cl_uh_at (c_init x_c) stale_D)
    = OErr cledger N EConstruct.
Proof. exact stale_mempool_refuted. Qed.
Print Assumptions C05_stale_mempool_refuted.

(** No legal call sequence makes FinalizeBlock fail where another one succeeds (same side
    condition). *)
Theorem C05_no_path_dependent_failure :
  forall (L R : Type) (l_pre : L -> bmeta -> L) (l_check : L -> tx -> bool) (l_exec : L -> tx -> xres L)
         (l_post : L -> N -> bmeta -> L * R) (commit_of : L -> list tx -> list N) (uh_at height_of : bmeta -> N)
         (c : state L) (D : block) (rs1 rs2 : list round) res r s,
    known_f7 (b_data D) = false ->
    legal L R l_pre l_check l_exec commit_of uh_at c rs1 D ->
    legal L R l_pre l_check l_exec commit_of uh_at c rs2 D ->
    fst (decide L R l_pre l_check l_exec l_post commit_of uh_at height_of (init_app L R c) rs1 D)
      = OFinalized L R res r s ->
    decide L R l_pre l_check l_exec l_post commit_of uh_at height_of (init_app L R c) rs2 D
      = (OFinalized L R res r s, Some s).
Proof. exact no_path_dependent_failure. Qed.
Print Assumptions C05_no_path_dependent_failure.

(** Multi-block histories: two nodes that see the same decided blocks, each along its own legal
    call paths, report the same outcomes and end in the same committed state. *)
Theorem C05_history_independent :
  forall (L R : Type) (l_pre : L -> bmeta -> L) (l_check : L -> tx -> bool) (l_exec : L -> tx -> xres L)
         (l_post : L -> N -> bmeta -> L * R) (commit_of : L -> list tx -> list N) (uh_at height_of : bmeta -> N)
         (c : state L) (h1 h2 : list (list round * block)),
    map snd h1 = map snd h2 ->
    history_legal L R l_pre l_check l_exec l_post commit_of uh_at height_of c h1 ->
    history_legal L R l_pre l_check l_exec l_post commit_of uh_at height_of c h2 ->
    history L R l_pre l_check l_exec l_post commit_of uh_at height_of c h1 =
    history L R l_pre l_check l_exec l_post commit_of uh_at height_of c h2.
Proof. exact history_independent. Qed.
Print Assumptions C05_history_independent.

(** The execution state machine lets FinalizeBlock / ProcessProposal skip execution only for the
    block hash / proposal that is cached, and leaves the cache in place. *)
Theorem C05_esm_skip_sound :
  forall (P : Type) (p_eqb : P -> P -> bool) (s : exec_state P),
    (forall h, snd (check_if_executed_block s h) = true ->
               exists p, s = ExecutedBlock h p /\ fst (check_if_executed_block s h) = s) /\
    (forall req, snd (check_if_prepared_proposal p_eqb s req) = true ->
               exists c, (s = Prepared c \/ s = PreparedValid c) /\ p_eqb c req = true /\
                         fst (check_if_prepared_proposal p_eqb s req) = PreparedValid c).
Proof. exact esm_skip_sound. Qed.
Print Assumptions C05_esm_skip_sound.

(** The order in which a block lists its oracle prices is irrelevant. *)
Theorem C05_price_order_irrelevant :
  forall (o : ostate) (ps ps' : list (N * N)) (h : N),
    Permutation ps ps' -> NoDup (map fst ps) -> apply_prices o ps h = apply_prices o ps' h.
Proof. exact price_order_irrelevant. Qed.
Print Assumptions C05_price_order_irrelevant.

(** Non-vacuity: a block with prices and a pair-removing transaction outside the known class goes
    through proposer, validator, other-proposals-first, two-round, finalize-only,
    prepare-then-finalize and restart paths, all legal, all with the same (successful) result. *)
Theorem C05_paths_exercised :
  known_f7 (b_data ok_D) = false /\
  (exists res r s, x_decide (c_init x_c) path_F ok_D = (OFinalized cledger N res r s, Some s) /\
                   res = [(1, true); (3, true)]) /\
  x_legal x_c path_P ok_D /\ x_legal x_c path_V ok_D /\ x_legal x_c path_O ok_D /\
  x_legal x_c path_R2 ok_D /\ x_legal x_c path_F ok_D /\ x_legal x_c path_PF ok_D /\
  x_legal x_c path_VRX ok_D /\
  x_decide (c_init x_c) path_P ok_D = x_decide (c_init x_c) path_F ok_D /\
  x_decide (c_init x_c) path_V ok_D = x_decide (c_init x_c) path_F ok_D /\
  x_decide (c_init x_c) path_O ok_D = x_decide (c_init x_c) path_F ok_D /\
  x_decide (c_init x_c) path_R2 ok_D = x_decide (c_init x_c) path_F ok_D /\
  x_decide (c_init x_c) path_PF ok_D = x_decide (c_init x_c) path_F ok_D /\
  x_decide (c_init x_c) path_VRX ok_D = x_decide (c_init x_c) path_F ok_D.
Proof. exact paths_exercised. Qed.
Print Assumptions C05_paths_exercised.

(** The cached-proposal comparison is exact: ProcessProposal takes a request for the proposal it
    prepared only if time, proposer, txs, last commit, misbehavior, next validators hash and height
    all agree. *)
Theorem C05_cached_compare_exact :
  forall p q : proposal, proposal_eqb p q = true <-> p = q.
Proof. exact cached_compare_exact. Qed.
Print Assumptions C05_cached_compare_exact.

(** Non-vacuity for near twins: seven blocks equal to a proposal the node prepared / processed
    except for one request field (misbehavior, time, proposer, next validators hash, last-commit
    round, last-commit votes, block hash), each decided after six different earlier views of the
    height: all legal, all with the result of the fresh path; the evidence removes validator 2 on
    the node that had prepared the evidence-free proposal, whose own proposal would have kept it. *)
Theorem C05_near_twins_exercised :
  Forall (fun T => b_data T = b_data ok_D /\ T <> ok_D) near_twins /\
  Forall (fun T => Forall (fun rs => x_legal x_c rs T) (nt_paths T)) near_twins /\
  Forall (fun T => Forall (fun rs => x_decide (c_init x_c) rs T = x_decide (c_init x_c) [] T) (nt_paths T))
         near_twins /\
  (exists res r s, x_decide (c_init x_c) [RProposer x_meta ok_mem ok_prices None; RValidator nt_misb] nt_misb
                   = (OFinalized cledger N res r s, Some s) /\
                   cl_vals (s_l s) = [(0, 10); (1, 10); (3, 10)]) /\
  (exists res r s, x_decide (c_init x_c) [RProposer x_meta ok_mem ok_prices (Some 78)] ok_D
                   = (OFinalized cledger N res r s, Some s) /\
                   cl_vals (s_l s) = [(0, 10); (1, 10); (2, 10); (3, 10)]).
Proof. exact near_twins_exercised. Qed.
Print Assumptions C05_near_twins_exercised.
