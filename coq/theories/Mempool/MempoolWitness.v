(** C13 — concrete runs: the two repaired defects (stated about the PRE-FIX definitions of
    MempoolPrefix.v and, side by side, about the current model), the literal reading of
    "consecutive", and non-vacuity examples for the theorems. *)
From Astria Require Import Mempool.MempoolSpec Mempool.MempoolPrefix.

Definition tr (id acct nonce amount : N) : tx := mkTx id acct nonce 4 0 amount 0.

(** F12 (repaired by COMMIT_F12): three pending transfers of one account, the balance drops,
    maintenance has to demote two of them into a parked container with room for one. *)
Definition f12_ops : list op :=
  [OpTx (tr 1 0 0 4); OpTx (tr 2 0 1 3); OpTx (tr 3 0 2 3); OpBal 0 0 10;
   OpIns 1; OpIns 2; OpIns 3; OpBal 0 0 4; OpMaint false 3 []].

(** now: the transaction that cannot be parked is reported as removed (InternalError) *)
Lemma f12_run_fixed :
  let '(s, g) := grun (init 1 1 1) ghost0 f12_ops in
  g_live g = [3; 2; 1] /\
  tx_status (s_universe s) (s_pool s) 3 = Some (SRemoved RInternal) /\
  tx_status (s_universe s) (s_pool s) 2 = Some SParked /\
  tx_status (s_universe s) (s_pool s) 1 = Some SPending /\
  builder_queue (s_universe s) (s_pool s) = [1].
Proof. vm_compute. repeat split; reflexivity. Qed.

Lemma f12_before :
  let '(s, g) := grun (init 1 1 1) ghost0 (removelast f12_ops) in
  g_live g = [3; 2; 1] /\ builder_queue (s_universe s) (s_pool s) = [1; 2; 3].
Proof. vm_compute. split; reflexivity. Qed.

(** pre-fix: the same maintenance left transaction 3 accepted, never reported, in no
    container and without a removal reason *)
Lemma f12_prefix_lost :
  let s := fst (run (init 1 1 1) (removelast f12_ops)) in
  let p' := run_maintenance_prefix (s_universe s) (s_pmax s) (s_chain s) (s_pool s) false [] 3 in
  tx_status (s_universe s) (s_pool s) 3 = Some SPending /\
  tx_status (s_universe s) p' 3 = None /\
  map e_id (p_pending p' 0) = [1] /\ map e_id (p_parked p' 0) = [2] /\ p_rcache p' = [].
Proof. vm_compute. repeat split; reflexivity. Qed.

(** the NonceTaken variant *)
Definition f12_taken_ops : list op :=
  [OpBal 0 0 3; OpTx (tr 1 0 0 9); OpTx (tr 2 0 0 2); OpIns 1; OpIns 2; OpBal 0 0 0;
   OpMaint false 3 []].

Lemma f12_taken_run_fixed :
  let '(s, g) := grun (init 10 1 1) ghost0 f12_taken_ops in
  tx_status (s_universe s) (s_pool s) 2 = Some (SRemoved RInternal) /\
  tx_status (s_universe s) (s_pool s) 1 = Some SParked.
Proof. vm_compute. split; reflexivity. Qed.

Lemma f12_taken_prefix_lost :
  let s := fst (run (init 10 1 1) (removelast f12_taken_ops)) in
  let p' := run_maintenance_prefix (s_universe s) (s_pmax s) (s_chain s) (s_pool s) false [] 3 in
  tx_status (s_universe s) p' 2 = None /\ tx_status (s_universe s) p' 1 = Some SParked.
Proof. vm_compute. split; reflexivity. Qed.

(** the literal reading of "consecutive" (stale entries count as ready) *)
Definition stmt_ready_consecutive_literal : Prop :=
  forall pmax k na ops,
  let s := fst (run (init pmax k na) ops) in
  forall a n m j, has_nonce (p_pending (s_pool s) a) n = true ->
                  has_nonce (p_pending (s_pool s) a) m = true ->
                  n <= j -> j <= m -> has_nonce (p_pending (s_pool s) a) j = true.

Definition literal_ops : list op :=
  [OpBal 0 0 100; OpBump 0 5; OpTx (tr 1 0 5 1); OpIns 1; OpBump 0 2; OpTx (tr 2 0 7 1); OpIns 2].

Theorem ready_consecutive_literal_refuted : ~ stmt_ready_consecutive_literal.
Proof.
  intros H. specialize (H 4 1 1 literal_ops 0 5 7 6). cbn zeta in H.
  assert (H6 : has_nonce (p_pending (s_pool (fst (run (init 4 1 1) literal_ops))) 0) 6 = false)
    by (vm_compute; reflexivity).
  rewrite H in H6; [discriminate| | | |]; try lia; vm_compute; reflexivity.
Qed.

(** maintenance removes the stale entry and the claim proper holds again *)
Lemma literal_after_maintenance :
  let s := fst (run (init 4 1 1) (literal_ops ++ [OpMaint false 3 []])) in
  map e_nonce (p_pending (s_pool s) 0) = [7] /\
  tx_status (s_universe s) (s_pool s) 1 = Some (SRemoved RStale).
Proof. vm_compute. split; reflexivity. Qed.

(** F12b (repaired by COMMIT_F12B): a transaction carrying the nonce u32::MAX *)
Definition nonce_max_ops : list op :=
  [OpBal 0 0 100; OpBump 0 U32_MAX; OpTx (tr 1 0 U32_MAX 1); OpInsd 1].

(** now: accepted into pending, tracked, nothing promoted behind it *)
Lemma nonce_max_run_fixed :
  let '(s, outs) := run (init 4 1 1) nonce_max_ops in
  last outs OOk = OIns IPending /\
  builder_queue (s_universe s) (s_pool s) = [1] /\
  tx_status (s_universe s) (s_pool s) 1 = Some SPending.
Proof. vm_compute. repeat split; reflexivity. Qed.

(** pre-fix: [insert] panicked after the addition to pending and left the transaction in the
    builder queue but untracked *)
Lemma nonce_max_prefix_panics :
  let s := fst (run (init 4 1 1) (removelast nonce_max_ops)) in
  match insert_pending_prefix (s_pool s) (tr 1 0 U32_MAX 1) U32_MAX (c_bal (s_chain s) 0) [(0, 1)] with
  | Some (p', None) =>
      builder_queue (s_universe s) p' = [1] /\ tx_status (s_universe s) p' 1 = None
  | _ => False
  end.
Proof. vm_compute. split; reflexivity. Qed.

(** ** non-vacuity: one history with parking, promotion on insert, demotion and promotion by
    maintenance, inclusion, invalid-removal, re-CheckTx of a removed transaction, two
    accounts, two assets, all four groups *)
Definition demo_ops : list op :=
  [OpFee 2 7; OpBal 0 0 40; OpBal 0 1 9; OpBal 1 0 5;
   OpTx (mkTx 1 0 0 4 0 10 1); OpTx (mkTx 2 0 1 4 0 10 0); OpTx (mkTx 3 0 2 3 0 0 1);
   OpTx (mkTx 4 0 3 4 1 5 1); OpTx (mkTx 5 1 0 1 0 0 0); OpTx (mkTx 6 1 1 2 0 0 0);
   OpTx (mkTx 7 1 2 4 0 3 0);
   OpIns 1; OpIns 3; OpIns 2; OpIns 4; OpIns 5; OpIns 7; OpIns 6].

Lemma demo_run_1 :
  let '(s, g) := grun (init 5 2 2) ghost0 demo_ops in
  map e_nonce (p_pending (s_pool s) 0) = [0; 1; 2] /\
  map e_nonce (p_parked (s_pool s) 0) = [3] /\
  map e_nonce (p_pending (s_pool s) 1) = [0; 1; 2] /\
  builder_queue (s_universe s) (s_pool s) = [1; 2; 7; 3; 6; 5] /\
  g_live g = [6; 7; 5; 4; 2; 3; 1].
Proof. vm_compute. repeat split; reflexivity. Qed.

Definition demo_ops2 : list op :=
  demo_ops ++ [OpBal 0 0 12; OpMaint false 7 []; OpBump 0 1; OpBal 0 1 30; OpMaint true 8 [1];
               OpRm 5; OpIns 5; OpIns 5; OpAdvance 300; OpMaint false 9 []].

Lemma demo_run_2 :
  let '(s, g) := grun (init 5 2 2) ghost0 (removelast (removelast demo_ops2)) in
  map e_nonce (p_pending (s_pool s) 0) = [1; 2; 3] /\
  map e_nonce (p_pending (s_pool s) 1) = [0] /\
  tx_status (s_universe s) (s_pool s) 1 = Some (SRemoved (RIncl 8)) /\
  tx_status (s_universe s) (s_pool s) 6 = Some (SRemoved RLower).
Proof. vm_compute. repeat split; reflexivity. Qed.

(** model-only: after 300 s every remaining transaction expires *)
Lemma demo_run_expiry :
  let '(s, g) := grun (init 5 2 2) ghost0 demo_ops2 in
  p_contained (s_pool s) = [] /\
  tx_status (s_universe s) (s_pool s) 2 = Some (SRemoved RExpired) /\
  tx_status (s_universe s) (s_pool s) 3 = Some (SRemoved RLower).
Proof. vm_compute. repeat split; reflexivity. Qed.
