(** C13 — the container-level invariant along every run: ready_consecutive,
    ready_affordable, parked_limits, after_maintenance_no_stale. *)
From Astria Require Import Mempool.MempoolSpec Mempool.MempoolBase Mempool.MempoolOps
  Mempool.MempoolFrame Mempool.MempoolLight Mempool.MempoolLight2 Mempool.MempoolInv3.

Definition LS (s : sys) (g : ghost) : Prop :=
  NoDup (s_universe s) /\
  (forall t, In t (s_defs s) -> In (t_acct t) (s_universe s)) /\
  Light (s_universe s) (s_pmax s) (g_shown_nonce g) (g_shown_bal g) (s_pool s) /\
  (forall a, g_shown_nonce g a <= c_nonce (s_chain s) a) /\
  (forall a, c_nonce (s_chain s) a <= U32_MAX).

Lemma LS_init pmax k na : LS (init pmax k na) ghost0.
Proof.
  unfold LS, init. cbn. split; [apply nseq_NoDup|]. split; [intros t []|]. split.
  - constructor; cbn.
    + intros a e [[]|[]].
    + intros a. constructor.
    + intros a. apply gapfree_nil.
    + intros a. apply affordable_nil.
    + unfold parked_len. induction (nseq k) as [|x l IH]; cbn; [lia|]. exact IH.
    + intros a. unfold llen, MAX_PARKED_PER_ACCOUNT. cbn. lia.
    + auto.
  - split; intros a; unfold U32_MAX; lia.
Qed.

Lemma do_insert_LS s g t id0 x s1 o :
  LS s g -> In t (s_defs s) -> t_id t = id0 -> find_def s id0 = Some t ->
  do_insert s t = (s1, x) -> (o = OpIns id0 \/ o = OpInsd id0) -> LS s1 (gupdate s g o x).
Proof.
  intros [Hnd [Hd [HL [Hsn Hmax]]]] Ht Hid Hfd Hdo Ho. unfold do_insert in Hdo.
  pose proof (insert_light (s_universe s) (s_pmax s) (g_shown_nonce g) (g_shown_bal g) (s_pool s) t
                (c_nonce (s_chain s) (t_acct t)) (c_bal (s_chain s) (t_acct t))
                (tx_costs (c_fees (s_chain s)) t) HL Hnd (Hd t Ht) (Hsn (t_acct t))) as H.
  destruct (insert (s_universe s) (s_pmax s) (s_pool s) t (c_nonce (s_chain s) (t_acct t))
              (c_bal (s_chain s) (t_acct t)) (tx_costs (c_fees (s_chain s)) t)) as [p' r].
  inversion Hdo; subst s1 x; clear Hdo.
  assert (Ha : acct_of s id0 = t_acct t) by (unfold acct_of; now rewrite Hfd).
  assert (Hres : LS (set_pool s p')
    (mkGhost (match r with IPending | IParked => set_add (g_live g) id0 | _ => g_live g end)
             (upd (g_shown_nonce g) (acct_of s id0) (c_nonce (s_chain s) (acct_of s id0)))
             (match r with IPending => upd (g_shown_bal g) (acct_of s id0)
                                                     (c_bal (s_chain s) (acct_of s id0))
                         | _ => g_shown_bal g end))).
  { rewrite Ha. unfold LS. cbn. split; [assumption|]. split; [assumption|]. split; [exact H|].
    split; [|assumption]. intros a. destruct (N.eq_dec a (t_acct t)) as [->|Hne].
    - rewrite upd_same. lia.
    - rewrite upd_other by assumption. apply Hsn. }
  destruct Ho as [->| ->]; exact Hres.
Qed.

Theorem gstep_LS s g o :
  LS s g -> let '(s1, x) := step s o in LS s1 (gupdate s g o x).
Proof.
  intros HS. pose proof HS as [Hnd [Hd [HL [Hsn Hmax]]]]. destruct o; cbn [step].
  - (* OpTx *)
    destruct (tx_ok s t) eqn:E; [|exact HS]. unfold LS. cbn.
    unfold tx_ok in E. repeat (apply andb_prop in E; destruct E as [E ?]).
    split; [assumption|]. split; [|auto].
    intros t' Hin. apply in_app_or in Hin. destruct Hin as [Hin|[<-|[]]]; [now apply Hd|].
    now apply mem_In.
  - (* OpBump *)
    unfold LS. cbn. split; [assumption|]. split; [assumption|]. split; [assumption|].
    assert (Hge : c_nonce (s_chain s) a <= saturating_add U32_MAX (c_nonce (s_chain s) a) k).
    { unfold saturating_add. specialize (Hmax a). lia. }
    split; intros b; (destruct (N.eq_dec b a) as [->|Hne]; [rewrite upd_same|rewrite upd_other by assumption]).
    + specialize (Hsn a). lia.
    + apply Hsn.
    + unfold saturating_add. lia.
    + apply Hmax.
  - exact HS.
  - exact HS.
  - (* OpIns *)
    destruct (find_def s id) as [t|] eqn:Ef; [|exact HS]. pose proof (find_def_Some _ _ _ Ef) as [Ht Hid].
    destruct (tx_status (s_universe s) (s_pool s) id) as [[| |r]|] eqn:Est; try exact HS.
    + unfold LS. cbn. split; [assumption|]. split; [assumption|]. split; [|auto].
      eapply Light_pool_ext; [| |exact HL]; reflexivity.
    + destruct (t_nonce t <? c_nonce (s_chain s) (t_acct t)); [exact HS|].
      destruct (do_insert s t) as [s1 x] eqn:Ed. eapply do_insert_LS; eauto.
  - (* OpInsd *)
    destruct (find_def s id) as [t|] eqn:Ef; [|exact HS]. pose proof (find_def_Some _ _ _ Ef) as [Ht Hid].
    destruct (tx_status (s_universe s) (s_pool s) id) eqn:Est; [exact HS|].
    destruct (do_insert s t) as [s1 x] eqn:Ed. eapply do_insert_LS; eauto.
  - (* OpRm *)
    destruct (find_def s id) as [t|] eqn:Ef; [|exact HS]. unfold LS. cbn.
    split; [assumption|]. split; [assumption|]. split; [|auto]. now apply remove_light.
  - (* OpMaint *)
    set (results := filter _ ids).
    pose proof (run_maintenance_light (s_universe s) (s_pmax s) (s_chain s) (g_shown_nonce g)
                  (g_shown_bal g) (s_pool s) recost results h Hnd HL Hsn) as [H _].
    destruct (run_maintenance (s_universe s) (s_pmax s) (s_chain s) (s_pool s) recost results h)
      as [p' nd].
    cbn [fst] in H. unfold LS. cbn. split; [assumption|]. split; [assumption|]. split; [exact H|].
    split; [intros a; lia|assumption].
  - (* OpAdvance *)
    unfold LS. cbn. split; [assumption|]. split; [assumption|]. split; [|auto].
    eapply Light_pool_ext; [| |exact HL]; reflexivity.
Qed.

Lemma grun_LS ops : forall s g, LS s g -> let '(s', g') := grun s g ops in LS s' g'.
Proof.
  induction ops as [|o ops IH]; intros s g H; cbn [grun]; [assumption|].
  pose proof (gstep_LS s g o H) as H1. destruct (step s o) as [s1 x]. now apply IH.
Qed.

Lemma grun_fst ops : forall s g, fst (grun s g ops) = fst (run s ops).
Proof.
  induction ops as [|o ops IH]; intros s g; cbn [grun run]; [reflexivity|].
  destruct (step s o) as [s1 x]. rewrite IH. now destruct (run s1 ops).
Qed.

Theorem ready_consecutive : stmt_ready_consecutive.
Proof.
  unfold stmt_ready_consecutive. intros pmax k na ops.
  pose proof (grun_LS ops _ _ (LS_init pmax k na)) as H.
  destruct (grun (init pmax k na) ghost0 ops) as [s g].
  destruct H as [_ [_ [HL [Hsn _]]]]. intros a. split; [apply (l_gap _ _ _ _ _ HL)|].
  split; [apply gapfree_run_from, (l_gap _ _ _ _ _ HL)|apply Hsn].
Qed.

Theorem ready_affordable : stmt_ready_affordable.
Proof.
  unfold stmt_ready_affordable. intros pmax k na ops.
  pose proof (grun_LS ops _ _ (LS_init pmax k na)) as H.
  destruct (grun (init pmax k na) ghost0 ops) as [s g].
  destruct H as [_ [_ [HL _]]]. intros a. apply (l_aff _ _ _ _ _ HL).
Qed.

Lemma run_pmax_universe ops : forall s,
  s_pmax (fst (run s ops)) = s_pmax s /\ s_universe (fst (run s ops)) = s_universe s.
Proof.
  induction ops as [|o ops IH]; intros s; cbn [run fst]; [auto|].
  assert (H1 : s_pmax (fst (step s o)) = s_pmax s /\ s_universe (fst (step s o)) = s_universe s).
  { destruct o; cbn [step]; try (cbn; auto; fail).
    - destruct (tx_ok s t); cbn; auto.
    - destruct (find_def s id); [|cbn; auto].
      destruct (tx_status _ _ id) as [[| |r]|]; try (cbn; auto; fail).
      destruct (t_nonce t <? _); [cbn; auto|]. unfold do_insert. destruct (insert _ _ _ _ _ _ _). cbn; auto.
    - destruct (find_def s id); [|cbn; auto].
      destruct (tx_status _ _ id); [cbn; auto|]. unfold do_insert. destruct (insert _ _ _ _ _ _ _). cbn; auto.
    - destruct (find_def s id); cbn; auto. }
  destruct (step s o) as [s1 x]. cbn [fst] in H1. specialize (IH s1).
  destruct (run s1 ops) as [s2 xs]. cbn [fst] in *. destruct IH, H1. split; congruence.
Qed.

Theorem parked_limits : stmt_parked_limits.
Proof.
  unfold stmt_parked_limits. intros pmax k na ops. cbn zeta.
  pose proof (grun_LS ops _ _ (LS_init pmax k na)) as H.
  pose proof (grun_fst ops (init pmax k na) ghost0) as E.
  destruct (grun (init pmax k na) ghost0 ops) as [s g]. cbn [fst] in E. rewrite <- E.
  destruct H as [_ [_ [HL _]]].
  destruct (run_pmax_universe ops (init pmax k na)) as [Hp _]. rewrite <- E in Hp. cbn in Hp.
  split; [|apply (l_acct _ _ _ _ _ HL)]. rewrite <- Hp. apply (l_total _ _ _ _ _ HL).
Qed.

Lemma run_snoc ops o : forall s, fst (run s (ops ++ [o])) = fst (step (fst (run s ops)) o).
Proof.
  induction ops as [|o' ops IH]; intros s; cbn [app run fst].
  - destruct (step s o) as [s1 x]. reflexivity.
  - destruct (step s o') as [s1 x]. specialize (IH s1).
    destruct (run s1 (ops ++ [o])) as [s2 xs]. destruct (run s1 ops) as [s3 ys]. exact IH.
Qed.

Theorem after_maintenance_no_stale : stmt_after_maintenance_no_stale.
Proof.
  unfold stmt_after_maintenance_no_stale. intros pmax k na ops recost h ids. cbn zeta.
  rewrite run_snoc.
  pose proof (grun_LS ops _ _ (LS_init pmax k na)) as H.
  pose proof (grun_fst ops (init pmax k na) ghost0) as E.
  destruct (grun (init pmax k na) ghost0 ops) as [s g]. cbn [fst] in E. rewrite <- E.
  destruct H as [Hnd [_ [HL [Hsn _]]]]. cbn [step].
  set (results := filter _ ids).
  pose proof (run_maintenance_light (s_universe s) (s_pmax s) (s_chain s) (g_shown_nonce g)
                (g_shown_bal g) (s_pool s) recost results h Hnd HL Hsn) as [_ H].
  destruct (run_maintenance (s_universe s) (s_pmax s) (s_chain s) (s_pool s) recost results h)
    as [p' nd].
  cbn [fst] in *. exact H.
Qed.
