(** C13 — PRE-FIX definitions: [run_maintenance] and [insert] as they were before the repairs
    COMMIT_F12 / COMMIT_F12B.  Not extracted, not used by any theorem about the current code;
    kept only so that the two repaired defects stay stated (see MempoolWitness.v). *)
From Astria Require Import Mempool.MempoolSpec.

(** pre-fix: a failed re-insertion only dropped the id from the tracked set *)
Definition forget_prefix (p : pool) (id : N) : pool :=
  set_contained p (set_remove (p_contained p) id).

Definition promote_in_maint_prefix (cur : N) (bal : balances) (a : N) (p : pool) (e : entry) : pool :=
  match pending_acct_add (p_pending p a) e cur bal with
  | inl l' => set_pending p (upd (p_pending p) a l')
  | inr _ => forget_prefix p (e_id e)
  end.

Definition demote_in_maint_prefix (u : list N) (pmax cur : N) (p : pool) (e : entry) : pool :=
  match parked_add u pmax (p_parked p) e cur with
  | inl pk' => set_parked p pk'
  | inr _ => forget_prefix p (e_id e)
  end.

Definition maint_account_prefix (u : list N) (pmax : N) (ch : chain) (recost : bool)
    (results : list N) (h : N) (acc : pool * list (N * reason)) (a : N) : pool * list (N * reason) :=
  let '(p, removed0) := acc in
  let cur := c_nonce ch a in
  let bal := c_bal ch a in
  let '(pend1, rem1) := clean_stale_expired (p_pending p a) cur (p_now p) results h in
  let pend2 := if recost then map (recost_entry (c_fees ch)) pend1 else pend1 in
  let '(park1, rem2) := clean_stale_expired (p_parked p a) cur (p_now p) results h in
  let park2 := if recost then map (recost_entry (c_fees ch)) park1 else park1 in
  let '(keep, demo) := find_demotables pend2 bal in
  let p1 := set_parked (set_pending p (upd (p_pending p) a keep)) (upd (p_parked p) a park2) in
  let removed := removed0 ++ rem1 ++ rem2 in
  match demo with
  | [] =>
      let pn := match pending_nonce keep with Some n => n | None => cur end in
      let '(promo, rest) := find_promotables park2 pn (subtract_contained keep bal) in
      let p2 := set_parked p1 (upd (p_parked p1) a rest) in
      (fold_left (promote_in_maint_prefix cur bal a) promo p2, removed)
  | _ => (fold_left (demote_in_maint_prefix u pmax cur) demo p1, removed)
  end.

Definition run_maintenance_prefix (u : list N) (pmax : N) (ch : chain) (p : pool) (recost : bool)
    (results : list N) (h : N) : pool :=
  let '(p0, removed) := fold_left (maint_account_prefix u pmax ch recost results h) u (p, []) in
  let p1 := fold_left untrack_pair removed p0 in
  fold_left (recent_add_pool h) results p1.

(** pre-fix [insert], pending branch: [None] = the [expect] panicked; the pool is what the
    unwinding left behind *)
Definition insert_pending_prefix (p0 : pool) (t : tx) (cur : N) (bal : balances) (cs : costs)
  : option (pool * option ins_out) :=
  let e := mkEntry t cs (p_seq p0) (p_now p0) in
  let p := set_seq p0 (p_seq p0 + 1) in
  let a := t_acct t in
  match pending_acct_add (p_pending p a) e cur bal with
  | inl l' =>
      let p1 := set_pending p (upd (p_pending p) a l') in
      if U32_MAX <=? t_nonce t then Some (p1, None)
      else
        let '(promo, rest) := find_promotables (p_parked p1 a) (t_nonce t + 1)
                                               (subtract_contained (p_pending p1 a) bal) in
        let p2 := set_parked p1 (upd (p_parked p1) a rest) in
        let p3 := fold_left (promote_in_insert cur bal a) promo p2 in
        Some (set_contained p3 (set_add (p_contained p3) (t_id t)), Some IPending)
  | inr _ => None       (* other branches unchanged by the repair *)
  end.
