(** C13 — structural invariant of the pool (containers well formed, tracked set = held ids),
    preserved by insert / remove_tx_invalid / run_maintenance. *)
From Astria Require Import Mempool.MempoolSpec Mempool.MempoolBase Mempool.MempoolOps.

Definition held (p : pool) (id : N) : Prop := in_pending p id \/ in_parked p id.

Definition defs_ok (u : list N) (defs : list tx) : Prop :=
  NoDup (map t_id defs) /\
  forall t, In t defs -> In (t_acct t) u.

Record CInv (defs : list tx) (p : pool) : Prop := mkCInv {
  ci_def : forall a e, In e (p_pending p a) \/ In e (p_parked p a) ->
                       In (e_tx e) defs /\ e_acct e = a;
  ci_sorted : forall a, sorted (p_pending p a) /\ sorted (p_parked p a);
  ci_excl : forall a e e', In e (p_pending p a) -> In e' (p_parked p a) -> e_id e <> e_id e' }.

(** tracked set = held ids, up to entries in flight ([extra]) and ids whose untracking is
    deferred ([removed]); ids satisfying [ex] are exempt *)
Definition TInvX (ex : N -> Prop) (p : pool) (extra : list entry) (removed : list N) : Prop :=
  forall id, ~ ex id ->
  (In id (p_contained p) <-> held p id \/ In id (map e_id extra) \/ In id removed).

Definition noex : N -> Prop := fun _ => False.

Definition PInv (defs : list tx) (p : pool) : Prop :=
  CInv defs p /\ TInvX noex p [] [].

(** ** ids determine transactions *)

Lemma same_id_same_tx defs t1 t2 :
  NoDup (map t_id defs) -> In t1 defs -> In t2 defs -> t_id t1 = t_id t2 -> t1 = t2.
Proof.
  induction defs as [|t defs IH]; intros Hnd H1 H2 Hid; [contradiction|].
  cbn in Hnd. inversion Hnd as [|? ? Hnotin Hnd']; subst.
  destruct H1 as [->|H1], H2 as [->|H2]; auto.
  - exfalso. apply Hnotin. rewrite Hid. now apply in_map.
  - exfalso. apply Hnotin. rewrite <- Hid. now apply in_map.
Qed.

Lemma entry_id_nonce u defs e e' :
  defs_ok u defs ->
  In (e_tx e) defs -> In (e_tx e') defs -> e_id e = e_id e' ->
  e_nonce e = e_nonce e' /\ e_acct e = e_acct e'.
Proof.
  intros Hdefs H1 H2 Hid. destruct Hdefs as [Hnd _].
  pose proof (same_id_same_tx defs _ _ Hnd H1 H2 Hid) as Heq.
  unfold e_nonce, e_acct. now rewrite Heq.
Qed.

(** within a well-formed pool an id is held in exactly one slot *)
Lemma held_slot u defs p a a' e e' :
  defs_ok u defs ->
  CInv defs p ->
  In e (p_pending p a) \/ In e (p_parked p a) ->
  In e' (p_pending p a') \/ In e' (p_parked p a') ->
  e_id e = e_id e' ->
  a = a' /\ e = e' /\ (In e (p_pending p a) <-> In e' (p_pending p a')).
Proof.
  intros Hdefs [Hdef Hsort Hexcl] H1 H2 Hid.
  destruct (Hdef _ _ H1) as [Hd1 Ha1]. destruct (Hdef _ _ H2) as [Hd2 Ha2].
  destruct (entry_id_nonce _ _ _ _ Hdefs Hd1 Hd2 Hid) as [Hn Ha]. assert (a' = a) as -> by congruence.
  split; [reflexivity|]. destruct (Hsort a) as [Hsp Hsk].
  destruct H1 as [H1|H1], H2 as [H2|H2].
  - assert (e = e') by (apply (sorted_nonce_inj _ _ _ Hsp H1 H2 Hn)). subst. tauto.
  - exfalso. eapply Hexcl; eauto.
  - exfalso. eapply Hexcl; eauto.
  - assert (e = e') by (apply (sorted_nonce_inj _ _ _ Hsk H1 H2 Hn)). subst. split; [reflexivity|].
    split; intros H; exfalso; eapply Hexcl; eauto.
Qed.

(** ** held ids under container updates *)

Definition ids_in (l : list entry) (id : N) : Prop := exists e, In e l /\ e_id e = id.
Definition pend_else (p : pool) (a id : N) : Prop :=
  exists b e, b <> a /\ In e (p_pending p b) /\ e_id e = id.
Definition park_else (p : pool) (a id : N) : Prop :=
  exists b e, b <> a /\ In e (p_parked p b) /\ e_id e = id.

Lemma in_pending_split p a id :
  in_pending p id <-> ids_in (p_pending p a) id \/ pend_else p a id.
Proof.
  unfold in_pending, ids_in, pend_else. split.
  - intros [b [e [H1 H2]]]. destruct (N.eq_dec b a) as [->|Hne]; [left|right]; eauto.
  - intros [[e [H1 H2]]|[b [e [_ [H1 H2]]]]]; eauto.
Qed.

Lemma in_parked_split p a id :
  in_parked p id <-> ids_in (p_parked p a) id \/ park_else p a id.
Proof.
  unfold in_parked, ids_in, park_else. split.
  - intros [b [e [H1 H2]]]. destruct (N.eq_dec b a) as [->|Hne]; [left|right]; eauto.
  - intros [[e [H1 H2]]|[b [e [_ [H1 H2]]]]]; eauto.
Qed.

Lemma pend_else_upd p a l' id :
  pend_else (set_pending p (upd (p_pending p) a l')) a id <-> pend_else p a id.
Proof.
  unfold pend_else. cbn. split; intros [b [e [Hb [H1 H2]]]]; exists b, e; repeat split; auto.
  - now rewrite upd_other in H1.
  - now rewrite upd_other.
Qed.

Lemma park_else_upd p a l' id :
  park_else (set_parked p (upd (p_parked p) a l')) a id <-> park_else p a id.
Proof.
  unfold park_else. cbn. split; intros [b [e [Hb [H1 H2]]]]; exists b, e; repeat split; auto.
  - now rewrite upd_other in H1.
  - now rewrite upd_other.
Qed.

Lemma held_split p a id :
  held p id <-> ids_in (p_pending p a) id \/ ids_in (p_parked p a) id \/
                pend_else p a id \/ park_else p a id.
Proof. unfold held. rewrite (in_pending_split p a), (in_parked_split p a). tauto. Qed.

Lemma ids_in_insert x l id : ids_in (insert_sorted x l) id <-> id = e_id x \/ ids_in l id.
Proof.
  unfold ids_in. split.
  - intros [e [H1 H2]]. apply insert_sorted_In in H1. destruct H1 as [->|H1]; [now left|right; eauto].
  - intros [->|[e [H1 H2]]].
    + exists x. split; [apply insert_sorted_In; now left|reflexivity].
    + exists e. split; [apply insert_sorted_In; now right|assumption].
Qed.

Lemma ids_in_nil id : ~ ids_in [] id.
Proof. intros [e [[] _]]. Qed.

(** ** loop invariant: entries in flight, deferred untracking *)

Record LInv (defs : list tx) (ex : N -> Prop) (a : N) (p : pool) (extra : list entry)
            (removed : list N) : Prop := mkLInv {
  li_c : CInv defs p;
  li_extra : forall x, In x extra -> In (e_tx x) defs /\ e_acct x = a /\ ~ held p (e_id x);
  li_nodup : NoDup (map e_id extra);
  li_removed : forall id, In id removed -> ~ held p id /\ ~ In id (map e_id extra);
  li_t : TInvX ex p extra removed }.

Lemma LInv_pending_add defs ex a p x extra removed cur bal l' :
  LInv defs ex a p (x :: extra) removed ->
  pending_acct_add (p_pending p a) x cur bal = inl l' ->
  LInv defs ex a (set_pending p (upd (p_pending p) a l')) extra removed.
Proof.
  intros [[Hdef Hsort Hexcl] Hextra Hnd Hrem Ht] Hadd.
  apply pending_acct_add_ok in Hadd. destruct Hadd as [-> [_ [Hfresh _]]].
  destruct (Hextra x (or_introl eq_refl)) as [Hxd [Hxa Hxh]].
  cbn in Hnd. inversion Hnd as [|? ? Hxnotin Hnd']; subst.
  set (p' := set_pending p (upd (p_pending p) (e_acct x) (insert_sorted x (p_pending p (e_acct x))))).
  assert (Hheld : forall id, held p' id <-> held p id \/ id = e_id x).
  { intros id. rewrite (held_split p' (e_acct x)), (held_split p (e_acct x)).
    unfold p'. rewrite pend_else_upd. cbn [p_pending p_parked set_pending park_else].
    rewrite upd_same, ids_in_insert. unfold park_else. cbn. tauto. }
  constructor.
  - constructor.
    + intros b e. unfold p'. cbn. destruct (N.eq_dec b (e_acct x)) as [->|Hne].
      * rewrite upd_same, insert_sorted_In. intros [[->|H]|H]; auto.
      * rewrite upd_other by assumption. apply Hdef.
    + intros b. unfold p'. cbn. destruct (N.eq_dec b (e_acct x)) as [->|Hne].
      * rewrite upd_same. split; [|apply Hsort]. apply insert_sorted_sorted; [apply Hsort|assumption].
      * rewrite upd_other by assumption. apply Hsort.
    + intros b e e'. unfold p'. cbn. destruct (N.eq_dec b (e_acct x)) as [->|Hne].
      * rewrite upd_same, insert_sorted_In. intros [->|H] H'.
        -- intros Heq. apply Hxh. right. exists (e_acct x), e'. split; [assumption|congruence].
        -- now apply (Hexcl _ _ _ H H').
      * rewrite upd_other by assumption. apply Hexcl.
  - intros y Hy. destruct (Hextra y (or_intror Hy)) as [H1 [H2 H3]]. repeat split; auto.
    rewrite Hheld. intros [H|H]; [now apply H3|]. apply Hxnotin. rewrite <- H. now apply in_map.
  - assumption.
  - intros id Hid. destruct (Hrem id Hid) as [H1 H2]. split.
    + rewrite Hheld. intros [H|H]; [now apply H1|]. apply H2. subst. now left.
    + intros H. apply H2. now right.
  - intros id Hex. specialize (Ht id Hex). unfold p' at 1. cbn [p_contained set_pending].
    rewrite Ht, Hheld. cbn [map In]. intuition congruence.
Qed.

Lemma LInv_parked_add defs ex a p x extra removed cur l' :
  LInv defs ex a p (x :: extra) removed ->
  parked_acct_add (p_parked p a) x cur = inl l' ->
  LInv defs ex a (set_parked p (upd (p_parked p) a l')) extra removed.
Proof.
  intros [[Hdef Hsort Hexcl] Hextra Hnd Hrem Ht] Hadd.
  apply parked_acct_add_ok in Hadd. destruct Hadd as [-> [_ [_ Hfresh]]].
  destruct (Hextra x (or_introl eq_refl)) as [Hxd [Hxa Hxh]].
  cbn in Hnd. inversion Hnd as [|? ? Hxnotin Hnd']; subst.
  set (p' := set_parked p (upd (p_parked p) (e_acct x) (insert_sorted x (p_parked p (e_acct x))))).
  assert (Hheld : forall id, held p' id <-> held p id \/ id = e_id x).
  { intros id. rewrite (held_split p' (e_acct x)), (held_split p (e_acct x)).
    unfold p'. rewrite park_else_upd. cbn [p_pending p_parked set_parked pend_else].
    rewrite upd_same, ids_in_insert. unfold pend_else. cbn. tauto. }
  constructor.
  - constructor.
    + intros b e. unfold p'. cbn. destruct (N.eq_dec b (e_acct x)) as [->|Hne].
      * rewrite upd_same, insert_sorted_In. intros [H|[->|H]]; auto.
      * rewrite upd_other by assumption. apply Hdef.
    + intros b. unfold p'. cbn. destruct (N.eq_dec b (e_acct x)) as [->|Hne].
      * rewrite upd_same. split; [apply Hsort|]. apply insert_sorted_sorted; [apply Hsort|assumption].
      * rewrite upd_other by assumption. apply Hsort.
    + intros b e e'. unfold p'. cbn. destruct (N.eq_dec b (e_acct x)) as [->|Hne].
      * rewrite upd_same, insert_sorted_In. intros H [->|H'].
        -- intros Heq. apply Hxh. left. exists (e_acct x), e. split; [assumption|congruence].
        -- now apply (Hexcl _ _ _ H H').
      * rewrite upd_other by assumption. apply Hexcl.
  - intros y Hy. destruct (Hextra y (or_intror Hy)) as [H1 [H2 H3]]. repeat split; auto.
    rewrite Hheld. intros [H|H]; [now apply H3|]. apply Hxnotin. rewrite <- H. now apply in_map.
  - assumption.
  - intros id Hid. destruct (Hrem id Hid) as [H1 H2]. split.
    + rewrite Hheld. intros [H|H]; [now apply H1|]. apply H2. subst. now left.
    + intros H. apply H2. now right.
  - intros id Hex. specialize (Ht id Hex). unfold p' at 1. cbn [p_contained set_parked].
    rewrite Ht, Hheld. cbn [map In]. intuition congruence.
Qed.

(** dropping the head of the in-flight list from the tracked set *)
Lemma LInv_drop defs ex a p x extra removed p' :
  LInv defs ex a p (x :: extra) removed ->
  p_pending p' = p_pending p -> p_parked p' = p_parked p ->
  p_contained p' = set_remove (p_contained p) (e_id x) ->
  LInv defs ex a p' extra removed.
Proof.
  intros [[Hdef Hsort Hexcl] Hextra Hnd Hrem Ht] Hpd Hpk Hc.
  destruct (Hextra x (or_introl eq_refl)) as [Hxd [Hxa Hxh]].
  cbn in Hnd. inversion Hnd as [|? ? Hxnotin Hnd']; subst.
  assert (Hheld : forall id, held p' id <-> held p id).
  { intros id. unfold held, in_pending, in_parked. now rewrite Hpd, Hpk. }
  constructor.
  - constructor; intros; rewrite ?Hpd, ?Hpk in *; eauto.
  - intros y Hy. destruct (Hextra y (or_intror Hy)) as [H1 [H2 H3]]. repeat split; auto.
    now rewrite Hheld.
  - assumption.
  - intros id Hid. destruct (Hrem id Hid) as [H1 H2]. split.
    + now rewrite Hheld.
    + intros H. apply H2. now right.
  - intros id Hex. specialize (Ht id Hex). rewrite Hc, set_remove_In, Ht, Hheld. cbn [map In].
    split.
    + intros [[H|[[H|H]|H]] Hne]; auto. congruence.
    + intros [H|[H|H]].
      * split; [now left|]. intros ->. now apply Hxh.
      * split; [right; left; now right|]. intros ->. now apply Hxnotin.
      * split; [now right; right|]. intros ->. destruct (Hrem _ H) as [_ H2]. apply H2. now left.
Qed.

(** deferring the untracking of the head of the in-flight list *)
Lemma LInv_defer defs ex a p x extra removed :
  LInv defs ex a p (x :: extra) removed -> LInv defs ex a p extra (removed ++ [e_id x]).
Proof.
  intros [Hci Hextra Hnd Hrem Ht].
  destruct (Hextra x (or_introl eq_refl)) as [Hxd [Hxa Hxh]].
  cbn in Hnd. inversion Hnd as [|? ? Hxnotin Hnd']; subst. constructor; auto.
  - intros y Hy. apply Hextra. now right.
  - intros id Hid. apply in_app_or in Hid. destruct Hid as [Hid|[<-|[]]].
    + destruct (Hrem id Hid) as [H1 H2]. split; auto. intros H. apply H2. now right.
    + split; assumption.
  - intros id Hex. rewrite (Ht id Hex), in_app_iff. cbn [map In]. intuition congruence.
Qed.

Lemma LInv_untrack defs ex a p x extra removed r :
  LInv defs ex a p (x :: extra) removed -> LInv defs ex a (untrack p (e_id x) r) extra removed.
Proof. intros H. eapply LInv_drop; eauto. Qed.

(** ** the three re-insertion loops *)

Lemma LInv_fold_promote_insert defs ex a cur bal promo : forall p removed,
  LInv defs ex a p promo removed ->
  LInv defs ex a (fold_left (promote_in_insert cur bal a) promo p) [] removed.
Proof.
  induction promo as [|x promo IH]; intros p removed H; cbn [fold_left]; [assumption|].
  apply IH. unfold promote_in_insert.
  destruct (pending_acct_add (p_pending p a) x cur bal) as [l'|err] eqn:E.
  - eapply LInv_pending_add; eauto.
  - now apply LInv_untrack.
Qed.

Lemma LInv_fold_promote_maint defs ex a cur bal promo : forall p rem,
  LInv defs ex a p promo (map fst rem) ->
  LInv defs ex a (fst (fold_left (promote_in_maint cur bal a) promo (p, rem))) []
       (map fst (snd (fold_left (promote_in_maint cur bal a) promo (p, rem)))).
Proof.
  induction promo as [|x promo IH]; intros p rem H; cbn [fold_left fst snd]; [assumption|].
  unfold promote_in_maint at 2 4.
  destruct (pending_acct_add (p_pending p a) x cur bal) as [l'|err] eqn:E.
  - apply IH. eapply LInv_pending_add; eauto.
  - apply IH. rewrite map_app. cbn [map fst]. now apply LInv_defer.
Qed.

Lemma LInv_fold_demote_maint defs ex a u pmax cur demo : forall p rem,
  LInv defs ex a p demo (map fst rem) ->
  LInv defs ex a (fst (fold_left (demote_in_maint u pmax cur) demo (p, rem))) []
       (map fst (snd (fold_left (demote_in_maint u pmax cur) demo (p, rem)))).
Proof.
  induction demo as [|x demo IH]; intros p rem H; cbn [fold_left fst snd]; [assumption|].
  unfold demote_in_maint at 2 4.
  destruct (parked_add u pmax (p_parked p) x cur) as [pk'|err] eqn:E.
  - apply IH. apply parked_add_ok in E. destruct E as [_ [l' [E ->]]].
    destruct (li_extra _ _ _ _ _ _ H x (or_introl eq_refl)) as [_ [Ha _]].
    rewrite Ha in *. eapply LInv_parked_add; eauto.
  - apply IH. rewrite map_app. cbn [map fst]. now apply LInv_defer.
Qed.

(** ** transfer along extensionally equal containers *)

Lemma held_ext p p' :
  (forall b, p_pending p' b = p_pending p b) -> (forall b, p_parked p' b = p_parked p b) ->
  forall id, held p' id <-> held p id.
Proof.
  intros Hpd Hpk id. unfold held, in_pending, in_parked.
  split; intros [[b [e [H1 H2]]]|[b [e [H1 H2]]]].
  - left. exists b, e. now rewrite <- Hpd.
  - right. exists b, e. now rewrite <- Hpk.
  - left. exists b, e. now rewrite Hpd.
  - right. exists b, e. now rewrite Hpk.
Qed.

Lemma CInv_ext defs p p' :
  (forall b, p_pending p' b = p_pending p b) -> (forall b, p_parked p' b = p_parked p b) ->
  CInv defs p -> CInv defs p'.
Proof.
  intros Hpd Hpk [Hdef Hsort Hexcl]. constructor.
  - intros b e. rewrite Hpd, Hpk. apply Hdef.
  - intros b. rewrite Hpd, Hpk. apply Hsort.
  - intros b e e'. rewrite Hpd, Hpk. apply Hexcl.
Qed.

Lemma LInv_ext defs ex a p p' extra removed removed' :
  (forall b, p_pending p' b = p_pending p b) -> (forall b, p_parked p' b = p_parked p b) ->
  (forall id, In id (p_contained p') <-> In id (p_contained p)) ->
  (forall id, In id removed' <-> In id removed) ->
  LInv defs ex a p extra removed -> LInv defs ex a p' extra removed'.
Proof.
  intros Hpd Hpk Hc Hr [Hci Hextra Hnd Hrem Ht].
  pose proof (held_ext p p' Hpd Hpk) as Hheld. constructor.
  - eapply CInv_ext; eauto.
  - intros x Hx. destruct (Hextra x Hx) as [H1 [H2 H3]]. repeat split; auto. now rewrite Hheld.
  - assumption.
  - intros id Hid. apply Hr in Hid. destruct (Hrem id Hid) as [H1 H2]. split; auto. now rewrite Hheld.
  - intros id Hex. rewrite Hc, Hheld, Hr. now apply Ht.
Qed.

Lemma LInv_to_removed defs ex a p extra removed :
  LInv defs ex a p extra removed -> LInv defs ex a p [] (removed ++ map e_id extra).
Proof.
  intros [Hci Hextra Hnd Hrem Ht]. constructor; auto.
  - intros x [].
  - constructor.
  - intros id Hid. apply in_app_or in Hid. destruct Hid as [Hid|Hid].
    + destruct (Hrem id Hid). split; auto.
    + apply in_map_iff in Hid. destruct Hid as [x [<- Hx]]. destruct (Hextra x Hx) as [_ [_ H]].
      split; auto.
  - intros id Hex. rewrite (Ht id Hex), in_app_iff. cbn. tauto.
Qed.

(** ids are injective on a well-formed account list *)
Lemma ids_NoDup u defs l :
  defs_ok u defs -> sorted l -> (forall e, In e l -> In (e_tx e) defs) -> NoDup (map e_id l).
Proof.
  intros Hdefs. unfold sorted. induction l as [|e l IH]; intros Hs Hd; cbn; [constructor|].
  apply sorted_inv in Hs. destruct Hs as [Hs Hall]. constructor.
  - intros Hin. apply in_map_iff in Hin. destruct Hin as [y [Hid Hy]].
    destruct (entry_id_nonce u defs y e Hdefs) as [Hn _]; auto.
    + apply Hd. now right.
    + apply Hd. now left.
    + rewrite Forall_forall in Hall. specialize (Hall y Hy). lia.
  - apply IH; auto. intros y Hy. apply Hd. now right.
Qed.

Lemma NoDup_map_filter {A B} (g : A -> B) (f : A -> bool) l :
  NoDup (map g l) -> NoDup (map g (filter f l)).
Proof.
  induction l as [|x l IH]; intros H; cbn; [constructor|].
  cbn in H. inversion H as [|? ? Hnotin Hnd]; subst. destruct (f x); cbn.
  - constructor; [|now apply IH]. intros Hin. apply Hnotin. apply in_map_iff in Hin.
    destruct Hin as [y [Hy1 Hy2]]. apply filter_In in Hy2. rewrite <- Hy1. apply in_map. tauto.
  - now apply IH.
Qed.

Lemma ids_in_filter_split f l id :
  ids_in l id <-> ids_in (filter f l) id \/ ids_in (filter (fun e => negb (f e)) l) id.
Proof.
  unfold ids_in. split.
  - intros [e [H1 H2]]. destruct (f e) eqn:E; [left|right]; exists e; split; auto;
      apply filter_In; split; auto. now rewrite E.
  - intros [[e [H1 H2]]|[e [H1 H2]]]; apply filter_In in H1; exists e; tauto.
Qed.

(** taking entries out of pending [a]: they become in-flight *)
Lemma LInv_split_pending u defs ex a p removed f :
  defs_ok u defs ->
  LInv defs ex a p [] removed ->
  LInv defs ex a (set_pending p (upd (p_pending p) a (filter f (p_pending p a))))
       (filter (fun e => negb (f e)) (p_pending p a)) removed.
Proof.
  intros Hdefs [Hci _ _ Hrem Ht]. pose proof Hci as [Hdef Hsort Hexcl].
  set (p' := set_pending p (upd (p_pending p) a (filter f (p_pending p a)))).
  set (out := filter (fun e => negb (f e)) (p_pending p a)).
  assert (Hheld : forall id, held p id <-> held p' id \/ ids_in out id).
  { intros id. rewrite (held_split p' a), (held_split p a). unfold p'. rewrite pend_else_upd.
    cbn [p_pending p_parked set_pending]. rewrite upd_same.
    rewrite (ids_in_filter_split f (p_pending p a)). unfold park_else, out. cbn. tauto. }
  assert (Hsub : forall id, held p' id -> held p id) by (intros id H; apply Hheld; now left).
  constructor.
  - constructor.
    + intros b e. unfold p'. cbn. destruct (N.eq_dec b a) as [->|Hne].
      * rewrite upd_same. intros [H|H]; apply Hdef; [left|now right]. apply filter_In in H. tauto.
      * rewrite upd_other by assumption. apply Hdef.
    + intros b. unfold p'. cbn. destruct (N.eq_dec b a) as [->|Hne].
      * rewrite upd_same. split; [apply sorted_filter|]; apply Hsort.
      * rewrite upd_other by assumption. apply Hsort.
    + intros b e e'. unfold p'. cbn. destruct (N.eq_dec b a) as [->|Hne].
      * rewrite upd_same. intros H. apply filter_In in H. apply Hexcl. tauto.
      * rewrite upd_other by assumption. apply Hexcl.
  - intros x Hx. unfold out in Hx. apply filter_In in Hx. destruct Hx as [Hx Hfx].
    destruct (Hdef a x (or_introl Hx)) as [H1 H2]. repeat split; auto.
    intros Hh. rewrite (held_split p' a) in Hh. unfold p' in Hh. rewrite pend_else_upd in Hh.
    cbn [p_pending p_parked set_pending] in Hh. rewrite upd_same in Hh.
    destruct Hh as [[e [He Hid]]|[[e [He Hid]]|[[b [e [Hb [He Hid]]]]|[b [e [Hb [He Hid]]]]]]].
    + apply filter_In in He. destruct He as [He Hfe].
      destruct (held_slot u defs p a a e x Hdefs Hci (or_introl He) (or_introl Hx) Hid) as [_ [-> _]].
      rewrite Hfe in Hfx. discriminate.
    + apply (Hexcl a x e Hx He). congruence.
    + destruct (held_slot u defs p b a e x Hdefs Hci (or_introl He) (or_introl Hx) Hid) as [-> _].
      now apply Hb.
    + cbn in He. destruct (held_slot u defs p b a e x Hdefs Hci (or_intror He) (or_introl Hx) Hid) as [-> _].
      now apply Hb.
  - apply NoDup_map_filter. eapply ids_NoDup; eauto; [apply Hsort|].
    intros e He. now apply (Hdef a e (or_introl He)).
  - intros id Hid. destruct (Hrem id Hid) as [H1 _]. split.
    + intros H. apply H1. now apply Hsub.
    + intros H. apply H1. apply Hheld. right. apply in_map_iff in H. destruct H as [x [Hx1 Hx2]].
      exists x. split; assumption.
  - intros id Hex. specialize (Ht id Hex). unfold p' at 1. cbn [p_contained set_pending].
    rewrite Ht, Hheld. cbn [map In]. unfold ids_in.
    split.
    + intros [[H|[e [H1 H2]]]|[[]|H]]; auto. right; left. apply in_map_iff. eauto.
    + intros [H|[H|H]]; auto. left; right. apply in_map_iff in H. destruct H as [e [H1 H2]]. eauto.
Qed.

(** taking entries out of parked [a] *)
Lemma LInv_split_parked u defs ex a p removed f :
  defs_ok u defs ->
  LInv defs ex a p [] removed ->
  LInv defs ex a (set_parked p (upd (p_parked p) a (filter f (p_parked p a))))
       (filter (fun e => negb (f e)) (p_parked p a)) removed.
Proof.
  intros Hdefs [Hci _ _ Hrem Ht]. pose proof Hci as [Hdef Hsort Hexcl].
  set (p' := set_parked p (upd (p_parked p) a (filter f (p_parked p a)))).
  set (out := filter (fun e => negb (f e)) (p_parked p a)).
  assert (Hheld : forall id, held p id <-> held p' id \/ ids_in out id).
  { intros id. rewrite (held_split p' a), (held_split p a). unfold p'. rewrite park_else_upd.
    cbn [p_pending p_parked set_parked]. rewrite upd_same.
    rewrite (ids_in_filter_split f (p_parked p a)). unfold pend_else, out. cbn. tauto. }
  assert (Hsub : forall id, held p' id -> held p id) by (intros id H; apply Hheld; now left).
  constructor.
  - constructor.
    + intros b e. unfold p'. cbn. destruct (N.eq_dec b a) as [->|Hne].
      * rewrite upd_same. intros [H|H]; apply Hdef; [now left|right]. apply filter_In in H. tauto.
      * rewrite upd_other by assumption. apply Hdef.
    + intros b. unfold p'. cbn. destruct (N.eq_dec b a) as [->|Hne].
      * rewrite upd_same. split; [|apply sorted_filter]; apply Hsort.
      * rewrite upd_other by assumption. apply Hsort.
    + intros b e e'. unfold p'. cbn. destruct (N.eq_dec b a) as [->|Hne].
      * rewrite upd_same. intros H H'. apply filter_In in H'. apply (Hexcl a e e'); tauto.
      * rewrite upd_other by assumption. apply Hexcl.
  - intros x Hx. unfold out in Hx. apply filter_In in Hx. destruct Hx as [Hx Hfx].
    destruct (Hdef a x (or_intror Hx)) as [H1 H2]. repeat split; auto.
    intros Hh. rewrite (held_split p' a) in Hh. unfold p' in Hh. rewrite park_else_upd in Hh.
    cbn [p_pending p_parked set_parked] in Hh. rewrite upd_same in Hh.
    destruct Hh as [[e [He Hid]]|[[e [He Hid]]|[[b [e [Hb [He Hid]]]]|[b [e [Hb [He Hid]]]]]]].
    + apply (Hexcl a e x He Hx). congruence.
    + apply filter_In in He. destruct He as [He Hfe].
      destruct (held_slot u defs p a a e x Hdefs Hci (or_intror He) (or_intror Hx) Hid) as [_ [-> _]].
      rewrite Hfe in Hfx. discriminate.
    + cbn in He. destruct (held_slot u defs p b a e x Hdefs Hci (or_introl He) (or_intror Hx) Hid) as [-> _].
      now apply Hb.
    + destruct (held_slot u defs p b a e x Hdefs Hci (or_intror He) (or_intror Hx) Hid) as [-> _].
      now apply Hb.
  - apply NoDup_map_filter. eapply ids_NoDup; eauto; [apply Hsort|].
    intros e He. now apply (Hdef a e (or_intror He)).
  - intros id Hid. destruct (Hrem id Hid) as [H1 _]. split.
    + intros H. apply H1. now apply Hsub.
    + intros H. apply H1. apply Hheld. right. apply in_map_iff in H. destruct H as [x [Hx1 Hx2]].
      exists x. split; assumption.
  - intros id Hex. specialize (Ht id Hex). unfold p' at 1. cbn [p_contained set_parked].
    rewrite Ht, Hheld. cbn [map In]. unfold ids_in.
    split.
    + intros [[H|[e [H1 H2]]]|[[]|H]]; auto. right; left. apply in_map_iff. eauto.
    + intros [H|[H|H]]; auto. left; right. apply in_map_iff in H. destruct H as [e [H1 H2]]. eauto.
Qed.

(** recosting does not change which transactions are where *)
Lemma ids_in_recost f l id : ids_in (map (recost_entry f) l) id <-> ids_in l id.
Proof.
  unfold ids_in. split.
  - intros [e [H1 H2]]. apply in_map_iff in H1. destruct H1 as [y [<- Hy]]. eauto.
  - intros [e [H1 H2]]. exists (recost_entry f e). split; [now apply in_map|assumption].
Qed.

Lemma LInv_recost_pending defs ex a p removed (on : bool) f :
  LInv defs ex a p [] removed ->
  LInv defs ex a (set_pending p (upd (p_pending p) a
        (if on then map (recost_entry f) (p_pending p a) else p_pending p a))) [] removed.
Proof.
  intros H. destruct on.
  2:{ eapply LInv_ext; [| | | |exact H]; cbn; try tauto; intros b.
      destruct (N.eq_dec b a) as [->|Hne]; [now rewrite upd_same|now rewrite upd_other]. }
  destruct H as [Hci _ _ Hrem Ht]. pose proof Hci as [Hdef Hsort Hexcl].
  set (p' := set_pending p (upd (p_pending p) a (map (recost_entry f) (p_pending p a)))).
  assert (Hheld : forall id, held p' id <-> held p id).
  { intros id. rewrite (held_split p' a), (held_split p a). unfold p'. rewrite pend_else_upd.
    cbn [p_pending p_parked set_pending]. rewrite upd_same, ids_in_recost.
    unfold park_else. cbn. tauto. }
  constructor.
  - constructor.
    + intros b e. unfold p'. cbn. destruct (N.eq_dec b a) as [->|Hne].
      * rewrite upd_same. intros [H|H]; [|apply Hdef; now right].
        apply in_map_iff in H. destruct H as [y [<- Hy]]. apply (Hdef a y). now left.
      * rewrite upd_other by assumption. apply Hdef.
    + intros b. unfold p'. cbn. destruct (N.eq_dec b a) as [->|Hne].
      * rewrite upd_same. split; [apply sorted_map_recost|]; apply Hsort.
      * rewrite upd_other by assumption. apply Hsort.
    + intros b e e'. unfold p'. cbn. destruct (N.eq_dec b a) as [->|Hne].
      * rewrite upd_same. intros H. apply in_map_iff in H. destruct H as [y [<- Hy]].
        apply (Hexcl a y e' Hy).
      * rewrite upd_other by assumption. apply Hexcl.
  - intros x [].
  - constructor.
  - intros id Hid. destruct (Hrem id Hid). split; auto. now rewrite Hheld.
  - intros id Hex. unfold p' at 1. cbn [p_contained set_pending]. rewrite Hheld. now apply Ht.
Qed.

Lemma LInv_recost_parked defs ex a p removed (on : bool) f :
  LInv defs ex a p [] removed ->
  LInv defs ex a (set_parked p (upd (p_parked p) a
        (if on then map (recost_entry f) (p_parked p a) else p_parked p a))) [] removed.
Proof.
  intros H. destruct on.
  2:{ eapply LInv_ext; [| | | |exact H]; cbn; try tauto; intros b.
      destruct (N.eq_dec b a) as [->|Hne]; [now rewrite upd_same|now rewrite upd_other]. }
  destruct H as [Hci _ _ Hrem Ht]. pose proof Hci as [Hdef Hsort Hexcl].
  set (p' := set_parked p (upd (p_parked p) a (map (recost_entry f) (p_parked p a)))).
  assert (Hheld : forall id, held p' id <-> held p id).
  { intros id. rewrite (held_split p' a), (held_split p a). unfold p'. rewrite park_else_upd.
    cbn [p_pending p_parked set_parked]. rewrite upd_same, ids_in_recost.
    unfold pend_else. cbn. tauto. }
  constructor.
  - constructor.
    + intros b e. unfold p'. cbn. destruct (N.eq_dec b a) as [->|Hne].
      * rewrite upd_same. intros [H|H]; [apply Hdef; now left|].
        apply in_map_iff in H. destruct H as [y [<- Hy]]. apply (Hdef a y). now right.
      * rewrite upd_other by assumption. apply Hdef.
    + intros b. unfold p'. cbn. destruct (N.eq_dec b a) as [->|Hne].
      * rewrite upd_same. split; [|apply sorted_map_recost]; apply Hsort.
      * rewrite upd_other by assumption. apply Hsort.
    + intros b e e'. unfold p'. cbn. destruct (N.eq_dec b a) as [->|Hne].
      * rewrite upd_same. intros H H'. apply in_map_iff in H'. destruct H' as [y [<- Hy]].
        apply (Hexcl a e y H Hy).
      * rewrite upd_other by assumption. apply Hexcl.
  - intros x [].
  - constructor.
  - intros id Hid. destruct (Hrem id Hid). split; auto. now rewrite Hheld.
  - intros id Hex. unfold p' at 1. cbn [p_contained set_parked]. rewrite Hheld. now apply Ht.
Qed.
