(** C13 — elementary facts about the building blocks of the mempool model. *)
From Astria Require Import Mempool.MempoolSpec.

(** ** upd, sets, association lists *)

Lemma upd_same {A} (f : N -> A) k v : upd f k v k = v.
Proof. unfold upd. now rewrite N.eqb_refl. Qed.

Lemma upd_other {A} (f : N -> A) k v x : x <> k -> upd f k v x = f x.
Proof. unfold upd. intros H. apply N.eqb_neq in H. now rewrite H. Qed.

Lemma mem_In x l : mem x l = true <-> In x l.
Proof.
  unfold mem. rewrite existsb_exists. split.
  - intros [y [Hy He]]. apply N.eqb_eq in He. now subst.
  - intros H. exists x. split; [assumption|apply N.eqb_refl].
Qed.

Lemma mem_false x l : mem x l = false <-> ~ In x l.
Proof.
  rewrite <- mem_In. destruct (mem x l); split; intros H.
  - discriminate.
  - exfalso. now apply H.
  - intros H'. discriminate.
  - reflexivity.
Qed.

Lemma set_add_In l x y : In y (set_add l x) <-> y = x \/ In y l.
Proof.
  unfold set_add. destruct (mem x l) eqn:E.
  - apply mem_In in E. split; [now right|]. intros [->|H]; assumption.
  - cbn. split; intros [H|H]; auto.
Qed.

Lemma set_remove_In l x y : In y (set_remove l x) <-> In y l /\ y <> x.
Proof.
  unfold set_remove. rewrite filter_In. rewrite negb_true_iff, N.eqb_neq. tauto.
Qed.

Lemma set_add_NoDup l x : NoDup l -> NoDup (set_add l x).
Proof.
  unfold set_add. destruct (mem x l) eqn:E; [auto|].
  intros H. constructor; [|assumption]. now apply mem_false.
Qed.

Lemma set_remove_NoDup l x : NoDup l -> NoDup (set_remove l x).
Proof. apply NoDup_filter. Qed.

Lemma fold_set_remove_In xs l y :
  In y (fold_left set_remove xs l) <-> In y l /\ ~ In y xs.
Proof.
  revert l. induction xs as [|x xs IH]; intros l; cbn.
  - tauto.
  - rewrite IH, set_remove_In. intuition congruence.
Qed.

Lemma assoc_get_Some {B} (c : list (N * B)) k v :
  assoc_get c k = Some v -> In (k, v) c.
Proof.
  unfold assoc_get. destruct (find _ c) as [[k' v']|] eqn:E; [|discriminate].
  intros H. inversion H; subst. apply find_some in E. destruct E as [Hin He].
  cbn in He. apply N.eqb_eq in He. now subst.
Qed.

Lemma assoc_get_None {B} (c : list (N * B)) k :
  assoc_get c k = None <-> forall v, ~ In (k, v) c.
Proof.
  unfold assoc_get. split.
  - destruct (find _ c) as [p|] eqn:E; [discriminate|]. intros _ v Hin.
    pose proof (find_none _ _ E _ Hin) as H. cbn in H. now rewrite N.eqb_refl in H.
  - intros H. destruct (find _ c) as [[k' v']|] eqn:E; [|reflexivity].
    apply find_some in E. destruct E as [Hin He]. cbn in He. apply N.eqb_eq in He. subst.
    exfalso. eapply H; eauto.
Qed.

Lemma assoc_get_cons {B} (c : list (N * B)) k k' v :
  assoc_get ((k', v) :: c) k = if k' =? k then Some v else assoc_get c k.
Proof. unfold assoc_get. cbn. destruct (k' =? k); reflexivity. Qed.

Lemma assoc_get_remove_other {B} (c : list (N * B)) k k' :
  k <> k' -> assoc_get (assoc_remove c k') k = assoc_get c k.
Proof.
  intros Hne. unfold assoc_get, assoc_remove. induction c as [|[x v] c IH]; cbn; [reflexivity|].
  destruct (x =? k') eqn:E1; cbn.
  - apply N.eqb_eq in E1. subst. destruct (k' =? k) eqn:E2.
    + apply N.eqb_eq in E2. congruence.
    + exact IH.
  - destruct (x =? k); [reflexivity|exact IH].
Qed.

Lemma rcache_add_get c k r k' :
  assoc_get (rcache_add c k r) k' <> None <-> (k' = k \/ assoc_get c k' <> None).
Proof.
  unfold rcache_add. destruct (assoc_get c k) eqn:E.
  - split; [now right|]. intros [->|H]; [congruence|assumption].
  - rewrite assoc_get_cons. destruct (k =? k') eqn:E2.
    + apply N.eqb_eq in E2. subst. split; [now left|discriminate].
    + apply N.eqb_neq in E2. split; [now right|]. intros [->|H]; [congruence|assumption].
Qed.

Lemma recent_add_get c k h k' :
  assoc_get (recent_add c k h) k' <> None <-> (k' = k \/ assoc_get c k' <> None).
Proof.
  unfold recent_add. rewrite assoc_get_cons. destruct (k =? k') eqn:E.
  - apply N.eqb_eq in E. subst. split; [now left|discriminate].
  - apply N.eqb_neq in E. rewrite assoc_get_remove_other by congruence.
    split; [now right|]. intros [->|H]; [congruence|assumption].
Qed.

(** ** costs *)

Lemma cost_of_cons a c r asset :
  cost_of ((a, c) :: r) asset = (if a =? asset then c else 0) + cost_of r asset.
Proof. unfold cost_of. cbn. destruct (a =? asset); cbn; lia. Qed.

Lemma deduct_spec cs : forall b b',
  deduct cs b = Some b' ->
  forall asset, cost_of cs asset <= b asset /\ b' asset = b asset - cost_of cs asset.
Proof.
  induction cs as [|[a c] r IH]; intros b b' H asset.
  - cbn in H. inversion H; subst. unfold cost_of; cbn. lia.
  - cbn in H. destruct (b a <? c) eqn:E; [discriminate|]. apply N.ltb_ge in E.
    specialize (IH _ _ H asset). rewrite cost_of_cons.
    destruct (a =? asset) eqn:Ea.
    + apply N.eqb_eq in Ea. subst. rewrite upd_same in IH. lia.
    + apply N.eqb_neq in Ea. rewrite upd_other in IH by congruence. lia.
Qed.

Lemma deduct_complete cs : forall b,
  (forall asset, cost_of cs asset <= b asset) -> exists b', deduct cs b = Some b'.
Proof.
  induction cs as [|[a c] r IH]; intros b H.
  - eexists; reflexivity.
  - cbn. pose proof (H a) as Ha. rewrite cost_of_cons, N.eqb_refl in Ha.
    destruct (b a <? c) eqn:E; [apply N.ltb_lt in E; lia|].
    apply IH. intros asset. specialize (H asset). rewrite cost_of_cons in H.
    destruct (a =? asset) eqn:Ea.
    + apply N.eqb_eq in Ea. subst. rewrite upd_same. lia.
    + apply N.eqb_neq in Ea. rewrite upd_other by congruence. lia.
Qed.

Lemma total_cost_cons e l asset :
  total_cost (e :: l) asset = cost_of (e_costs e) asset + total_cost l asset.
Proof. reflexivity. Qed.

Lemma total_cost_app l1 l2 asset :
  total_cost (l1 ++ l2) asset = total_cost l1 asset + total_cost l2 asset.
Proof. unfold total_cost. now rewrite map_app, sumN_app. Qed.

Lemma deduct_entries_spec l : forall b b',
  deduct_entries l b = Some b' ->
  forall asset, total_cost l asset <= b asset /\ b' asset = b asset - total_cost l asset.
Proof.
  induction l as [|e l IH]; intros b b' H asset.
  - cbn in H. inversion H; subst. unfold total_cost; cbn. lia.
  - cbn in H. destruct (deduct (e_costs e) b) as [b1|] eqn:E; [|discriminate].
    pose proof (deduct_spec _ _ _ E asset) as [H1 H2].
    specialize (IH _ _ H asset). rewrite total_cost_cons. lia.
Qed.

Lemma deduct_entries_affordable l b :
  (exists b', deduct_entries l b = Some b') <-> affordable l b.
Proof.
  split.
  - intros [b' H] asset. now apply (deduct_entries_spec _ _ _ H).
  - revert b. induction l as [|e l IH]; intros b H.
    + eexists; reflexivity.
    + cbn. destruct (deduct_complete (e_costs e) b) as [b1 E].
      { intros asset. specialize (H asset). rewrite total_cost_cons in H. lia. }
      rewrite E. apply IH. intros asset. specialize (H asset). rewrite total_cost_cons in H.
      pose proof (deduct_spec _ _ _ E asset). lia.
Qed.

Lemma total_cost_filter_le f l asset : total_cost (filter f l) asset <= total_cost l asset.
Proof.
  induction l as [|e l IH]; cbn [filter]; [lia|]. destruct (f e); rewrite ?total_cost_cons; lia.
Qed.

Lemma affordable_filter f l b : affordable l b -> affordable (filter f l) b.
Proof. intros H asset. pose proof (total_cost_filter_le f l asset). specialize (H asset). lia. Qed.

Lemma affordable_nil b : affordable [] b.
Proof. intros asset. unfold total_cost; cbn. lia. Qed.

(** ** one account's list *)

Lemma has_nonce_In l n : has_nonce l n = true <-> exists e, In e l /\ e_nonce e = n.
Proof.
  unfold has_nonce. rewrite existsb_exists. split; intros [e [H1 H2]]; exists e; split; auto.
  - now apply N.eqb_eq.
  - now apply N.eqb_eq.
Qed.

Lemma find_nonce_None l n : find_nonce l n = None <-> has_nonce l n = false.
Proof.
  unfold find_nonce, has_nonce. induction l as [|e l IH]; cbn; [tauto|].
  destruct (e_nonce e =? n); cbn; [split; discriminate|exact IH].
Qed.

Lemma find_nonce_Some l n x : find_nonce l n = Some x -> In x l /\ e_nonce x = n.
Proof.
  unfold find_nonce. intros H. apply find_some in H. destruct H as [H1 H2].
  split; [assumption|now apply N.eqb_eq].
Qed.

Lemma insert_sorted_In e l x : In x (insert_sorted e l) <-> x = e \/ In x l.
Proof.
  induction l as [|y l IH]; cbn.
  - intuition.
  - destruct (e_nonce e <? e_nonce y); cbn; [intuition|]. rewrite IH. intuition.
Qed.

Lemma insert_sorted_length e l : length (insert_sorted e l) = S (length l).
Proof.
  induction l as [|y l IH]; cbn; [reflexivity|].
  destruct (e_nonce e <? e_nonce y); cbn; [reflexivity|now rewrite IH].
Qed.

Lemma sorted_inv e l : sorted (e :: l) -> sorted l /\ Forall (fun y => e_nonce e < e_nonce y) l.
Proof. intros H. inversion H; subst. split; assumption. Qed.

Lemma insert_sorted_sorted e l :
  sorted l -> has_nonce l (e_nonce e) = false -> sorted (insert_sorted e l).
Proof.
  unfold sorted. induction l as [|y l IH]; intros Hs Hn; cbn.
  - constructor; constructor.
  - cbn in Hn. apply orb_false_iff in Hn. destruct Hn as [Hy Hn]. apply N.eqb_neq in Hy.
    apply sorted_inv in Hs. destruct Hs as [Hs Hall].
    destruct (e_nonce e <? e_nonce y) eqn:E.
    + apply N.ltb_lt in E. constructor.
      * constructor; assumption.
      * constructor; [assumption|]. eapply Forall_impl; [|exact Hall]. cbn. intros; lia.
    + apply N.ltb_ge in E. constructor.
      * now apply IH.
      * apply Forall_forall. intros x Hx. apply insert_sorted_In in Hx. destruct Hx as [->|Hx].
        -- lia.
        -- rewrite Forall_forall in Hall. now apply Hall.
Qed.

Lemma sorted_filter f l : sorted l -> sorted (filter f l).
Proof.
  unfold sorted. induction l as [|e l IH]; intros H; cbn; [constructor|].
  apply sorted_inv in H. destruct H as [Hs Hall]. destruct (f e).
  - constructor; [now apply IH|]. apply Forall_forall. intros x Hx. apply filter_In in Hx.
    rewrite Forall_forall in Hall. now apply Hall.
  - now apply IH.
Qed.

Lemma sorted_map_recost f l : sorted l -> sorted (map (recost_entry f) l).
Proof.
  unfold sorted. induction l as [|e l IH]; intros H; cbn; [constructor|].
  apply sorted_inv in H. destruct H as [Hs Hall]. constructor; [now apply IH|].
  apply Forall_forall. intros x Hx. apply in_map_iff in Hx. destruct Hx as [y [<- Hy]].
  rewrite Forall_forall in Hall. exact (Hall _ Hy).
Qed.

Lemma sorted_nonce_inj l x y :
  sorted l -> In x l -> In y l -> e_nonce x = e_nonce y -> x = y.
Proof.
  unfold sorted. induction l as [|e l IH]; intros Hs Hx Hy Hn; [contradiction|].
  apply sorted_inv in Hs. destruct Hs as [Hs Hall]. rewrite Forall_forall in Hall.
  destruct Hx as [->|Hx], Hy as [->|Hy]; auto.
  - specialize (Hall _ Hy). lia.
  - specialize (Hall _ Hx). lia.
Qed.

Lemma llen_filter_le {A} (f : A -> bool) l : llen (filter f l) <= llen l.
Proof.
  unfold llen. induction l as [|x l IH]; cbn [filter length]; [lia|].
  destruct (f x); cbn [length]; lia.
Qed.

Lemma llen_insert_sorted e l : llen (insert_sorted e l) = llen l + 1.
Proof. unfold llen. rewrite insert_sorted_length. lia. Qed.

Lemma llen_map {A B} (f : A -> B) l : llen (map f l) = llen l.
Proof. unfold llen. now rewrite map_length. Qed.

Lemma filter_nil_local {A} (f : A -> bool) l :
  (forall y, In y l -> f y = false) -> filter f l = [].
Proof.
  induction l as [|x l IH]; intros H; cbn; [reflexivity|].
  rewrite (H x (or_introl eq_refl)). apply IH. intros y Hy. apply H. now right.
Qed.

Lemma filter_all_local {A} (f : A -> bool) l :
  (forall y, In y l -> f y = true) -> filter f l = l.
Proof.
  induction l as [|x l IH]; intros H; cbn; [reflexivity|].
  rewrite (H x (or_introl eq_refl)). f_equal. apply IH. intros y Hy. apply H. now right.
Qed.

Lemma NoDup_app_snoc {A} (l : list A) x : NoDup l -> ~ In x l -> NoDup (l ++ [x]).
Proof.
  induction l as [|y l IH]; intros Hnd Hx; cbn.
  - constructor; [intros []|constructor].
  - inversion Hnd as [|? ? Hy Hnd']; subst. constructor.
    + intros Hin. apply in_app_or in Hin. destruct Hin as [Hin|[<-|[]]]; [contradiction|].
      apply Hx. now left.
    + apply IH; [assumption|]. intros Hin. apply Hx. now right.
Qed.

Lemma NoDup_app_intro {A} (l1 l2 : list A) :
  NoDup l1 -> NoDup l2 -> (forall x, In x l1 -> In x l2 -> False) -> NoDup (l1 ++ l2).
Proof.
  induction l1 as [|y l1 IH]; intros H1 H2 H; cbn; [assumption|].
  inversion H1 as [|? ? Hy Hnd]; subst. constructor.
  - intros Hin. apply in_app_or in Hin. destruct Hin as [Hin|Hin]; [contradiction|].
    apply (H y); [now left|assumption].
  - apply IH; auto. intros x Hx1 Hx2. apply (H x); [now right|assumption].
Qed.
