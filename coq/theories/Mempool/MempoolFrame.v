(** C13 — frame and closure lemmas: which account lists an operation touches, and that a
    predicate closed under the primitive additions / filters survives the whole operation. *)
From Astria Require Import Mempool.MempoolSpec Mempool.MempoolBase Mempool.MempoolOps.

(** [J] survives a successful pending addition of an entry satisfying [Q] *)
Definition closedP (cur : N) (bal : balances) (Q : entry -> Prop) (J : list entry -> Prop) : Prop :=
  forall l e l', J l -> Q e -> pending_acct_add l e cur bal = inl l' -> J l'.

Definition closedK (cur : N) (Q : entry -> Prop) (J : list entry -> Prop) : Prop :=
  forall l e l', J l -> Q e -> parked_acct_add l e cur = inl l' -> J l'.

Lemma fold_promote_insert_shape cur bal a promo : forall p,
  let p' := fold_left (promote_in_insert cur bal a) promo p in
  (forall b, p_parked p' b = p_parked p b) /\
  (forall b, b <> a -> p_pending p' b = p_pending p b) /\
  (forall Q J, closedP cur bal Q J -> Forall Q promo -> J (p_pending p a) -> J (p_pending p' a)).
Proof.
  induction promo as [|x promo IH]; intros p; cbn [fold_left].
  - repeat split; auto.
  - set (p1 := promote_in_insert cur bal a p x).
    destruct (IH p1) as [H1 [H2 H3]].
    assert (Hp1 : (forall b, p_parked p1 b = p_parked p b) /\
                  (forall b, b <> a -> p_pending p1 b = p_pending p b) /\
                  (forall Q J, closedP cur bal Q J -> Q x -> J (p_pending p a) -> J (p_pending p1 a))).
    { unfold p1, promote_in_insert.
      destruct (pending_acct_add (p_pending p a) x cur bal) as [l'|err] eqn:E; cbn.
      - repeat split; auto.
        + intros b Hb. now rewrite upd_other.
        + intros Q J Hc Hq Hj. rewrite upd_same. eapply Hc; eauto.
      - repeat split; auto. }
    destruct Hp1 as [G1 [G2 G3]]. split; [|split].
    + intros b. now rewrite H1, G1.
    + intros b Hb. rewrite H2 by assumption. now apply G2.
    + intros Q J Hc Hq Hj. inversion Hq; subst. apply (H3 Q J Hc); auto. eapply G3; eauto.
Qed.

Lemma fold_promote_maint_shape cur bal a promo : forall p (lost : list (N * reason)),
  let p' := fst (fold_left (promote_in_maint cur bal a) promo (p, lost)) in
  (forall b, p_parked p' b = p_parked p b) /\
  (forall b, b <> a -> p_pending p' b = p_pending p b) /\
  p_now p' = p_now p /\
  (forall Q J, closedP cur bal Q J -> Forall Q promo -> J (p_pending p a) -> J (p_pending p' a)).
Proof.
  induction promo as [|x promo IH]; intros p lost; cbn [fold_left fst].
  - repeat split; auto.
  - destruct (promote_in_maint cur bal a (p, lost) x) as [p1 lost1] eqn:E1.
    destruct (IH p1 lost1) as [H1 [H2 [H0 H3]]].
    assert (Hp1 : (forall b, p_parked p1 b = p_parked p b) /\
                  (forall b, b <> a -> p_pending p1 b = p_pending p b) /\
                  p_now p1 = p_now p /\
                  (forall Q J, closedP cur bal Q J -> Q x -> J (p_pending p a) -> J (p_pending p1 a))).
    { unfold promote_in_maint in E1.
      destruct (pending_acct_add (p_pending p a) x cur bal) as [l'|err] eqn:E;
        inversion E1; subst; cbn.
      - repeat split; auto.
        + intros b Hb. now rewrite upd_other.
        + intros Q J Hc Hq Hj. rewrite upd_same. eapply Hc; eauto.
      - repeat split; auto. }
    destruct Hp1 as [G1 [G2 [G0 G3]]]. split; [|split; [|split]].
    + intros b. now rewrite H1, G1.
    + intros b Hb. rewrite H2 by assumption. now apply G2.
    + now rewrite H0, G0.
    + intros Q J Hc Hq Hj. inversion Hq; subst. apply (H3 Q J Hc); auto. eapply G3; eauto.
Qed.

(** total parked count when one account's list changes *)
Lemma parked_len_upd u pk a l' :
  NoDup u ->
  parked_len u (upd pk a l') + (if mem a u then llen (pk a) else 0) =
  parked_len u pk + (if mem a u then llen l' else 0).
Proof.
  unfold parked_len. induction u as [|b u IH]; intros Hnd; cbn [map sumN mem existsb]; [reflexivity|].
  inversion Hnd as [|? ? Hb Hnd']; subst. specialize (IH Hnd').
  change (existsb (N.eqb a) u) with (mem a u) in *.
  destruct (N.eqb a b) eqn:E.
  - apply N.eqb_eq in E. subst b. rewrite upd_same. cbn [orb].
    assert (Hm : mem a u = false) by now apply mem_false. rewrite Hm in IH. lia.
  - apply N.eqb_neq in E. rewrite upd_other by congruence. cbn [orb]. lia.
Qed.

Lemma parked_len_upd_le u pk a l' :
  NoDup u -> llen l' <= llen (pk a) -> parked_len u (upd pk a l') <= parked_len u pk.
Proof. intros Hnd Hle. pose proof (parked_len_upd u pk a l' Hnd). destruct (mem a u); lia. Qed.

Lemma parked_len_upd_succ u pk a l' :
  NoDup u -> llen l' <= llen (pk a) + 1 -> parked_len u (upd pk a l') <= parked_len u pk + 1.
Proof. intros Hnd Hle. pose proof (parked_len_upd u pk a l' Hnd). destruct (mem a u); lia. Qed.

Lemma parked_len_ext u pk pk' : (forall b, pk' b = pk b) -> parked_len u pk' = parked_len u pk.
Proof. intros H. unfold parked_len. f_equal. apply map_ext. intros b. now rewrite H. Qed.

Lemma fold_demote_maint_shape u pmax cur a demo : forall p (lost : list (N * reason)),
  NoDup u -> Forall (fun e => e_acct e = a) demo ->
  let p' := fst (fold_left (demote_in_maint u pmax cur) demo (p, lost)) in
  (forall b, p_pending p' b = p_pending p b) /\
  (forall b, b <> a -> p_parked p' b = p_parked p b) /\
  p_now p' = p_now p /\
  (parked_len u (p_parked p) <= pmax -> parked_len u (p_parked p') <= pmax) /\
  (forall Q J, closedK cur Q J -> Forall Q demo -> J (p_parked p a) -> J (p_parked p' a)).
Proof.
  induction demo as [|x demo IH]; intros p lost Hnd Hown; cbn [fold_left fst].
  - repeat split; auto.
  - inversion Hown as [|? ? Hx Hown']; subst.
    destruct (demote_in_maint u pmax cur (p, lost) x) as [p1 lost1] eqn:E1.
    destruct (IH p1 lost1 Hnd Hown') as [H1 [H2 [H0 [H4 H3]]]].
    assert (Hp1 : (forall b, p_pending p1 b = p_pending p b) /\
                  (forall b, b <> e_acct x -> p_parked p1 b = p_parked p b) /\
                  p_now p1 = p_now p /\
                  (parked_len u (p_parked p) <= pmax -> parked_len u (p_parked p1) <= pmax) /\
                  (forall Q J, closedK cur Q J -> Q x -> J (p_parked p (e_acct x)) ->
                               J (p_parked p1 (e_acct x)))).
    { unfold demote_in_maint in E1.
      destruct (parked_add u pmax (p_parked p) x cur) as [pk'|err] eqn:E; inversion E1; subst; cbn.
      - apply parked_add_ok in E. destruct E as [Hlt [l' [E ->]]]. repeat split; auto.
        + intros b Hb. now rewrite upd_other.
        + intros _. pose proof (parked_acct_add_ok _ _ _ _ E) as [-> _].
          pose proof (parked_len_upd_succ u (p_parked p) (e_acct x)
                        (insert_sorted x (p_parked p (e_acct x))) Hnd) as Hs.
          rewrite llen_insert_sorted in Hs. specialize (Hs (N.le_refl _)). lia.
        + intros Q J Hc Hq Hj. rewrite upd_same. eapply Hc; eauto.
      - repeat split; auto. }
    destruct Hp1 as [G1 [G2 [G0 [G4 G3]]]]. split; [|split; [|split; [|split]]].
    + intros b. now rewrite H1, G1.
    + intros b Hb. rewrite H2 by assumption. now apply G2.
    + now rewrite H0, G0.
    + auto.
    + intros Q J Hc Hq Hj. inversion Hq; subst. apply (H3 Q J Hc); auto. eapply G3; eauto.
Qed.
