(** C13 — what is claimed about the mempool model: vocabulary, ghost bookkeeping of what the
    mempool has been shown / has accepted, and the statements as [Prop]s. *)
From Coq Require Export Sorting.Sorted Permutation.
From Astria Require Export Mempool.MempoolModel.

(** ** Vocabulary *)

Definition sorted (l : list entry) : Prop :=
  StronglySorted (fun x y => e_nonce x < e_nonce y) l.

Definition cost_of (cs : costs) (asset : N) : N :=
  sumN (map snd (filter (fun p => fst p =? asset) cs)).

Definition total_cost (l : list entry) (asset : N) : N :=
  sumN (map (fun e => cost_of (e_costs e) asset) l).

(** jointly affordable: per asset, the costs add up to at most the balance *)
Definition affordable (l : list entry) (b : balances) : Prop :=
  forall asset, total_cost l asset <= b asset.

(** consecutive from [shown]: every held nonce above [shown] has its predecessor held *)
Definition gapfree (l : list entry) (shown : N) : Prop :=
  forall e, In e l -> shown < e_nonce e -> has_nonce l (e_nonce e - 1) = true.

(** the nonces of [l] that are [>= shown] are exactly [shown, shown+1, .., shown+k-1] *)
Definition run_from (l : list entry) (shown : N) : Prop :=
  forall n, shown <= n -> has_nonce l n = true ->
  forall m, shown <= m -> m <= n -> has_nonce l m = true.

Definition in_pending (p : pool) (id : N) : Prop :=
  exists a e, In e (p_pending p a) /\ e_id e = id.
Definition in_parked (p : pool) (id : N) : Prop :=
  exists a e, In e (p_parked p a) /\ e_id e = id.

(** number of container slots, over the accounts [u], holding the transaction [id] *)
Definition occurrences (u : list N) (p : pool) (id : N) : nat :=
  length (filter (fun e => e_id e =? id)
                 (flat_map (fun a => p_pending p a ++ p_parked p a) u)).

(** [x] occurs strictly before [y] *)
Definition before_in {A} (x y : A) (l : list A) : Prop :=
  exists l1 l2 l3, l = l1 ++ x :: l2 ++ y :: l3.

(** ** Ghost bookkeeping (not part of the executable model) *)

Record ghost := mkGhost {
  g_live : list N;                (* accepted, not yet reported to the submitter as removed *)
  g_shown_nonce : N -> N;         (* account nonce last passed to the mempool *)
  g_shown_bal : N -> balances }.  (* balances at the last maintenance / successful pending insert *)

Definition ghost0 : ghost := mkGhost [] (fun _ => 0) (fun _ _ => 0).

Definition acct_of (s : sys) (id : N) : N :=
  match find_def s id with Some t => t_acct t | None => 0 end.

Definition gupdate (s : sys) (g : ghost) (o : op) (x : out) : ghost :=
  match o, x with
  | OpIns id, OIns r | OpInsd id, OIns r =>
      let a := acct_of s id in
      let ch := s_chain s in
      mkGhost (match r with IPending | IParked => set_add (g_live g) id | _ => g_live g end)
              (upd (g_shown_nonce g) a (c_nonce ch a))
              (match r with IPending => upd (g_shown_bal g) a (c_bal ch a) | _ => g_shown_bal g end)
  | OpIns id, ORemoved _ =>
      mkGhost (set_remove (g_live g) id) (g_shown_nonce g) (g_shown_bal g)
  | OpMaint _ _ _, OMaint _ =>
      mkGhost (g_live g) (c_nonce (s_chain s)) (c_bal (s_chain s))
  | _, _ => g
  end.

Fixpoint grun (s : sys) (g : ghost) (ops : list op) : sys * ghost :=
  match ops with
  | [] => (s, g)
  | o :: r => let '(s1, x) := step s o in grun s1 (gupdate s g o x) r
  end.

(** ** Statements *)

(** the place reported by [transaction_status] is the place where the transaction is held *)
Definition place_consistent (s : sys) (id : N) : Prop :=
  let p := s_pool s in
  match tx_status (s_universe s) p id with
  | Some SPending => in_pending p id /\ ~ in_parked p id
  | Some SParked => in_parked p id /\ ~ in_pending p id
  | Some (SRemoved _) | None => ~ in_pending p id /\ ~ in_parked p id
  end.

Definition stmt_one_place : Prop :=
  forall pmax k na ops,
  let '(s, g) := grun (init pmax k na) ghost0 ops in
  (forall id, In id (g_live g) -> tx_status (s_universe s) (s_pool s) id <> None) /\
  (forall id, place_consistent s id) /\
  (forall id, (occurrences (s_universe s) (s_pool s) id <= 1)%nat).

Definition stmt_ready_consecutive : Prop :=
  forall pmax k na ops,
  let '(s, g) := grun (init pmax k na) ghost0 ops in
  forall a, gapfree (p_pending (s_pool s) a) (g_shown_nonce g a) /\
            run_from (p_pending (s_pool s) a) (g_shown_nonce g a) /\
            g_shown_nonce g a <= c_nonce (s_chain s) a.

Definition stmt_ready_affordable : Prop :=
  forall pmax k na ops,
  let '(s, g) := grun (init pmax k na) ghost0 ops in
  forall a, affordable (p_pending (s_pool s) a) (g_shown_bal g a).

(** same account, same group: lower nonce first; and the queue has no repetitions *)
Definition stmt_queue_order : Prop :=
  forall pmax k na ops,
  let s := fst (run (init pmax k na) ops) in
  let q := builder_queue (s_universe s) (s_pool s) in
  NoDup q /\
  forall a e1 e2, In a (s_universe s) ->
    In e1 (p_pending (s_pool s) a) -> In e2 (p_pending (s_pool s) a) ->
    t_group (e_tx e1) = t_group (e_tx e2) -> e_nonce e1 < e_nonce e2 ->
    before_in (e_id e1) (e_id e2) q.

Definition stmt_after_maintenance_no_stale : Prop :=
  forall pmax k na ops recost h ids,
  let s := fst (run (init pmax k na) (ops ++ [OpMaint recost h ids])) in
  forall a e, In e (p_pending (s_pool s) a) \/ In e (p_parked (s_pool s) a) ->
  c_nonce (s_chain s) a <= e_nonce e.

Definition stmt_parked_limits : Prop :=
  forall pmax k na ops,
  let s := fst (run (init pmax k na) ops) in
  parked_len (s_universe s) (p_parked (s_pool s)) <= pmax /\
  forall a, llen (p_parked (s_pool s) a) <= MAX_PARKED_PER_ACCOUNT.
