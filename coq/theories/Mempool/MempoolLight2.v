(** C13 — the container-level invariant through remove_tx_invalid and run_maintenance. *)
From Astria Require Import Mempool.MempoolSpec Mempool.MempoolBase Mempool.MempoolOps
  Mempool.MempoolFrame Mempool.MempoolLight Mempool.MempoolInv Mempool.MempoolInv2.

Lemma Light_pool_ext u pmax sn sb p p' :
  (forall b, p_pending p' b = p_pending p b) -> (forall b, p_parked p' b = p_parked p b) ->
  Light u pmax sn sb p -> Light u pmax sn sb p'.
Proof.
  intros H1 H2 [Ho Hs Hg Ha Ht Hc Hu]. constructor.
  - intros a e. rewrite H1, H2. apply Ho.
  - intros a. rewrite H1. apply Hs.
  - intros a. rewrite H1. apply Hg.
  - intros a. rewrite H1. apply Ha.
  - erewrite parked_len_ext; [exact Ht|exact H2].
  - intros a. rewrite H2. apply Hc.
  - intros a. rewrite H1, H2. apply Hu.
Qed.

Theorem remove_light u pmax sn sb p t r :
  Light u pmax sn sb p -> NoDup u -> Light u pmax sn sb (remove_tx_invalid p t r).
Proof.
  intros HL Hnd. pose proof HL as [Ho Hs Hg Ha Ht Hc Hu]. unfold remove_tx_invalid.
  set (a := t_acct t).
  destruct (in_dec N.eq_dec a u) as [Hin|Hnin].
  2:{ destruct (Hu a Hnin) as [E1 E2]. rewrite E1, E2. cbn. exact HL. }
  assert (Hback : forall p', Light u pmax (upd sn a (sn a)) (upd sb a (sb a)) p' -> Light u pmax sn sb p').
  { intros p'. apply Light_ghost_ext; intros b;
      (destruct (N.eq_dec b a) as [->|Hne]; [now rewrite upd_same|now rewrite upd_other]). }
  destruct (container_remove (p_pending p a) (t_nonce t)) as [[keep removed]|] eqn:E1.
  - apply container_remove_shape in E1. destruct E1 as [-> ->].
    match goal with |- Light _ _ _ _ (fold_left untrack_lower ?rem ?q) =>
      destruct (fold_untrack_lower_frame rem q) as [F1 [F2 _]];
      apply (Light_pool_ext u pmax sn sb q); [intros b; now rewrite F1|intros b; now rewrite F2|]
    end.
    apply Hback. apply (Light_change u pmax sn sb p _ a (sn a) (sb a) HL Hin); cbn; rewrite ?upd_same.
    + intros b Hb. now rewrite !upd_other.
    + intros x [Hx|[]]. apply filter_In in Hx. apply (Ho a x). tauto.
    + apply sorted_filter, Hs.
    + apply gapfree_filter_prefix, Hg.
    + apply affordable_filter, Ha.
    + apply N.le_trans with (parked_len u (p_parked p)); [|exact Ht].
      apply parked_len_upd_le; [assumption|]. unfold llen. cbn. lia.
    + unfold llen, MAX_PARKED_PER_ACCOUNT. cbn. lia.
  - destruct (container_remove (p_parked p a) (t_nonce t)) as [[keep removed]|] eqn:E2; [|exact HL].
    apply container_remove_shape in E2. destruct E2 as [-> ->].
    match goal with |- Light _ _ _ _ (fold_left untrack_lower ?rem ?q) =>
      destruct (fold_untrack_lower_frame rem q) as [F1 [F2 _]];
      apply (Light_pool_ext u pmax sn sb q); [intros b; now rewrite F1|intros b; now rewrite F2|]
    end.
    apply Hback. apply (Light_change u pmax sn sb p _ a (sn a) (sb a) HL Hin); cbn; rewrite ?upd_same.
    + intros b Hb. now rewrite !upd_other.
    + intros x [Hx|Hx]; [apply (Ho a x); now left|]. apply filter_In in Hx. apply (Ho a x). tauto.
    + apply Hs.
    + apply Hg.
    + apply Ha.
    + apply N.le_trans with (parked_len u (p_parked p)); [|exact Ht].
      apply parked_len_upd_le; [assumption|apply llen_filter_le].
    + apply N.le_trans with (llen (p_parked p a)); [apply llen_filter_le|apply Hc].
Qed.

(** ** run_maintenance *)

Record MInv (u : list N) (pmax : N) (ch : chain) (D : N -> Prop) (p : pool) : Prop := mkMInv {
  m_own : owned p;
  m_sorted : forall a, sorted (p_pending p a);
  m_gapw : forall a, exists sh, sh <= c_nonce ch a /\ gapfree (p_pending p a) sh;
  m_total : parked_len u (p_parked p) <= pmax;
  m_acct : forall a, llen (p_parked p a) <= MAX_PARKED_PER_ACCOUNT;
  m_univ : forall a, ~ In a u -> p_pending p a = [] /\ p_parked p a = [];
  m_done : forall a, D a ->
           gapfree (p_pending p a) (c_nonce ch a) /\ affordable (p_pending p a) (c_bal ch a) /\
           fresh_from (c_nonce ch a) (p_pending p a) /\ fresh_from (c_nonce ch a) (p_parked p a) }.

Lemma MInv_D_ext u pmax ch (D D' : N -> Prop) p : (forall b, D' b -> D b) -> MInv u pmax ch D p -> MInv u pmax ch D' p.
Proof. intros H [H1 H2 H3 H4 H5 H6 H7]. constructor; auto. Qed.

Lemma MInv_change u pmax ch D p p' a :
  MInv u pmax ch D p -> In a u ->
  (forall b, b <> a -> p_pending p' b = p_pending p b /\ p_parked p' b = p_parked p b) ->
  (forall e, In e (p_pending p' a) \/ In e (p_parked p' a) -> e_acct e = a) ->
  sorted (p_pending p' a) -> gapfree (p_pending p' a) (c_nonce ch a) ->
  affordable (p_pending p' a) (c_bal ch a) ->
  fresh_from (c_nonce ch a) (p_pending p' a) -> fresh_from (c_nonce ch a) (p_parked p' a) ->
  parked_len u (p_parked p') <= pmax ->
  llen (p_parked p' a) <= MAX_PARKED_PER_ACCOUNT ->
  MInv u pmax ch (fun b => D b \/ b = a) p'.
Proof.
  intros [Ho Hs Hg Ht Hc Hu Hd] Hin Hfr Hown Hsort Hgap Haff Hf1 Hf2 Htot Hlen. constructor.
  - intros b e H. destruct (N.eq_dec b a) as [->|Hne]; [now apply Hown|].
    destruct (Hfr b Hne) as [E1 E2]. rewrite E1, E2 in H. now apply Ho.
  - intros b. destruct (N.eq_dec b a) as [->|Hne]; [assumption|].
    destruct (Hfr b Hne) as [E1 _]. rewrite E1. apply Hs.
  - intros b. destruct (N.eq_dec b a) as [->|Hne].
    + exists (c_nonce ch a). split; [lia|assumption].
    + destruct (Hfr b Hne) as [E1 _]. rewrite E1. apply Hg.
  - assumption.
  - intros b. destruct (N.eq_dec b a) as [->|Hne]; [assumption|].
    destruct (Hfr b Hne) as [_ E2]. rewrite E2. apply Hc.
  - intros b Hb. assert (Hne : b <> a) by (intros ->; contradiction).
    destruct (Hfr b Hne) as [E1 E2]. rewrite E1, E2. now apply Hu.
  - intros b Hb. destruct (N.eq_dec b a) as [->|Hne]; [auto|].
    destruct (Hfr b Hne) as [E1 E2]. rewrite E1, E2. apply Hd. destruct Hb; [assumption|contradiction].
Qed.

Lemma closedP_and cur bal Q J1 J2 :
  closedP cur bal Q J1 -> closedP cur bal Q J2 -> closedP cur bal Q (fun l => J1 l /\ J2 l).
Proof. intros H1 H2 l e l' [Ha Hb] Hq Hadd. split; [eapply H1|eapply H2]; eauto. Qed.

Lemma fresh_filter cur f l : fresh_from cur l -> fresh_from cur (filter f l).
Proof. intros H e He. apply filter_In in He. now apply H. Qed.

Lemma fresh_recost cur (on : bool) fs l :
  fresh_from cur l -> fresh_from cur (if on then map (recost_entry fs) l else l).
Proof.
  intros H. destruct on; [|assumption]. intros e He. apply in_map_iff in He.
  destruct He as [y [<- Hy]]. exact (H y Hy).
Qed.

Lemma own_recost (a : N) (on : bool) fs l :
  (forall e, In e l -> e_acct e = a) ->
  forall e, In e (if on then map (recost_entry fs) l else l) -> e_acct e = a.
Proof.
  intros H e He. destruct on; [|now apply H]. apply in_map_iff in He.
  destruct He as [y [<- Hy]]. exact (H y Hy).
Qed.

Lemma sorted_recost_if (on : bool) fs l :
  sorted l -> sorted (if on then map (recost_entry fs) l else l).
Proof. intros H. destruct on; [now apply sorted_map_recost|assumption]. Qed.

Lemma gapfree_recost_if (on : bool) fs l sh :
  gapfree l sh -> gapfree (if on then map (recost_entry fs) l else l) sh.
Proof. intros H. destruct on; [now apply gapfree_recost|assumption]. Qed.

Lemma llen_recost_if (on : bool) fs (l : list entry) :
  llen (if on then map (recost_entry fs) l else l) = llen l.
Proof. destruct on; [apply llen_map|reflexivity]. Qed.

(** the pending list after cleaning *)
Lemma clean_pending_facts a l cur now results h sh :
  (forall e, In e l -> e_acct e = a) -> sorted l -> sh <= cur -> gapfree l sh ->
  let k := fst (clean_stale_expired l cur now results h) in
  (forall e, In e k -> e_acct e = a) /\ sorted k /\ gapfree k cur /\ fresh_from cur k /\
  llen k <= llen l.
Proof.
  intros Hown Hs Hle Hg. cbn zeta.
  destruct (clean_stale_expired_keep l cur now results h) as [-> | ->].
  - split; [intros e []|]. split; [constructor|]. split; [apply gapfree_nil|].
    split; [intros e []|]. unfold llen; cbn; lia.
  - split; [|split; [|split; [|split]]].
    + intros e He. apply filter_In in He. now apply Hown.
    + now apply sorted_filter.
    + now apply gapfree_filter_suffix with (sh := sh).
    + intros e He. apply filter_In in He. destruct He as [_ He]. now apply N.leb_le.
    + apply llen_filter_le.
Qed.

Lemma clean_parked_facts a l cur now results h :
  (forall e, In e l -> e_acct e = a) ->
  let k := fst (clean_stale_expired l cur now results h) in
  (forall e, In e k -> e_acct e = a) /\ fresh_from cur k /\ llen k <= llen l.
Proof.
  intros Hown. cbn zeta.
  destruct (clean_stale_expired_keep l cur now results h) as [-> | ->].
  - split; [intros e []|]. split; [intros e []|]. unfold llen; cbn; lia.
  - split; [|split].
    + intros e He. apply filter_In in He. now apply Hown.
    + intros e He. apply filter_In in He. destruct He as [_ He]. now apply N.leb_le.
    + apply llen_filter_le.
Qed.

Lemma maint_account_MInv u pmax ch recost results h acc a D :
  NoDup u -> In a u -> MInv u pmax ch D (m_pool acc) ->
  MInv u pmax ch (fun b => D b \/ b = a) (m_pool (maint_account u pmax ch recost results h acc a)).
Proof.
  intros Hnd Hin HM. pose proof HM as [Ho Hs Hg Ht Hc Hu Hd]. unfold maint_account.
  set (p := m_pool acc) in *. set (cur := c_nonce ch a). set (bal := c_bal ch a).
  destruct (Hg a) as [sh [Hsh Hgsh]].
  assert (Hown_pd : forall e, In e (p_pending p a) -> e_acct e = a) by (intros e He; apply (Ho a e); now left).
  assert (Hown_pk : forall e, In e (p_parked p a) -> e_acct e = a) by (intros e He; apply (Ho a e); now right).
  pose proof (clean_pending_facts a (p_pending p a) cur (p_now p) results h sh Hown_pd (Hs a) Hsh Hgsh)
    as [P1 [P2 [P3 [P4 _]]]].
  pose proof (clean_parked_facts a (p_parked p a) cur (p_now p) results h Hown_pk) as [K1 [K2 K3]].
  destruct (clean_stale_expired (p_pending p a) cur (p_now p) results h) as [pend1 rem1].
  destruct (clean_stale_expired (p_parked p a) cur (p_now p) results h) as [park1 rem2].
  cbn [fst] in *.
  set (pend2 := if recost then map (recost_entry (c_fees ch)) pend1 else pend1).
  set (park2 := if recost then map (recost_entry (c_fees ch)) park1 else park1).
  assert (Q1 : forall e, In e pend2 -> e_acct e = a) by now apply own_recost.
  assert (Q2 : sorted pend2) by now apply sorted_recost_if.
  assert (Q3 : gapfree pend2 cur) by now apply gapfree_recost_if.
  assert (Q4 : fresh_from cur pend2) by now apply fresh_recost.
  assert (R1 : forall e, In e park2 -> e_acct e = a) by now apply own_recost.
  assert (R2 : fresh_from cur park2) by now apply fresh_recost.
  assert (R3 : llen park2 <= llen (p_parked p a)) by (unfold park2; now rewrite llen_recost_if).
  pose proof (find_demotables_keep_affordable pend2 bal Q2) as Haff.
  unfold find_demotables in *. cbn [fst] in Haff.
  set (sp := demo_scan pend2 bal 0) in *.
  set (keep := filter (fun e => e_nonce e <? sp) pend2) in *.
  set (demo := filter (fun e => sp <=? e_nonce e) pend2).
  assert (S1 : forall e, In e keep -> e_acct e = a) by (intros e He; apply filter_In in He; now apply Q1).
  assert (S2 : sorted keep) by now apply sorted_filter.
  assert (S3 : gapfree keep cur) by now apply gapfree_filter_prefix.
  assert (S4 : fresh_from cur keep) by now apply fresh_filter.
  assert (T1 : Forall (fun e => e_acct e = a) demo) by now apply Forall_filter_own.
  set (p1 := set_parked (set_pending p (upd (p_pending p) a keep)) (upd (p_parked p) a park2)).
  assert (Hp1tot : parked_len u (p_parked p1) <= pmax).
  { unfold p1. cbn. apply N.le_trans with (parked_len u (p_parked p)); [|exact Ht].
    now apply parked_len_upd_le. }
  assert (Hfr1 : forall b, b <> a -> p_pending p1 b = p_pending p b /\ p_parked p1 b = p_parked p b).
  { intros b Hb. unfold p1. cbn. now rewrite !upd_other. }
  assert (E1 : p_pending p1 a = keep) by (unfold p1; cbn; now rewrite upd_same).
  assert (E2 : p_parked p1 a = park2) by (unfold p1; cbn; now rewrite upd_same).
  destruct demo as [|d demo'] eqn:Edemo.
  - destruct (find_promotables_shape park2
                match pending_nonce keep with Some n => n | None => cur end
                (subtract_contained keep bal)) as [f4 Hf4].
    rewrite Hf4.
    set (p2 := set_parked p1 (upd (p_parked p1) a (filter f4 park2))).
    destruct (fold_promote_maint_shape cur bal a (filter (fun e => negb (f4 e)) park2) p2 (m_removed acc ++ rem1 ++ rem2))
      as [F1 [F2 [_ F3]]].
    specialize (F3 (fun e => e_acct e = a) (fun l => JP a cur bal l /\ fresh_from cur l)
                   (closedP_and _ _ _ _ _ (JP_closed a cur bal) (fresh_closedP cur bal _))
                   (Forall_filter_own a _ _ R1)).
    assert (HJ2 : JP a cur bal (p_pending p2 a) /\ fresh_from cur (p_pending p2 a)).
    { unfold p2. cbn [p_pending set_parked]. rewrite E1. unfold JP. auto. }
    specialize (F3 HJ2). destruct F3 as [[J1 [J2 [J3 J4]]] J5].
    destruct (fold_left (promote_in_maint cur bal a) (filter (fun e => negb (f4 e)) park2) (p2, m_removed acc ++ rem1 ++ rem2))
      as [p3 lost] eqn:Ef. cbn [fst] in *. cbn [m_pool].
    assert (Ek3 : p_parked p3 a = filter f4 park2).
    { rewrite F1. unfold p2. cbn. now rewrite upd_same. }
    apply (MInv_change u pmax ch D p p3 a HM Hin).
    + intros b Hb. rewrite F1, F2 by assumption. unfold p2. cbn [p_pending p_parked set_parked].
      rewrite upd_other by assumption. now apply Hfr1.
    + intros e [He|He]; [now apply J1|]. rewrite Ek3 in He. apply filter_In in He. now apply R1.
    + exact J2.
    + exact J3.
    + exact J4.
    + exact J5.
    + rewrite Ek3. now apply fresh_filter.
    + erewrite parked_len_ext; [|exact F1]. unfold p2. cbn [p_parked set_parked].
      apply N.le_trans with (parked_len u (p_parked p1)); [|exact Hp1tot].
      apply parked_len_upd_le; [assumption|]. rewrite E2. apply llen_filter_le.
    + rewrite Ek3. apply N.le_trans with (llen park2); [apply llen_filter_le|].
      apply N.le_trans with (llen (p_parked p a)); [exact R3|apply Hc].
  - destruct (fold_demote_maint_shape u pmax cur a (d :: demo') p1 (m_removed acc ++ rem1 ++ rem2) Hnd T1)
      as [F1 [F2 [_ [F4 F3]]]].
    specialize (F3 (fun e => e_acct e = a) (JK a cur) (JK_closed a cur) T1).
    assert (HJK : JK a cur (p_parked p1 a)).
    { rewrite E2. unfold JK. split; [exact R1|]. split; [|exact R2].
      apply N.le_trans with (llen (p_parked p a)); [exact R3|apply Hc]. }
    specialize (F3 HJK). destruct F3 as [K4 [K5 K6]]. specialize (F4 Hp1tot).
    destruct (fold_left (demote_in_maint u pmax cur) (d :: demo') (p1, m_removed acc ++ rem1 ++ rem2)) as [p3 lost] eqn:Ef.
    cbn [fst] in *. cbn [m_pool].
    apply (MInv_change u pmax ch D p p3 a HM Hin).
    + intros b Hb. rewrite F1, F2 by assumption. now apply Hfr1.
    + intros e [He|He]; [rewrite F1, E1 in He; now apply S1|now apply K4].
    + rewrite F1, E1. exact S2.
    + rewrite F1, E1. exact S3.
    + rewrite F1, E1. exact Haff.
    + rewrite F1, E1. exact S4.
    + exact K6.
    + exact F4.
    + exact K5.
Qed.

Lemma fold_maint_MInv u pmax ch recost results h accts : forall acc (D : N -> Prop),
  NoDup u -> (forall a, In a accts -> In a u) -> MInv u pmax ch D (m_pool acc) ->
  MInv u pmax ch (fun b => D b \/ In b accts)
       (m_pool (fold_left (maint_account u pmax ch recost results h) accts acc)).
Proof.
  induction accts as [|a accts IH]; intros acc D Hnd Hsub HM; cbn [fold_left].
  - eapply MInv_D_ext; [|exact HM]. intros b [H|[]]. exact H.
  - eapply MInv_D_ext; [|apply (IH _ (fun b => D b \/ b = a) Hnd)].
    + intros b [H|[<-|H]]; auto.
    + intros b Hb. apply Hsub. now right.
    + apply maint_account_MInv; auto. apply Hsub. now left.
Qed.

Theorem run_maintenance_light u pmax ch sn sb p recost results h :
  NoDup u -> Light u pmax sn sb p -> (forall a, sn a <= c_nonce ch a) ->
  let p' := fst (run_maintenance u pmax ch p recost results h) in
  Light u pmax (c_nonce ch) (c_bal ch) p' /\
  (forall a e, In e (p_pending p' a) \/ In e (p_parked p' a) -> c_nonce ch a <= e_nonce e).
Proof.
  intros Hnd [Ho Hs Hg Ha Ht Hc Hu] Hsn. unfold run_maintenance. cbn [fst].
  assert (HM0 : MInv u pmax ch (fun _ => False) (m_pool (mkMacc p [] 0))).
  { cbn [m_pool]. constructor; auto.
    - intros a. exists (sn a). split; [apply Hsn|apply Hg].
    - intros a []. }
  pose proof (fold_maint_MInv u pmax ch recost results h u _ _ Hnd (fun a H => H) HM0) as HM.
  set (acc := fold_left (maint_account u pmax ch recost results h) u (mkMacc p [] 0)) in *.
  destruct HM as [Mo Ms Mg Mt Mc Mu Md].
  destruct (fold_untrack_frame (m_removed acc) (m_pool acc)) as [U1 [U2 _]].
  destruct (fold_recent_frame h results (fold_left untrack_pair (m_removed acc) (m_pool acc)))
    as [R1 [R2 _]].
  assert (Hdone : forall a,
            gapfree (p_pending (m_pool acc) a) (c_nonce ch a) /\
            affordable (p_pending (m_pool acc) a) (c_bal ch a) /\
            fresh_from (c_nonce ch a) (p_pending (m_pool acc) a) /\
            fresh_from (c_nonce ch a) (p_parked (m_pool acc) a)).
  { intros a. destruct (in_dec N.eq_dec a u) as [Hin|Hnin]; [apply Md; now right|].
    destruct (Mu a Hnin) as [-> ->]. split; [apply gapfree_nil|]. split; [apply affordable_nil|].
    split; intros e []. }
  split.
  - apply (Light_pool_ext u pmax _ _ (m_pool acc)); [intros b; now rewrite R1, U1|intros b; now rewrite R2, U2|].
    constructor; auto.
    + intros a. apply Hdone.
    + intros a. apply Hdone.
  - intros a e. rewrite R1, U1, R2, U2. destruct (Hdone a) as [_ [_ [F1 F2]]].
    intros [H|H]; [now apply F1|now apply F2].
Qed.
