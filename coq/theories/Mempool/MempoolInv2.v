(** C13 — the structural invariant through run_maintenance, remove_tx_invalid and insert. *)
From Astria Require Import Mempool.MempoolSpec Mempool.MempoolBase Mempool.MempoolOps
  Mempool.MempoolInv.

Lemma LInv_nil_acct defs ex a a' p removed :
  LInv defs ex a p [] removed -> LInv defs ex a' p [] removed.
Proof.
  intros [Hci _ _ Hrem Ht]. constructor; auto.
  - intros x [].
  - constructor.
Qed.

(** the state of [maint_account] before its re-insertion loop *)
Lemma maint_prepare u defs a p R (recost : bool) fs cur now results h bal
      (pend1 : list entry) (rem1 : list (N * reason)) (park1 : list entry)
      (rem2 : list (N * reason)) (keep demo : list entry) :
  defs_ok u defs ->
  LInv defs noex a p [] R ->
  clean_stale_expired (p_pending p a) cur now results h = (pend1, rem1) ->
  clean_stale_expired (p_parked p a) cur now results h = (park1, rem2) ->
  find_demotables (if recost then map (recost_entry fs) pend1 else pend1) bal = (keep, demo) ->
  LInv defs noex a
       (set_parked (set_pending p (upd (p_pending p) a keep))
                   (upd (p_parked p) a (if recost then map (recost_entry fs) park1 else park1)))
       demo (R ++ map fst rem1 ++ map fst rem2).
Proof.
  intros Hdefs H0 Hc1 Hc2 Hfd.
  apply clean_stale_expired_shape in Hc1. destruct Hc1 as [f1 [Hp1 Hr1]].
  apply clean_stale_expired_shape in Hc2. destruct Hc2 as [f2 [Hk1 Hr2]].
  subst pend1 park1.
  set (pend2 := if recost then map (recost_entry fs) (filter f1 (p_pending p a))
                else filter f1 (p_pending p a)) in *.
  destruct (find_demotables_shape pend2 bal) as [f3 Hf3]. rewrite Hf3 in Hfd.
  inversion Hfd; subst keep demo; clear Hfd.
  (* stepwise construction *)
  pose proof (LInv_to_removed _ _ _ _ _ _ (LInv_split_pending u defs noex a p R f1 Hdefs H0)) as H1.
  pose proof (LInv_recost_pending defs noex a _ _ recost fs H1) as H2.
  pose proof (LInv_to_removed _ _ _ _ _ _ (LInv_split_parked u defs noex a _ _ f2 Hdefs H2)) as H3.
  pose proof (LInv_recost_parked defs noex a _ _ recost fs H3) as H4.
  pose proof (LInv_split_pending u defs noex a _ _ f3 Hdefs H4) as H5.
  cbn [p_pending p_parked set_pending set_parked] in H5. rewrite !upd_same in H5.
  fold pend2 in H5.
  eapply LInv_ext; [| | | |exact H5].
  - intros b. cbn [p_pending p_parked set_pending set_parked].
    destruct (N.eq_dec b a) as [->|Hne].
    + now rewrite !upd_same.
    + now rewrite !upd_other by assumption.
  - intros b. cbn [p_pending p_parked set_pending set_parked].
    destruct (N.eq_dec b a) as [->|Hne].
    + now rewrite !upd_same.
    + now rewrite !upd_other by assumption.
  - intros id. reflexivity.
  - intros id. rewrite !in_app_iff, Hr1, Hr2. cbn [p_pending p_parked set_pending set_parked].
    rewrite ?upd_same. tauto.
Qed.

Lemma maint_account_LInv u defs pmax ch recost results h acc a :
  defs_ok u defs ->
  LInv defs noex a (m_pool acc) [] (map fst (m_removed acc)) ->
  let acc' := maint_account u pmax ch recost results h acc a in
  LInv defs noex a (m_pool acc') [] (map fst (m_removed acc')).
Proof.
  intros Hdefs H0. unfold maint_account.
  destruct (clean_stale_expired (p_pending (m_pool acc) a) (c_nonce ch a) (p_now (m_pool acc))
              results h) as [pend1 rem1] eqn:Ec1.
  destruct (clean_stale_expired (p_parked (m_pool acc) a) (c_nonce ch a) (p_now (m_pool acc))
              results h) as [park1 rem2] eqn:Ec2.
  destruct (find_demotables (if recost then map (recost_entry (c_fees ch)) pend1 else pend1)
              (c_bal ch a)) as [keep demo] eqn:Efd.
  pose proof (maint_prepare u defs a _ _ recost (c_fees ch) _ _ results h (c_bal ch a)
                _ _ _ _ _ _ Hdefs H0 Ec1 Ec2 Efd) as H1.
  set (p1 := set_parked (set_pending (m_pool acc) (upd (p_pending (m_pool acc)) a keep))
                        (upd (p_parked (m_pool acc)) a
                             (if recost then map (recost_entry (c_fees ch)) park1 else park1))) in *.
  set (park2 := if recost then map (recost_entry (c_fees ch)) park1 else park1) in *.
  assert (Hrm : forall id, In id (map fst (m_removed acc) ++ map fst rem1 ++ map fst rem2) <->
                           In id (map fst (m_removed acc ++ rem1 ++ rem2))).
  { intros id. now rewrite !map_app. }
  assert (H1' : LInv defs noex a p1 demo (map fst (m_removed acc ++ rem1 ++ rem2))).
  { eapply LInv_ext; [intros; reflexivity|intros; reflexivity|intros; reflexivity| |exact H1].
    intros id. symmetry. apply Hrm. }
  clear H1 Hrm.
  destruct demo as [|d demo].
  - destruct (find_promotables_shape park2
                match pending_nonce keep with Some n => n | None => c_nonce ch a end
                (subtract_contained keep (c_bal ch a))) as [f4 Hf4].
    rewrite Hf4.
    pose proof (LInv_split_parked u defs noex a p1 _ f4 Hdefs H1') as H2.
    assert (Ek : p_parked p1 a = park2) by (unfold p1; cbn; now rewrite upd_same).
    rewrite Ek in H2.
    pose proof (LInv_fold_promote_maint defs noex a (c_nonce ch a) (c_bal ch a) _ _ _ H2) as H3.
    destruct (fold_left (promote_in_maint (c_nonce ch a) (c_bal ch a) a)
                (filter (fun e => negb (f4 e)) park2)
                (set_parked p1 (upd (p_parked p1) a (filter f4 park2)), m_removed acc ++ rem1 ++ rem2))
      as [p3 removed'] eqn:Ef.
    cbn [fst snd] in H3. cbn [m_pool m_removed]. exact H3.
  - pose proof (LInv_fold_demote_maint defs noex a u pmax (c_nonce ch a) _ _ _ H1') as H3.
    destruct (fold_left (demote_in_maint u pmax (c_nonce ch a)) (d :: demo)
                (p1, m_removed acc ++ rem1 ++ rem2)) as [p3 removed'] eqn:Ef.
    cbn [fst snd] in H3. cbn [m_pool m_removed]. exact H3.
Qed.

Lemma fold_maint_LInv u defs pmax ch recost results h accts : forall acc,
  defs_ok u defs ->
  LInv defs noex 0 (m_pool acc) [] (map fst (m_removed acc)) ->
  let acc' := fold_left (maint_account u pmax ch recost results h) accts acc in
  LInv defs noex 0 (m_pool acc') [] (map fst (m_removed acc')).
Proof.
  induction accts as [|a accts IH]; intros acc Hdefs H; cbn [fold_left]; [assumption|].
  apply IH; [assumption|]. eapply LInv_nil_acct.
  apply maint_account_LInv; [assumption|]. eapply LInv_nil_acct. exact H.
Qed.

(** untracking every deferred id restores tracked = held *)
Lemma fold_untrack_frame rem : forall p,
  p_pending (fold_left untrack_pair rem p) = p_pending p /\
  p_parked (fold_left untrack_pair rem p) = p_parked p /\
  p_recent (fold_left untrack_pair rem p) = p_recent p /\
  p_now (fold_left untrack_pair rem p) = p_now p /\
  forall k, In k (p_contained (fold_left untrack_pair rem p)) <->
            In k (p_contained p) /\ ~ In k (map fst rem).
Proof.
  induction rem as [|[id r] rem IH]; intros p; cbn [fold_left map].
  - repeat split; auto; tauto.
  - destruct (IH (untrack_pair p (id, r))) as [H1 [H2 [H3 [H4 H5]]]].
    rewrite H1, H2, H3, H4. split; [reflexivity|]. split; [reflexivity|]. split; [reflexivity|]. split; [reflexivity|]. intros k. rewrite H5.
    unfold untrack_pair, untrack. cbn [fst snd p_contained set_rcache set_contained].
    rewrite set_remove_In. cbn [In]. intuition congruence.
Qed.

Lemma fold_untrack_PInv defs a rem p :
  LInv defs noex a p [] (map fst rem) -> PInv defs (fold_left untrack_pair rem p).
Proof.
  intros [Hci _ _ Hrem Ht]. destruct (fold_untrack_frame rem p) as [H1 [H2 [_ [_ H5]]]]. split.
  - eapply CInv_ext; [| |exact Hci]; intros b; now rewrite ?H1, ?H2.
  - intros k _. rewrite H5. specialize (Ht k (fun f => f)). rewrite Ht. cbn [map In].
    assert (Hh : held (fold_left untrack_pair rem p) k <-> held p k).
    { apply held_ext; intros b; now rewrite ?H1, ?H2. }
    rewrite Hh. split.
    + intros [[H|[[]|H]] Hn]; [now left|contradiction].
    + intros [H|[[]|[]]]. split; [now left|]. intros Hin. destruct (Hrem k Hin) as [Hnh _]. now apply Hnh.
Qed.

Lemma PInv_LInv defs a p : PInv defs p -> LInv defs noex a p [] [].
Proof.
  intros [Hci Ht]. constructor; auto.
  - intros x [].
  - constructor.
Qed.

Lemma LInv_PInv defs a p : LInv defs noex a p [] [] -> PInv defs p.
Proof. intros [Hci _ _ _ Ht]. split; assumption. Qed.

Lemma PInv_ext defs p p' :
  (forall b, p_pending p' b = p_pending p b) -> (forall b, p_parked p' b = p_parked p b) ->
  (forall id, In id (p_contained p') <-> In id (p_contained p)) ->
  PInv defs p -> PInv defs p'.
Proof.
  intros H1 H2 H3 H. apply (LInv_PInv defs 0). eapply LInv_ext; eauto.
  - intros id. reflexivity.
  - now apply PInv_LInv.
Qed.

Lemma fold_recent_frame h results : forall p,
  p_pending (fold_left (recent_add_pool h) results p) = p_pending p /\
  p_parked (fold_left (recent_add_pool h) results p) = p_parked p /\
  p_contained (fold_left (recent_add_pool h) results p) = p_contained p /\
  p_rcache (fold_left (recent_add_pool h) results p) = p_rcache p /\
  p_now (fold_left (recent_add_pool h) results p) = p_now p.
Proof.
  induction results as [|id results IH]; intros p; cbn [fold_left]; [auto|].
  destruct (IH (recent_add_pool h p id)) as [H1 [H2 [H3 [H4 H5]]]].
  rewrite H1, H2, H3, H4, H5. auto.
Qed.

Theorem run_maintenance_PInv u defs pmax ch p recost results h :
  defs_ok u defs -> PInv defs p ->
  PInv defs (fst (run_maintenance u pmax ch p recost results h)).
Proof.
  intros Hdefs H. unfold run_maintenance. cbn [fst].
  pose proof (fold_maint_LInv u defs pmax ch recost results h u (mkMacc p [] 0) Hdefs) as H1.
  cbn [m_pool m_removed map] in H1. specialize (H1 (PInv_LInv defs 0 p H)).
  apply fold_untrack_PInv in H1.
  destruct (fold_recent_frame h results
             (fold_left untrack_pair
                (m_removed (fold_left (maint_account u pmax ch recost results h) u (mkMacc p [] 0)))
                (m_pool (fold_left (maint_account u pmax ch recost results h) u (mkMacc p [] 0)))))
    as [E1 [E2 [E3 _]]].
  eapply PInv_ext; [| | |exact H1]; intros; now rewrite ?E1, ?E2, ?E3.
Qed.

(** ** remove_tx_invalid *)

Lemma fold_untrack_lower_frame rem : forall p,
  p_pending (fold_left untrack_lower rem p) = p_pending p /\
  p_parked (fold_left untrack_lower rem p) = p_parked p /\
  forall k, In k (p_contained (fold_left untrack_lower rem p)) <->
            In k (p_contained p) /\ ~ In k rem.
Proof.
  induction rem as [|id rem IH]; intros p; cbn [fold_left].
  - repeat split; auto; tauto.
  - destruct (IH (untrack_lower p id)) as [H1 [H2 H5]].
    rewrite H1, H2. split; [reflexivity|]. split; [reflexivity|]. intros k. rewrite H5.
    unfold untrack_lower, untrack. cbn [p_contained set_rcache set_contained].
    rewrite set_remove_In. cbn [In]. intuition congruence.
Qed.

Lemma fold_untrack_lower_PInv defs a rem p :
  LInv defs noex a p [] rem -> PInv defs (fold_left untrack_lower rem p).
Proof.
  intros [Hci _ _ Hrem Ht]. destruct (fold_untrack_lower_frame rem p) as [H1 [H2 H5]]. split.
  - eapply CInv_ext; [| |exact Hci]; intros b; now rewrite ?H1, ?H2.
  - intros k _. rewrite H5. specialize (Ht k (fun f => f)). rewrite Ht. cbn [map In].
    assert (Hh : held (fold_left untrack_lower rem p) k <-> held p k).
    { apply held_ext; intros b; now rewrite ?H1, ?H2. }
    rewrite Hh. split.
    + intros [[H|[[]|H]] Hn]; [now left|contradiction].
    + intros [H|[[]|[]]]. split; [now left|]. intros Hin. destruct (Hrem k Hin) as [Hnh _]. now apply Hnh.
Qed.

Lemma container_remove_shape l n keep removed :
  container_remove l n = Some (keep, removed) ->
  keep = filter (fun e => e_nonce e <? n) l /\
  removed = map e_id (filter (fun e => negb (e_nonce e <? n)) l).
Proof.
  unfold container_remove. destruct (has_nonce l n); [|discriminate]. intros H.
  inversion H; subst. split; [reflexivity|]. f_equal. apply filter_ext. intros e.
  apply leb_negb_ltb.
Qed.

Theorem remove_tx_invalid_PInv u defs p t r :
  defs_ok u defs -> PInv defs p -> PInv defs (remove_tx_invalid p t r).
Proof.
  intros Hdefs H. unfold remove_tx_invalid. set (a := t_acct t).
  destruct (container_remove (p_pending p a) (t_nonce t)) as [[keep removed]|] eqn:E1.
  - apply container_remove_shape in E1. destruct E1 as [-> ->].
    pose proof (LInv_to_removed _ _ _ _ _ _
                  (LInv_split_pending u defs noex a p [] (fun e => e_nonce e <? t_nonce t) Hdefs (PInv_LInv defs a p H))) as H1.
    pose proof (LInv_to_removed _ _ _ _ _ _
                  (LInv_split_parked u defs noex a _ _ (fun _ => false) Hdefs H1)) as H2.
    cbn [p_pending p_parked set_pending set_parked app] in H2.
    apply fold_untrack_lower_PInv with (a := a).
    eapply LInv_ext; [| | | |exact H2]; cbn [p_pending p_parked p_contained set_pending set_parked set_rcache].
    + intros b. reflexivity.
    + intros b. destruct (N.eq_dec b a) as [->|Hne].
      * rewrite !upd_same. symmetry. now apply filter_nil_local.
      * now rewrite !upd_other by assumption.
    + intros id. reflexivity.
    + intros id. rewrite !in_app_iff.
      assert (Hall : filter (fun _ : entry => negb false) (p_parked p a) = p_parked p a)
        by now apply filter_all_local.
      rewrite Hall. tauto.
  - destruct (container_remove (p_parked p a) (t_nonce t)) as [[keep removed]|] eqn:E2; [|assumption].
    apply container_remove_shape in E2. destruct E2 as [-> ->].
    pose proof (LInv_to_removed _ _ _ _ _ _
                  (LInv_split_parked u defs noex a p [] (fun e => e_nonce e <? t_nonce t) Hdefs (PInv_LInv defs a p H))) as H1.
    apply fold_untrack_lower_PInv with (a := a).
    eapply LInv_ext; [| | | |exact H1]; cbn [p_pending p_parked p_contained set_pending set_parked set_rcache app];
      intros; reflexivity.
Qed.

(** ** insert *)

Lemma LInv_finish_add defs a p tid :
  LInv defs (fun id => id = tid) a p [] [] -> held p tid ->
  PInv defs (set_contained p (set_add (p_contained p) tid)).
Proof.
  intros [Hci _ _ _ Ht] Hh. split.
  - eapply CInv_ext; [| |exact Hci]; reflexivity.
  - intros id _. cbn [p_contained set_contained]. rewrite set_add_In.
    change (held (set_contained p (set_add (p_contained p) tid)) id) with (held p id).
    cbn [map In]. destruct (N.eq_dec id tid) as [->|Hne].
    + split; [intros _; now left|intros _; now left].
    + specialize (Ht id Hne). cbn [map In] in Ht. rewrite Ht. split.
      * intros [H|[H|[[]|[]]]]; [contradiction|now left].
      * intros [H|[[]|[]]]. right. now left.
Qed.

Lemma fold_promote_insert_mono cur bal a promo e : forall p,
  In e (p_pending p a) -> In e (p_pending (fold_left (promote_in_insert cur bal a) promo p) a).
Proof.
  induction promo as [|x promo IH]; intros p H; cbn [fold_left]; [assumption|].
  apply IH. unfold promote_in_insert.
  destruct (pending_acct_add (p_pending p a) x cur bal) as [l'|err] eqn:E; [|assumption].
  apply pending_acct_add_ok in E. destruct E as [-> _]. cbn. rewrite upd_same.
  apply insert_sorted_In. now right.
Qed.

Theorem insert_PInv u defs pmax p t cur bal cs :
  defs_ok u defs -> PInv defs p -> In t defs -> ~ In (t_id t) (p_contained p) ->
  PInv defs (fst (insert u pmax p t cur bal cs)).
Proof.
  intros Hdefs H Ht Hnc. unfold insert.
  set (e := mkEntry t cs (p_seq p) (p_now p)).
  set (p' := set_seq p (p_seq p + 1)).
  set (a := t_acct t).
  assert (Hp' : PInv defs p') by (eapply PInv_ext; [| | |exact H]; reflexivity).
  assert (H0 : LInv defs (fun id => id = t_id t) a p' [e] []).
  { destruct Hp' as [Hci HT]. constructor; auto.
    - intros x [<-|[]]. repeat split; auto. intros Hh. apply Hnc.
      apply (HT (t_id t) (fun f => f)). now left.
    - constructor; [intros []|constructor].
    - intros id Hne. rewrite (HT id (fun f => f)). cbn [map In].
      change (e_id e) with (t_id t). intuition congruence. }
  destruct (pending_acct_add (p_pending p' a) e cur bal) as [l'|err] eqn:Ea.
  - pose proof (LInv_pending_add _ _ _ _ _ _ _ _ _ _ H0 Ea) as H1.
    set (p1 := set_pending p' (upd (p_pending p') a l')) in *.
    destruct (insert_promotables_shape (U32_MAX <=? t_nonce t) (p_parked p1 a) (t_nonce t + 1)
                (subtract_contained (p_pending p1 a) bal)) as [f4 Hf4].
    rewrite Hf4.
    pose proof (LInv_split_parked u defs _ a p1 [] f4 Hdefs H1) as H2.
    pose proof (LInv_fold_promote_insert defs _ a cur bal _ _ _ H2) as H3.
    cbn [fst]. apply LInv_finish_add with (a := a); [exact H3|].
    left. exists a, e. split; [|reflexivity]. apply fold_promote_insert_mono.
    cbn. rewrite upd_same. apply pending_acct_add_ok in Ea. destruct Ea as [-> _].
    apply insert_sorted_In. now left.
  - assert (Hpark : PInv defs (fst
      match parked_add u pmax (p_parked p') e cur with
      | inl pk' => (set_contained (set_parked p' pk') (set_add (p_contained p') (t_id t)), IParked)
      | inr err0 => (p', IErr err0)
      end)).
    { destruct (parked_add u pmax (p_parked p') e cur) as [pk'|err0] eqn:Ek; [|exact Hp'].
      apply parked_add_ok in Ek. destruct Ek as [_ [l' [Ek ->]]].
      change (e_acct e) with a in *.
      pose proof (LInv_parked_add _ _ _ _ _ _ _ _ _ H0 Ek) as H1.
      cbn [fst]. apply (LInv_finish_add defs a _ (t_id t) H1).
      right. exists a, e. split; [|reflexivity]. cbn. rewrite upd_same.
      apply parked_acct_add_ok in Ek. destruct Ek as [-> _]. apply insert_sorted_In. now left. }
    destruct err; try exact Hp'; exact Hpark.
Qed.
