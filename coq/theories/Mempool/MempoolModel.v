(** C13 — model of the sequencer's app-side mempool
    (crates/astria-sequencer/src/mempool/{mod.rs, transactions_container.rs,
    recent_execution_results.rs}) together with the CheckTx protocol of
    crates/astria-sequencer/src/service/mempool/mod.rs that feeds it.

    Proof-free: this file is what gets extracted and run against the code.

    Representation: [HashMap<address, BTreeMap<nonce, tx>>] is a function
    [account -> list entry] whose lists are kept ascending by nonce; accounts are the
    numbers [0 .. K-1] of the case header.  Balances are total functions [asset -> N]
    (a missing balance and a zero balance are indistinguishable to every check of the code:
    a zero cost is skipped, a positive cost fails against both).  Wall-clock time is the
    explicit field [p_now], advanced only by [OpAdvance]; arrival order is [e_seq]. *)
From Astria Require Export Base.Bounded.

Definition TX_TTL : N := 240.
Definition MAX_PARKED_PER_ACCOUNT : N := 15.

Definition llen {A} (l : list A) : N := N.of_nat (length l).

Definition upd {A} (f : N -> A) (k : N) (v : A) : N -> A :=
  fun x => if x =? k then v else f x.

(** ** Transactions and their costs *)

(** group: 1 UnbundleableSudo (SudoAddressChange), 2 BundleableSudo (IbcRelayerChange),
    3 UnbundleableGeneral (InitBridgeAccount), 4 BundleableGeneral (Transfer). *)
Record tx := mkTx {
  t_id : N; t_acct : N; t_nonce : N; t_group : N;
  t_asset : N; t_amount : N; t_fee_asset : N }.

Record fees := mkFees { f_transfer : N; f_init : N }.

Definition costs := list (N * N).        (* asset, amount; assets pairwise distinct *)
Definition balances := N -> N.

(** [CheckedTransaction::total_costs]: fees by asset, then the transferred amount merged in
    with [saturating_add]. *)
Definition tx_costs (f : fees) (t : tx) : costs :=
  if t_group t =? 4 then
    if t_asset t =? t_fee_asset t
    then [(t_asset t, saturating_add U128_MAX (f_transfer f) (t_amount t))]
    else [(t_fee_asset t, f_transfer f); (t_asset t, t_amount t)]
  else if t_group t =? 3 then [(t_fee_asset t, f_init f)]
  else [].

(** [TimemarkedTransaction] *)
Record entry := mkEntry { e_tx : tx; e_costs : costs; e_seq : N; e_born : N }.
Definition e_id (e : entry) : N := t_id (e_tx e).
Definition e_nonce (e : entry) : N := t_nonce (e_tx e).
Definition e_acct (e : entry) : N := t_acct (e_tx e).

(** [TimemarkedTransaction::deduct_costs] *)
Fixpoint deduct (cs : costs) (b : balances) : option balances :=
  match cs with
  | [] => Some b
  | (a, c) :: r => if b a <? c then None else deduct r (upd b a (b a - c))
  end.

Fixpoint deduct_entries (l : list entry) (b : balances) : option balances :=
  match l with
  | [] => Some b
  | e :: r => match deduct (e_costs e) b with
              | None => None
              | Some b' => deduct_entries r b'
              end
  end.

(** [PendingTransactionsForAccount::subtract_contained_costs] (floors at zero) *)
Fixpoint subtract_costs (cs : costs) (b : balances) : balances :=
  match cs with
  | [] => b
  | (a, c) :: r => subtract_costs r (upd b a (b a - c))
  end.

Fixpoint subtract_contained (l : list entry) (b : balances) : balances :=
  match l with
  | [] => b
  | e :: r => subtract_contained r (subtract_costs (e_costs e) b)
  end.

(** ** One account's BTreeMap *)

Fixpoint insert_sorted (e : entry) (l : list entry) : list entry :=
  match l with
  | [] => [e]
  | x :: r => if e_nonce e <? e_nonce x then e :: l else x :: insert_sorted e r
  end.

Definition find_nonce (l : list entry) (n : N) : option entry :=
  find (fun e => e_nonce e =? n) l.

Definition has_nonce (l : list entry) (n : N) : bool :=
  existsb (fun e => e_nonce e =? n) l.

Inductive ierr :=
| EAlreadyPresent | ENonceTooLow | ENonceTaken | ENonceGap
| EAccountSizeLimit | EBalanceTooLow | EParkedSizeLimit.

(** [PendingTransactionsForAccount::is_sequential_nonce_precondition_met] *)
Definition seq_ok (l : list entry) (n cur : N) : bool :=
  if n =? 0 then cur =? 0 else has_nonce l (n - 1) || (n =? cur).

(** [TransactionsForAccount::add] for the pending flavour (no size limit). *)
Definition pending_acct_add (l : list entry) (e : entry) (cur : N) (bal : balances)
  : list entry + ierr :=
  if e_nonce e <? cur then inr ENonceTooLow
  else match find_nonce l (e_nonce e) with
       | Some x => inr (if e_id x =? e_id e then EAlreadyPresent else ENonceTaken)
       | None =>
           if negb (seq_ok l (e_nonce e) cur) then inr ENonceGap
           else match deduct_entries (l ++ [e]) bal with
                | None => inr EBalanceTooLow
                | Some _ => inl (insert_sorted e l)
                end
       end.

(** [TransactionsForAccount::add] for the parked flavour. *)
Definition parked_acct_add (l : list entry) (e : entry) (cur : N) : list entry + ierr :=
  if MAX_PARKED_PER_ACCOUNT <=? llen l then inr EAccountSizeLimit
  else if e_nonce e <? cur then inr ENonceTooLow
  else match find_nonce l (e_nonce e) with
       | Some x => inr (if e_id x =? e_id e then EAlreadyPresent else ENonceTaken)
       | None => inl (insert_sorted e l)
       end.

Definition parked_len (u : list N) (pk : N -> list entry) : N :=
  sumN (map (fun a => llen (pk a)) u).

(** [TransactionsContainer::add] for [ParkedTransactions] (total limit first). *)
Definition parked_add (u : list N) (pmax : N) (pk : N -> list entry) (e : entry) (cur : N)
  : (N -> list entry) + ierr :=
  if pmax <=? parked_len u pk then inr EParkedSizeLimit
  else match parked_acct_add (pk (e_acct e)) e cur with
       | inl l' => inl (upd pk (e_acct e) l')
       | inr x => inr x
       end.

(** [PendingTransactionsForAccount::find_demotables]: the split nonce. *)
Fixpoint demo_scan (l : list entry) (b : balances) (split : N) : N :=
  match l with
  | [] => split
  | e :: r => match deduct (e_costs e) b with
              | None => split
              | Some b' => demo_scan r b' (saturating_add U32_MAX (e_nonce e) 1)
              end
  end.

(** returns (kept, demoted) *)
Definition find_demotables (l : list entry) (b : balances) : list entry * list entry :=
  let sp := demo_scan l b 0 in
  (filter (fun e => e_nonce e <? sp) l, filter (fun e => sp <=? e_nonce e) l).

(** [ParkedTransactionsForAccount::find_promotables]: [None] = the [checked_add] overflowed,
    everything is returned. *)
Fixpoint promo_scan (l : list entry) (target : N) (b : balances) (split : N) : option N :=
  match l with
  | [] => Some split
  | e :: r =>
      if negb (e_nonce e =? target) then Some split
      else match deduct (e_costs e) b with
           | None => Some split
           | Some b' => if U32_MAX <=? target then None
                        else promo_scan r (target + 1) b' (target + 1)
           end
  end.

(** returns (promoted, kept) *)
Definition find_promotables (l : list entry) (target : N) (b : balances)
  : list entry * list entry :=
  match promo_scan l target b 0 with
  | None => (l, [])
  | Some sp => (filter (fun e => e_nonce e <? sp) l, filter (fun e => sp <=? e_nonce e) l)
  end.

(** [PendingTransactionsForAccount::pending_account_nonce] *)
Fixpoint last_nonce (l : list entry) : option N :=
  match l with
  | [] => None
  | [e] => Some (e_nonce e)
  | _ :: r => last_nonce r
  end.

Definition pending_nonce (l : list entry) : option N :=
  match last_nonce l with
  | Some n => Some (saturating_add U32_MAX n 1)
  | None => None
  end.

(** ** Removal cache, recent execution results *)

Inductive reason := RExpired | RStale | RLower | RFail | RInternal | RIncl (h : N).
Inductive status := SPending | SParked | SRemoved (r : reason).

Definition mem (x : N) (l : list N) : bool := existsb (N.eqb x) l.

Definition set_add (l : list N) (x : N) : list N := if mem x l then l else x :: l.
Definition set_remove (l : list N) (x : N) : list N := filter (fun y => negb (y =? x)) l.

Definition assoc_get {B} (c : list (N * B)) (k : N) : option B :=
  match find (fun p => fst p =? k) c with
  | Some p => Some (snd p)
  | None => None
  end.
Definition assoc_remove {B} (c : list (N * B)) (k : N) : list (N * B) :=
  filter (fun p => negb (fst p =? k)) c.

(** [RemovalCache::add] keeps the first reason (capacity 50 000 not modelled). *)
Definition rcache_add (c : list (N * reason)) (k : N) (r : reason) : list (N * reason) :=
  match assoc_get c k with
  | Some _ => c
  | None => (k, r) :: c
  end.

(** [RecentExecutionResults::add]: [HashMap::insert] overwrites (retention and capacity
    eviction not modelled). *)
Definition recent_add (c : list (N * N)) (k h : N) : list (N * N) :=
  (k, h) :: assoc_remove c k.

(** ** MempoolInner *)

Record pool := mkPool {
  p_pending : N -> list entry;
  p_parked : N -> list entry;
  p_contained : list N;
  p_rcache : list (N * reason);
  p_recent : list (N * N);
  p_seq : N;
  p_now : N }.

Definition set_pending (p : pool) (v : N -> list entry) : pool :=
  mkPool v (p_parked p) (p_contained p) (p_rcache p) (p_recent p) (p_seq p) (p_now p).
Definition set_parked (p : pool) (v : N -> list entry) : pool :=
  mkPool (p_pending p) v (p_contained p) (p_rcache p) (p_recent p) (p_seq p) (p_now p).
Definition set_contained (p : pool) (v : list N) : pool :=
  mkPool (p_pending p) (p_parked p) v (p_rcache p) (p_recent p) (p_seq p) (p_now p).
Definition set_rcache (p : pool) (v : list (N * reason)) : pool :=
  mkPool (p_pending p) (p_parked p) (p_contained p) v (p_recent p) (p_seq p) (p_now p).
Definition set_recent (p : pool) (v : list (N * N)) : pool :=
  mkPool (p_pending p) (p_parked p) (p_contained p) (p_rcache p) v (p_seq p) (p_now p).
Definition set_seq (p : pool) (v : N) : pool :=
  mkPool (p_pending p) (p_parked p) (p_contained p) (p_rcache p) (p_recent p) v (p_now p).
Definition set_now (p : pool) (v : N) : pool :=
  mkPool (p_pending p) (p_parked p) (p_contained p) (p_rcache p) (p_recent p) (p_seq p) v.

Definition empty_pool : pool :=
  mkPool (fun _ => []) (fun _ => []) [] [] [] 0 0.

(** drop from the tracked set and give a removal reason *)
Definition untrack (p : pool) (id : N) (r : reason) : pool :=
  set_rcache (set_contained p (set_remove (p_contained p) id)) (rcache_add (p_rcache p) id r).

Inductive ins_out := IPending | IParked | IErr (e : ierr).

(** promotion inside [insert]: a failure is reported as InternalError *)
Definition promote_in_insert (cur : N) (bal : balances) (a : N) (p : pool) (e : entry) : pool :=
  match pending_acct_add (p_pending p a) e cur bal with
  | inl l' => set_pending p (upd (p_pending p) a l')
  | inr _ => untrack p (e_id e) RInternal
  end.

(** [MempoolInner::insert] *)
Definition insert (u : list N) (pmax : N) (p0 : pool) (t : tx) (cur : N) (bal : balances)
    (cs : costs) : pool * ins_out :=
  let e := mkEntry t cs (p_seq p0) (p_now p0) in
  let p := set_seq p0 (p_seq p0 + 1) in
  let a := t_acct t in
  match pending_acct_add (p_pending p a) e cur bal with
  | inr ENonceGap | inr EBalanceTooLow =>
      match parked_add u pmax (p_parked p) e cur with
      | inl pk' => (set_contained (set_parked p pk') (set_add (p_contained p) (t_id t)), IParked)
      | inr err => (p, IErr err)
      end
  | inr err => (p, IErr err)
  | inl l' =>
      let p1 := set_pending p (upd (p_pending p) a l') in
      let '(promo, rest) :=
        (* nonce().checked_add(1) = None: no successor, nothing to promote *)
        if U32_MAX <=? t_nonce t then ([], p_parked p1 a)
        else find_promotables (p_parked p1 a) (t_nonce t + 1)
                              (subtract_contained (p_pending p1 a) bal) in
      let p2 := set_parked p1 (upd (p_parked p1) a rest) in
      let p3 := fold_left (promote_in_insert cur bal a) promo p2 in
      (set_contained p3 (set_add (p_contained p3) (t_id t)), IPending)
  end.

(** [TransactionsContainer::remove]: [None] = the tx is handed back ([Err]) *)
Definition container_remove (l : list entry) (n : N) : option (list entry * list N) :=
  if has_nonce l n
  then Some (filter (fun e => e_nonce e <? n) l,
             map e_id (filter (fun e => n <=? e_nonce e) l))
  else None.

Definition untrack_lower (p : pool) (id : N) : pool := untrack p id RLower.

(** [MempoolInner::remove_tx_invalid] *)
Definition remove_tx_invalid (p : pool) (t : tx) (r : reason) : pool :=
  let a := t_acct t in
  let finish (p' : pool) (removed : list N) : pool :=
    let p'' := set_rcache p' (rcache_add (p_rcache p') (t_id t) r) in
    fold_left untrack_lower removed p'' in
  match container_remove (p_pending p a) (t_nonce t) with
  | Some (keep, removed) =>
      let removed' := removed ++ map e_id (p_parked p a) in
      finish (set_parked (set_pending p (upd (p_pending p) a keep)) (upd (p_parked p) a []))
             removed'
  | None =>
      match container_remove (p_parked p a) (t_nonce t) with
      | Some (keep, removed) => finish (set_parked p (upd (p_parked p) a keep)) removed
      | None => p
      end
  end.

(** [TransactionsContainer::clean_account_stale_expired] *)
Definition clean_stale_expired (l : list entry) (cur now : N) (results : list N) (h : N)
  : list entry * list (N * reason) :=
  let stale := filter (fun e => e_nonce e <? cur) l in
  let keep := filter (fun e => cur <=? e_nonce e) l in
  let rs := map (fun e => (e_id e, if mem (e_id e) results then RIncl h else RStale)) stale in
  match keep with
  | [] => ([], rs)
  | f :: rest =>
      if TX_TTL <? now - e_born f
      then ([], rs ++ (e_id f, RExpired) :: map (fun e => (e_id e, RLower)) rest)
      else (keep, rs)
  end.

Definition recost_entry (f : fees) (e : entry) : entry :=
  mkEntry (e_tx e) (tx_costs f (e_tx e)) (e_seq e) (e_born e).

Record chain := mkChain { c_nonce : N -> N; c_bal : N -> balances; c_fees : fees }.

Record macc := mkMacc {
  m_pool : pool;
  m_removed : list (N * reason);     (* removed_txs: untracked after the loop *)
  m_ndemo : N }.                     (* demotions attempted *)

(** a failed re-insertion is reported as removed with [InternalError] *)
Definition promote_in_maint (cur : N) (bal : balances) (a : N) (pl : pool * list (N * reason))
    (e : entry) : pool * list (N * reason) :=
  let '(p, rem) := pl in
  match pending_acct_add (p_pending p a) e cur bal with
  | inl l' => (set_pending p (upd (p_pending p) a l'), rem)
  | inr _ => (p, rem ++ [(e_id e, RInternal)])
  end.

Definition demote_in_maint (u : list N) (pmax cur : N) (pl : pool * list (N * reason)) (e : entry)
  : pool * list (N * reason) :=
  let '(p, rem) := pl in
  match parked_add u pmax (p_parked p) e cur with
  | inl pk' => (set_parked p pk', rem)
  | inr _ => (p, rem ++ [(e_id e, RInternal)])
  end.

(** the body of the per-account loop of [MempoolInner::run_maintenance] *)
Definition maint_account (u : list N) (pmax : N) (ch : chain) (recost : bool)
    (results : list N) (h : N) (acc : macc) (a : N) : macc :=
  let p := m_pool acc in
  let cur := c_nonce ch a in
  let bal := c_bal ch a in
  let '(pend1, rem1) := clean_stale_expired (p_pending p a) cur (p_now p) results h in
  let pend2 := if recost then map (recost_entry (c_fees ch)) pend1 else pend1 in
  let '(park1, rem2) := clean_stale_expired (p_parked p a) cur (p_now p) results h in
  let park2 := if recost then map (recost_entry (c_fees ch)) park1 else park1 in
  let '(keep, demo) := find_demotables pend2 bal in
  let p1 := set_parked (set_pending p (upd (p_pending p) a keep)) (upd (p_parked p) a park2) in
  let removed := m_removed acc ++ rem1 ++ rem2 in
  match demo with
  | [] =>
      let pn := match pending_nonce keep with Some n => n | None => cur end in
      let remaining := subtract_contained keep bal in
      let '(promo, rest) := find_promotables park2 pn remaining in
      let p2 := set_parked p1 (upd (p_parked p1) a rest) in
      let '(p3, removed') := fold_left (promote_in_maint cur bal a) promo (p2, removed) in
      mkMacc p3 removed' (m_ndemo acc)
  | _ =>
      let '(p3, removed') := fold_left (demote_in_maint u pmax cur) demo (p1, removed) in
      mkMacc p3 removed' (m_ndemo acc + llen demo)
  end.

Definition untrack_pair (p : pool) (x : N * reason) : pool := untrack p (fst x) (snd x).
Definition recent_add_pool (h : N) (p : pool) (id : N) : pool :=
  set_recent p (recent_add (p_recent p) id h).

(** [MempoolInner::run_maintenance]; accounts are visited in ascending order (the code
    iterates a [HashSet]: see the [orderdep] flag of [OMaint]). Returns the pool and the number
    of demotions attempted. *)
Definition run_maintenance (u : list N) (pmax : N) (ch : chain) (p : pool) (recost : bool)
    (results : list N) (h : N) : pool * N :=
  let acc := fold_left (maint_account u pmax ch recost results h) u (mkMacc p [] 0) in
  let p1 := fold_left untrack_pair (m_removed acc) (m_pool acc) in
  let p2 := fold_left (recent_add_pool h) results p1 in
  (p2, m_ndemo acc).

Definition has_id (l : list entry) (id : N) : bool := existsb (fun e => e_id e =? id) l.

Definition container_has (u : list N) (c : N -> list entry) (id : N) : bool :=
  existsb (fun a => has_id (c a) id) u.

(** [MempoolInner::transaction_status] *)
Definition tx_status (u : list N) (p : pool) (id : N) : option status :=
  if mem id (p_contained p) then
    Some (if container_has u (p_pending p) id then SPending else SParked)
  else match assoc_get (p_recent p) id with
       | Some h => Some (SRemoved (RIncl h))
       | None => match assoc_get (p_rcache p) id with
                 | Some r => Some (SRemoved r)
                 | None => None
                 end
       end.

(** ** Builder queue *)

Record qkey := mkQ { q_id : N; q_group : N; q_diff : N; q_seq : N }.

(** [x] has priority over (or equal to) [y]: group descending, nonce difference ascending,
    arrival ascending *)
Definition q_before (x y : qkey) : bool :=
  (q_group y <? q_group x) ||
  ((q_group x =? q_group y) &&
   ((q_diff x <? q_diff y) ||
    ((q_diff x =? q_diff y) && (q_seq x <=? q_seq y)))).

Fixpoint q_insert (x : qkey) (l : list qkey) : list qkey :=
  match l with
  | [] => [x]
  | y :: r => if q_before x y then x :: l else y :: q_insert x r
  end.

Definition q_sort (l : list qkey) : list qkey := fold_right q_insert [] l.

Definition account_keys (l : list entry) : list qkey :=
  match l with
  | [] => []
  | f :: _ =>
      flat_map (fun e => if e_nonce e <? e_nonce f then []       (* priority() error: skipped *)
                         else [mkQ (e_id e) (t_group (e_tx e)) (e_nonce e - e_nonce f) (e_seq e)])
               l
  end.

(** [PendingTransactions::builder_queue] *)
Definition builder_queue (u : list N) (p : pool) : list N :=
  map q_id (q_sort (flat_map (fun a => account_keys (p_pending p a)) u)).

(** ** The system: chain state shown to the mempool, tx definitions, CheckTx protocol *)

Record sys := mkSys {
  s_universe : list N;
  s_nassets : N;
  s_pmax : N;
  s_defs : list tx;
  s_chain : chain;
  s_pool : pool }.

Definition set_defs (s : sys) (v : list tx) : sys :=
  mkSys (s_universe s) (s_nassets s) (s_pmax s) v (s_chain s) (s_pool s).
Definition set_chain (s : sys) (v : chain) : sys :=
  mkSys (s_universe s) (s_nassets s) (s_pmax s) (s_defs s) v (s_pool s).
Definition set_pool (s : sys) (v : pool) : sys :=
  mkSys (s_universe s) (s_nassets s) (s_pmax s) (s_defs s) (s_chain s) v.

Definition nseq (k : N) : list N := map N.of_nat (seq 0 (N.to_nat k)).

Definition init (pmax naccts nassets : N) : sys :=
  mkSys (nseq naccts) nassets pmax []
        (mkChain (fun _ => 0) (fun _ _ => 0) (mkFees 0 0)) empty_pool.

Definition find_def (s : sys) (id : N) : option tx :=
  find (fun t => t_id t =? id) (s_defs s).

Definition is_nil {A} (l : list A) : bool := match l with [] => true | _ => false end.

Inductive op :=
| OpTx (t : tx)
| OpBump (a k : N)
| OpBal (a asset v : N)
| OpFee (ft fi : N)
| OpIns (id : N)
| OpInsd (id : N)
| OpRm (id : N)
| OpMaint (recost : bool) (h : N) (ids : list N)
| OpAdvance (d : N).

Inductive out :=
| OOk
| OBad
| OGroup (g : N)
| ONonce (n : N)
| OUndefined
| OSkip
| OAlready (s : status)
| ORemoved (r : reason)
| OFailedChecks
| OIns (o : ins_out)
| OMaint (orderdep : bool).

Definition do_insert (s : sys) (t : tx) : sys * out :=
  let ch := s_chain s in
  let '(p', o) := insert (s_universe s) (s_pmax s) (s_pool s) t (c_nonce ch (t_acct t))
                         (c_bal ch (t_acct t)) (tx_costs (c_fees ch) t) in
  (set_pool s p', OIns o).

Definition tx_ok (s : sys) (t : tx) : bool :=
  mem (t_acct t) (s_universe s) && (1 <=? t_group t) && (t_group t <=? 4) &&
  (t_asset t <? s_nassets s) && (t_fee_asset t <? s_nassets s) && (t_nonce t <=? U32_MAX) &&
  (t_amount t <=? U128_MAX) &&
  match find_def s (t_id t) with Some _ => false | None => true end.

Definition step (s : sys) (o : op) : sys * out :=
  match o with
  | OpTx t => if tx_ok s t then (set_defs s (s_defs s ++ [t]), OGroup (t_group t)) else (s, OBad)
  | OpBump a k =>
      let ch := s_chain s in
      let n := saturating_add U32_MAX (c_nonce ch a) k in
      (set_chain s (mkChain (upd (c_nonce ch) a n) (c_bal ch) (c_fees ch)), ONonce n)
  | OpBal a asset v =>
      let ch := s_chain s in
      (set_chain s (mkChain (c_nonce ch) (upd (c_bal ch) a (upd (c_bal ch a) asset v)) (c_fees ch)),
       OOk)
  | OpFee ft fi =>
      let ch := s_chain s in
      (set_chain s (mkChain (c_nonce ch) (c_bal ch) (mkFees ft fi)), OOk)
  | OpIns id =>
      match find_def s id with
      | None => (s, OUndefined)
      | Some t =>
          match tx_status (s_universe s) (s_pool s) id with
          | Some (SRemoved r) =>
              (* handle_check_tx_request: report once, then remove_from_removal_cache *)
              (set_pool s (set_rcache (s_pool s) (assoc_remove (p_rcache (s_pool s)) id)),
               ORemoved r)
          | Some st => (s, OAlready st)
          | None =>
              (* CheckedTransaction::new: InvalidNonce *)
              if t_nonce t <? c_nonce (s_chain s) (t_acct t) then (s, OFailedChecks)
              else do_insert s t
          end
      end
  | OpInsd id =>
      match find_def s id with
      | None => (s, OUndefined)
      | Some t =>
          match tx_status (s_universe s) (s_pool s) id with
          | Some _ => (s, OSkip)
          | None => do_insert s t
          end
      end
  | OpRm id =>
      match find_def s id with
      | None => (s, OUndefined)
      | Some t => (set_pool s (remove_tx_invalid (s_pool s) t RFail), OOk)
      end
  | OpMaint recost h ids =>
      let results := filter (fun id => match find_def s id with Some _ => true | None => false end)
                            ids in
      let before := parked_len (s_universe s) (p_parked (s_pool s)) in
      let active := llen (filter (fun a => negb (is_nil (p_pending (s_pool s) a)) ||
                                           negb (is_nil (p_parked (s_pool s) a)))
                                 (s_universe s)) in
      let '(p', ndemo) :=
        run_maintenance (s_universe s) (s_pmax s) (s_chain s) (s_pool s) recost results h in
      (* the code visits the accounts in HashSet order; the outcome can depend on that order
         only when the total parked limit can be hit while at least two accounts are present *)
      (set_pool s p', OMaint ((s_pmax s <? before + ndemo) && (2 <=? active)))
  | OpAdvance d => (set_pool s (set_now (s_pool s) (p_now (s_pool s) + d)), OOk)
  end.

Fixpoint run (s : sys) (ops : list op) : sys * list out :=
  match ops with
  | [] => (s, [])
  | o :: r => let '(s1, x) := step s o in
              let '(s2, xs) := run s1 r in (s2, x :: xs)
  end.
