(** C13 — the structural invariant on reachable system states and what follows from it:
    the reported place is the real place, no id is held twice. *)
From Astria Require Import Mempool.MempoolSpec Mempool.MempoolBase Mempool.MempoolOps
  Mempool.MempoolInv Mempool.MempoolInv2.

Definition SInv (s : sys) : Prop :=
  NoDup (s_universe s) /\ defs_ok (s_universe s) (s_defs s) /\ PInv (s_defs s) (s_pool s).

Lemma nseq_NoDup k : NoDup (nseq k).
Proof.
  unfold nseq. apply FinFun.Injective_map_NoDup; [|apply seq_NoDup].
  intros x y H. now apply Nat2N.inj.
Qed.

Lemma SInv_init pmax k na : SInv (init pmax k na).
Proof.
  unfold SInv, init. cbn. split; [apply nseq_NoDup|]. split.
  - split; [constructor|intros t []].
  - split.
    + constructor; cbn.
      * intros a e [[]|[]].
      * intros a. split; constructor.
      * intros a e e' [].
    + intros id _. cbn. unfold held, in_pending, in_parked. cbn. split; [intros []|].
      intros [[[a [e [[] _]]]|[a [e [[] _]]]]|[[]|[]]].
Qed.

Lemma find_def_Some s id t : find_def s id = Some t -> In t (s_defs s) /\ t_id t = id.
Proof.
  unfold find_def. intros H. apply find_some in H. destruct H as [H1 H2].
  split; [assumption|now apply N.eqb_eq].
Qed.

Lemma find_def_None s id : find_def s id = None -> ~ In id (map t_id (s_defs s)).
Proof.
  unfold find_def. intros H Hin. apply in_map_iff in Hin. destruct Hin as [t [Hid Ht]].
  pose proof (find_none _ _ H t Ht) as Hf. cbn in Hf. rewrite Hid, N.eqb_refl in Hf. discriminate.
Qed.

Lemma CInv_defs_mono defs defs' p :
  (forall t, In t defs -> In t defs') -> CInv defs p -> CInv defs' p.
Proof.
  intros Hsub [Hdef Hsort Hexcl]. constructor; auto.
  intros a e H. destruct (Hdef a e H). split; auto.
Qed.

Lemma tx_status_None_not_contained u p id : tx_status u p id = None -> ~ In id (p_contained p).
Proof.
  unfold tx_status. destruct (mem id (p_contained p)) eqn:E; [discriminate|].
  intros _. now apply mem_false.
Qed.

Lemma do_insert_SInv s t :
  SInv s -> In t (s_defs s) -> ~ In (t_id t) (p_contained (s_pool s)) ->
  SInv (fst (do_insert s t)).
Proof.
  intros [Hu [Hd Hp]] Ht Hnc. unfold do_insert.
  pose proof (insert_PInv (s_universe s) (s_defs s) (s_pmax s) (s_pool s) t
                (c_nonce (s_chain s) (t_acct t)) (c_bal (s_chain s) (t_acct t))
                (tx_costs (c_fees (s_chain s)) t) Hd Hp Ht Hnc) as H.
  destruct (insert (s_universe s) (s_pmax s) (s_pool s) t (c_nonce (s_chain s) (t_acct t))
              (c_bal (s_chain s) (t_acct t)) (tx_costs (c_fees (s_chain s)) t)) as [p' o].
  cbn [fst] in *. unfold SInv. cbn. auto.
Qed.

Theorem step_SInv s o : SInv s -> SInv (fst (step s o)).
Proof.
  intros HS. pose proof HS as [Hu [Hd Hp]]. destruct o; cbn [step].
  - (* OpTx *)
    destruct (tx_ok s t) eqn:E; [|exact HS]. cbn [fst]. unfold SInv. cbn.
    unfold tx_ok in E. repeat (apply andb_prop in E; destruct E as [E ?]).
    destruct (find_def s (t_id t)) eqn:Ef; [discriminate|]. apply find_def_None in Ef.
    split; [assumption|]. split.
    + destruct Hd as [Hnd Hall]. split.
      * rewrite map_app. cbn. apply NoDup_app_snoc; assumption.
      * intros t' Hin. apply in_app_or in Hin. destruct Hin as [Hin|[<-|[]]]; [now apply Hall|].
        now apply mem_In.
    + destruct Hp as [Hci HT]. split; [|exact HT].
      eapply CInv_defs_mono; [|exact Hci]. intros t' Hin. apply in_or_app. now left.
  - exact HS.
  - exact HS.
  - exact HS.
  - (* OpIns *)
    destruct (find_def s id) as [t|] eqn:Ef; [|exact HS]. apply find_def_Some in Ef.
    destruct Ef as [Ht <-].
    destruct (tx_status (s_universe s) (s_pool s) (t_id t)) as [[| |r]|] eqn:Est; try exact HS.
    + cbn [fst]. unfold SInv. cbn. split; [assumption|]. split; [assumption|].
      eapply PInv_ext; [| | |exact Hp]; reflexivity.
    + apply tx_status_None_not_contained in Est.
      destruct (t_nonce t <? c_nonce (s_chain s) (t_acct t)); [exact HS|].
      now apply do_insert_SInv.
  - (* OpInsd *)
    destruct (find_def s id) as [t|] eqn:Ef; [|exact HS]. apply find_def_Some in Ef.
    destruct Ef as [Ht <-].
    destruct (tx_status (s_universe s) (s_pool s) (t_id t)) eqn:Est; [exact HS|].
    apply tx_status_None_not_contained in Est. now apply do_insert_SInv.
  - (* OpRm *)
    destruct (find_def s id) as [t|] eqn:Ef; [|exact HS]. cbn [fst]. unfold SInv. cbn.
    split; [assumption|]. split; [assumption|]. eapply remove_tx_invalid_PInv; eauto.
  - (* OpMaint *)
    pose proof (run_maintenance_PInv (s_universe s) (s_defs s) (s_pmax s) (s_chain s) (s_pool s)
                  recost
                  (filter (fun id => match find_def s id with Some _ => true | None => false end) ids)
                  h Hd Hp) as H.
    destruct (run_maintenance (s_universe s) (s_pmax s) (s_chain s) (s_pool s) recost
                (filter (fun id => match find_def s id with Some _ => true | None => false end) ids) h)
      as [p' nd].
    cbn [fst] in *. unfold SInv. cbn. auto.
  - (* OpAdvance *)
    cbn [fst]. unfold SInv. cbn. split; [assumption|]. split; [assumption|].
    eapply PInv_ext; [| | |exact Hp]; reflexivity.
Qed.

Lemma run_SInv ops : forall s, SInv s -> SInv (fst (run s ops)).
Proof.
  induction ops as [|o ops IH]; intros s HS; cbn [run fst]; [assumption|].
  pose proof (step_SInv s o HS) as H1. destruct (step s o) as [s1 x]. cbn [fst] in H1.
  specialize (IH s1 H1). destruct (run s1 ops) as [s2 xs]. exact IH.
Qed.

Lemma has_id_In l id : has_id l id = true <-> ids_in l id.
Proof.
  unfold has_id, ids_in. rewrite existsb_exists.
  split; intros [e [H1 H2]]; exists e; split; auto; now apply N.eqb_eq.
Qed.

Lemma container_has_pending s id :
  SInv s -> (container_has (s_universe s) (p_pending (s_pool s)) id = true <-> in_pending (s_pool s) id).
Proof.
  intros [Hu [Hd [Hci HT]]]. unfold container_has. rewrite existsb_exists. split.
  - intros [a [Ha H]]. apply has_id_In in H. destruct H as [e [H1 H2]]. exists a, e. tauto.
  - intros [a [e [H1 H2]]]. exists a. split.
    + destruct (ci_def _ _ Hci a e (or_introl H1)) as [Hdef Hacct].
      destruct Hd as [_ Hall]. pose proof (Hall _ Hdef) as Hin. unfold e_acct in Hacct. now rewrite <- Hacct.
    + apply has_id_In. exists e. tauto.
Qed.

Theorem SInv_place_consistent s id : SInv s -> place_consistent s id.
Proof.
  intros HS. pose proof HS as [Hu [Hd [Hci HT]]]. unfold place_consistent, tx_status.
  destruct (mem id (p_contained (s_pool s))) eqn:Em.
  - apply mem_In in Em. apply (HT id (fun f => f)) in Em. cbn [map In] in Em.
    destruct Em as [Hh|[[]|[]]].
    destruct (container_has (s_universe s) (p_pending (s_pool s)) id) eqn:Ec.
    + apply (container_has_pending s id HS) in Ec. split; [assumption|].
      intros [a' [e' [H1' H2']]]. destruct Ec as [a [e [H1 H2]]].
      destruct (held_slot _ _ _ a a' e e' Hd Hci (or_introl H1) (or_intror H1')) as [<- [<- Hiff]];
        [congruence|].
      apply (ci_excl _ _ Hci a e e H1 H1' eq_refl).
    + assert (Hnp : ~ in_pending (s_pool s) id).
      { intros H. apply (container_has_pending s id HS) in H. congruence. }
      split; [|assumption]. destruct Hh as [H|H]; [contradiction|assumption].
  - apply mem_false in Em.
    assert (Hnh : ~ held (s_pool s) id).
    { intros H. apply Em. apply (HT id (fun f => f)). now left. }
    assert (Hres : ~ in_pending (s_pool s) id /\ ~ in_parked (s_pool s) id).
    { split; intros H; apply Hnh; [now left|now right]. }
    destruct (assoc_get (p_recent (s_pool s)) id); [exact Hres|].
    destruct (assoc_get (p_rcache (s_pool s)) id); exact Hres.
Qed.

(** no id is held in two container slots *)
Lemma NoDup_filter_length {A} (g : A -> N) l k :
  NoDup (map g l) -> (length (filter (fun e => (g e =? k)%N) l) <= 1)%nat.
Proof.
  induction l as [|x l IH]; intros H; cbn; [lia|].
  cbn in H. inversion H as [|? ? Hnotin Hnd]; subst. specialize (IH Hnd).
  destruct (g x =? k) eqn:E; [|assumption]. apply N.eqb_eq in E. cbn.
  assert (Hnil : filter (fun e => g e =? k) l = []).
  { apply filter_nil_local. intros y Hy. apply N.eqb_neq. intros Hg. apply Hnotin.
    rewrite E, <- Hg. now apply in_map. }
  rewrite Hnil. cbn. lia.
Qed.

Lemma NoDup_flat_map_ids (h : N -> list entry) u :
  NoDup u ->
  (forall a, NoDup (map e_id (h a))) ->
  (forall a a' e e', a <> a' -> In e (h a) -> In e' (h a') -> e_id e <> e_id e') ->
  NoDup (map e_id (flat_map h u)).
Proof.
  intros Hu H1 H2. induction u as [|a u IH]; cbn; [constructor|].
  inversion Hu as [|? ? Ha Hu']; subst. rewrite map_app. apply NoDup_app_intro.
  - apply H1.
  - now apply IH.
  - intros id Hin1 Hin2. apply in_map_iff in Hin1. destruct Hin1 as [e [He1 He2]].
    apply in_map_iff in Hin2. destruct Hin2 as [e' [He1' He2']]. apply in_flat_map in He2'.
    destruct He2' as [a' [Ha' He2']]. apply (H2 a a' e e'); auto; [|congruence].
    intros ->. contradiction.
Qed.

Theorem SInv_occurrences s id :
  SInv s -> (occurrences (s_universe s) (s_pool s) id <= 1)%nat.
Proof.
  intros [Hu [Hd [Hci HT]]]. unfold occurrences.
  apply (NoDup_filter_length e_id). apply NoDup_flat_map_ids; [assumption| |].
  - intros a. rewrite map_app. destruct (ci_sorted _ _ Hci a) as [Hsp Hsk]. apply NoDup_app_intro.
    + eapply ids_NoDup; eauto. intros e He. now apply (ci_def _ _ Hci a e (or_introl He)).
    + eapply ids_NoDup; eauto. intros e He. now apply (ci_def _ _ Hci a e (or_intror He)).
    + intros k H1 H2. apply in_map_iff in H1. destruct H1 as [e [He1 He2]].
      apply in_map_iff in H2. destruct H2 as [e' [He1' He2']].
      apply (ci_excl _ _ Hci a e e' He2 He2'). congruence.
  - intros a a' e e' Hne He He' Hid. apply in_app_or in He. apply in_app_or in He'.
    destruct (held_slot _ _ _ a a' e e' Hd Hci He He' Hid) as [Haa _]. contradiction.
Qed.
