(** C13 — nothing accepted is silently lost: every live id is tracked or has a recorded
    removal. *)
From Astria Require Import Mempool.MempoolSpec Mempool.MempoolBase Mempool.MempoolOps.

(** the id is tracked or has a removal reason on record *)
Definition KP (p : pool) (id : N) : Prop :=
  In id (p_contained p) \/ assoc_get (p_rcache p) id <> None \/ assoc_get (p_recent p) id <> None.

Lemma KP_status u p id : KP p id -> tx_status u p id <> None.
Proof.
  unfold KP, tx_status. intros H. destruct (mem id (p_contained p)) eqn:E; [discriminate|].
  apply mem_false in E. destruct H as [H|[H|H]]; [contradiction| |].
  - destruct (assoc_get (p_recent p) id); [discriminate|].
    destruct (assoc_get (p_rcache p) id); [discriminate|contradiction].
  - destruct (assoc_get (p_recent p) id); [discriminate|contradiction].
Qed.

Lemma KP_untrack p k r id : KP p id -> KP (untrack p k r) id.
Proof.
  unfold KP, untrack. cbn. intros [H|[H|H]]; auto.
  - destruct (N.eq_dec id k) as [->|Hne].
    + right. left. apply rcache_add_get. now left.
    + left. apply set_remove_In. auto.
  - right. left. apply rcache_add_get. now right.
Qed.

Lemma KP_frame p p' id :
  p_contained p' = p_contained p -> p_rcache p' = p_rcache p -> p_recent p' = p_recent p ->
  KP p id -> KP p' id.
Proof. unfold KP. intros -> -> ->. auto. Qed.

Lemma fold_promote_insert_KP cur bal a promo id : forall p,
  KP p id -> KP (fold_left (promote_in_insert cur bal a) promo p) id.
Proof.
  induction promo as [|x promo IH]; intros p H; cbn [fold_left]; [assumption|].
  apply IH. unfold promote_in_insert.
  destruct (pending_acct_add (p_pending p a) x cur bal); [exact H|now apply KP_untrack].
Qed.

Lemma insert_KP u pmax p t cur bal cs id :
  KP p id -> KP (fst (insert u pmax p t cur bal cs)) id.
Proof.
  intros H. unfold insert.
  set (e := mkEntry t cs (p_seq p) (p_now p)). set (p' := set_seq p (p_seq p + 1)).
  assert (H' : KP p' id) by exact H.
  assert (Hpark : KP (fst match parked_add u pmax (p_parked p') e cur with
      | inl pk' => (set_contained (set_parked p' pk') (set_add (p_contained p') (t_id t)), IParked)
      | inr err0 => (p', IErr err0) end) id).
  { destruct (parked_add u pmax (p_parked p') e cur); [|exact H'].
    cbn [fst]. destruct H' as [H1|H1]; [left|right; exact H1]. cbn. apply set_add_In. now right. }
  destruct (pending_acct_add (p_pending p' (t_acct t)) e cur bal) as [l'|err].
  - destruct (if U32_MAX <=? t_nonce t then _ else _) as [promo rest]. cbn [fst].
    match goal with |- KP (set_contained ?q _) id => assert (Hq : KP q id) end.
    { apply fold_promote_insert_KP. exact H'. }
    destruct Hq as [H1|H1]; [left|right; exact H1]. cbn. apply set_add_In. now right.
  - destruct err; try exact H'; exact Hpark.
Qed.

Lemma insert_accepts u pmax p t cur bal cs p' r :
  insert u pmax p t cur bal cs = (p', r) -> r = IPending \/ r = IParked ->
  In (t_id t) (p_contained p').
Proof.
  unfold insert.
  set (e := mkEntry t cs (p_seq p) (p_now p)). set (q := set_seq p (p_seq p + 1)).
  assert (Hpark : forall p' r, match parked_add u pmax (p_parked q) e cur with
      | inl pk' => (set_contained (set_parked q pk') (set_add (p_contained q) (t_id t)), IParked)
      | inr err0 => (q, IErr err0) end = (p', r) -> r = IPending \/ r = IParked ->
      In (t_id t) (p_contained p')).
  { intros p2 r2. destruct (parked_add u pmax (p_parked q) e cur); intros H Hr; inversion H; subst.
    - cbn. apply set_add_In. now left.
    - destruct Hr; discriminate. }
  destruct (pending_acct_add (p_pending q (t_acct t)) e cur bal) as [l'|err].
  - destruct (if U32_MAX <=? t_nonce t then _ else _) as [promo rest]. intros H _. inversion H; subst.
    cbn. apply set_add_In. now left.
  - destruct err; try (intros H Hr; inversion H; subst; destruct Hr; discriminate); apply Hpark.
Qed.

Lemma fold_untrack_lower_KP rem id : forall p, KP p id -> KP (fold_left untrack_lower rem p) id.
Proof.
  induction rem as [|k rem IH]; intros p H; cbn [fold_left]; [assumption|].
  apply IH. now apply KP_untrack.
Qed.

Lemma remove_tx_invalid_KP p t r id : KP p id -> KP (remove_tx_invalid p t r) id.
Proof.
  intros H. unfold remove_tx_invalid.
  assert (Hrc : forall q, KP q id -> KP (set_rcache q (rcache_add (p_rcache q) (t_id t) r)) id).
  { intros q [H1|[H1|H1]]; unfold KP; cbn; auto. right. left. apply rcache_add_get. now right. }
  destruct (container_remove (p_pending p (t_acct t)) (t_nonce t)) as [[keep removed]|].
  - apply fold_untrack_lower_KP. apply Hrc. exact H.
  - destruct (container_remove (p_parked p (t_acct t)) (t_nonce t)) as [[keep removed]|]; [|exact H].
    apply fold_untrack_lower_KP. apply Hrc. exact H.
Qed.

(** run_maintenance: the re-insertion loops touch neither the tracked set nor the caches *)
Definition same_books (p p' : pool) : Prop :=
  p_contained p' = p_contained p /\ p_rcache p' = p_rcache p /\ p_recent p' = p_recent p.

Lemma fold_promote_maint_books cur bal a promo : forall pl,
  same_books (fst pl) (fst (fold_left (promote_in_maint cur bal a) promo pl)).
Proof.
  induction promo as [|x promo IH]; intros [p rem]; cbn [fold_left fst]; [repeat split|].
  specialize (IH (promote_in_maint cur bal a (p, rem) x)).
  unfold promote_in_maint in *. destruct (pending_acct_add (p_pending p a) x cur bal); exact IH.
Qed.

Lemma fold_demote_maint_books u pmax cur demo : forall pl,
  same_books (fst pl) (fst (fold_left (demote_in_maint u pmax cur) demo pl)).
Proof.
  induction demo as [|x demo IH]; intros [p rem]; cbn [fold_left fst]; [repeat split|].
  specialize (IH (demote_in_maint u pmax cur (p, rem) x)).
  unfold demote_in_maint in *. destruct (parked_add u pmax (p_parked p) x cur); exact IH.
Qed.

Lemma maint_account_books u pmax ch recost results h acc a :
  same_books (m_pool acc) (m_pool (maint_account u pmax ch recost results h acc a)).
Proof.
  unfold maint_account.
  destruct (clean_stale_expired (p_pending (m_pool acc) a) _ _ _ _) as [pend1 rem1].
  destruct (clean_stale_expired (p_parked (m_pool acc) a) _ _ _ _) as [park1 rem2].
  destruct (find_demotables _ _) as [keep demo].
  set (p1 := set_parked _ _).
  destruct demo as [|d demo].
  - destruct (find_promotables _ _ _) as [promo rest].
    set (p2 := set_parked p1 _).
    pose proof (fold_promote_maint_books (c_nonce ch a) (c_bal ch a) a promo
                  (p2, m_removed acc ++ rem1 ++ rem2)) as H.
    destruct (fold_left _ promo _) as [p3 rem']. exact H.
  - pose proof (fold_demote_maint_books u pmax (c_nonce ch a) (d :: demo)
                  (p1, m_removed acc ++ rem1 ++ rem2)) as H.
    destruct (fold_left _ (d :: demo) _) as [p3 rem']. exact H.
Qed.

Lemma fold_maint_books u pmax ch recost results h accts : forall acc,
  same_books (m_pool acc) (m_pool (fold_left (maint_account u pmax ch recost results h) accts acc)).
Proof.
  induction accts as [|a accts IH]; intros acc; cbn [fold_left]; [repeat split|].
  destruct (maint_account_books u pmax ch recost results h acc a) as [A1 [A2 A3]].
  destruct (IH (maint_account u pmax ch recost results h acc a)) as [B1 [B2 B3]].
  repeat split; congruence.
Qed.

Lemma fold_untrack_pair_KP rem id : forall p, KP p id -> KP (fold_left untrack_pair rem p) id.
Proof.
  induction rem as [|[k r] rem IH]; intros p H; cbn [fold_left]; [assumption|].
  apply IH. unfold untrack_pair. now apply KP_untrack.
Qed.

Lemma fold_recent_KP h results id : forall p, KP p id -> KP (fold_left (recent_add_pool h) results p) id.
Proof.
  induction results as [|k results IH]; intros p H; cbn [fold_left]; [assumption|].
  apply IH. unfold recent_add_pool, KP in *. cbn. destruct H as [H|[H|H]]; auto.
  right. right. apply recent_add_get. now right.
Qed.

Theorem run_maintenance_KP u pmax ch p recost results h id :
  KP p id -> KP (fst (run_maintenance u pmax ch p recost results h)) id.
Proof.
  intros H. unfold run_maintenance. cbn [fst].
  destruct (fold_maint_books u pmax ch recost results h u (mkMacc p [] 0)) as [B1 [B2 B3]].
  cbn [m_pool] in *. apply fold_recent_KP, fold_untrack_pair_KP.
  eapply KP_frame; eauto.
Qed.
