(** C13 — consecutive nonces, joint affordability, parked limits, no stale nonce after
    maintenance: the container-level invariant and its preservation. *)
From Astria Require Import Mempool.MempoolSpec Mempool.MempoolBase Mempool.MempoolOps
  Mempool.MempoolFrame.

(** ** gapfree *)

Lemma gapfree_weaken l sh sh' : sh <= sh' -> gapfree l sh -> gapfree l sh'.
Proof. intros Hle H e He Hlt. apply H; [assumption|lia]. Qed.

Lemma gapfree_nil sh : gapfree [] sh.
Proof. intros e []. Qed.

Lemma has_nonce_filter f l n :
  has_nonce (filter f l) n = true <-> exists e, In e l /\ f e = true /\ e_nonce e = n.
Proof.
  rewrite has_nonce_In. split.
  - intros [e [H1 H2]]. apply filter_In in H1. exists e. tauto.
  - intros [e [H1 [H2 H3]]]. exists e. split; [apply filter_In; tauto|assumption].
Qed.

Lemma gapfree_filter_prefix l sh n :
  gapfree l sh -> gapfree (filter (fun e => e_nonce e <? n) l) sh.
Proof.
  intros H e He Hlt. apply filter_In in He. destruct He as [He Hn]. apply N.ltb_lt in Hn.
  specialize (H e He Hlt). apply has_nonce_In in H. destruct H as [x [Hx Hxn]].
  apply has_nonce_filter. exists x. repeat split; auto. apply N.ltb_lt. lia.
Qed.

Lemma gapfree_filter_suffix l sh cur :
  sh <= cur -> gapfree l sh -> gapfree (filter (fun e => cur <=? e_nonce e) l) cur.
Proof.
  intros Hle H e He Hlt. apply filter_In in He. destruct He as [He Hn].
  assert (Hlt' : sh < e_nonce e) by lia. specialize (H e He Hlt').
  apply has_nonce_In in H. destruct H as [x [Hx Hxn]].
  apply has_nonce_filter. exists x. repeat split; auto. apply N.leb_le. lia.
Qed.

Lemma has_nonce_map_recost f l n : has_nonce (map (recost_entry f) l) n = has_nonce l n.
Proof. unfold has_nonce. induction l as [|e l IH]; cbn; [reflexivity|]. now rewrite IH. Qed.

Lemma gapfree_recost f l sh : gapfree l sh -> gapfree (map (recost_entry f) l) sh.
Proof.
  intros H e He Hlt. apply in_map_iff in He. destruct He as [y [<- Hy]].
  rewrite has_nonce_map_recost. exact (H y Hy Hlt).
Qed.

Lemma has_nonce_insert e l n :
  has_nonce (insert_sorted e l) n = true <-> e_nonce e = n \/ has_nonce l n = true.
Proof.
  rewrite !has_nonce_In. split.
  - intros [x [H1 H2]]. apply insert_sorted_In in H1. destruct H1 as [->|H1]; [now left|right; eauto].
  - intros [H|[x [H1 H2]]].
    + exists e. split; [apply insert_sorted_In; now left|assumption].
    + exists x. split; [apply insert_sorted_In; now right|assumption].
Qed.

Lemma gapfree_insert l e cur :
  gapfree l cur -> cur <= e_nonce e -> seq_ok l (e_nonce e) cur = true ->
  gapfree (insert_sorted e l) cur.
Proof.
  intros H Hle Hseq x Hx Hlt. apply insert_sorted_In in Hx. apply has_nonce_insert.
  destruct Hx as [->|Hx].
  - right. unfold seq_ok in Hseq. destruct (e_nonce e =? 0) eqn:E0.
    + apply N.eqb_eq in E0. lia.
    + apply orb_prop in Hseq. destruct Hseq as [Hs|Hs]; [assumption|]. apply N.eqb_eq in Hs. lia.
  - right. now apply H.
Qed.

Lemma gapfree_run_from l sh : gapfree l sh -> run_from l sh.
Proof.
  intros H n Hn Hhas m Hm Hmn.
  remember (N.to_nat (n - m)) as d eqn:Hd. revert n Hn Hhas Hmn Hd.
  induction d as [|d IH]; intros n Hn Hhas Hmn Hd.
  - assert (n = m) by lia. now subst.
  - apply has_nonce_In in Hhas. destruct Hhas as [e [He Hen]].
    assert (Hlt : sh < e_nonce e) by lia. specialize (H e He Hlt). rewrite Hen in H.
    apply (IH (n - 1)); auto; lia.
Qed.

(** ** affordability of an insertion *)

Lemma total_cost_insert_sorted e l asset :
  total_cost (insert_sorted e l) asset = cost_of (e_costs e) asset + total_cost l asset.
Proof.
  induction l as [|x l IH]; cbn [insert_sorted]; [reflexivity|].
  destruct (e_nonce e <? e_nonce x); [reflexivity|]. rewrite !total_cost_cons, IH. lia.
Qed.

Lemma affordable_insert_sorted e l b : affordable (l ++ [e]) b -> affordable (insert_sorted e l) b.
Proof.
  intros H asset. specialize (H asset). rewrite total_cost_app in H.
  rewrite total_cost_insert_sorted. unfold total_cost at 2 in H. cbn in H. lia.
Qed.

Lemma affordable_app_l l1 l2 b : affordable (l1 ++ l2) b -> affordable l1 b.
Proof. intros H asset. specialize (H asset). rewrite total_cost_app in H. lia. Qed.

(** ** the predicates carried through the loops *)

Definition JP (a cur : N) (bal : balances) (l : list entry) : Prop :=
  (forall e, In e l -> e_acct e = a) /\ sorted l /\ gapfree l cur /\ affordable l bal.

Lemma JP_add a cur bal l e l' :
  (forall x, In x l -> e_acct x = a) -> sorted l -> gapfree l cur -> e_acct e = a ->
  pending_acct_add l e cur bal = inl l' -> JP a cur bal l'.
Proof.
  intros Hown Hs Hg Ha Hadd. apply pending_acct_add_ok in Hadd.
  destruct Hadd as [-> [Hle [Hfresh [Hseq Haff]]]]. unfold JP. repeat split.
  - intros x Hx. apply insert_sorted_In in Hx. destruct Hx as [->|Hx]; auto.
  - now apply insert_sorted_sorted.
  - now apply gapfree_insert.
  - now apply affordable_insert_sorted.
Qed.

Lemma JP_closed a cur bal : closedP cur bal (fun e => e_acct e = a) (JP a cur bal).
Proof.
  intros l e l' [Hown [Hs [Hg _]]] Ha Hadd. eapply JP_add; eauto.
Qed.

(** nonces not below [cur] *)
Definition fresh_from (cur : N) (l : list entry) : Prop := forall e, In e l -> cur <= e_nonce e.

Lemma fresh_closedP cur bal Q : closedP cur bal Q (fresh_from cur).
Proof.
  intros l e l' H _ Hadd. apply pending_acct_add_ok in Hadd. destruct Hadd as [-> [Hle _]].
  intros x Hx. apply insert_sorted_In in Hx. destruct Hx as [->|Hx]; auto.
Qed.

Definition JK (a cur : N) (l : list entry) : Prop :=
  (forall e, In e l -> e_acct e = a) /\ llen l <= MAX_PARKED_PER_ACCOUNT /\ fresh_from cur l.

Lemma JK_closed a cur : closedK cur (fun e => e_acct e = a) (JK a cur).
Proof.
  intros l e l' [Hown [Hlen Hf]] Ha Hadd. apply parked_acct_add_ok in Hadd.
  destruct Hadd as [-> [Hlt [Hle _]]]. repeat split.
  - intros x Hx. apply insert_sorted_In in Hx. destruct Hx as [->|Hx]; auto.
  - rewrite llen_insert_sorted. lia.
  - intros x Hx. apply insert_sorted_In in Hx. destruct Hx as [->|Hx]; auto.
Qed.

(** ** the container-level invariant *)

Definition owned (p : pool) : Prop :=
  forall a e, In e (p_pending p a) \/ In e (p_parked p a) -> e_acct e = a.

Record Light (u : list N) (pmax : N) (sn : N -> N) (sb : N -> balances) (p : pool) : Prop :=
  mkLight {
  l_own : owned p;
  l_sorted : forall a, sorted (p_pending p a);
  l_gap : forall a, gapfree (p_pending p a) (sn a);
  l_aff : forall a, affordable (p_pending p a) (sb a);
  l_total : parked_len u (p_parked p) <= pmax;
  l_acct : forall a, llen (p_parked p a) <= MAX_PARKED_PER_ACCOUNT;
  l_univ : forall a, ~ In a u -> p_pending p a = [] /\ p_parked p a = [] }.

Lemma Light_ghost_ext u pmax sn sb sn' sb' p :
  (forall a, sn' a = sn a) -> (forall a, sb' a = sb a) ->
  Light u pmax sn sb p -> Light u pmax sn' sb' p.
Proof.
  intros H1 H2 [Ho Hs Hg Ha Ht Hc Hu]. constructor; auto.
  - intros a. rewrite H1. apply Hg.
  - intros a. rewrite H2. apply Ha.
Qed.

(** only account [a]'s lists change *)
Lemma Light_change u pmax sn sb p p' a sn_a sb_a :
  Light u pmax sn sb p -> In a u ->
  (forall b, b <> a -> p_pending p' b = p_pending p b /\ p_parked p' b = p_parked p b) ->
  (forall e, In e (p_pending p' a) \/ In e (p_parked p' a) -> e_acct e = a) ->
  sorted (p_pending p' a) -> gapfree (p_pending p' a) sn_a -> affordable (p_pending p' a) sb_a ->
  parked_len u (upd (p_parked p) a (p_parked p' a)) <= pmax ->
  llen (p_parked p' a) <= MAX_PARKED_PER_ACCOUNT ->
  Light u pmax (upd sn a sn_a) (upd sb a sb_a) p'.
Proof.
  intros [Ho Hs Hg Ha Ht Hc Hu] Hin Hfr Hown Hsort Hgap Haff Htot Hlen. constructor.
  - intros b e H. destruct (N.eq_dec b a) as [->|Hne]; [now apply Hown|].
    destruct (Hfr b Hne) as [E1 E2]. rewrite E1, E2 in H. now apply Ho.
  - intros b. destruct (N.eq_dec b a) as [->|Hne]; [assumption|].
    destruct (Hfr b Hne) as [E1 _]. rewrite E1. apply Hs.
  - intros b. destruct (N.eq_dec b a) as [->|Hne]; [now rewrite upd_same|].
    destruct (Hfr b Hne) as [E1 _]. rewrite E1, upd_other by assumption. apply Hg.
  - intros b. destruct (N.eq_dec b a) as [->|Hne]; [now rewrite upd_same|].
    destruct (Hfr b Hne) as [E1 _]. rewrite E1, upd_other by assumption. apply Ha.
  - erewrite parked_len_ext; [exact Htot|]. intros b. destruct (N.eq_dec b a) as [->|Hne].
    + now rewrite upd_same.
    + rewrite upd_other by assumption. now destruct (Hfr b Hne).
  - intros b. destruct (N.eq_dec b a) as [->|Hne]; [assumption|].
    destruct (Hfr b Hne) as [_ E2]. rewrite E2. apply Hc.
  - intros b Hb. assert (Hne : b <> a) by (intros ->; contradiction).
    destruct (Hfr b Hne) as [E1 E2]. rewrite E1, E2. now apply Hu.
Qed.

Lemma Forall_filter_own (a : N) f l :
  (forall e, In e l -> e_acct e = a) -> Forall (fun e => e_acct e = a) (filter f l).
Proof. intros H. apply Forall_forall. intros e He. apply filter_In in He. now apply H. Qed.

Theorem insert_light u pmax sn sb p t cur bal cs :
  Light u pmax sn sb p -> NoDup u -> In (t_acct t) u -> sn (t_acct t) <= cur ->
  let '(p', r) := insert u pmax p t cur bal cs in
  Light u pmax (upd sn (t_acct t) cur)
        (match r with IPending => upd sb (t_acct t) bal | _ => sb end) p'.
Proof.
  intros HL Hnd Hin Hsn. pose proof HL as [Ho Hs Hg Ha Ht Hc Hu]. unfold insert.
  set (e := mkEntry t cs (p_seq p) (p_now p)). set (q := set_seq p (p_seq p + 1)).
  set (a := t_acct t) in *.
  assert (HLq : Light u pmax sn sb q) by (destruct HL; constructor; assumption).
  assert (Hgc : gapfree (p_pending q a) cur) by (eapply gapfree_weaken; [exact Hsn|apply Hg]).
  assert (Hsame : forall sbx, (forall b, sbx b = sb b) -> Light u pmax (upd sn a cur) sbx q).
  { intros sbx Hx. eapply Light_ghost_ext with (sn := upd sn a cur) (sb := upd sb a (sb a)).
    - reflexivity.
    - intros b. rewrite Hx. destruct (N.eq_dec b a) as [->|Hne]; [now rewrite upd_same|now rewrite upd_other].
    - apply (Light_change u pmax sn sb q q a cur (sb a) HLq Hin).
      + intros b Hb. split; reflexivity.
      + intros x Hx'. now apply (Ho a x).
      + apply Hs.
      + exact Hgc.
      + apply Ha.
      + erewrite parked_len_ext; [exact Ht|]. intros b.
        destruct (N.eq_dec b a) as [->|Hne]; [now rewrite upd_same|now rewrite upd_other].
      + apply Hc. }
  assert (Hpark : let '(p', r) :=
      match parked_add u pmax (p_parked q) e cur with
      | inl pk' => (set_contained (set_parked q pk') (set_add (p_contained q) (t_id t)), IParked)
      | inr err0 => (q, IErr err0) end in
      Light u pmax (upd sn a cur)
        (match r with IPending => upd sb a bal | _ => sb end) p').
  { destruct (parked_add u pmax (p_parked q) e cur) as [pk'|err0] eqn:Ek; [|now apply Hsame].
    apply parked_add_ok in Ek. destruct Ek as [Hlt [l' [Ek ->]]]. change (e_acct e) with a in *.
    apply parked_acct_add_ok in Ek. destruct Ek as [-> [Hl15 _]].
    eapply Light_ghost_ext with (sn := upd sn a cur) (sb := upd sb a (sb a)).
    - reflexivity.
    - intros b. destruct (N.eq_dec b a) as [->|Hne]; [now rewrite upd_same|now rewrite upd_other].
    - apply (Light_change u pmax sn sb q _ a cur (sb a) HLq Hin); cbn.
      + intros b Hb. split; [reflexivity|now rewrite upd_other].
      + rewrite upd_same. intros x [Hx|Hx]; [now apply (Ho a x); left|].
        apply insert_sorted_In in Hx. destruct Hx as [->|Hx]; [reflexivity|apply (Ho a x); now right].
      + apply Hs.
      + exact Hgc.
      + apply Ha.
      + rewrite upd_same.
        pose proof (parked_len_upd_succ u (p_parked q) a (insert_sorted e (p_parked q a)) Hnd) as Hsucc.
        rewrite llen_insert_sorted in Hsucc. specialize (Hsucc (N.le_refl _)).
        change (p_parked q) with (p_parked p) in *. lia.
      + rewrite upd_same, llen_insert_sorted. change (p_parked q) with (p_parked p) in *.
        unfold MAX_PARKED_PER_ACCOUNT in *. lia. }
  destruct (pending_acct_add (p_pending q a) e cur bal) as [l'|err] eqn:Ea.
  - assert (HJ : JP a cur bal l').
    { apply (JP_add a cur bal (p_pending q a) e l');
        [intros x Hx; apply (Ho a x); now left|apply Hs|exact Hgc|reflexivity|exact Ea]. }
    set (p1 := set_pending q (upd (p_pending q) a l')).
    destruct (insert_promotables_shape (U32_MAX <=? t_nonce t) (p_parked p1 a) (t_nonce t + 1)
                (subtract_contained (p_pending p1 a) bal)) as [f4 Hf4]. rewrite Hf4.
    { set (p2 := set_parked p1 (upd (p_parked p1) a (filter f4 (p_parked p1 a)))).
      destruct (fold_promote_insert_shape cur bal a
                  (filter (fun e0 => negb (f4 e0)) (p_parked p1 a)) p2) as [F1 [F2 F3]].
      assert (Hown_pk : forall x, In x (p_parked q a) -> e_acct x = a)
        by (intros x Hx; apply (Ho a x); now right).
      specialize (F3 _ _ (JP_closed a cur bal) (Forall_filter_own a _ _ Hown_pk)).
      assert (HJ2 : JP a cur bal (p_pending p2 a)) by (unfold p2, p1; cbn; now rewrite upd_same).
      specialize (F3 HJ2). destruct F3 as [J1 [J2 [J3 J4]]].
      apply (Light_change u pmax sn sb q _ a cur bal HLq Hin); cbn [p_pending p_parked set_contained].
      * intros b Hb. rewrite F1, F2 by assumption. unfold p2, p1. cbn. now rewrite !upd_other by assumption.
      * intros x [Hx|Hx]; [now apply J1|]. rewrite F1 in Hx. unfold p2, p1 in Hx. cbn in Hx.
        rewrite upd_same in Hx. apply filter_In in Hx. now apply Hown_pk.
      * exact J2.
      * exact J3.
      * exact J4.
      * rewrite F1. unfold p2, p1. cbn. rewrite upd_same. apply N.le_trans with (parked_len u (p_parked q)); [|exact Ht].
        apply parked_len_upd_le; [assumption|apply llen_filter_le].
      * rewrite F1. unfold p2, p1. cbn. rewrite upd_same.
        apply N.le_trans with (llen (p_parked q a)); [apply llen_filter_le|apply Hc]. }
  - destruct err; try (now apply Hsame); exact Hpark.
Qed.
