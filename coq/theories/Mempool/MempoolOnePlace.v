(** C13 — one_place: ghost run and the theorem. *)
From Astria Require Import Mempool.MempoolSpec Mempool.MempoolBase Mempool.MempoolOps
  Mempool.MempoolInv Mempool.MempoolInv2 Mempool.MempoolInv3 Mempool.MempoolLive.

Definition GInv (s : sys) (g : ghost) : Prop :=
  forall id, In id (g_live g) -> KP (s_pool s) id.

Lemma do_insert_G s g t id0 x s1 :
  GInv s g -> do_insert s t = (s1, x) -> t_id t = id0 ->
  forall o, (o = OpIns id0 \/ o = OpInsd id0) -> GInv s1 (gupdate s g o x).
Proof.
  intros HG Hd Hid o Ho. unfold do_insert in Hd.
  destruct (insert (s_universe s) (s_pmax s) (s_pool s) t (c_nonce (s_chain s) (t_acct t))
              (c_bal (s_chain s) (t_acct t)) (tx_costs (c_fees (s_chain s)) t)) as [p' r] eqn:Ei.
  inversion Hd; subst s1 x; clear Hd.
  assert (Hmono : forall id, KP (s_pool s) id -> KP p' id).
  { intros id H. pose proof (insert_KP (s_universe s) (s_pmax s) (s_pool s) t
      (c_nonce (s_chain s) (t_acct t)) (c_bal (s_chain s) (t_acct t))
      (tx_costs (c_fees (s_chain s)) t) id H) as H1. now rewrite Ei in H1. }
  assert (Hlive : forall id, In id (match r with IPending | IParked => set_add (g_live g) id0
                                          | _ => g_live g end) -> KP p' id).
  { intros id Hin. destruct r; try (apply Hmono; now apply HG).
    - apply set_add_In in Hin. destruct Hin as [->|Hin]; [|apply Hmono; now apply HG].
      left. rewrite <- Hid. eapply insert_accepts; eauto.
    - apply set_add_In in Hin. destruct Hin as [->|Hin]; [|apply Hmono; now apply HG].
      left. rewrite <- Hid. eapply insert_accepts; eauto. }
  destruct Ho as [->| ->]; unfold GInv, gupdate; cbn [g_live s_pool set_pool]; exact Hlive.
Qed.

Theorem gstep_G s g o :
  GInv s g -> let '(s1, x) := step s o in GInv s1 (gupdate s g o x).
Proof.
  intros HG. destruct o; cbn [step].
  - destruct (tx_ok s t); exact HG.
  - exact HG.
  - exact HG.
  - exact HG.
  - (* OpIns *)
    destruct (find_def s id) as [t|] eqn:Ef; [|exact HG]. apply find_def_Some in Ef.
    destruct Ef as [Ht Hid].
    destruct (tx_status (s_universe s) (s_pool s) id) as [[| |r]|] eqn:Est; try exact HG.
    + unfold GInv, gupdate. cbn [g_live s_pool set_pool]. intros id' Hin.
      apply set_remove_In in Hin. destruct Hin as [Hin Hne]. specialize (HG id' Hin).
      unfold KP in *. cbn. rewrite assoc_get_remove_other by assumption. exact HG.
    + destruct (t_nonce t <? c_nonce (s_chain s) (t_acct t)); [exact HG|].
      destruct (do_insert s t) as [s1 x] eqn:Ed.
      eapply do_insert_G; eauto.
  - (* OpInsd *)
    destruct (find_def s id) as [t|] eqn:Ef; [|exact HG]. apply find_def_Some in Ef.
    destruct Ef as [Ht Hid].
    destruct (tx_status (s_universe s) (s_pool s) id) eqn:Est; [exact HG|].
    destruct (do_insert s t) as [s1 x] eqn:Ed.
    eapply do_insert_G; eauto.
  - (* OpRm *)
    destruct (find_def s id) as [t|] eqn:Ef; [|exact HG].
    unfold GInv, gupdate. cbn [g_live s_pool set_pool]. intros id' Hin.
    apply remove_tx_invalid_KP. now apply HG.
  - (* OpMaint *)
    set (results := filter _ ids).
    destruct (run_maintenance (s_universe s) (s_pmax s) (s_chain s) (s_pool s) recost results h)
      as [p' nd] eqn:Em.
    unfold GInv, gupdate. cbn [g_live s_pool set_pool]. intros id' Hin.
    pose proof (run_maintenance_KP (s_universe s) (s_pmax s) (s_chain s) (s_pool s) recost
                  results h id' (HG id' Hin)) as H.
    now rewrite Em in H.
  - (* OpAdvance *)
    exact HG.
Qed.

(** the structural invariant along the ghost run *)
Lemma grun_inv ops : forall s g,
  SInv s -> GInv s g ->
  let '(s', g') := grun s g ops in SInv s' /\ GInv s' g'.
Proof.
  induction ops as [|o ops IH]; intros s g HS HG; cbn [grun]; [auto|].
  pose proof (step_SInv s o HS) as H1. pose proof (gstep_G s g o HG) as H2.
  destruct (step s o) as [s1 x]. cbn [fst] in H1. now apply IH.
Qed.

Theorem one_place : stmt_one_place.
Proof.
  unfold stmt_one_place. intros pmax k na ops.
  pose proof (grun_inv ops (init pmax k na) ghost0 (SInv_init pmax k na)) as H.
  assert (HG0 : GInv (init pmax k na) ghost0) by (intros id []).
  specialize (H HG0). destruct (grun (init pmax k na) ghost0 ops) as [s g].
  destruct H as [HS HG]. split; [|split].
  - intros id Hin. apply KP_status. now apply HG.
  - intros id. now apply SInv_place_consistent.
  - intros id. now apply SInv_occurrences.
Qed.
