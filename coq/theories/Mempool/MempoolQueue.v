(** C13 — builder queue: within an account and an action group, lower nonces come first. *)
From Astria Require Import Mempool.MempoolSpec Mempool.MempoolBase Mempool.MempoolOps
  Mempool.MempoolInv Mempool.MempoolInv2 Mempool.MempoolInv3.

Definition q_le (x y : qkey) : Prop := q_before x y = true.

Lemma q_before_refl x : q_before x x = true.
Proof.
  unfold q_before. rewrite !N.eqb_refl, N.leb_refl. cbn. now rewrite !orb_true_r.
Qed.

Lemma q_before_spec x y :
  q_before x y = true <->
  (q_group y < q_group x \/
   (q_group x = q_group y /\
    (q_diff x < q_diff y \/ (q_diff x = q_diff y /\ q_seq x <= q_seq y)))).
Proof.
  unfold q_before.
  rewrite orb_true_iff, andb_true_iff, orb_true_iff, andb_true_iff.
  rewrite !N.ltb_lt, !N.eqb_eq, N.leb_le. tauto.
Qed.

Lemma q_before_total x y : q_before x y = false -> q_before y x = true.
Proof.
  intros H. apply q_before_spec.
  assert (Hn : ~ (q_group y < q_group x \/
   (q_group x = q_group y /\
    (q_diff x < q_diff y \/ (q_diff x = q_diff y /\ q_seq x <= q_seq y))))).
  { intros Hc. apply q_before_spec in Hc. congruence. }
  lia.
Qed.

Lemma q_before_trans x y z : q_before x y = true -> q_before y z = true -> q_before x z = true.
Proof. rewrite !q_before_spec. lia. Qed.

Lemma q_insert_perm x l : Permutation (q_insert x l) (x :: l).
Proof.
  induction l as [|y l IH]; cbn; [reflexivity|]. destruct (q_before x y); [reflexivity|].
  rewrite IH. apply perm_swap.
Qed.

Lemma q_sort_perm l : Permutation (q_sort l) l.
Proof.
  unfold q_sort. induction l as [|x l IH]; cbn; [reflexivity|].
  rewrite q_insert_perm. now constructor.
Qed.

Lemma q_insert_sorted x l : StronglySorted q_le l -> StronglySorted q_le (q_insert x l).
Proof.
  induction l as [|y l IH]; intros H; cbn.
  - constructor; constructor.
  - inversion H as [|? ? Hs Hall]; subst. destruct (q_before x y) eqn:E.
    + constructor; [assumption|]. constructor; [exact E|].
      eapply Forall_impl; [|exact Hall]. intros z Hz. eapply q_before_trans; eauto.
    + constructor; [now apply IH|]. apply Forall_forall. intros z Hz.
      apply (Permutation_in _ (q_insert_perm x l)) in Hz. destruct Hz as [<-|Hz].
      * now apply q_before_total.
      * rewrite Forall_forall in Hall. now apply Hall.
Qed.

Lemma q_sort_sorted l : StronglySorted q_le (q_sort l).
Proof.
  unfold q_sort. induction l as [|x l IH]; cbn; [constructor|]. now apply q_insert_sorted.
Qed.

Lemma sorted_before_in x y l :
  StronglySorted q_le l -> In x l -> In y l -> q_before y x = false -> before_in x y l.
Proof.
  induction l as [|z l IH]; intros Hs Hx Hy Hn; [contradiction|].
  inversion Hs as [|? ? Hs' Hall]; subst. rewrite Forall_forall in Hall.
  destruct Hx as [->|Hx].
  - destruct Hy as [->|Hy]; [rewrite q_before_refl in Hn; discriminate|].
    apply in_split in Hy. destruct Hy as [l2 [l3 ->]]. exists [], l2, l3. reflexivity.
  - destruct Hy as [->|Hy].
    + specialize (Hall x Hx). unfold q_le in Hall. congruence.
    + destruct (IH Hs' Hx Hy Hn) as [l1 [l2 [l3 ->]]]. exists (z :: l1), l2, l3. reflexivity.
Qed.

Lemma before_in_map {A B} (f : A -> B) x y l : before_in x y l -> before_in (f x) (f y) (map f l).
Proof.
  intros [l1 [l2 [l3 ->]]]. exists (map f l1), (map f l2), (map f l3).
  now rewrite map_app, map_cons, map_app, map_cons.
Qed.

(** the head of a sorted list has the least nonce *)
Lemma sorted_head_min f l e : sorted (f :: l) -> In e (f :: l) -> e_nonce f <= e_nonce e.
Proof.
  intros Hs [->|He]; [lia|]. apply sorted_inv in Hs. destruct Hs as [_ Hall].
  rewrite Forall_forall in Hall. specialize (Hall e He). lia.
Qed.

Lemma account_keys_In l e :
  sorted l -> In e l ->
  exists f, In f l /\ e_nonce f <= e_nonce e /\ (forall x, In x l -> e_nonce f <= e_nonce x) /\
            In (mkQ (e_id e) (t_group (e_tx e)) (e_nonce e - e_nonce f) (e_seq e)) (account_keys l).
Proof.
  intros Hs He. destruct l as [|f l]; [contradiction|]. exists f.
  pose proof (sorted_head_min f l e Hs He) as Hmin. split; [now left|]. split; [assumption|].
  split; [intros x Hx; now apply (sorted_head_min f l x Hs)|].
  unfold account_keys. apply in_flat_map. exists e. split; [assumption|].
  destruct (e_nonce e <? e_nonce f) eqn:E; [apply N.ltb_lt in E; lia|now left].
Qed.

Lemma account_keys_ids l k : In k (account_keys l) -> exists e, In e l /\ q_id k = e_id e.
Proof.
  destruct l as [|f l]; [intros []|]. unfold account_keys. intros H. apply in_flat_map in H.
  destruct H as [e [He Hk]]. exists e. split; [assumption|].
  destruct (e_nonce e <? e_nonce f); [destruct Hk|]. destruct Hk as [<-|[]]. reflexivity.
Qed.

Lemma account_keys_NoDup l : NoDup (map e_id l) -> NoDup (map q_id (account_keys l)).
Proof.
  destruct l as [|f l]; [constructor|]. unfold account_keys. generalize (f :: l) as m. intros m.
  induction m as [|e m IH]; intros H; cbn; [constructor|].
  cbn in H. inversion H as [|? ? Hnotin Hnd]; subst. specialize (IH Hnd).
  destruct (e_nonce e <? e_nonce f); cbn; [assumption|]. constructor; [|assumption].
  intros Hin. apply in_map_iff in Hin. destruct Hin as [k [Hk1 Hk2]]. apply in_flat_map in Hk2.
  destruct Hk2 as [e' [He' Hk2]]. apply Hnotin. apply in_map_iff. exists e'. split; [|assumption].
  destruct (e_nonce e' <? e_nonce f); [destruct Hk2|]. destruct Hk2 as [<-|[]]. exact Hk1.
Qed.

Lemma keys_NoDup u defs p accts :
  defs_ok u defs -> CInv defs p -> NoDup accts ->
  NoDup (map q_id (flat_map (fun a => account_keys (p_pending p a)) accts)).
Proof.
  intros Hd Hci. induction accts as [|a accts IH]; intros Hu; cbn; [constructor|].
  inversion Hu as [|? ? Ha Hu']; subst. rewrite map_app. apply NoDup_app_intro.
  - apply account_keys_NoDup. eapply ids_NoDup; eauto; [apply (ci_sorted _ _ Hci a)|].
    intros e He. now apply (ci_def _ _ Hci a e (or_introl He)).
  - now apply IH.
  - intros id H1 H2. apply in_map_iff in H1. destruct H1 as [k1 [Hk1 Hk1']].
    apply in_map_iff in H2. destruct H2 as [k2 [Hk2 Hk2']]. apply in_flat_map in Hk2'.
    destruct Hk2' as [a' [Ha' Hk2']].
    apply account_keys_ids in Hk1'. destruct Hk1' as [e1 [He1 Hid1]].
    apply account_keys_ids in Hk2'. destruct Hk2' as [e2 [He2 Hid2]].
    destruct (held_slot _ _ _ a a' e1 e2 Hd Hci (or_introl He1) (or_introl He2)) as [Haa _];
      [congruence|]. subst a'. contradiction.
Qed.

Theorem queue_order_SInv s :
  SInv s ->
  let q := builder_queue (s_universe s) (s_pool s) in
  NoDup q /\
  forall a e1 e2, In a (s_universe s) ->
    In e1 (p_pending (s_pool s) a) -> In e2 (p_pending (s_pool s) a) ->
    t_group (e_tx e1) = t_group (e_tx e2) -> e_nonce e1 < e_nonce e2 ->
    before_in (e_id e1) (e_id e2) q.
Proof.
  intros [Hu [Hd [Hci HT]]]. cbn zeta. unfold builder_queue.
  set (keys := flat_map (fun a => account_keys (p_pending (s_pool s) a)) (s_universe s)).
  split.
  - apply (Permutation_NoDup (l := map q_id keys)).
    + apply Permutation_map. symmetry. apply q_sort_perm.
    + unfold keys. now apply (keys_NoDup (s_universe s) (s_defs s)).
  - intros a e1 e2 Ha He1 He2 Hg Hn.
    destruct (ci_sorted _ _ Hci a) as [Hsort _].
    destruct (account_keys_In _ e1 Hsort He1) as [f1 [Hf1 [Hle1 [Hmin1 Hk1]]]].
    destruct (account_keys_In _ e2 Hsort He2) as [f2 [Hf2 [Hle2 [Hmin2 Hk2]]]].
    assert (Hff : e_nonce f1 = e_nonce f2).
    { pose proof (Hmin1 f2 Hf2). pose proof (Hmin2 f1 Hf1). lia. }
    set (k1 := mkQ (e_id e1) (t_group (e_tx e1)) (e_nonce e1 - e_nonce f1) (e_seq e1)) in *.
    set (k2 := mkQ (e_id e2) (t_group (e_tx e2)) (e_nonce e2 - e_nonce f2) (e_seq e2)) in *.
    assert (Hin1 : In k1 (q_sort keys)).
    { apply (Permutation_in _ (Permutation_sym (q_sort_perm keys))). unfold keys.
      apply in_flat_map. exists a. split; assumption. }
    assert (Hin2 : In k2 (q_sort keys)).
    { apply (Permutation_in _ (Permutation_sym (q_sort_perm keys))). unfold keys.
      apply in_flat_map. exists a. split; assumption. }
    assert (Hnb : q_before k2 k1 = false).
    { destruct (q_before k2 k1) eqn:E; [|reflexivity]. apply q_before_spec in E.
      unfold k1, k2 in E. cbn in E. lia. }
    pose proof (sorted_before_in k1 k2 (q_sort keys) (q_sort_sorted keys) Hin1 Hin2 Hnb) as Hb.
    apply (before_in_map q_id) in Hb. exact Hb.
Qed.

Theorem queue_order : stmt_queue_order.
Proof.
  unfold stmt_queue_order. intros pmax k na ops.
  apply queue_order_SInv. apply run_SInv. apply SInv_init.
Qed.
