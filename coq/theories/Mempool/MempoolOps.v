(** C13 — shape of the results of the mempool operations (what each one does to the
    containers), used by every invariant proof. *)
From Astria Require Import Mempool.MempoolSpec Mempool.MempoolBase.

(** ** add *)

Lemma pending_acct_add_ok l e cur bal l' :
  pending_acct_add l e cur bal = inl l' ->
  l' = insert_sorted e l /\ cur <= e_nonce e /\ has_nonce l (e_nonce e) = false /\
  seq_ok l (e_nonce e) cur = true /\ affordable (l ++ [e]) bal.
Proof.
  unfold pending_acct_add. destruct (e_nonce e <? cur) eqn:E1; [discriminate|].
  apply N.ltb_ge in E1.
  destruct (find_nonce l (e_nonce e)) eqn:E2; [discriminate|]. apply find_nonce_None in E2.
  destruct (seq_ok l (e_nonce e) cur) eqn:E3; cbn [negb]; [|discriminate].
  destruct (deduct_entries (l ++ [e]) bal) eqn:E4; [|discriminate].
  intros H. inversion H; subst. repeat split; auto.
  apply deduct_entries_affordable. eauto.
Qed.

Lemma parked_acct_add_ok l e cur l' :
  parked_acct_add l e cur = inl l' ->
  l' = insert_sorted e l /\ llen l < MAX_PARKED_PER_ACCOUNT /\ cur <= e_nonce e /\
  has_nonce l (e_nonce e) = false.
Proof.
  unfold parked_acct_add. destruct (MAX_PARKED_PER_ACCOUNT <=? llen l) eqn:E0; [discriminate|].
  apply N.leb_gt in E0.
  destruct (e_nonce e <? cur) eqn:E1; [discriminate|]. apply N.ltb_ge in E1.
  destruct (find_nonce l (e_nonce e)) eqn:E2; [discriminate|]. apply find_nonce_None in E2.
  intros H. inversion H; subst. auto.
Qed.

Lemma parked_add_ok u pmax pk e cur pk' :
  parked_add u pmax pk e cur = inl pk' ->
  parked_len u pk < pmax /\
  exists l', parked_acct_add (pk (e_acct e)) e cur = inl l' /\ pk' = upd pk (e_acct e) l'.
Proof.
  unfold parked_add. destruct (pmax <=? parked_len u pk) eqn:E; [discriminate|].
  apply N.leb_gt in E. destruct (parked_acct_add (pk (e_acct e)) e cur) eqn:E2; [|discriminate].
  intros H. inversion H; subst. eauto.
Qed.

(** ** the scans *)

Lemma last_nonce_cons2 e x l : last_nonce (e :: x :: l) = last_nonce (x :: l).
Proof. reflexivity. Qed.

Lemma last_nonce_cons_some x l : exists n, last_nonce (x :: l) = Some n.
Proof.
  revert x. induction l as [|y l IH]; intros x; [eexists; reflexivity|].
  rewrite last_nonce_cons2. apply IH.
Qed.

Lemma demo_scan_split l : forall b sp0,
  exists l1 l2, l = l1 ++ l2 /\
    (exists b', deduct_entries l1 b = Some b') /\
    demo_scan l b sp0 = match last_nonce l1 with
                        | Some n => saturating_add U32_MAX n 1
                        | None => sp0
                        end /\
    (l1 = [] -> demo_scan l b sp0 = sp0).
Proof.
  induction l as [|e l IH]; intros b sp0.
  - exists [], []. cbn. eauto.
  - cbn [demo_scan]. destruct (deduct (e_costs e) b) as [b1|] eqn:E.
    + destruct (IH b1 (saturating_add U32_MAX (e_nonce e) 1)) as [l1 [l2 [-> [[b' Hd] [Hs Hn]]]]].
      exists (e :: l1), l2. split; [reflexivity|]. split.
      * exists b'. cbn. now rewrite E.
      * split; [|discriminate]. rewrite Hs. destruct l1 as [|x l1]; [reflexivity|].
        rewrite last_nonce_cons2. destruct (last_nonce_cons_some x l1) as [n ->]. reflexivity.
    + exists [], (e :: l). cbn. eauto.
Qed.

Lemma last_nonce_max l n :
  sorted l -> last_nonce l = Some n -> forall e, In e l -> e_nonce e <= n.
Proof.
  unfold sorted. induction l as [|x l IH]; intros Hs Hl e He; [discriminate|].
  apply sorted_inv in Hs. destruct Hs as [Hs Hall]. destruct l as [|y l].
  - cbn in Hl. inversion Hl; subst. destruct He as [->|[]]. lia.
  - cbn [last_nonce] in Hl. destruct He as [->|He].
    + assert (Hy : e_nonce y <= n) by (apply (IH Hs Hl); now left).
      rewrite Forall_forall in Hall. specialize (Hall y (or_introl eq_refl)). lia.
    + now apply (IH Hs Hl).
Qed.

Lemma sorted_app_lt l1 l2 :
  sorted (l1 ++ l2) -> forall x y, In x l1 -> In y l2 -> e_nonce x < e_nonce y.
Proof.
  unfold sorted. induction l1 as [|e l1 IH]; intros Hs x y Hx Hy; [contradiction|].
  cbn in Hs. apply sorted_inv in Hs. destruct Hs as [Hs Hall]. destruct Hx as [->|Hx].
  - rewrite Forall_forall in Hall. apply Hall. apply in_or_app. now right.
  - now apply (IH Hs).
Qed.

Lemma last_nonce_In l n : last_nonce l = Some n -> exists e, In e l /\ e_nonce e = n.
Proof.
  induction l as [|x l IH]; intros H; [discriminate|]. destruct l as [|y l].
  - cbn in H. inversion H; subst. exists x. split; [now left|reflexivity].
  - cbn [last_nonce] in H. destruct (IH H) as [e [He Hn]]. exists e. split; [now right|assumption].
Qed.

(** what [find_demotables] keeps is affordable from the balances it was given *)
Lemma find_demotables_keep_affordable l b :
  sorted l -> affordable (fst (find_demotables l b)) b.
Proof.
  intros Hs. unfold find_demotables. cbn [fst].
  destruct (demo_scan_split l b 0) as [l1 [l2 [-> [Hd [Hsp Hnil]]]]].
  set (sp := demo_scan (l1 ++ l2) b 0) in *.
  assert (Haff : affordable l1 b) by now apply deduct_entries_affordable.
  intros asset. rewrite filter_app, total_cost_app.
  assert (H2 : filter (fun e => e_nonce e <? sp) l2 = []).
  { destruct (last_nonce l1) as [n|] eqn:El.
    - apply filter_nil_local. intros y Hy. apply N.ltb_ge.
      destruct (last_nonce_In _ _ El) as [x [Hx Hn]].
      pose proof (sorted_app_lt _ _ Hs x y Hx Hy) as Hlt. rewrite Hsp.
      unfold saturating_add. pose proof (N.le_min_r U32_MAX (n + 1)). lia.
    - destruct l1 as [|x l1].
      + rewrite Hsp. apply filter_nil_local. intros y _. apply N.ltb_ge. lia.
      + exfalso. clear -El. revert x El. induction l1 as [|y l1 IH]; intros x El.
        * discriminate.
        * cbn [last_nonce] in El. now apply (IH y). }
  rewrite H2. pose proof (total_cost_filter_le (fun e => e_nonce e <? sp) l1 asset).
  specialize (Haff asset). unfold total_cost at 2. cbn. lia.
Qed.

(** ** results as filters of the input list *)

Lemma leb_negb_ltb a b : (a <=? b) = negb (b <? a).
Proof. apply N.leb_antisym. Qed.

Lemma find_demotables_shape l b :
  exists f, find_demotables l b = (filter f l, filter (fun e => negb (f e)) l).
Proof.
  unfold find_demotables. exists (fun e => e_nonce e <? demo_scan l b 0). f_equal.
  apply filter_ext. intros e. apply leb_negb_ltb.
Qed.

(** promoted = the part NOT satisfying [f], kept = the part satisfying [f] *)
Lemma find_promotables_shape l t b :
  exists f, find_promotables l t b = (filter (fun e => negb (f e)) l, filter f l).
Proof.
  unfold find_promotables. destruct (promo_scan l t b 0) as [sp|].
  - exists (fun e => sp <=? e_nonce e). f_equal. apply filter_ext. intros e. apply N.ltb_antisym.
  - exists (fun _ => false). f_equal.
    + symmetry. now apply filter_all_local.
    + symmetry. now apply filter_nil_local.
Qed.

Lemma clean_stale_expired_shape l cur now results h keep rm :
  clean_stale_expired l cur now results h = (keep, rm) ->
  exists f, keep = filter f l /\
    forall id, In id (map fst rm) <-> In id (map e_id (filter (fun e => negb (f e)) l)).
Proof.
  unfold clean_stale_expired.
  set (stale := filter (fun e => e_nonce e <? cur) l).
  set (keep0 := filter (fun e => cur <=? e_nonce e) l).
  set (rs := map (fun e => (e_id e, if mem (e_id e) results then RIncl h else RStale)) stale).
  assert (Hrs : map fst rs = map e_id stale).
  { unfold rs. rewrite map_map. apply map_ext. reflexivity. }
  assert (Hstale : stale = filter (fun e => negb (cur <=? e_nonce e)) l).
  { unfold stale. apply filter_ext. intros e. rewrite leb_negb_ltb. now rewrite negb_involutive. }
  destruct keep0 as [|f0 rest] eqn:Ek.
  - intros H. inversion H; subst. exists (fun e => cur <=? e_nonce e). split; [now rewrite <- Ek|].
    intros id. now rewrite Hrs, Hstale.
  - destruct (TX_TTL <? now - e_born f0).
    + intros H. inversion H; subst. exists (fun _ => false). split.
      * symmetry. now apply filter_nil_local.
      * intros id. rewrite map_app, in_app_iff, Hrs. cbn [map fst In].
        rewrite map_map. cbn [fst].
        assert (Hall : filter (fun _ : entry => negb false) l = l) by now apply filter_all_local.
        rewrite Hall. change (e_id f0 = id \/ In id (map (fun x => e_id x) rest))
          with (In id (map e_id (f0 :: rest))). rewrite <- Ek. unfold keep0.
        rewrite !in_map_iff. split.
        -- intros [[e [H1 H2]]|[e [H1 H2]]]; exists e; split; auto.
           ++ unfold stale in H2. apply filter_In in H2. tauto.
           ++ apply filter_In in H2. tauto.
        -- intros [e [H1 H2]]. destruct (cur <=? e_nonce e) eqn:E.
           ++ right. exists e. split; auto. apply filter_In. tauto.
           ++ left. exists e. split; auto. unfold stale. apply filter_In. split; auto.
              apply N.leb_gt in E. now apply N.ltb_lt.
    + intros H. inversion H; subst. exists (fun e => cur <=? e_nonce e). split; [now rewrite <- Ek|].
      intros id. now rewrite Hrs, Hstale.
Qed.

Lemma clean_stale_expired_keep l cur now results h :
  fst (clean_stale_expired l cur now results h) = [] \/
  fst (clean_stale_expired l cur now results h) = filter (fun e => cur <=? e_nonce e) l.
Proof.
  unfold clean_stale_expired. destruct (filter (fun e => cur <=? e_nonce e) l) as [|f0 rest] eqn:E.
  - now left.
  - destruct (TX_TTL <? now - e_born f0); [now left|now right].
Qed.

(** the promotables of [insert]: none when the nonce has no successor *)
Lemma insert_promotables_shape (big : bool) l t b :
  exists f, (if big then ([], l) else find_promotables l t b) =
            (filter (fun e => negb (f e)) l, filter f l).
Proof.
  destruct big; [|apply find_promotables_shape]. exists (fun _ => true). f_equal.
  - symmetry. now apply filter_nil_local.
  - symmetry. now apply filter_all_local.
Qed.
