(** C05 -- executable model of the sequencer's ABCI call paths
    (crates/astria-sequencer/src/app/mod.rs, app/execution_state.rs,
    oracles/price_feed/oracle/state_ext.rs, checked_actions/currency_pairs_change.rs).

    Proof-free.  Three layers:
    - [exec_state]: the ExecutionStateMachine, verbatim (6 states, 4 transitions), generic in
      the cached proposal type (an opaque comparable record).
    - the oracle store (currency pair -> id, nonce, price) with [put_price] failing on a missing
      pair, and the two CurrencyPairsChange actions.
    - [app] = committed state + working state (with the ephemeral object store) + execution
      state + staged write batch, and the calls PrepareProposal / ProcessProposal /
      FinalizeBlock / Commit / restart in the order the code performs their steps.  In
      particular FinalizeBlock applies the oracle prices of the block BEFORE it looks at
      [skip_execution]: on the cached path that is after the transactions ran (in
      ProcessProposal), on the fresh path before.

    The request fields the application reads besides the transactions -- height, block time,
    proposer address, next validators hash, last commit (round + votes), misbehavior -- form the
    record [bmeta]; the cached-proposal comparison [proposal_eqb] compares them field by field,
    in the order of the derived [PartialEq] of [CachedProposal].

    Everything of the state except the oracle store is an abstract ledger [L] with deterministic
    functions (section variables): [l_pre] (upgrade + begin_block: it sees the whole [bmeta], in
    particular the misbehavior list -- AuthorityComponent::begin_block removes the named
    validators --, the block time and the next validators hash), [l_exec] (one transaction:
    nonce, fees, all non-oracle actions, sudo check of oracle actions), [l_check]
    (CheckedTransaction::new on the non-oracle part), [l_post] (end_block, fee payout, deposits,
    sequencer block -- stored under the CometBFT block hash, with time and proposer --, consensus
    params; yields the validator / consensus-param updates [R]),
    [commit_of] (rollup data commitments), [uh_at] (upgrade change hashes due at a block). *)
From Astria Require Import Base.Bounded.

(* ------------------------------------------------------------------------------------------ *)
(** * ExecutionStateMachine (app/execution_state.rs) *)

Section ESM.
  Variable P : Type.                       (* CachedProposal *)
  Variable p_eqb : P -> P -> bool.

  Inductive exec_state : Type :=
  | Unset
  | Prepared (p : P)
  | PreparedValid (p : P)
  | CheckedPreparedMismatch (p : P)
  | ExecutedBlock (h : N) (p : option P)
  | CheckedExecutedBlockMismatch (h : N) (p : option P).

  (** [set_prepared_proposal]: error unless [Unset]. *)
  Definition set_prepared_proposal (s : exec_state) (p : P) : option exec_state :=
    match s with
    | Unset => Some (Prepared p)
    | _ => None
    end.

  (** [check_if_prepared_proposal]: only [Prepared] / [PreparedValid] are compared. *)
  Definition check_if_prepared_proposal (s : exec_state) (req : P) : exec_state * bool :=
    match s with
    | Prepared c | PreparedValid c =>
        if p_eqb c req then (PreparedValid c, true) else (CheckedPreparedMismatch c, false)
    | _ => (s, false)
    end.

  (** [set_executed_block]: allowed from [Unset] and [PreparedValid] only. *)
  Definition set_executed_block (s : exec_state) (h : N) : option exec_state :=
    match s with
    | Unset => Some (ExecutedBlock h None)
    | PreparedValid c => Some (ExecutedBlock h (Some c))
    | _ => None
    end.

  (** [check_if_executed_block]. *)
  Definition check_if_executed_block (s : exec_state) (h : N) : exec_state * bool :=
    match s with
    | Prepared c | PreparedValid c => (CheckedPreparedMismatch c, false)
    | ExecutedBlock ch cp =>
        if N.eqb h ch then (s, true) else (CheckedExecutedBlockMismatch ch cp, false)
    | _ => (s, false)
    end.
End ESM.

Arguments Unset {P}.
Arguments Prepared {P} p.
Arguments PreparedValid {P} p.
Arguments CheckedPreparedMismatch {P} p.
Arguments ExecutedBlock {P} h p.
Arguments CheckedExecutedBlockMismatch {P} h p.
Arguments set_prepared_proposal {P} s p.
Arguments check_if_prepared_proposal {P} p_eqb s req.
Arguments set_executed_block {P} s h.
Arguments check_if_executed_block {P} s h.

(* ------------------------------------------------------------------------------------------ *)
(** * Oracle store (oracles/price_feed/oracle/state_ext.rs) *)

Record pstate := { ps_id : N; ps_nonce : N; ps_price : option (N * N) }.   (* price, block height *)
Record ostate := { o_pairs : list (N * pstate); o_next : N; o_num : N }.

Fixpoint o_lookup (k : N) (l : list (N * pstate)) : option pstate :=
  match l with
  | [] => None
  | (k', v) :: r => if N.eqb k' k then Some v else o_lookup k r
  end.

(** overwrite in place (first entry with the key), else append *)
Fixpoint o_put (k : N) (v : pstate) (l : list (N * pstate)) : list (N * pstate) :=
  match l with
  | [] => [(k, v)]
  | (k', v') :: r => if N.eqb k' k then (k', v) :: r else (k', v') :: o_put k v r
  end.

Definition o_del (k : N) (l : list (N * pstate)) : list (N * pstate) :=
  filter (fun kv => negb (N.eqb (fst kv) k)) l.

(** [put_price_for_currency_pair]: "currency pair state not found" / "increment nonce overflowed" *)
Definition put_price (o : ostate) (k price h : N) : option ostate :=
  match o_lookup k (o_pairs o) with
  | None => None
  | Some ps =>
      if ps_nonce ps <? U64_MAX
      then Some {| o_pairs := o_put k {| ps_id := ps_id ps; ps_nonce := ps_nonce ps + 1;
                                         ps_price := Some (price, h) |} (o_pairs o);
                   o_next := o_next o; o_num := o_num o |}
      else None
  end.

(** [apply_prices_from_vote_extensions]: the prices in the block's order, first failure aborts *)
Fixpoint apply_prices (o : ostate) (prices : list (N * N)) (h : N) : option ostate :=
  match prices with
  | [] => Some o
  | (k, p) :: r =>
      match put_price o k p h with
      | None => None
      | Some o' => apply_prices o' r h
      end
  end.

Inductive oaction := OAdd (ps : list N) | ORemove (ps : list N).

Definition is_some {A} (x : option A) : bool := match x with Some _ => true | None => false end.

(** [CheckedCurrencyPairsChange::run_mutable_checks] (the sudo check lives in the ledger part) *)
Definition oaction_check (o : ostate) (a : oaction) : bool :=
  match a with
  | OAdd ps => forallb (fun k => negb (is_some (o_lookup k (o_pairs o)))) ps
  | ORemove ps => forallb (fun k => is_some (o_lookup k (o_pairs o))) ps
  end.

(** [execute_currency_pairs_addition] *)
Fixpoint oadd_loop (pairs : list (N * pstate)) (next num : N) (ps : list N)
  : option (list (N * pstate) * N * N) :=
  match ps with
  | [] => Some (pairs, next, num)
  | k :: r =>
      let pairs' := o_put k {| ps_id := next; ps_nonce := 0; ps_price := None |} pairs in
      match checked_add U64_MAX num 1, checked_add U64_MAX next 1 with
      | Some num', Some next' => oadd_loop pairs' next' num' r
      | _, _ => None
      end
  end.

(** [execute_currency_pairs_removal]: every pair must still have an id when it is removed *)
Fixpoint orem_loop (pairs : list (N * pstate)) (ps : list N) : option (list (N * pstate)) :=
  match ps with
  | [] => Some pairs
  | k :: r =>
      match o_lookup k pairs with
      | None => None
      | Some _ => orem_loop (o_del k pairs) r
      end
  end.

Definition oaction_exec (o : ostate) (a : oaction) : option ostate :=
  if oaction_check o a then
    match a with
    | OAdd ps =>
        match oadd_loop (o_pairs o) (o_next o) (o_num o) ps with
        | Some (pairs, next, num) => Some {| o_pairs := pairs; o_next := next; o_num := num |}
        | None => None
        end
    | ORemove ps =>
        match orem_loop (o_pairs o) ps with
        | Some pairs =>
            match checked_sub (o_num o) (N.of_nat (length ps)) with
            | Some num => Some {| o_pairs := pairs; o_next := o_next o; o_num := num |}
            | None => None
            end
        | None => None
        end
    end
  else None.

Fixpoint oactions_exec (o : ostate) (acts : list oaction) : option ostate :=
  match acts with
  | [] => Some o
  | a :: r =>
      match oaction_exec o a with
      | None => None
      | Some o' => oactions_exec o' r
      end
  end.

(** the currency pairs an action / a price list mentions *)
Definition oaction_pairs (a : oaction) : list N :=
  match a with OAdd ps => ps | ORemove ps => ps end.

(* ------------------------------------------------------------------------------------------ *)
(** * Transactions, blocks *)

Record tx := {
  tx_id : N;
  tx_signer : N;
  tx_nonce : N;
  tx_group : N;            (* 1 UnbundleableSudo < 2 BundleableSudo < 3 UnbundleableGeneral < 4 BundleableGeneral *)
  tx_body : N;             (* the non-oracle actions: opaque, interpreted by the ledger functions only *)
  tx_oacts : list oaction; (* the CurrencyPairsChange actions, in order *)
  tx_vupd : list (N * N)   (* the ValidatorUpdate actions (validator, power), in order; interpreted
                              by the ledger functions only *)
}.

Definition GROUP_TOP : N := 4.

Fixpoint list_eqb {A} (eqb : A -> A -> bool) (l1 l2 : list A) : bool :=
  match l1, l2 with
  | [], [] => true
  | x :: r1, y :: r2 => eqb x y && list_eqb eqb r1 r2
  | _, _ => false
  end.

Definition oaction_eqb (a b : oaction) : bool :=
  match a, b with
  | OAdd p, OAdd q => list_eqb N.eqb p q
  | ORemove p, ORemove q => list_eqb N.eqb p q
  | _, _ => false
  end.

Definition price_eqb (a b : N * N) : bool := N.eqb (fst a) (fst b) && N.eqb (snd a) (snd b).

Definition tx_eqb (a b : tx) : bool :=
  N.eqb (tx_id a) (tx_id b) && N.eqb (tx_signer a) (tx_signer b) &&
  N.eqb (tx_nonce a) (tx_nonce b) && N.eqb (tx_group a) (tx_group b) &&
  N.eqb (tx_body a) (tx_body b) && list_eqb oaction_eqb (tx_oacts a) (tx_oacts b) &&
  list_eqb price_eqb (tx_vupd a) (tx_vupd b).

(** The [txs] field of a CometBFT block as the app sees it after [ExpandedBlockData] parsing. *)
Record bdata := {
  d_wf : bool;                 (* the data items parse (right number / kinds for this height) *)
  d_ecvalid : bool;            (* ProposalHandler::validate_proposal accepts the extended commit *)
  d_prices : list (N * N);     (* (pair, median price) the extended commit + mapping yield; [] if none *)
  d_uh : N;                    (* upgrade change hashes item *)
  d_commit : list N;           (* rollup data commitments *)
  d_txs : list tx              (* user-submitted transactions *)
}.

Definition bdata_eqb (a b : bdata) : bool :=
  Bool.eqb (d_wf a) (d_wf b) && Bool.eqb (d_ecvalid a) (d_ecvalid b) &&
  list_eqb price_eqb (d_prices a) (d_prices b) && N.eqb (d_uh a) (d_uh b) &&
  list_eqb N.eqb (d_commit a) (d_commit b) && list_eqb tx_eqb (d_txs a) (d_txs b).

(** The fields of a PrepareProposal / ProcessProposal / FinalizeBlock request which the
    application reads besides [txs] and the block hash. *)
Record bmeta := {
  m_height : N;
  m_time : N;                  (* block time: put_block_timestamp, IBC consensus state, price timestamps,
                                  sequencer block header *)
  m_proposer : N;              (* proposer address: sequencer block header *)
  m_nvh : N;                   (* next validators hash: IBC consensus state *)
  m_lc_round : N;              (* local / proposed / decided last commit: round ... *)
  m_lc_votes : list (N * N);   (* ... and votes (validator, block id flag) *)
  m_misb : list N              (* misbehavior: the validators the evidence names *)
}.

Definition commit_eqb (r1 : N) (v1 : list (N * N)) (r2 : N) (v2 : list (N * N)) : bool :=
  N.eqb r1 r2 && list_eqb price_eqb v1 v2.

(** CachedProposal (app/execution_state.rs) = the request fields + [txs]; its derived [PartialEq]
    compares, in declaration order: time, proposer_address, txs, proposed_last_commit,
    misbehavior, next_validators_hash, height. *)
Definition proposal : Type := bmeta * bdata.
Definition proposal_eqb (a b : proposal) : bool :=
  let (ma, da) := a in
  let (mb, db) := b in
  N.eqb (m_time ma) (m_time mb) &&
  N.eqb (m_proposer ma) (m_proposer mb) &&
  bdata_eqb da db &&
  commit_eqb (m_lc_round ma) (m_lc_votes ma) (m_lc_round mb) (m_lc_votes mb) &&
  list_eqb N.eqb (m_misb ma) (m_misb mb) &&
  N.eqb (m_nvh ma) (m_nvh mb) &&
  N.eqb (m_height ma) (m_height mb).

Record block := { b_hash : N; b_meta : bmeta; b_data : bdata }.

(** an executed transaction and whether its result code is Ok *)
Definition etx : Type := tx * bool.

Inductive xres (S : Type) := XOk (s : S) | XSoft | XFail.
Arguments XOk {S} s.
Arguments XSoft {S}.
Arguments XFail {S}.

Inductive err :=
| EParse | EExtCommit | EUpgradeHash | EConstruct | EGroup | ETxFail | ECommitment
| EExecState | ESeqBlock | EPutPrice | ENoExecuted.

(* ------------------------------------------------------------------------------------------ *)
(** * The application *)

Section App.
  Variable L : Type.
  Variable R : Type.                               (* validator + consensus-param updates *)
  Variable l_pre : L -> bmeta -> L.                (* pre_execute_transactions: upgrade, begin_block
                                                      (misbehavior, time, next validators hash ...) *)
  Variable l_check : L -> tx -> bool.              (* CheckedTransaction::new, non-oracle part *)
  Variable l_exec : L -> tx -> xres L.             (* execution, non-oracle part *)
  Variable l_post : L -> N -> bmeta -> L * R.      (* end_block .. consensus params, by block hash and
                                                      request fields (height, time, proposer) *)
  Variable commit_of : L -> list tx -> list N.     (* rollup data commitments *)
  Variable uh_at : bmeta -> N.                     (* expected upgrade change hashes *)
  Variable height_of : bmeta -> N.                 (* the height FinalizeBlock stamps prices with *)

  Record state := { s_l : L; s_o : ostate }.

  (** working state = [self.state] including its ephemeral object store *)
  Record wstate := {
    w_s : state;
    w_executed : option (list etx);                (* EXECUTED_TXS_KEY *)
    w_result : option (list etx * R)               (* POST_TRANSACTION_EXECUTION_RESULT_KEY *)
  }.

  Record app := {
    a_committed : state;                           (* storage.latest_snapshot() *)
    a_working : wstate;
    a_exec : exec_state proposal;
    a_staged : option state                        (* write_batch *)
  }.

  Definition fresh (c : state) : wstate :=
    {| w_s := c; w_executed := None; w_result := None |}.

  Definition init_app (c : state) : app :=
    {| a_committed := c; a_working := fresh c; a_exec := Unset; a_staged := None |}.

  (** [update_state_for_new_round] *)
  Definition new_round (a : app) : app :=
    {| a_committed := a_committed a; a_working := fresh (a_committed a); a_exec := Unset;
       a_staged := a_staged a |}.

  Definition with_working (a : app) (w : wstate) : app :=
    {| a_committed := a_committed a; a_working := w; a_exec := a_exec a; a_staged := a_staged a |}.
  Definition with_exec (a : app) (e : exec_state proposal) : app :=
    {| a_committed := a_committed a; a_working := a_working a; a_exec := e; a_staged := a_staged a |}.
  Definition with_state (w : wstate) (s : state) : wstate :=
    {| w_s := s; w_executed := w_executed w; w_result := w_result w |}.

  (** [pre_execute_transactions] *)
  Definition pre_exec (s : state) (meta : bmeta) : state :=
    {| s_l := l_pre (s_l s) meta; s_o := s_o s |}.

  (** CheckedTransaction::new against one state: all actions are checked against the SAME state *)
  Definition check_tx (s : state) (t : tx) : bool :=
    l_check (s_l s) t && forallb (oaction_check (s_o s)) (tx_oacts t).

  (** [App::execute_transaction]: all or nothing *)
  Definition exec_tx (s : state) (t : tx) : xres state :=
    match l_exec (s_l s) t with
    | XFail => XFail
    | XSoft => XSoft
    | XOk l' =>
        match oactions_exec (s_o s) (tx_oacts t) with
        | None => XFail
        | Some o' => XOk {| s_l := l'; s_o := o' |}
        end
    end.

  (** the transaction loop of PrepareProposal (block size limits not modelled) *)
  Fixpoint prepare_loop (s : state) (cur : N) (mem : list tx) : state * list etx :=
    match mem with
    | [] => (s, [])
    | t :: r =>
        if cur <? tx_group t then prepare_loop s cur r
        else match exec_tx s t with
             | XOk s' => let (sf, inc) := prepare_loop s' (tx_group t) r in (sf, (t, true) :: inc)
             | XSoft => let (sf, inc) := prepare_loop s (tx_group t) r in (sf, (t, false) :: inc)
             | XFail => prepare_loop s cur r
             end
    end.

  (** ... of ProcessProposal: any failure rejects; the state reached so far stays in place *)
  Fixpoint process_loop (s : state) (cur : N) (txs : list tx) : state * (list etx + err) :=
    match txs with
    | [] => (s, inl [])
    | t :: r =>
        if cur <? tx_group t then (s, inr EGroup)
        else match exec_tx s t with
             | XOk s' =>
                 match process_loop s' (tx_group t) r with
                 | (sf, inl ex) => (sf, inl ((t, true) :: ex))
                 | (sf, inr e) => (sf, inr e)
                 end
             | XSoft =>
                 match process_loop s (tx_group t) r with
                 | (sf, inl ex) => (sf, inl ((t, false) :: ex))
                 | (sf, inr e) => (sf, inr e)
                 end
             | XFail => (s, inr ETxFail)
             end
    end.

  (** ... of FinalizeBlock: no group check, failing transactions are ignored *)
  Fixpoint finalize_loop (s : state) (txs : list tx) : state * list etx :=
    match txs with
    | [] => (s, [])
    | t :: r =>
        match exec_tx s t with
        | XOk s' => let (sf, ex) := finalize_loop s' r in (sf, (t, true) :: ex)
        | XSoft => let (sf, ex) := finalize_loop s r in (sf, (t, false) :: ex)
        | XFail => finalize_loop s r
        end
    end.

  (** [post_execute_transactions]: the execution state is set first; building the SequencerBlock
      re-checks the block's commitments against the executed transactions. *)
  Definition post_exec (a : app) (b : block) (ex : list etx) : app * option err :=
    match set_executed_block (a_exec a) (b_hash b) with
    | None => (a, Some EExecState)
    | Some e' =>
        let w := a_working a in
        let '(l', r) := l_post (s_l (w_s w)) (b_hash b) (b_meta b) in
        let s' := {| s_l := l'; s_o := s_o (w_s w) |} in
        if list_eqb N.eqb (d_commit (b_data b)) (commit_of (s_l (w_s w)) (map fst ex))
        then (with_exec (with_working a {| w_s := s'; w_executed := w_executed w;
                                           w_result := Some (ex, r) |}) e', None)
        else (with_exec (with_working a (with_state w s')) e', Some ESeqBlock)
    end.

  Inductive outcome :=
  | OPrepared (d : bdata)
  | OAccept
  | OFinalized (res : list (N * bool)) (r : R) (s : state)
  | OCommitted
  | ORestarted
  | OErr (e : err)
  | OPanic.

  (** [App::prepare_proposal]; [prices] = what ProposalHandler::prepare_proposal makes of the local
      last commit ([] when vote extensions are off or the commit does not validate). *)
  Definition prepare (a : app) (meta : bmeta) (mem : list tx) (prices : list (N * N)) : app * outcome :=
    let a0 := new_round a in
    let s1 := pre_exec (a_committed a0) meta in
    let '(sf, inc) := prepare_loop s1 GROUP_TOP mem in
    let d := {| d_wf := true; d_ecvalid := true; d_prices := prices; d_uh := uh_at meta;
                d_commit := commit_of (s_l sf) (map fst inc); d_txs := map fst inc |} in
    let w := {| w_s := sf; w_executed := Some inc; w_result := None |} in
    match set_prepared_proposal (a_exec a0) (meta, d) with
    | None => (with_working a0 w, OErr EExecState)
    | Some e => (with_exec (with_working a0 w) e, OPrepared d)
    end.

  (** [App::process_proposal] *)
  Definition process (a : app) (b : block) : app * outcome :=
    let d := b_data b in
    let '(e1, skip) := check_if_prepared_proposal proposal_eqb (a_exec a) (b_meta b, d) in
    let a1 := with_exec a e1 in
    match e1 with
    | Prepared _ => (a1, OErr EExecState)
    | _ =>
      if negb (d_wf d) then (a1, OErr EParse)
      else if skip then
        match w_executed (a_working a1) with
        | None => (a1, OErr ENoExecuted)
        | Some ex =>
            match post_exec a1 b ex with
            | (a2, None) => (a2, OAccept)
            | (a2, Some e) => (a2, OErr e)
            end
        end
      else
        let a2 := new_round a1 in
        if negb (d_ecvalid d) then (a2, OErr EExtCommit)
        else
          let s1 := pre_exec (a_committed a2) (b_meta b) in
          let a3 := with_working a2 (fresh s1) in
          if negb (N.eqb (d_uh d) (uh_at (b_meta b))) then (a3, OErr EUpgradeHash)
          else if negb (forallb (check_tx s1) (d_txs d)) then (a3, OErr EConstruct)
          else
            match process_loop s1 GROUP_TOP (d_txs d) with
            | (sf, inr e) => (with_working a3 (fresh sf), OErr e)
            | (sf, inl ex) =>
                let a4 := with_working a3 (fresh sf) in
                if negb (list_eqb N.eqb (d_commit d) (commit_of (s_l sf) (d_txs d)))
                then (a4, OErr ECommitment)
                else match post_exec a4 b ex with
                     | (a5, None) => (a5, OAccept)
                     | (a5, Some e) => (a5, OErr e)
                     end
            end
    end.

  (** [App::finalize_block] *)
  Definition finalize (a : app) (b : block) : app * outcome :=
    let d := b_data b in
    let '(e1, skip) := check_if_executed_block (a_exec a) (b_hash b) in
    let a1 := if skip then with_exec a e1 else new_round (with_exec a e1) in
    if negb (d_wf d) then (a1, OErr EParse)
    else
      (* oracle prices first, whatever the path *)
      match apply_prices (s_o (w_s (a_working a1))) (d_prices d) (height_of (b_meta b)) with
      | None => (a1, OErr EPutPrice)
      | Some o' =>
          let w1 := with_state (a_working a1) {| s_l := s_l (w_s (a_working a1)); s_o := o' |} in
          let a2 := with_working a1 w1 in
          let run : app * option err :=
            if skip then (a2, None)
            else
              let s1 := pre_exec (w_s w1) (b_meta b) in
              let a3 := with_working a2 (with_state w1 s1) in
              if negb (N.eqb (d_uh d) (uh_at (b_meta b))) then (a3, Some EUpgradeHash)
              else if negb (forallb (check_tx s1) (d_txs d)) then (a3, Some EConstruct)
              else
                let '(sf, ex) := finalize_loop s1 (d_txs d) in
                post_exec (with_working a3 (with_state w1 sf)) b ex in
          match run with
          | (a4, Some e) => (a4, OErr e)
          | (a4, None) =>
              match w_result (a_working a4) with
              | None => (a4, OPanic)
              | Some (ex, r) =>
                  let s := w_s (a_working a4) in
                  (* prepare_commit: the working state becomes the staged write batch *)
                  ({| a_committed := a_committed a4; a_working := fresh (a_committed a4);
                      a_exec := a_exec a4; a_staged := Some s |},
                   OFinalized (map (fun e => (tx_id (fst e), snd e)) ex) r s)
              end
          end
      end.

  (** [App::commit] *)
  Definition commit (a : app) : app * outcome :=
    match a_staged a with
    | None => (a, OPanic)
    | Some s => (init_app s, OCommitted)
    end.

  (** a new process on the same storage *)
  Definition restart (a : app) : app * outcome := (init_app (a_committed a), ORestarted).

  Inductive call :=
  | CPrepare (meta : bmeta) (mem : list tx) (prices : list (N * N))
  | CProcess (b : block)
  | CFinalize (b : block)
  | CCommit
  | CRestart.

  Definition step (a : app) (c : call) : app * outcome :=
    match c with
    | CPrepare m mem ps => prepare a m mem ps
    | CProcess b => process a b
    | CFinalize b => finalize a b
    | CCommit => commit a
    | CRestart => restart a
    end.

  Fixpoint run (a : app) (cs : list call) : app * list outcome :=
    match cs with
    | [] => (a, [])
    | c :: r => let (a', o) := step a c in let (af, os) := run a' r in (af, o :: os)
    end.

  (** ** One consensus height, as CometBFT may drive it (abci++ grammar: consensus-height =
      *consensus-round decide commit; proposer = [prepare-proposal [process-proposal]],
      non-proposer = [process-proposal]; a crash restarts the process at any point). *)
  Inductive round :=
  | RProposer (meta : bmeta) (mem : list tx) (prices : list (N * N)) (own_hash : option N)
      (* PrepareProposal; with [Some h]: ProcessProposal of the own proposal, block hash h *)
  | RValidator (b : block)              (* ProcessProposal of somebody's proposal *)
  | RRestart.

  Definition round_step (a : app) (r : round) : app :=
    match r with
    | RProposer m mem ps own =>
        match prepare a m mem ps with
        | (a1, OPrepared d) =>
            match own with
            | Some h => fst (process a1 {| b_hash := h; b_meta := m; b_data := d |})
            | None => a1
            end
        | (a1, _) => a1
        end
    | RValidator b => fst (process a b)
    | RRestart => fst (restart a)
    end.

  Definition rounds (a : app) (rs : list round) : app := fold_left round_step rs a.

  (** the height as seen from outside: FinalizeBlock's outcome and the state after Commit *)
  Definition decide (a : app) (rs : list round) (D : block) : outcome * option state :=
    let (a1, o) := finalize (rounds a rs) D in
    match o with
    | OFinalized _ _ _ => (o, Some (a_committed (fst (commit a1))))
    | _ => (o, None)
    end.

  (** the blocks a round shows to the application *)
  Definition round_blocks (a_c : state) (r : round) : list block :=
    match r with
    | RProposer m mem ps (Some h) =>
        match prepare (init_app a_c) m mem ps with
        | (_, OPrepared d) => [{| b_hash := h; b_meta := m; b_data := d |}]
        | _ => []
        end
    | RValidator b => [b]
    | _ => []
    end.
End App.

Arguments s_l {L} s.
Arguments s_o {L} s.

(* ------------------------------------------------------------------------------------------ *)
(** * Price / pair interaction classes *)

Definition block_priced (d : bdata) : list N := map fst (d_prices d).
Definition block_touched (d : bdata) : list N :=
  flat_map (fun t => flat_map oaction_pairs (tx_oacts t)) (d_txs d).

Definition mem_N (k : N) (l : list N) : bool := existsb (N.eqb k) l.

(** the known class (finding F7): the block carries an oracle price for a pair that one of its
    transactions adds or removes *)
Definition known_f7 (d : bdata) : bool :=
  existsb (fun k => mem_N k (block_touched d)) (block_priced d).

(* ------------------------------------------------------------------------------------------ *)
(** * A concrete ledger for the extracted driver and the examples: per-signer nonces, the log of
    executed transaction ids, the validator set, and what begin_block / the sequencer block store
    keep of the request fields (height, time, next validators hash; block hash and proposer).
    [tx_body]: 0 executes, 1 fails (fatal), 2 is not even constructible, 3 fails non-fatally
    (IbcRelay after Blackburn). *)

Record cledger := {
  cl_nonces : list (N * N);
  cl_log : list N;
  cl_height : N;               (* put_block_height *)
  cl_time : N;                 (* put_block_timestamp / IBC consensus state *)
  cl_nvh : N;                  (* IBC consensus state: next validators hash *)
  cl_vals : list (N * N);      (* validator set: (validator, power) *)
  cl_block : N * N             (* the stored sequencer block: (CometBFT block hash, proposer) *)
}.

Fixpoint nonce_of (k : N) (l : list (N * N)) : N :=
  match l with
  | [] => 0
  | (k', v) :: r => if N.eqb k' k then v else nonce_of k r
  end.

Fixpoint nonce_bump (k : N) (l : list (N * N)) : list (N * N) :=
  match l with
  | [] => [(k, 1)]
  | (k', v) :: r => if N.eqb k' k then (k', v + 1) :: r else (k', v) :: nonce_bump k r
  end.

Definition v_has (k : N) (vs : list (N * N)) : bool := existsb (fun kv => N.eqb (fst kv) k) vs.
Definition v_remove (k : N) (vs : list (N * N)) : list (N * N) :=
  filter (fun kv => negb (N.eqb (fst kv) k)) vs.
Fixpoint v_put (k p : N) (vs : list (N * N)) : list (N * N) :=
  match vs with
  | [] => [(k, p)]
  | (k', p') :: r => if N.eqb k' k then (k', p) :: r else (k', p') :: v_put k p r
  end.

(** AuthorityComponent::begin_block (post Aspen): every validator named by the evidence that is
    still in the set is removed *)
Definition slash (vs : list (N * N)) (misb : list N) : list (N * N) :=
  fold_left (fun acc k => v_remove k acc) misb vs.

(** CheckedValidatorUpdate: removing (power 0) needs an existing validator which is not the only one *)
Definition vupd_ok (vs : list (N * N)) (u : N * N) : bool :=
  negb (N.eqb (snd u) 0) || ((1 <? N.of_nat (length vs)) && v_has (fst u) vs).
Fixpoint vupd_apply (vs : list (N * N)) (us : list (N * N)) : option (list (N * N)) :=
  match us with
  | [] => Some vs
  | u :: r =>
      if vupd_ok vs u
      then vupd_apply (if N.eqb (snd u) 0 then v_remove (fst u) vs else v_put (fst u) (snd u) vs) r
      else None
  end.

Definition cl_pre (l : cledger) (m : bmeta) : cledger :=
  {| cl_nonces := cl_nonces l; cl_log := cl_log l; cl_height := m_height m; cl_time := m_time m;
     cl_nvh := m_nvh m; cl_vals := slash (cl_vals l) (m_misb m); cl_block := cl_block l |}.
Definition cl_check (l : cledger) (t : tx) : bool :=
  (nonce_of (tx_signer t) (cl_nonces l) <=? tx_nonce t) && negb (N.eqb (tx_body t) 2) &&
  forallb (vupd_ok (cl_vals l)) (tx_vupd t).
Definition cl_exec (l : cledger) (t : tx) : xres cledger :=
  if N.eqb (nonce_of (tx_signer t) (cl_nonces l)) (tx_nonce t) then
    if N.eqb (tx_body t) 0 then
      match vupd_apply (cl_vals l) (tx_vupd t) with
      | Some vs =>
          XOk {| cl_nonces := nonce_bump (tx_signer t) (cl_nonces l); cl_log := cl_log l ++ [tx_id t];
                 cl_height := cl_height l; cl_time := cl_time l; cl_nvh := cl_nvh l; cl_vals := vs;
                 cl_block := cl_block l |}
      | None => XFail
      end
    else if N.eqb (tx_body t) 3 then XSoft
    else XFail
  else XFail.
Definition cl_post (l : cledger) (hash : N) (m : bmeta) : cledger * N :=
  ({| cl_nonces := cl_nonces l; cl_log := cl_log l; cl_height := cl_height l; cl_time := cl_time l;
      cl_nvh := cl_nvh l; cl_vals := cl_vals l; cl_block := (hash, m_proposer m) |}, 0).
Definition cl_commit_of (l : cledger) (txs : list tx) : list N := map tx_id txs.
Definition cl_uh_at (m : bmeta) : N := 0.
Definition cl_height_of (m : bmeta) : N := m_height m.

Definition c_state := state cledger.
Definition c_app := app cledger N.
Definition c_step : c_app -> call -> c_app * outcome cledger N :=
  step cledger N cl_pre cl_check cl_exec cl_post cl_commit_of cl_uh_at cl_height_of.
Definition c_init (c : c_state) : c_app := init_app cledger N c.
