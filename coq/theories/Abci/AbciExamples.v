(** C05 -- the F7 witness (replayed on the real App by harness/c05.py) and non-vacuity examples,
    all on the concrete ledger [cledger] of AbciModel.v, all by computation. *)
From Astria Require Import Base.Bounded Abci.AbciModel Abci.AbciSpec.

Definition x_decide := decide cledger N cl_pre cl_check cl_exec cl_post cl_commit_of cl_uh_at cl_height_of.
Definition x_legal := legal cledger N cl_pre cl_check cl_exec cl_commit_of cl_uh_at.
Definition x_prepare := prepare cledger N cl_pre cl_exec cl_commit_of cl_uh_at.

Definition no_data : bdata :=
  {| d_wf := false; d_ecvalid := false; d_prices := []; d_uh := 0; d_commit := []; d_txs := [] |}.

Definition prepared_data (c : c_state) (meta : bmeta) (mem : list tx) (prices : list (N * N)) : bdata :=
  match x_prepare (c_init c) meta mem prices with
  | (_, OPrepared _ _ d) => d
  | _ => no_data
  end.

(** committed state: two currency pairs (1 = BTC/USD with id 0, 2 = ETH/USD with id 1), height 4 *)
Definition x_c : c_state :=
  {| s_l := {| cl_nonces := []; cl_log := []; cl_height := 4; cl_time := 400; cl_nvh := 0;
               cl_vals := [(0, 10); (1, 10); (2, 10); (3, 10)]; cl_block := (0, 0) |};
     s_o := {| o_pairs := [(1, {| ps_id := 0; ps_nonce := 0; ps_price := Some (5834065777, 0) |});
                           (2, {| ps_id := 1; ps_nonce := 0; ps_price := Some (3138872234, 0) |})];
               o_next := 2; o_num := 2 |} |}.

Definition x_meta : bmeta :=
  {| m_height := 5; m_time := 500; m_proposer := 0; m_nvh := 0; m_lc_round := 0;
     m_lc_votes := [(0, 2); (1, 2); (2, 2); (3, 1)]; m_misb := [] |}.
(** the same request fields at another block time (another round of the height) *)
Definition x_meta_at (dt : N) : bmeta :=
  {| m_height := 5; m_time := 500 + dt; m_proposer := 1; m_nvh := 0; m_lc_round := 0;
     m_lc_votes := [(0, 2); (1, 2); (2, 2); (3, 1)]; m_misb := [] |}.

Definition t_transfer : tx :=
  {| tx_id := 1; tx_signer := 1; tx_nonce := 0; tx_group := 4; tx_body := 0; tx_oacts := []; tx_vupd := [] |}.
Definition t_failing : tx :=
  {| tx_id := 2; tx_signer := 2; tx_nonce := 0; tx_group := 4; tx_body := 1; tx_oacts := []; tx_vupd := [] |}.
Definition t_remove_btc : tx :=
  {| tx_id := 3; tx_signer := 0; tx_nonce := 0; tx_group := 2; tx_body := 0; tx_oacts := [ORemove [1]]; tx_vupd := [] |}.
Definition t_add_sol : tx :=
  {| tx_id := 4; tx_signer := 0; tx_nonce := 0; tx_group := 2; tx_body := 0; tx_oacts := [OAdd [3]]; tx_vupd := [] |}.

(* ------------------------------------------------------------------------------------------ *)
(** * F7: prices for BTC/USD and ETH/USD, and a transaction removing BTC/USD *)

Definition f7_mem := [t_transfer; t_failing; t_remove_btc].
Definition f7_prices : list (N * N) := [(1, 101); (2, 201)].
Definition f7_D : block :=
  {| b_hash := 77; b_meta := x_meta; b_data := prepared_data x_c x_meta f7_mem f7_prices |}.

Example f7_block_is_honest :
  b_data f7_D =
  {| d_wf := true; d_ecvalid := true; d_prices := f7_prices; d_uh := 0; d_commit := [1; 3];
     d_txs := [t_transfer; t_remove_btc] |}.
Proof. vm_compute. reflexivity. Qed.

Example f7_known : known_f7 (b_data f7_D) = true.
Proof. vm_compute. reflexivity. Qed.

(** syncing / restarted node: FinalizeBlock only -- succeeds, BTC/USD is gone, ETH/USD priced *)
Example f7_fresh_path_ok :
  exists res r s, x_decide (c_init x_c) [] f7_D = (OFinalized cledger N res r s, Some s) /\
                  o_pairs (s_o s) = [(2, {| ps_id := 1; ps_nonce := 1; ps_price := Some (201, 5) |})].
Proof. eexists _, _, _. vm_compute. split; reflexivity. Qed.

(** validator: ProcessProposal accepts, FinalizeBlock fails *)
Example f7_validator_path_fails :
  x_decide (c_init x_c) [RValidator f7_D] f7_D = (OErr cledger N EPutPrice, None).
Proof. vm_compute. reflexivity. Qed.

(** proposer: PrepareProposal, ProcessProposal of the own block, FinalizeBlock fails *)
Example f7_proposer_path_fails :
  x_decide (c_init x_c) [RProposer x_meta f7_mem f7_prices (Some 77)] f7_D = (OErr cledger N EPutPrice, None).
Proof. vm_compute. reflexivity. Qed.

(** validator that crashed after ProcessProposal and was restarted: succeeds again *)
Example f7_restarted_validator_ok :
  x_decide (c_init x_c) [RValidator f7_D; RRestart] f7_D = x_decide (c_init x_c) [] f7_D.
Proof. vm_compute. reflexivity. Qed.

Lemma hash_consistent_same (b : block) (l : list block) :
  (forall x, In x l -> x = b) -> hash_consistent l.
Proof. intros H b1 b2 H1 H2 _. rewrite (H b1 H1), (H b2 H2). reflexivity. Qed.

Lemma f7_legal_fresh : x_legal x_c [] f7_D.
Proof.
  split; [constructor|]. apply (hash_consistent_same f7_D).
  intros x [<-|[]]. reflexivity.
Qed.

Lemma f7_legal_validator : x_legal x_c [RValidator f7_D] f7_D.
Proof.
  split; [repeat constructor|]. apply (hash_consistent_same f7_D).
  cbn. intros x [<-|[<-|[]]]; reflexivity.
Qed.

Lemma path_independent_refuted :
  exists (c : c_state) (rs1 rs2 : list round) (D : block),
    x_legal c rs1 D /\ x_legal c rs2 D /\ known_f7 (b_data D) = true /\
    (exists res r s, x_decide (c_init c) rs1 D = (OFinalized cledger N res r s, Some s)) /\
    x_decide (c_init c) rs2 D = (OErr cledger N EPutPrice, None).
Proof.
  exists x_c, [], [RValidator f7_D], f7_D.
  split; [exact f7_legal_fresh|]. split; [exact f7_legal_validator|].
  split; [exact f7_known|]. split.
  - destruct f7_fresh_path_ok as (res & r & s & H & _). exists res, r, s. exact H.
  - exact f7_validator_path_fails.
Qed.

Lemma path_independent_full_refuted : ~ stmt_path_independent_full.
Proof.
  intros H.
  specialize (H cledger N cl_pre cl_check cl_exec cl_post cl_commit_of cl_uh_at cl_height_of x_c f7_D
                [] [RValidator f7_D] f7_legal_fresh f7_legal_validator).
  fold x_decide in H. change (init_app cledger N x_c) with (c_init x_c) in H.
  rewrite f7_validator_path_fails in H.
  destruct f7_fresh_path_ok as (res & r & s & H1 & _). rewrite H1 in H. discriminate H.
Qed.

(* ------------------------------------------------------------------------------------------ *)
(** * Non-vacuity: a block outside the known class (prices for ETH/USD only, a transaction that
    removes BTC/USD, one that adds SOL/USD is in another proposal) through seven different legal
    call paths *)

Definition ok_mem := [t_transfer; t_failing; t_remove_btc].
Definition ok_prices : list (N * N) := [(2, 201)].
Definition ok_D : block :=
  {| b_hash := 78; b_meta := x_meta; b_data := prepared_data x_c x_meta ok_mem ok_prices |}.

(** another proposal of the height: invalid (contains the failing transaction) *)
Definition other_X : block :=
  {| b_hash := 79; b_meta := x_meta_at 100;
     b_data := {| d_wf := true; d_ecvalid := true; d_prices := ok_prices; d_uh := 0;
                  d_commit := [2; 4]; d_txs := [t_failing; t_add_sol] |} |}.
(** and a valid one *)
Definition other_Z : block :=
  {| b_hash := 80; b_meta := x_meta_at 200;
     b_data := prepared_data x_c (x_meta_at 200) [t_add_sol] [(1, 7); (2, 9)] |}.

Definition path_P := [RProposer x_meta ok_mem ok_prices (Some 78)].
Definition path_V := [RValidator ok_D].
Definition path_O := [RValidator other_X; RValidator other_Z; RValidator ok_D].
Definition path_R2 := [RProposer (x_meta_at 300) [t_add_sol; t_transfer] [] (Some 81); RValidator ok_D].
Definition path_F : list round := [].
Definition path_PF := [RProposer (x_meta_at 300) [t_add_sol] [] None].
Definition path_VRX := [RValidator ok_D; RRestart; RValidator other_Z].

Example ok_not_known : known_f7 (b_data ok_D) = false.
Proof. vm_compute. reflexivity. Qed.

Example ok_block_touches_pairs_and_has_prices :
  block_priced (b_data ok_D) = [2] /\ block_touched (b_data ok_D) = [1].
Proof. vm_compute. split; reflexivity. Qed.

Example ok_finalizes :
  exists res r s, x_decide (c_init x_c) path_F ok_D = (OFinalized cledger N res r s, Some s) /\
                  res = [(1, true); (3, true)].
Proof. eexists _, _, _. vm_compute. split; reflexivity. Qed.

Example ok_processes_accept_and_reject :
  snd (process cledger N cl_pre cl_check cl_exec cl_post cl_commit_of cl_uh_at (c_init x_c) ok_D) = OAccept cledger N /\
  snd (process cledger N cl_pre cl_check cl_exec cl_post cl_commit_of cl_uh_at (c_init x_c) other_X) = OErr cledger N ETxFail /\
  snd (process cledger N cl_pre cl_check cl_exec cl_post cl_commit_of cl_uh_at (c_init x_c) other_Z) = OAccept cledger N.
Proof. vm_compute. repeat split; reflexivity. Qed.

Example ok_all_paths_agree :
  x_decide (c_init x_c) path_P ok_D = x_decide (c_init x_c) path_F ok_D /\
  x_decide (c_init x_c) path_V ok_D = x_decide (c_init x_c) path_F ok_D /\
  x_decide (c_init x_c) path_O ok_D = x_decide (c_init x_c) path_F ok_D /\
  x_decide (c_init x_c) path_R2 ok_D = x_decide (c_init x_c) path_F ok_D /\
  x_decide (c_init x_c) path_PF ok_D = x_decide (c_init x_c) path_F ok_D /\
  x_decide (c_init x_c) path_VRX ok_D = x_decide (c_init x_c) path_F ok_D.
Proof. vm_compute. repeat split; reflexivity. Qed.

Ltac solve_hash_consistent :=
  let b1 := fresh "b1" in let b2 := fresh "b2" in
  let H1 := fresh "H1" in let H2 := fresh "H2" in let Hh := fresh "Hh" in
  intros b1 b2 H1 H2 Hh; vm_compute in H1, H2;
  repeat (destruct H1 as [H1|H1]; [subst b1|]); try contradiction;
  repeat (destruct H2 as [H2|H2]; [subst b2|]); try contradiction;
  first [reflexivity | (vm_compute in Hh; discriminate Hh)].

Example ok_paths_are_legal :
  x_legal x_c path_P ok_D /\ x_legal x_c path_V ok_D /\ x_legal x_c path_O ok_D /\
  x_legal x_c path_R2 ok_D /\ x_legal x_c path_F ok_D /\ x_legal x_c path_PF ok_D /\
  x_legal x_c path_VRX ok_D.
Proof.
  repeat split.
  all: try (repeat constructor; vm_compute; reflexivity).
  all: solve_hash_consistent.
Qed.

(** the execution state machine really caches: after ProcessProposal the block is skipped *)
Example ok_validator_path_is_cached :
  a_exec cledger N (rounds cledger N cl_pre cl_check cl_exec cl_post cl_commit_of cl_uh_at (c_init x_c) path_V)
  = ExecutedBlock 78 None.
Proof. vm_compute. reflexivity. Qed.

Example ok_proposer_path_is_cached :
  exists p, a_exec cledger N (rounds cledger N cl_pre cl_check cl_exec cl_post cl_commit_of cl_uh_at (c_init x_c) path_P)
            = ExecutedBlock 78 (Some p).
Proof. eexists. vm_compute. reflexivity. Qed.

Lemma paths_exercised :
  known_f7 (b_data ok_D) = false /\
  (exists res r s, x_decide (c_init x_c) path_F ok_D = (OFinalized cledger N res r s, Some s) /\
                   res = [(1, true); (3, true)]) /\
  x_legal x_c path_P ok_D /\ x_legal x_c path_V ok_D /\ x_legal x_c path_O ok_D /\
  x_legal x_c path_R2 ok_D /\ x_legal x_c path_F ok_D /\ x_legal x_c path_PF ok_D /\
  x_legal x_c path_VRX ok_D /\
  x_decide (c_init x_c) path_P ok_D = x_decide (c_init x_c) path_F ok_D /\
  x_decide (c_init x_c) path_V ok_D = x_decide (c_init x_c) path_F ok_D /\
  x_decide (c_init x_c) path_O ok_D = x_decide (c_init x_c) path_F ok_D /\
  x_decide (c_init x_c) path_R2 ok_D = x_decide (c_init x_c) path_F ok_D /\
  x_decide (c_init x_c) path_PF ok_D = x_decide (c_init x_c) path_F ok_D /\
  x_decide (c_init x_c) path_VRX ok_D = x_decide (c_init x_c) path_F ok_D.
Proof.
  split; [exact ok_not_known|]. split; [exact ok_finalizes|].
  destruct ok_paths_are_legal as (L1 & L2 & L3 & L4 & L5 & L6 & L7).
  destruct ok_all_paths_agree as (E1 & E2 & E3 & E4 & E5 & E6).
  repeat (split; [assumption|]). assumption.
Qed.

(* ------------------------------------------------------------------------------------------ *)
(** * Near twins: the decided block equals a proposal the node has cached (prepared / processed)
    except for ONE request field.  The cached execution must not be reused: every path agrees with
    the fresh one, and -- on this ledger -- every field but the last commit is visible in the
    result (the evidence removes validator 2; time / next validators hash go into the state;
    proposer and block hash into the stored sequencer block). *)

Definition with_misb (m : bmeta) (x : list N) : bmeta :=
  {| m_height := m_height m; m_time := m_time m; m_proposer := m_proposer m; m_nvh := m_nvh m;
     m_lc_round := m_lc_round m; m_lc_votes := m_lc_votes m; m_misb := x |}.
Definition with_time (m : bmeta) (t : N) : bmeta :=
  {| m_height := m_height m; m_time := t; m_proposer := m_proposer m; m_nvh := m_nvh m;
     m_lc_round := m_lc_round m; m_lc_votes := m_lc_votes m; m_misb := m_misb m |}.
Definition with_proposer (m : bmeta) (p : N) : bmeta :=
  {| m_height := m_height m; m_time := m_time m; m_proposer := p; m_nvh := m_nvh m;
     m_lc_round := m_lc_round m; m_lc_votes := m_lc_votes m; m_misb := m_misb m |}.
Definition with_nvh (m : bmeta) (n : N) : bmeta :=
  {| m_height := m_height m; m_time := m_time m; m_proposer := m_proposer m; m_nvh := n;
     m_lc_round := m_lc_round m; m_lc_votes := m_lc_votes m; m_misb := m_misb m |}.
Definition with_round (m : bmeta) (r : N) : bmeta :=
  {| m_height := m_height m; m_time := m_time m; m_proposer := m_proposer m; m_nvh := m_nvh m;
     m_lc_round := r; m_lc_votes := m_lc_votes m; m_misb := m_misb m |}.
Definition with_votes (m : bmeta) (v : list (N * N)) : bmeta :=
  {| m_height := m_height m; m_time := m_time m; m_proposer := m_proposer m; m_nvh := m_nvh m;
     m_lc_round := m_lc_round m; m_lc_votes := v; m_misb := m_misb m |}.

Definition twin_of (h : N) (m : bmeta) : block := {| b_hash := h; b_meta := m; b_data := b_data ok_D |}.

Definition nt_misb : block := twin_of 178 (with_misb x_meta [2]).
Definition nt_time : block := twin_of 179 (with_time x_meta 507).
Definition nt_proposer : block := twin_of 180 (with_proposer x_meta 3).
Definition nt_nvh : block := twin_of 181 (with_nvh x_meta 9).
Definition nt_round : block := twin_of 182 (with_round x_meta 1).
Definition nt_votes : block := twin_of 183 (with_votes x_meta [(0, 2); (1, 2); (2, 2); (3, 2)]).
Definition nt_hash : block := twin_of 184 x_meta.
Definition near_twins := [nt_misb; nt_time; nt_proposer; nt_nvh; nt_round; nt_votes; nt_hash].

(** the node's earlier view of the height: the proposal [ok_D] prepared only / prepared and
    processed / processed as a validator / prepared, then the near twin processed / processed,
    then the near twin processed *)
Definition nt_paths (T : block) : list (list round) :=
  [ [RProposer x_meta ok_mem ok_prices None];
    [RProposer x_meta ok_mem ok_prices (Some 78)];
    [RValidator ok_D];
    [RProposer x_meta ok_mem ok_prices None; RValidator T];
    [RProposer x_meta ok_mem ok_prices (Some 78); RValidator T];
    [RValidator ok_D; RValidator T; RValidator ok_D] ].

Example nt_cached_comparison_rejects_every_twin :
  forallb (fun T => negb (proposal_eqb (b_meta ok_D, b_data ok_D) (b_meta T, b_data T)))
          [nt_misb; nt_time; nt_proposer; nt_nvh; nt_round; nt_votes] = true /\
  proposal_eqb (b_meta ok_D, b_data ok_D) (b_meta nt_hash, b_data nt_hash) = true.
Proof. vm_compute. split; reflexivity. Qed.

Example nt_all_paths_agree :
  forallb (fun T =>
    forallb (fun rs =>
      match x_decide (c_init x_c) rs T, x_decide (c_init x_c) [] T with
      | (OFinalized _ _ res1 r1 s1, Some c1), (OFinalized _ _ res2 r2 s2, Some c2) =>
          list_eqb price_eqb (cl_vals (s_l s1)) (cl_vals (s_l s2)) &&
          N.eqb (cl_time (s_l s1)) (cl_time (s_l s2)) && N.eqb (cl_nvh (s_l s1)) (cl_nvh (s_l s2)) &&
          price_eqb (cl_block (s_l s1)) (cl_block (s_l s2)) &&
          list_eqb N.eqb (cl_log (s_l s1)) (cl_log (s_l s2)) &&
          N.eqb (cl_time (s_l s1)) (m_time (b_meta T)) &&
          price_eqb (cl_block (s_l s1)) (b_hash T, m_proposer (b_meta T))
      | _, _ => false
      end) (nt_paths T)) near_twins = true.
Proof. vm_compute. reflexivity. Qed.

Example nt_all_paths_agree_exactly :
  Forall (fun T => Forall (fun rs => x_decide (c_init x_c) rs T = x_decide (c_init x_c) [] T) (nt_paths T))
         near_twins.
Proof. repeat constructor. Qed.

Example nt_paths_are_legal :
  Forall (fun T => Forall (fun rs => x_legal x_c rs T) (nt_paths T)) near_twins.
Proof.
  repeat constructor.
  all: try (vm_compute; reflexivity).
  all: solve_hash_consistent.
Qed.

(** the evidence is acted upon: validator 2 is gone, on every path *)
Example nt_misbehaving_validator_removed :
  exists res r s, x_decide (c_init x_c) [RProposer x_meta ok_mem ok_prices None; RValidator nt_misb] nt_misb
                  = (OFinalized cledger N res r s, Some s) /\
                  cl_vals (s_l s) = [(0, 10); (1, 10); (3, 10)].
Proof. eexists _, _, _. vm_compute. split; reflexivity. Qed.

(** ... while the proposal the node had prepared keeps it: reusing the cached execution for the
    near twin would fork the node *)
Example nt_prepared_proposal_keeps_validator :
  exists res r s, x_decide (c_init x_c) [RProposer x_meta ok_mem ok_prices (Some 78)] ok_D
                  = (OFinalized cledger N res r s, Some s) /\
                  cl_vals (s_l s) = [(0, 10); (1, 10); (2, 10); (3, 10)].
Proof. eexists _, _, _. vm_compute. split; reflexivity. Qed.

(** the near twin was executed afresh (no cached proposal attached to the executed block) *)
Example nt_twin_is_reexecuted :
  a_exec cledger N (rounds cledger N cl_pre cl_check cl_exec cl_post cl_commit_of cl_uh_at (c_init x_c)
                      [RProposer x_meta ok_mem ok_prices None; RValidator nt_misb])
  = ExecutedBlock 178 None.
Proof. vm_compute. reflexivity. Qed.

(** every field but the last commit (which FinalizeBlock does not read) changes the result *)
Example nt_fields_are_observable :
  forallb (fun T =>
    match x_decide (c_init x_c) [] T, x_decide (c_init x_c) [] ok_D with
    | (OFinalized _ _ _ _ s1, _), (OFinalized _ _ _ _ s2, _) =>
        negb (list_eqb price_eqb (cl_vals (s_l s1)) (cl_vals (s_l s2)) &&
              N.eqb (cl_time (s_l s1)) (cl_time (s_l s2)) && N.eqb (cl_nvh (s_l s1)) (cl_nvh (s_l s2)) &&
              price_eqb (cl_block (s_l s1)) (cl_block (s_l s2)))
    | _, _ => false
    end) [nt_misb; nt_time; nt_proposer; nt_nvh; nt_hash] = true.
Proof. vm_compute. reflexivity. Qed.

Lemma near_twins_exercised :
  Forall (fun T => b_data T = b_data ok_D /\ T <> ok_D) near_twins /\
  Forall (fun T => Forall (fun rs => x_legal x_c rs T) (nt_paths T)) near_twins /\
  Forall (fun T => Forall (fun rs => x_decide (c_init x_c) rs T = x_decide (c_init x_c) [] T) (nt_paths T))
         near_twins /\
  (exists res r s, x_decide (c_init x_c) [RProposer x_meta ok_mem ok_prices None; RValidator nt_misb] nt_misb
                   = (OFinalized cledger N res r s, Some s) /\
                   cl_vals (s_l s) = [(0, 10); (1, 10); (3, 10)]) /\
  (exists res r s, x_decide (c_init x_c) [RProposer x_meta ok_mem ok_prices (Some 78)] ok_D
                   = (OFinalized cledger N res r s, Some s) /\
                   cl_vals (s_l s) = [(0, 10); (1, 10); (2, 10); (3, 10)]).
Proof.
  split.
  { repeat constructor; try reflexivity; intros E; apply (f_equal b_hash) in E; vm_compute in E;
      discriminate E. }
  split; [exact nt_paths_are_legal|].
  split; [exact nt_all_paths_agree_exactly|].
  split; [exact nt_misbehaving_validator_removed|exact nt_prepared_proposal_keeps_validator].
Qed.

(* ------------------------------------------------------------------------------------------ *)
(** * The mempool hypothesis of [legal] is needed (finding F15): construction checks are made on
    the state a block starts from by ProcessProposal and by a fresh FinalizeBlock, never by
    PrepareProposal.  A mempool holding a transaction that went stale -- here: "add pair 1",
    admitted when pair 1 did not exist; it is constructible again only after the block's own
    "remove pair 1" -- yields a block which its proposer executes and finalizes, and which fails
    construction on every other path. *)

Definition t_add_btc : tx :=
  {| tx_id := 5; tx_signer := 0; tx_nonce := 1; tx_group := 2; tx_body := 0; tx_oacts := [OAdd [1]]; tx_vupd := [] |}.
Definition stale_mem := [t_remove_btc; t_add_btc].
Definition stale_D : block :=
  {| b_hash := 90; b_meta := x_meta; b_data := prepared_data x_c x_meta stale_mem [] |}.
Definition stale_path_P := [RProposer x_meta stale_mem [] (Some 90)].

Example stale_mempool_is_not_fresh :
  forallb (check_tx cledger cl_check (pre_exec cledger cl_pre x_c x_meta)) stale_mem = false.
Proof. vm_compute. reflexivity. Qed.

Example stale_block_contains_both : map tx_id (d_txs (b_data stale_D)) = [3; 5].
Proof. vm_compute. reflexivity. Qed.

Lemma stale_mempool_refuted :
  known_f7 (b_data stale_D) = false /\
  hash_consistent (stale_D :: flat_map (round_blocks cledger N cl_pre cl_exec cl_commit_of cl_uh_at x_c) stale_path_P) /\
  ~ x_legal x_c stale_path_P stale_D /\
  (exists res r s, x_decide (c_init x_c) stale_path_P stale_D = (OFinalized cledger N res r s, Some s)) /\
  x_decide (c_init x_c) [] stale_D = (OErr cledger N EConstruct, None) /\
  x_decide (c_init x_c) [RValidator stale_D] stale_D = (OErr cledger N EConstruct, None) /\
  snd (process cledger N cl_pre cl_check cl_exec cl_post cl_commit_of cl_uh_at (c_init x_c) stale_D)
    = OErr cledger N EConstruct.
Proof.
  split; [vm_compute; reflexivity|].
  split; [solve_hash_consistent|].
  split.
  - intros [Hf _]. inversion Hf as [|r l Hr Hl]; subst. cbn in Hr.
    pose proof stale_mempool_is_not_fresh as Hn. unfold stale_mem in *. rewrite Hr in Hn. discriminate Hn.
  - split; [eexists _, _, _; vm_compute; reflexivity|].
    repeat split; vm_compute; reflexivity.
Qed.
