(** C05 -- lemmas about the boolean equalities and the oracle store of [AbciModel]. *)
From Astria Require Import Base.Bounded Abci.AbciModel.
From Coq Require Import Permutation.

(* ------------------------------------------------------------------------------------------ *)
(** * Boolean equalities *)

Lemma list_eqb_sound {A} (eqb : A -> A -> bool) :
  (forall x y, eqb x y = true -> x = y) ->
  forall l1 l2, list_eqb eqb l1 l2 = true -> l1 = l2.
Proof.
  intros H l1; induction l1 as [|x r IH]; intros [|y r2] E; cbn in E;
    try discriminate; try reflexivity.
  apply andb_true_iff in E as [E1 E2]. f_equal; auto.
Qed.

Lemma list_eqb_refl {A} (eqb : A -> A -> bool) :
  (forall x, eqb x x = true) -> forall l, list_eqb eqb l l = true.
Proof.
  intros H l; induction l as [|x r IH]; cbn; [reflexivity|].
  rewrite H, IH; reflexivity.
Qed.

Lemma N_eqb_true x y : N.eqb x y = true -> x = y.
Proof. apply N.eqb_eq. Qed.

Lemma listN_eqb_sound l1 l2 : list_eqb N.eqb l1 l2 = true -> l1 = l2.
Proof. apply list_eqb_sound, N_eqb_true. Qed.

Lemma listN_eqb_refl l : list_eqb N.eqb l l = true.
Proof. apply list_eqb_refl, N.eqb_refl. Qed.

Lemma oaction_eqb_sound a b : oaction_eqb a b = true -> a = b.
Proof.
  destruct a as [p|p], b as [q|q]; cbn; intros E; try discriminate;
    apply listN_eqb_sound in E; subst; reflexivity.
Qed.

Lemma price_eqb_sound a b : price_eqb a b = true -> a = b.
Proof.
  destruct a as [a1 a2], b as [b1 b2]; unfold price_eqb; cbn; intros E.
  apply andb_true_iff in E as [E1 E2]. apply N.eqb_eq in E1, E2. subst; reflexivity.
Qed.

Lemma tx_eqb_sound a b : tx_eqb a b = true -> a = b.
Proof.
  destruct a as [a1 a2 a3 a4 a5 a6 a7], b as [b1 b2 b3 b4 b5 b6 b7]; unfold tx_eqb; cbn.
  intros E.
  repeat (apply andb_true_iff in E as [E ?]).
  repeat match goal with H : N.eqb _ _ = true |- _ => apply N.eqb_eq in H end.
  match goal with H : list_eqb oaction_eqb _ _ = true |- _ =>
    apply (list_eqb_sound _ oaction_eqb_sound) in H end.
  match goal with H : list_eqb price_eqb _ _ = true |- _ =>
    apply (list_eqb_sound _ price_eqb_sound) in H end.
  subst; reflexivity.
Qed.

Lemma bdata_eqb_sound a b : bdata_eqb a b = true -> a = b.
Proof.
  destruct a as [a1 a2 a3 a4 a5 a6], b as [b1 b2 b3 b4 b5 b6]; unfold bdata_eqb; cbn.
  intros E.
  repeat (apply andb_true_iff in E as [E ?]).
  repeat match goal with H : Bool.eqb _ _ = true |- _ => apply Bool.eqb_prop in H end.
  repeat match goal with H : N.eqb _ _ = true |- _ => apply N.eqb_eq in H end.
  repeat match goal with H : list_eqb N.eqb _ _ = true |- _ => apply listN_eqb_sound in H end.
  match goal with H : list_eqb price_eqb _ _ = true |- _ =>
    apply (list_eqb_sound _ price_eqb_sound) in H end.
  match goal with H : list_eqb tx_eqb _ _ = true |- _ =>
    apply (list_eqb_sound _ tx_eqb_sound) in H end.
  subst; reflexivity.
Qed.

Lemma proposal_eqb_sound a b : proposal_eqb a b = true -> a = b.
Proof.
  destruct a as [[h1 t1 p1 n1 r1 v1 x1] d1], b as [[h2 t2 p2 n2 r2 v2 x2] d2].
  unfold proposal_eqb, commit_eqb;
    cbn [m_height m_time m_proposer m_nvh m_lc_round m_lc_votes m_misb]. intros E.
  repeat (apply andb_true_iff in E as [E ?]).
  match goal with H : (_ =? _) && list_eqb price_eqb _ _ = true |- _ =>
    apply andb_true_iff in H as [? ?] end.
  repeat match goal with H : N.eqb _ _ = true |- _ => apply N.eqb_eq in H end.
  match goal with H : bdata_eqb _ _ = true |- _ => apply bdata_eqb_sound in H end.
  match goal with H : list_eqb price_eqb _ _ = true |- _ =>
    apply (list_eqb_sound _ price_eqb_sound) in H end.
  match goal with H : list_eqb N.eqb _ _ = true |- _ => apply listN_eqb_sound in H end.
  subst; reflexivity.
Qed.

(** ... and complete: the comparison is exactly equality of all cached fields *)
Lemma price_eqb_refl a : price_eqb a a = true.
Proof. unfold price_eqb. rewrite !N.eqb_refl. reflexivity. Qed.

Lemma oaction_eqb_refl a : oaction_eqb a a = true.
Proof. destruct a; cbn; apply listN_eqb_refl. Qed.

Lemma tx_eqb_refl a : tx_eqb a a = true.
Proof.
  unfold tx_eqb. rewrite !N.eqb_refl, (list_eqb_refl _ oaction_eqb_refl),
    (list_eqb_refl _ price_eqb_refl). reflexivity.
Qed.

Lemma bdata_eqb_refl a : bdata_eqb a a = true.
Proof.
  unfold bdata_eqb. rewrite !Bool.eqb_reflx, !N.eqb_refl, !listN_eqb_refl,
    (list_eqb_refl _ price_eqb_refl), (list_eqb_refl _ tx_eqb_refl). reflexivity.
Qed.

Lemma proposal_eqb_refl a : proposal_eqb a a = true.
Proof.
  destruct a as [m d]. unfold proposal_eqb, commit_eqb.
  rewrite !N.eqb_refl, bdata_eqb_refl, listN_eqb_refl, (list_eqb_refl _ price_eqb_refl).
  reflexivity.
Qed.

Lemma proposal_eqb_iff a b : proposal_eqb a b = true <-> a = b.
Proof. split; [apply proposal_eqb_sound|intros ->; apply proposal_eqb_refl]. Qed.

(* ------------------------------------------------------------------------------------------ *)
(** * Lookups after put / delete *)

Lemma o_lookup_put k k' v l :
  o_lookup k' (o_put k v l) = if N.eqb k k' then Some v else o_lookup k' l.
Proof.
  induction l as [|[k0 v0] r IH]; cbn [o_put o_lookup].
  - reflexivity.
  - destruct (N.eqb_spec k0 k) as [->|Hk]; cbn [o_lookup].
    + destruct (N.eqb k k'); reflexivity.
    + rewrite IH. destruct (N.eqb_spec k0 k'), (N.eqb_spec k k'); try reflexivity; congruence.
Qed.

Lemma o_lookup_del k k' l :
  o_lookup k' (o_del k l) = if N.eqb k k' then None else o_lookup k' l.
Proof.
  unfold o_del. induction l as [|[k0 v0] r IH]; cbn [filter o_lookup fst].
  - destruct (N.eqb k k'); reflexivity.
  - destruct (N.eqb_spec k0 k) as [->|Hk]; cbn [negb o_lookup].
    + rewrite IH. destruct (N.eqb k k'); reflexivity.
    + rewrite IH. destruct (N.eqb_spec k0 k'), (N.eqb_spec k k'); try reflexivity; congruence.
Qed.

Lemma o_lookup_put_other k k' v l : k <> k' -> o_lookup k' (o_put k v l) = o_lookup k' l.
Proof. intros H. rewrite o_lookup_put. destruct (N.eqb_spec k k'); [contradiction|reflexivity]. Qed.

Lemma o_lookup_del_other k k' l : k <> k' -> o_lookup k' (o_del k l) = o_lookup k' l.
Proof. intros H. rewrite o_lookup_del. destruct (N.eqb_spec k k'); [contradiction|reflexivity]. Qed.

(** an in-place put does not change which keys are present *)
Lemma is_some_lookup_put k k' v l :
  is_some (o_lookup k l) = true ->
  is_some (o_lookup k' (o_put k v l)) = is_some (o_lookup k' l).
Proof.
  intros H. rewrite o_lookup_put. destruct (N.eqb_spec k k') as [<-|_]; [|reflexivity].
  rewrite H; reflexivity.
Qed.

(** in-place put commutes with put / delete of another key *)
Lemma o_put_put k k' v v' l :
  k <> k' -> is_some (o_lookup k l) = true ->
  o_put k v (o_put k' v' l) = o_put k' v' (o_put k v l).
Proof.
  intros Hne. induction l as [|[k0 v0] r IH]; cbn [o_lookup o_put]; intros Hp.
  - discriminate.
  - destruct (N.eqb_spec k0 k) as [->|Hk].
    + destruct (N.eqb_spec k k'); [contradiction|]. cbn [o_put].
      rewrite N.eqb_refl. destruct (N.eqb_spec k k'); [contradiction|]. reflexivity.
    + destruct (N.eqb_spec k0 k') as [->|Hk']; cbn [o_put].
      * destruct (N.eqb_spec k' k); [congruence|]. rewrite N.eqb_refl. reflexivity.
      * destruct (N.eqb_spec k0 k); [contradiction|]. destruct (N.eqb_spec k0 k'); [contradiction|].
        rewrite IH by exact Hp. reflexivity.
Qed.

Lemma o_del_put k k' v l :
  k <> k' -> is_some (o_lookup k l) = true ->
  o_del k' (o_put k v l) = o_put k v (o_del k' l).
Proof.
  intros Hne. unfold o_del.
  induction l as [|[k0 v0] r IH]; cbn [o_lookup o_put filter fst]; intros Hp.
  - discriminate.
  - destruct (N.eqb_spec k0 k) as [->|Hk].
    + cbn [filter fst]. destruct (N.eqb_spec k k'); [contradiction|]. cbn [negb o_put].
      rewrite N.eqb_refl. reflexivity.
    + cbn [filter fst]. destruct (N.eqb_spec k0 k') as [->|Hk']; cbn [negb].
      * apply IH, Hp.
      * cbn [o_put]. destruct (N.eqb_spec k0 k); [contradiction|]. rewrite IH by exact Hp.
        reflexivity.
Qed.

(* ------------------------------------------------------------------------------------------ *)
(** * [put_price] as an in-place update *)

Definition obind {A B} (x : option A) (f : A -> option B) : option B :=
  match x with Some a => f a | None => None end.

Definition o_upd (k : N) (v : pstate) (o : ostate) : ostate :=
  {| o_pairs := o_put k v (o_pairs o); o_next := o_next o; o_num := o_num o |}.

Definition bump (ps : pstate) (p h : N) : pstate :=
  {| ps_id := ps_id ps; ps_nonce := ps_nonce ps + 1; ps_price := Some (p, h) |}.

Lemma put_price_spec o k p h :
  put_price o k p h =
  match o_lookup k (o_pairs o) with
  | None => None
  | Some ps => if ps_nonce ps <? U64_MAX then Some (o_upd k (bump ps p h) o) else None
  end.
Proof. reflexivity. Qed.

Lemma put_price_Some o k p h o1 :
  put_price o k p h = Some o1 ->
  exists ps, o_lookup k (o_pairs o) = Some ps /\ o1 = o_upd k (bump ps p h) o.
Proof.
  rewrite put_price_spec. destruct (o_lookup k (o_pairs o)) as [ps|]; [|discriminate].
  destruct (ps_nonce ps <? U64_MAX); [|discriminate].
  intros E; injection E as <-. exists ps; split; reflexivity.
Qed.

Lemma put_price_same_lookup o o' k p h :
  o_lookup k (o_pairs o') = o_lookup k (o_pairs o) ->
  put_price o' k p h =
  match put_price o k p h with
  | Some _ =>
      match o_lookup k (o_pairs o) with
      | Some ps => Some (o_upd k (bump ps p h) o')
      | None => None
      end
  | None => None
  end.
Proof.
  intros E. rewrite !put_price_spec, E.
  destruct (o_lookup k (o_pairs o)) as [ps|]; [|reflexivity].
  destruct (ps_nonce ps <? U64_MAX); reflexivity.
Qed.

(** [put_price] keeps the set of present keys, [o_next] and [o_num] *)
Lemma put_price_present o k p h o1 k' :
  put_price o k p h = Some o1 ->
  is_some (o_lookup k' (o_pairs o1)) = is_some (o_lookup k' (o_pairs o)).
Proof.
  intros H. apply put_price_Some in H as (ps & E & ->). cbn [o_upd o_pairs].
  apply is_some_lookup_put. rewrite E; reflexivity.
Qed.

Lemma apply_prices_present ps h k' : forall o o1,
  apply_prices o ps h = Some o1 ->
  is_some (o_lookup k' (o_pairs o1)) = is_some (o_lookup k' (o_pairs o)).
Proof.
  induction ps as [|[k p] r IH]; cbn [apply_prices]; intros o o1 H.
  - injection H as <-; reflexivity.
  - destruct (put_price o k p h) as [o'|] eqn:E; [|discriminate].
    rewrite (IH _ _ H). eapply put_price_present; eassumption.
Qed.

Lemma forallb_ext_all {A} (f g : A -> bool) l :
  (forall x, f x = g x) -> forallb f l = forallb g l.
Proof.
  intros H. induction l as [|x r IH]; cbn [forallb]; [reflexivity|]. rewrite H, IH; reflexivity.
Qed.

Lemma oaction_check_ext o o' a :
  (forall k, is_some (o_lookup k (o_pairs o')) = is_some (o_lookup k (o_pairs o))) ->
  oaction_check o' a = oaction_check o a.
Proof.
  intros H. destruct a as [ps|ps]; cbn [oaction_check]; apply forallb_ext_all; intros k;
    rewrite H; reflexivity.
Qed.

Lemma apply_prices_check o ps h o1 a :
  apply_prices o ps h = Some o1 -> oaction_check o1 a = oaction_check o a.
Proof.
  intros H. apply oaction_check_ext. intros k. eapply apply_prices_present; eassumption.
Qed.

(* ------------------------------------------------------------------------------------------ *)
(** * An in-place update commutes with an action on other keys *)

Lemma oadd_loop_upd k v ps : ~ In k ps -> forall pairs next num,
  is_some (o_lookup k pairs) = true ->
  oadd_loop (o_put k v pairs) next num ps =
  option_map (fun r => (o_put k v (fst (fst r)), snd (fst r), snd r)) (oadd_loop pairs next num ps).
Proof.
  induction ps as [|k' r IH]; intros Hn pairs next num Hp; cbn [oadd_loop].
  - reflexivity.
  - assert (Hne : k <> k') by (intros ->; apply Hn; left; reflexivity).
    assert (Hr : ~ In k r) by (intros Hi; apply Hn; right; exact Hi).
    rewrite <- (o_put_put k k') by assumption.
    destruct (checked_add U64_MAX num 1) as [num'|]; [|reflexivity].
    destruct (checked_add U64_MAX next 1) as [next'|]; [|reflexivity].
    apply IH; [exact Hr|].
    rewrite o_lookup_put_other by (intros E; apply Hne; symmetry; exact E). exact Hp.
Qed.

Lemma orem_loop_upd k v ps : ~ In k ps -> forall pairs,
  is_some (o_lookup k pairs) = true ->
  orem_loop (o_put k v pairs) ps = option_map (o_put k v) (orem_loop pairs ps).
Proof.
  induction ps as [|k' r IH]; intros Hn pairs Hp; cbn [orem_loop].
  - reflexivity.
  - assert (Hne : k <> k') by (intros ->; apply Hn; left; reflexivity).
    assert (Hr : ~ In k r) by (intros Hi; apply Hn; right; exact Hi).
    rewrite o_lookup_put_other by exact Hne.
    destruct (o_lookup k' pairs); [|reflexivity].
    rewrite o_del_put by assumption.
    apply IH; [exact Hr|].
    rewrite o_lookup_del_other by (intros E; apply Hne; symmetry; exact E). exact Hp.
Qed.

Lemma oadd_loop_lookup k ps : ~ In k ps -> forall pairs next num pairs' next' num',
  oadd_loop pairs next num ps = Some (pairs', next', num') ->
  o_lookup k pairs' = o_lookup k pairs.
Proof.
  induction ps as [|k' r IH]; intros Hn pairs next num pairs' next' num'; cbn [oadd_loop].
  - intros E; injection E as <- _ _; reflexivity.
  - assert (Hne : k' <> k) by (intros ->; apply Hn; left; reflexivity).
    assert (Hr : ~ In k r) by (intros Hi; apply Hn; right; exact Hi).
    destruct (checked_add U64_MAX num 1) as [num1|]; [|discriminate].
    destruct (checked_add U64_MAX next 1) as [next1|]; [|discriminate].
    intros E. rewrite (IH Hr _ _ _ _ _ _ E). apply o_lookup_put_other; exact Hne.
Qed.

Lemma orem_loop_lookup k ps : ~ In k ps -> forall pairs pairs',
  orem_loop pairs ps = Some pairs' -> o_lookup k pairs' = o_lookup k pairs.
Proof.
  induction ps as [|k' r IH]; intros Hn pairs pairs'; cbn [orem_loop].
  - intros E; injection E as <-; reflexivity.
  - assert (Hne : k' <> k) by (intros ->; apply Hn; left; reflexivity).
    assert (Hr : ~ In k r) by (intros Hi; apply Hn; right; exact Hi).
    destruct (o_lookup k' pairs); [|discriminate].
    intros E. rewrite (IH Hr _ _ E). apply o_lookup_del_other; exact Hne.
Qed.

Lemma oaction_exec_upd k v o a :
  ~ In k (oaction_pairs a) -> is_some (o_lookup k (o_pairs o)) = true ->
  oaction_exec (o_upd k v o) a = option_map (o_upd k v) (oaction_exec o a).
Proof.
  intros Hn Hp. unfold oaction_exec.
  rewrite (oaction_check_ext o (o_upd k v o))
    by (intros k'; cbn [o_upd o_pairs]; apply is_some_lookup_put; exact Hp).
  destruct (oaction_check o a); [|reflexivity].
  destruct a as [ps|ps]; cbn [oaction_pairs] in Hn; cbn [o_upd o_pairs o_next o_num].
  - rewrite oadd_loop_upd by assumption.
    destruct (oadd_loop (o_pairs o) (o_next o) (o_num o) ps) as [[[p1 n1] m1]|]; reflexivity.
  - rewrite orem_loop_upd by assumption.
    destruct (orem_loop (o_pairs o) ps) as [p1|]; cbn [option_map]; [|reflexivity].
    destruct (checked_sub (o_num o) (N.of_nat (length ps))); reflexivity.
Qed.

Lemma oaction_exec_lookup k o a o2 :
  ~ In k (oaction_pairs a) -> oaction_exec o a = Some o2 ->
  o_lookup k (o_pairs o2) = o_lookup k (o_pairs o).
Proof.
  intros Hn. unfold oaction_exec. destruct (oaction_check o a); [|discriminate].
  destruct a as [ps|ps]; cbn [oaction_pairs] in Hn.
  - destruct (oadd_loop (o_pairs o) (o_next o) (o_num o) ps) as [[[p1 n1] m1]|] eqn:E; [|discriminate].
    intros E2; injection E2 as <-. cbn [o_pairs]. eapply oadd_loop_lookup; eassumption.
  - destruct (orem_loop (o_pairs o) ps) as [p1|] eqn:E; [|discriminate].
    destruct (checked_sub (o_num o) (N.of_nat (length ps))); [|discriminate].
    intros E2; injection E2 as <-. cbn [o_pairs]. eapply orem_loop_lookup; eassumption.
Qed.
