(** C05 -- the three transaction loops of [AbciModel] and their behaviour under oracle prices
    that were applied before / after the transactions. *)
From Astria Require Import Base.Bounded Abci.AbciModel Abci.AbciLemmasOracle Abci.AbciLemmasComm.

Definition tx_disj (ps : list (N * N)) (t : tx) : Prop :=
  forall k, In k (map fst ps) -> ~ In k (flat_map oaction_pairs (tx_oacts t)).

Lemma known_f7_disj d :
  known_f7 d = false -> forall t, In t (d_txs d) -> tx_disj (d_prices d) t.
Proof.
  intros H t Ht k Hk Hin.
  assert (E : known_f7 d = true); [|rewrite E in H; discriminate].
  unfold known_f7. apply existsb_exists. exists k. split; [exact Hk|].
  unfold mem_N. apply existsb_exists. exists k. split; [|apply N.eqb_refl].
  unfold block_touched. apply in_flat_map. exists t. split; assumption.
Qed.

Section Loops.
  Variable L : Type.
  Variable l_pre : L -> bmeta -> L.
  Variable l_check : L -> tx -> bool.
  Variable l_exec : L -> tx -> xres L.

  Notation State := (state L).
  Notation Exec_tx := (exec_tx L l_exec).
  Notation Finalize_loop := (finalize_loop L l_exec).
  Notation Process_loop := (process_loop L l_exec).
  Notation Prepare_loop := (prepare_loop L l_exec).
  Notation Check_tx := (check_tx L l_check).
  Notation Pre_exec := (pre_exec L l_pre).

  (** ** ProcessProposal's loop against FinalizeBlock's, PrepareProposal's against ProcessProposal's *)

  Lemma process_finalize : forall txs s cur sf ex,
    Process_loop s cur txs = (sf, inl ex) ->
    Finalize_loop s txs = (sf, ex) /\ map fst ex = txs.
  Proof.
    induction txs as [|t r IH]; intros s cur sf ex; cbn [process_loop finalize_loop].
    - intros E; injection E as <- <-. split; reflexivity.
    - destruct (cur <? tx_group t); [discriminate|].
      destruct (Exec_tx s t) as [s'| |]; [| |discriminate].
      + destruct (Process_loop s' (tx_group t) r) as [sf' [ex'|e]] eqn:EP; [|discriminate].
        intros E; injection E as <- <-.
        destruct (IH _ _ _ _ EP) as [-> <-]. split; reflexivity.
      + destruct (Process_loop s (tx_group t) r) as [sf' [ex'|e]] eqn:EP; [|discriminate].
        intros E; injection E as <- <-.
        destruct (IH _ _ _ _ EP) as [-> <-]. split; reflexivity.
  Qed.

  Lemma prepare_process : forall mem s cur sf inc,
    Prepare_loop s cur mem = (sf, inc) ->
    Process_loop s cur (map fst inc) = (sf, inl inc) /\ incl (map fst inc) mem.
  Proof.
    induction mem as [|t r IH]; intros s cur sf inc; cbn [prepare_loop].
    - intros E; injection E as <- <-. split; [reflexivity|apply incl_refl].
    - destruct (cur <? tx_group t) eqn:EG.
      { intros E. destruct (IH _ _ _ _ E) as [H1 H2]. split; [exact H1|].
        apply incl_tl; exact H2. }
      destruct (Exec_tx s t) as [s'| |] eqn:EX.
      + destruct (Prepare_loop s' (tx_group t) r) as [sf' inc'] eqn:EP.
        intros E; injection E as <- <-.
        destruct (IH _ _ _ _ EP) as [H1 H2]. cbn [map fst process_loop].
        rewrite EG, EX, H1. split; [reflexivity|].
        apply incl_cons; [left; reflexivity|apply incl_tl; exact H2].
      + destruct (Prepare_loop s (tx_group t) r) as [sf' inc'] eqn:EP.
        intros E; injection E as <- <-.
        destruct (IH _ _ _ _ EP) as [H1 H2]. cbn [map fst process_loop].
        rewrite EG, EX, H1. split; [reflexivity|].
        apply incl_cons; [left; reflexivity|apply incl_tl; exact H2].
      + intros E. destruct (IH _ _ _ _ E) as [H1 H2]. split; [exact H1|].
        apply incl_tl; exact H2.
  Qed.

  (** ** States that differ by the block's prices *)

  Variable ps : list (N * N).
  Variable h : N.

  Definition PR (s s1 : State) : Prop :=
    s_l s1 = s_l s /\ apply_prices (s_o s) ps h = Some (s_o s1).

  Lemma PR_pre_exec s s1 m : PR s s1 -> PR (Pre_exec s m) (Pre_exec s1 m).
  Proof.
    intros [Hl Ho]. split; cbn [pre_exec s_l s_o]; [rewrite Hl; reflexivity|exact Ho].
  Qed.

  Lemma PR_check_tx s s1 t : PR s s1 -> Check_tx s1 t = Check_tx s t.
  Proof.
    intros [Hl Ho]. unfold check_tx. rewrite Hl. f_equal.
    apply forallb_ext_all. intros a. eapply apply_prices_check; exact Ho.
  Qed.

  Lemma PR_check_txs s s1 txs : PR s s1 -> forallb (Check_tx s1) txs = forallb (Check_tx s) txs.
  Proof. intros H. apply forallb_ext_all. intros t. apply PR_check_tx; exact H. Qed.

  Lemma exec_tx_priced s s1 t :
    PR s s1 -> tx_disj ps t ->
    match Exec_tx s t with
    | XOk s' => exists s1', Exec_tx s1 t = XOk s1' /\ PR s' s1'
    | XSoft => Exec_tx s1 t = XSoft
    | XFail => Exec_tx s1 t = XFail
    end.
  Proof.
    intros [Hl Ho] Hd. unfold exec_tx. rewrite Hl.
    destruct (l_exec (s_l s) t) as [l'| |]; [|reflexivity|reflexivity].
    destruct (comm_apply_prices_oactions ps h (tx_oacts t) Hd) as (A & B & _).
    destruct (oactions_exec (s_o s) (tx_oacts t)) as [o2|] eqn:E.
    - destruct (A _ _ _ Ho E) as (o12 & F & G). rewrite F.
      eexists; split; [reflexivity|]. split; cbn [s_l s_o]; [reflexivity|exact G].
    - rewrite (B _ _ Ho E). reflexivity.
  Qed.

  Lemma exec_tx_unpriced s s' t :
    apply_prices (s_o s) ps h = None -> tx_disj ps t ->
    Exec_tx s t = XOk s' -> apply_prices (s_o s') ps h = None.
  Proof.
    intros Ho Hd. unfold exec_tx.
    destruct (l_exec (s_l s) t) as [l'| |]; [|discriminate|discriminate].
    destruct (comm_apply_prices_oactions ps h (tx_oacts t) Hd) as (_ & _ & C).
    destruct (oactions_exec (s_o s) (tx_oacts t)) as [o2|] eqn:E; [|discriminate].
    intros E2; injection E2 as <-. cbn [s_o]. eapply C; eassumption.
  Qed.

  Lemma finalize_loop_priced : forall txs s s1 sf ex,
    (forall t, In t txs -> tx_disj ps t) -> PR s s1 ->
    Finalize_loop s txs = (sf, ex) ->
    exists sf1, Finalize_loop s1 txs = (sf1, ex) /\ PR sf sf1.
  Proof.
    induction txs as [|t r IH]; intros s s1 sf ex Hd HP; cbn [finalize_loop].
    - intros E; injection E as <- <-. exists s1; split; [reflexivity|exact HP].
    - assert (Hdr : forall t', In t' r -> tx_disj ps t') by (intros t' Hi; apply Hd; right; exact Hi).
      pose proof (exec_tx_priced s s1 t HP (Hd t (or_introl eq_refl))) as HX.
      destruct (Exec_tx s t) as [s'| |].
      + destruct HX as (s1' & EX1 & HP'). rewrite EX1.
        destruct (Finalize_loop s' r) as [sf' ex'] eqn:EF.
        intros E; injection E as <- <-.
        destruct (IH _ _ _ _ Hdr HP' EF) as (sf1 & EF1 & HPf). rewrite EF1.
        exists sf1; split; [reflexivity|exact HPf].
      + rewrite HX.
        destruct (Finalize_loop s r) as [sf' ex'] eqn:EF.
        intros E; injection E as <- <-.
        destruct (IH _ _ _ _ Hdr HP EF) as (sf1 & EF1 & HPf). rewrite EF1.
        exists sf1; split; [reflexivity|exact HPf].
      + rewrite HX. intros E. apply (IH _ _ _ _ Hdr HP E).
  Qed.

  Lemma finalize_loop_unpriced : forall txs s sf ex,
    (forall t, In t txs -> tx_disj ps t) -> apply_prices (s_o s) ps h = None ->
    Finalize_loop s txs = (sf, ex) -> apply_prices (s_o sf) ps h = None.
  Proof.
    induction txs as [|t r IH]; intros s sf ex Hd Ho; cbn [finalize_loop].
    - intros E; injection E as <- _. exact Ho.
    - assert (Hdr : forall t', In t' r -> tx_disj ps t') by (intros t' Hi; apply Hd; right; exact Hi).
      destruct (Exec_tx s t) as [s'| |] eqn:EX.
      + destruct (Finalize_loop s' r) as [sf' ex'] eqn:EF.
        intros E; injection E as <- _.
        eapply IH; [exact Hdr| |exact EF].
        eapply exec_tx_unpriced; [exact Ho|apply Hd; left; reflexivity|exact EX].
      + destruct (Finalize_loop s r) as [sf' ex'] eqn:EF.
        intros E; injection E as <- _. eapply IH; eassumption.
      + intros E. eapply IH; eassumption.
  Qed.
End Loops.
