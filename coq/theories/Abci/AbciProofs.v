(** C05 -- proofs of the statements of [AbciSpec]. *)
From Astria Require Import Base.Bounded Abci.AbciModel Abci.AbciSpec
  Abci.AbciLemmasOracle Abci.AbciLemmasComm Abci.AbciLemmasLoops Abci.AbciLemmasInv.
From Coq Require Import Permutation.

#[local] Arguments a_committed {L R} a.
#[local] Arguments a_working {L R} a.
#[local] Arguments a_exec {L R} a.
#[local] Arguments a_staged {L R} a.
#[local] Arguments w_s {L R} w.
#[local] Arguments w_executed {L R} w.
#[local] Arguments w_result {L R} w.

Section Final.
  Variable L R : Type.
  Variable l_pre : L -> bmeta -> L.
  Variable l_check : L -> tx -> bool.
  Variable l_exec : L -> tx -> xres L.
  Variable l_post : L -> N -> bmeta -> L * R.
  Variable commit_of : L -> list tx -> list N.
  Variable uh_at : bmeta -> N.
  Variable height_of : bmeta -> N.

  Notation State := (state L).
  Notation App := (app L R).
  Notation Init := (init_app L R).
  Notation New_round := (new_round L R).
  Notation With_exec := (with_exec L R).
  Notation Process_loop := (process_loop L l_exec).
  Notation Finalize_loop := (finalize_loop L l_exec).
  Notation Check_tx := (check_tx L l_check).
  Notation Pre_exec := (pre_exec L l_pre).
  Notation Finalize := (finalize L R l_pre l_check l_exec l_post commit_of uh_at height_of).
  Notation Decide := (decide L R l_pre l_check l_exec l_post commit_of uh_at height_of).
  Notation Rounds := (rounds L R l_pre l_check l_exec l_post commit_of uh_at).
  Notation Round_blocks := (round_blocks L R l_pre l_exec commit_of uh_at).
  Notation Legal := (legal L R l_pre l_check l_exec commit_of uh_at).
  Notation Inv := (Inv L R l_pre l_check l_exec l_post commit_of uh_at).
  Notation Cached := (Cached L R l_pre l_check l_exec l_post commit_of uh_at).

  Definition dec_out (x : App * outcome L R) : outcome L R * option State :=
    let (a1, o) := x in
    match o with
    | OFinalized _ _ _ _ _ => (o, Some (a_committed (fst (commit L R a1))))
    | _ => (o, None)
    end.

  Lemma decide_dec_out a rs D : Decide a rs D = dec_out (Finalize (Rounds a rs) D).
  Proof. reflexivity. Qed.

  Variable c : State.

  Lemma finalize_nonskip_eq (a : App) D :
    a_committed a = c -> a_staged a = None ->
    snd (check_if_executed_block (a_exec a) (b_hash D)) = false ->
    Finalize a D = Finalize (Init c) D.
  Proof.
    intros Hc Hs Hk. unfold finalize.
    destruct (check_if_executed_block (a_exec a) (b_hash D)) as [e1 skip].
    cbn [snd] in Hk; subst skip.
    change (a_exec (Init c)) with (@Unset proposal). cbn [check_if_executed_block].
    change (New_round (With_exec (Init c) Unset)) with (Init c).
    rewrite (new_round_init L R c (With_exec a e1))
      by (cbn [with_exec a_committed a_staged]; assumption).
    reflexivity.
  Qed.

  (** the value of the fresh path *)
  Lemma finalize_init_ok D o1 sf1 ex l' r :
    d_wf (b_data D) = true ->
    apply_prices (s_o c) (d_prices (b_data D)) (height_of (b_meta D)) = Some o1 ->
    N.eqb (d_uh (b_data D)) (uh_at (b_meta D)) = true ->
    forallb (Check_tx (Pre_exec {| s_l := s_l c; s_o := o1 |} (b_meta D))) (d_txs (b_data D)) = true ->
    Finalize_loop (Pre_exec {| s_l := s_l c; s_o := o1 |} (b_meta D)) (d_txs (b_data D)) = (sf1, ex) ->
    l_post (s_l sf1) (b_hash D) (b_meta D) = (l', r) ->
    list_eqb N.eqb (d_commit (b_data D)) (commit_of (s_l sf1) (map fst ex)) = true ->
    dec_out (Finalize (Init c) D) =
    (OFinalized L R (map (fun e => (tx_id (fst e), snd e)) ex) r {| s_l := l'; s_o := s_o sf1 |},
     Some {| s_l := l'; s_o := s_o sf1 |}).
  Proof.
    intros EW EA EU EF EFL ELP EM. unfold finalize.
    change (a_exec (Init c)) with (@Unset proposal). cbn [check_if_executed_block].
    change (New_round (With_exec (Init c) Unset)) with (Init c).
    rewrite EW. cbn [negb].
    cbn [init_app a_working fresh w_s]. rewrite EA.
    cbn [with_state w_s s_l]. rewrite EU, EF. cbn [negb]. rewrite EFL.
    unfold post_exec.
    cbn [with_working with_exec a_exec a_working a_committed a_staged set_executed_block
         with_state w_s w_executed w_result s_l s_o].
    rewrite ELP, EM.
    cbn [with_working with_exec a_exec a_working a_committed a_staged w_s w_result dec_out
         commit fst init_app].
    reflexivity.
  Qed.

  Lemma finalize_init_noprice D :
    d_wf (b_data D) = true ->
    apply_prices (s_o c) (d_prices (b_data D)) (height_of (b_meta D)) = None ->
    dec_out (Finalize (Init c) D) = (OErr L R EPutPrice, None).
  Proof.
    intros EW EA. unfold finalize.
    change (a_exec (Init c)) with (@Unset proposal). cbn [check_if_executed_block].
    change (New_round (With_exec (Init c) Unset)) with (Init c).
    rewrite EW. cbn [negb].
    cbn [init_app a_working fresh w_s]. rewrite EA. reflexivity.
  Qed.

  (** the value of the cached path *)
  Lemma finalize_cached_ok D p ws wex ex r o' :
    d_wf (b_data D) = true ->
    apply_prices (s_o ws) (d_prices (b_data D)) (height_of (b_meta D)) = Some o' ->
    dec_out (Finalize {| a_committed := c;
                         a_working := {| w_s := ws; w_executed := wex; w_result := Some (ex, r) |};
                         a_exec := ExecutedBlock (b_hash D) p; a_staged := None |} D) =
    (OFinalized L R (map (fun e => (tx_id (fst e), snd e)) ex) r {| s_l := s_l ws; s_o := o' |},
     Some {| s_l := s_l ws; s_o := o' |}).
  Proof.
    intros EW EA. unfold finalize.
    cbn [a_exec check_if_executed_block]. rewrite N.eqb_refl.
    rewrite EW. cbn [negb].
    cbn [with_exec a_working w_s]. rewrite EA.
    cbn [with_working with_exec a_exec a_working a_committed a_staged
         with_state w_s w_executed w_result s_l s_o dec_out commit fst init_app].
    reflexivity.
  Qed.

  Lemma finalize_cached_noprice D p ws wex wres :
    d_wf (b_data D) = true ->
    apply_prices (s_o ws) (d_prices (b_data D)) (height_of (b_meta D)) = None ->
    dec_out (Finalize {| a_committed := c;
                         a_working := {| w_s := ws; w_executed := wex; w_result := wres |};
                         a_exec := ExecutedBlock (b_hash D) p; a_staged := None |} D) =
    (OErr L R EPutPrice, None).
  Proof.
    intros EW EA. unfold finalize.
    cbn [a_exec check_if_executed_block]. rewrite N.eqb_refl.
    rewrite EW. cbn [negb].
    cbn [with_exec a_working w_s]. rewrite EA. reflexivity.
  Qed.

  Lemma finalize_cached (a : App) D p :
    a_committed a = c -> a_staged a = None -> a_exec a = ExecutedBlock (b_hash D) p ->
    Cached c (a_working a) D -> known_f7 (b_data D) = false ->
    dec_out (Finalize a D) = dec_out (Finalize (Init c) D).
  Proof.
    intros Hc Hs He (EW & EU & EF & sf & ex & EP & EM & Hws & Hwr) Hk.
    destruct (process_finalize _ _ _ _ _ _ _ EP) as [EFL Hmap].
    pose proof (known_f7_disj _ Hk) as Hd.
    destruct a as [ac [ws wex wres] ae ast].
    cbn [a_committed a_staged a_exec a_working w_s w_result] in *. subst ac ast ae ws wres.
    destruct (l_post (s_l sf) (b_hash D) (b_meta D)) as [l' r] eqn:ELP. cbn [fst snd].
    destruct (apply_prices (s_o c) (d_prices (b_data D)) (height_of (b_meta D))) as [o1|] eqn:EA.
    - assert (HPR : PR L (d_prices (b_data D)) (height_of (b_meta D)) (Pre_exec c (b_meta D))
                       (Pre_exec {| s_l := s_l c; s_o := o1 |} (b_meta D)))
        by (split; [reflexivity|exact EA]).
      edestruct finalize_loop_priced as (sf1 & EFL1 & Hl1 & Ho1); [exact Hd|exact HPR|exact EFL|].
      rewrite (finalize_cached_ok D p {| s_l := l'; s_o := s_o sf |} wex ex r (s_o sf1) EW Ho1).
      symmetry. rewrite (finalize_init_ok D o1 sf1 ex l' r EW EA EU).
      + reflexivity.
      + rewrite (PR_check_txs L l_check _ _ _ _ _ HPR). exact EF.
      + exact EFL1.
      + rewrite Hl1. exact ELP.
      + rewrite Hl1, Hmap. exact EM.
    - rewrite (finalize_init_noprice D EW EA).
      apply finalize_cached_noprice; [exact EW|].
      change (apply_prices (s_o sf) (d_prices (b_data D)) (height_of (b_meta D)) = None).
      eapply finalize_loop_unpriced; [exact Hd| |exact EFL]. exact EA.
  Qed.

  Lemma decide_eq_fresh rs D :
    known_f7 (b_data D) = false -> Legal c rs D -> Decide (Init c) rs D = Decide (Init c) [] D.
  Proof.
    intros Hk [HF HH]. rewrite !decide_dec_out. change (Rounds (Init c) []) with (Init c).
    pose proof (rounds_inv L R l_pre l_check l_exec l_post commit_of uh_at c rs [] (Init c)
                  (Inv_init L R l_pre l_check l_exec l_post commit_of uh_at c []) HF) as HI.
    cbn [List.app] in HI.
    set (a := Rounds (Init c) rs) in *.
    destruct HI as (Hc & Hs & He).
    destruct (a_exec a) as [|p|p|p|hh p|hh p] eqn:EA;
      try (rewrite (finalize_nonskip_eq a D Hc Hs) by (rewrite EA; reflexivity); reflexivity).
    destruct (N.eqb_spec (b_hash D) hh) as [Eh|Nh].
    - subst hh. destruct He as (B & HB & Hh & HC).
      assert (B = D) by (apply HH; [right; exact HB|left; reflexivity|exact Hh]). subst B.
      eapply finalize_cached; eassumption.
    - rewrite (finalize_nonskip_eq a D Hc Hs); [reflexivity|].
      rewrite EA. cbn [check_if_executed_block].
      destruct (N.eqb_spec (b_hash D) hh); [contradiction|reflexivity].
  Qed.

  Lemma finalize_finalized (a : App) D a1 res r s :
    Finalize a D = (a1, OFinalized L R res r s) -> a_staged a1 = Some s.
  Proof.
    unfold finalize.
    destruct (check_if_executed_block (a_exec a) (b_hash D)) as [e1 skip].
    destruct (negb (d_wf (b_data D))); [discriminate|].
    match goal with |- context [match ?X with Some _ => _ | None => _ end] =>
      destruct X as [o'|]; [|discriminate] end.
    match goal with |- context [let (a4, o) := ?X in _] => destruct X as [a4 [e|]] end;
      [discriminate|].
    destruct (w_result (a_working a4)) as [[ex r0]|]; [|discriminate].
    intros E. injection E as <- _ _ <-. reflexivity.
  Qed.

  Lemma decide_finalized (a : App) rs D res r s :
    fst (Decide a rs D) = OFinalized L R res r s ->
    Decide a rs D = (OFinalized L R res r s, Some s).
  Proof.
    rewrite decide_dec_out.
    destruct (Finalize (Rounds a rs) D) as [a1 o] eqn:E. cbn [dec_out].
    destruct o; cbn [fst]; try discriminate.
    intros Ho. injection Ho as -> -> ->.
    apply finalize_finalized in E. unfold commit. rewrite E. reflexivity.
  Qed.
End Final.

(* ------------------------------------------------------------------------------------------ *)
(** * The statements *)

Lemma path_independent : stmt_path_independent.
Proof.
  unfold stmt_path_independent, path_independent_at.
  intros L R l_pre l_check l_exec l_post commit_of uh_at height_of c D Hk rs1 rs2 H1 H2.
  rewrite (decide_eq_fresh L R l_pre l_check l_exec l_post commit_of uh_at height_of c rs1 D Hk H1).
  rewrite (decide_eq_fresh L R l_pre l_check l_exec l_post commit_of uh_at height_of c rs2 D Hk H2).
  reflexivity.
Qed.

Lemma no_path_dependent_failure : stmt_no_path_dependent_failure.
Proof.
  unfold stmt_no_path_dependent_failure.
  intros L R l_pre l_check l_exec l_post commit_of uh_at height_of c D rs1 rs2 res r s Hk H1 H2 HF.
  rewrite <- (path_independent L R l_pre l_check l_exec l_post commit_of uh_at height_of c D Hk
                rs1 rs2 H1 H2).
  apply decide_finalized. exact HF.
Qed.

Lemma history_independent : stmt_history_independent.
Proof.
  unfold stmt_history_independent.
  intros L R l_pre l_check l_exec l_post commit_of uh_at height_of c h1.
  revert c. induction h1 as [|[rs1 D1] t1 IH]; intros c [|[rs2 D2] t2] Hm HL1 HL2;
    cbn [map snd] in Hm; try discriminate.
  - reflexivity.
  - injection Hm as <- Hm. cbn [history history_legal] in *.
    destruct HL1 as (Hl1 & Hk & HL1). destruct HL2 as (Hl2 & _ & HL2).
    rewrite (path_independent L R l_pre l_check l_exec l_post commit_of uh_at height_of c D1 Hk
               rs1 rs2 Hl1 Hl2) in *.
    destruct (decide L R l_pre l_check l_exec l_post commit_of uh_at height_of (init_app L R c) rs2 D1)
      as [o [c'|]]; [|reflexivity].
    rewrite (IH c' t2 Hm HL1 HL2). reflexivity.
Qed.

Lemma esm_skip_sound : stmt_esm_skip_sound.
Proof.
  unfold stmt_esm_skip_sound. intros P p_eqb s. split.
  - intros h. destruct s as [|q|q|q|ch cp|ch cp]; cbn [check_if_executed_block fst snd];
      try discriminate.
    destruct (N.eqb_spec h ch) as [->|Hne]; cbn [fst snd]; [|discriminate].
    intros _. exists cp. split; reflexivity.
  - intros req. destruct s as [|q|q|q|ch cp|ch cp]; cbn [check_if_prepared_proposal fst snd];
      try discriminate.
    + destruct (p_eqb q req) eqn:E; cbn [fst snd]; [|discriminate].
      intros _. exists q. split; [left; reflexivity|]. split; [exact E|reflexivity].
    + destruct (p_eqb q req) eqn:E; cbn [fst snd]; [|discriminate].
      intros _. exists q. split; [right; reflexivity|]. split; [exact E|reflexivity].
Qed.

Lemma price_order_irrelevant : stmt_price_order_irrelevant.
Proof.
  unfold stmt_price_order_irrelevant. intros o ps ps' h HP Hnd.
  apply apply_prices_perm; assumption.
Qed.

Lemma cached_compare_exact : stmt_cached_compare_exact.
Proof. unfold stmt_cached_compare_exact. exact proposal_eqb_iff. Qed.
