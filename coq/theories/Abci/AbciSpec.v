(** C05 -- statements.  All of them quantify over the abstract ledger (type [L], response part
    [R], the deterministic functions [l_pre] .. [height_of]); nothing is assumed about it. *)
From Astria Require Import Base.Bounded Abci.AbciModel.
From Coq Require Import Permutation.

Section Spec.
  Variable L R : Type.
  Variable l_pre : L -> bmeta -> L.
  Variable l_check : L -> tx -> bool.
  Variable l_exec : L -> tx -> xres L.
  Variable l_post : L -> N -> bmeta -> L * R.
  Variable commit_of : L -> list tx -> list N.
  Variable uh_at : bmeta -> N.
  Variable height_of : bmeta -> N.

  Notation State := (state L).
  Notation App := (app L R).
  Notation init := (init_app L R).
  Notation Decide := (decide L R l_pre l_check l_exec l_post commit_of uh_at height_of).
  Notation Round_blocks := (round_blocks L R l_pre l_exec commit_of uh_at).
  Notation Check_tx := (check_tx L l_check).
  Notation Pre_exec := (pre_exec L l_pre).

  (** CometBFT's block hash determines the block. *)
  Definition hash_consistent (bs : list block) : Prop :=
    forall b1 b2, In b1 bs -> In b2 bs -> b_hash b1 = b_hash b2 -> b1 = b2.

  (** The transactions a proposer finds in its mempool pass the construction checks on the state
      the block starts from (the mempool service accepts a transaction only after
      CheckedTransaction::new succeeded; transactions that went stale are not modelled). *)
  Definition mempool_fresh (c : State) (r : round) : Prop :=
    match r with
    | RProposer m mem _ _ => forallb (Check_tx (Pre_exec c m)) mem = true
    | _ => True
    end.

  (** One height: any number of rounds (as proposer with or without ProcessProposal of the own
      proposal, as validator of any proposal -- valid or not --, restarts in between), then the
      decided block [D] is finalized and committed. *)
  Definition legal (c : State) (rs : list round) (D : block) : Prop :=
    Forall (mempool_fresh c) rs /\ hash_consistent (D :: flat_map (Round_blocks c) rs).

  Definition path_independent_at (c : State) (D : block) : Prop :=
    forall rs1 rs2, legal c rs1 D -> legal c rs2 D -> Decide (init c) rs1 D = Decide (init c) rs2 D.
End Spec.

(** The full statement of the property -- FALSE of the code (finding F7). *)
Definition stmt_path_independent_full : Prop :=
  forall (L R : Type) l_pre l_check l_exec l_post commit_of uh_at height_of (c : state L) (D : block),
    path_independent_at L R l_pre l_check l_exec l_post commit_of uh_at height_of c D.

(** What holds: every block outside the known class. *)
Definition stmt_path_independent : Prop :=
  forall (L R : Type) l_pre l_check l_exec l_post commit_of uh_at height_of (c : state L) (D : block),
    known_f7 (b_data D) = false ->
    path_independent_at L R l_pre l_check l_exec l_post commit_of uh_at height_of c D.

(** In particular FinalizeBlock cannot fail on one legal path and succeed on another. *)
Definition stmt_no_path_dependent_failure : Prop :=
  forall (L R : Type) l_pre l_check l_exec l_post commit_of uh_at height_of (c : state L) (D : block)
         rs1 rs2 res r s,
    known_f7 (b_data D) = false ->
    legal L R l_pre l_check l_exec commit_of uh_at c rs1 D ->
    legal L R l_pre l_check l_exec commit_of uh_at c rs2 D ->
    fst (decide L R l_pre l_check l_exec l_post commit_of uh_at height_of (init_app L R c) rs1 D)
      = OFinalized L R res r s ->
    decide L R l_pre l_check l_exec l_post commit_of uh_at height_of (init_app L R c) rs2 D
      = (OFinalized L R res r s, Some s).

(** Multi-block histories: heights chained through Commit. *)
Section History.
  Variable L R : Type.
  Variable l_pre : L -> bmeta -> L.
  Variable l_check : L -> tx -> bool.
  Variable l_exec : L -> tx -> xres L.
  Variable l_post : L -> N -> bmeta -> L * R.
  Variable commit_of : L -> list tx -> list N.
  Variable uh_at : bmeta -> N.
  Variable height_of : bmeta -> N.

  (** run a history of (rounds, decided block); stops at the first height that does not commit *)
  Fixpoint history (c : state L) (hs : list (list round * block)) : list (outcome L R) * state L :=
    match hs with
    | [] => ([], c)
    | (rs, D) :: rest =>
        match decide L R l_pre l_check l_exec l_post commit_of uh_at height_of (init_app L R c) rs D with
        | (o, Some c') => let (os, cf) := history c' rest in (o :: os, cf)
        | (o, None) => ([o], c)
        end
    end.

  Fixpoint history_legal (c : state L) (hs : list (list round * block)) : Prop :=
    match hs with
    | [] => True
    | (rs, D) :: rest =>
        legal L R l_pre l_check l_exec commit_of uh_at c rs D /\ known_f7 (b_data D) = false /\
        match decide L R l_pre l_check l_exec l_post commit_of uh_at height_of (init_app L R c) rs D with
        | (_, Some c') => history_legal c' rest
        | (_, None) => True
        end
    end.
End History.

(** Two nodes that see the same decided blocks, each along its own legal call paths, produce the
    same FinalizeBlock outcomes and end in the same committed state. *)
Definition stmt_history_independent : Prop :=
  forall (L R : Type) l_pre l_check l_exec l_post commit_of uh_at height_of (c : state L)
         (h1 h2 : list (list round * block)),
    map snd h1 = map snd h2 ->
    history_legal L R l_pre l_check l_exec l_post commit_of uh_at height_of c h1 ->
    history_legal L R l_pre l_check l_exec l_post commit_of uh_at height_of c h2 ->
    history L R l_pre l_check l_exec l_post commit_of uh_at height_of c h1 =
    history L R l_pre l_check l_exec l_post commit_of uh_at height_of c h2.

(** The execution state machine lets FinalizeBlock / ProcessProposal skip execution only for the
    very block / proposal that was cached. *)
Definition stmt_esm_skip_sound : Prop :=
  forall (P : Type) (p_eqb : P -> P -> bool) (s : exec_state P),
    (forall h, snd (check_if_executed_block s h) = true ->
               exists p, s = ExecutedBlock h p /\ fst (check_if_executed_block s h) = s) /\
    (forall req, snd (check_if_prepared_proposal p_eqb s req) = true ->
               exists c, (s = Prepared c \/ s = PreparedValid c) /\ p_eqb c req = true /\
                         fst (check_if_prepared_proposal p_eqb s req) = PreparedValid c).

(** The order in which the block lists its prices is irrelevant (distinct pairs). *)
Definition stmt_price_order_irrelevant : Prop :=
  forall (o : ostate) (ps ps' : list (N * N)) (h : N),
    Permutation ps ps' -> NoDup (map fst ps) -> apply_prices o ps h = apply_prices o ps' h.

(** The cached-proposal comparison (the derived [PartialEq] of [CachedProposal]) is exact: it holds
    for the very same time, proposer, txs, last commit, misbehavior, next validators hash and
    height only -- a proposal differing in any one of them is never taken for the cached one. *)
Definition stmt_cached_compare_exact : Prop :=
  forall p q : proposal, proposal_eqb p q = true <-> p = q.
