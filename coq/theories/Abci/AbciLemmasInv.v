(** C05 -- the invariant of the application along the rounds of one height. *)
From Astria Require Import Base.Bounded Abci.AbciModel Abci.AbciSpec
  Abci.AbciLemmasOracle Abci.AbciLemmasComm Abci.AbciLemmasLoops.

#[local] Arguments a_committed {L R} a.
#[local] Arguments a_working {L R} a.
#[local] Arguments a_exec {L R} a.
#[local] Arguments a_staged {L R} a.
#[local] Arguments w_s {L R} w.
#[local] Arguments w_executed {L R} w.
#[local] Arguments w_result {L R} w.

Lemma match_not_prepared {P T} (e : exec_state P) (A : P -> T) (B : T) :
  (forall p, e <> Prepared p) ->
  match e with Prepared p => A p | _ => B end = B.
Proof. intros H. destruct e; try reflexivity. exfalso; eapply H; reflexivity. Qed.

Section Inv.
  Variable L R : Type.
  Variable l_pre : L -> bmeta -> L.
  Variable l_check : L -> tx -> bool.
  Variable l_exec : L -> tx -> xres L.
  Variable l_post : L -> N -> bmeta -> L * R.
  Variable commit_of : L -> list tx -> list N.
  Variable uh_at : bmeta -> N.

  Notation State := (state L).
  Notation App := (app L R).
  Notation Init := (init_app L R).
  Notation New_round := (new_round L R).
  Notation With_exec := (with_exec L R).
  Notation Process_loop := (process_loop L l_exec).
  Notation Prepare_loop := (prepare_loop L l_exec).
  Notation Check_tx := (check_tx L l_check).
  Notation Pre_exec := (pre_exec L l_pre).
  Notation Prepare := (prepare L R l_pre l_exec commit_of uh_at).
  Notation Process := (process L R l_pre l_check l_exec l_post commit_of uh_at).
  Notation Round_step := (round_step L R l_pre l_check l_exec l_post commit_of uh_at).
  Notation Rounds := (rounds L R l_pre l_check l_exec l_post commit_of uh_at).
  Notation Round_blocks := (round_blocks L R l_pre l_exec commit_of uh_at).
  Notation Mempool_fresh := (mempool_fresh L l_pre l_check).

  Variable c : State.

  (** the working state holds the result of ProcessProposal of block [B] on [c] *)
  Definition Cached (w : wstate L R) (B : block) : Prop :=
    d_wf (b_data B) = true /\
    N.eqb (d_uh (b_data B)) (uh_at (b_meta B)) = true /\
    forallb (Check_tx (Pre_exec c (b_meta B))) (d_txs (b_data B)) = true /\
    exists sf ex,
      Process_loop (Pre_exec c (b_meta B)) GROUP_TOP (d_txs (b_data B)) = (sf, inl ex) /\
      list_eqb N.eqb (d_commit (b_data B)) (commit_of (s_l sf) (d_txs (b_data B))) = true /\
      w_s w = {| s_l := fst (l_post (s_l sf) (b_hash B) (b_meta B)); s_o := s_o sf |} /\
      w_result w = Some (ex, snd (l_post (s_l sf) (b_hash B) (b_meta B))).

  (** the working state and the proposal are what PrepareProposal makes of a fresh mempool *)
  Definition PreparedBy (w : wstate L R) (p : proposal) : Prop :=
    exists mem prices sf inc,
      forallb (Check_tx (Pre_exec c (fst p))) mem = true /\
      Prepare_loop (Pre_exec c (fst p)) GROUP_TOP mem = (sf, inc) /\
      snd p = {| d_wf := true; d_ecvalid := true; d_prices := prices; d_uh := uh_at (fst p);
                 d_commit := commit_of (s_l sf) (map fst inc); d_txs := map fst inc |} /\
      w = {| w_s := sf; w_executed := Some inc; w_result := None |}.

  Definition Inv (bs : list block) (a : App) : Prop :=
    a_committed a = c /\ a_staged a = None /\
    match a_exec a with
    | ExecutedBlock hh _ => exists B, In B bs /\ b_hash B = hh /\ Cached (a_working a) B
    | Prepared p | PreparedValid p => PreparedBy (a_working a) p
    | _ => True
    end.

  Lemma Inv_mono bs bs' a : incl bs bs' -> Inv bs a -> Inv bs' a.
  Proof.
    intros Hi (Hc & Hs & He). split; [exact Hc|]. split; [exact Hs|].
    destruct (a_exec a); try exact He.
    destruct He as (B & HB & Hh & HC). exists B.
    split; [apply Hi; exact HB|]. split; [exact Hh|exact HC].
  Qed.

  Lemma Inv_init bs : Inv bs (Init c).
  Proof. repeat split. Qed.

  Lemma new_round_init (a : App) :
    a_committed a = c -> a_staged a = None -> New_round a = Init c.
  Proof. destruct a as [ac aw ae ast]; cbn; intros -> ->. reflexivity. Qed.

  (** ** PrepareProposal *)

  Lemma prepare_eq_init (a : App) m mem prices :
    a_committed a = c -> a_staged a = None -> Prepare a m mem prices = Prepare (Init c) m mem prices.
  Proof.
    intros Hc Hs. change (Prepare a m mem prices) with (Prepare (New_round a) m mem prices).
    rewrite new_round_init by assumption. reflexivity.
  Qed.

  Lemma prepare_init_inv m mem prices :
    forallb (Check_tx (Pre_exec c m)) mem = true ->
    exists a1 d, Prepare (Init c) m mem prices = (a1, OPrepared L R d) /\ (forall bs, Inv bs a1) /\
                 a_exec a1 = Prepared (m, d).
  Proof.
    intros Hm. unfold prepare. cbn [new_round init_app a_committed a_exec a_staged].
    destruct (Prepare_loop (Pre_exec c m) GROUP_TOP mem) as [sf inc] eqn:EP.
    cbn [set_prepared_proposal]. eexists; eexists. split; [reflexivity|].
    split; [|reflexivity]. intros bs.
    split; [reflexivity|]. split; [reflexivity|].
    cbn [with_exec with_working a_exec a_working].
    exists mem, prices, sf, inc. cbn [fst snd]. repeat split; assumption.
  Qed.

  (** ** ProcessProposal *)

  Lemma check_prepared_inv bs (a : App) req :
    Inv bs a ->
    Inv bs (With_exec a (fst (check_if_prepared_proposal proposal_eqb (a_exec a) req))).
  Proof.
    intros (Hc & Hs & He). split; [exact Hc|]. split; [exact Hs|].
    cbn [with_exec a_exec a_working].
    destruct (a_exec a) as [|p|p|p|hh p|hh p]; cbn [check_if_prepared_proposal fst]; try exact He;
      destruct (proposal_eqb p req); cbn [fst]; try exact He; exact I.
  Qed.

  Lemma check_prepared_not_prepared (e : exec_state proposal) req p :
    fst (check_if_prepared_proposal proposal_eqb e req) <> Prepared p.
  Proof.
    destruct e as [|q|q|q|hh q|hh q]; cbn [check_if_prepared_proposal fst]; try discriminate;
      destruct (proposal_eqb q req); discriminate.
  Qed.

  Lemma check_prepared_skip bs (a : App) req :
    Inv bs a -> snd (check_if_prepared_proposal proposal_eqb (a_exec a) req) = true ->
    fst (check_if_prepared_proposal proposal_eqb (a_exec a) req) = PreparedValid req /\
    PreparedBy (a_working a) req.
  Proof.
    intros (Hc & Hs & He).
    destruct (a_exec a) as [|p|p|p|hh p|hh p]; cbn [check_if_prepared_proposal fst snd];
      try discriminate.
    - destruct (proposal_eqb p req) eqn:E; cbn [fst snd]; [|discriminate].
      apply proposal_eqb_sound in E; subst p. intros _. split; [reflexivity|exact He].
    - destruct (proposal_eqb p req) eqn:E; cbn [fst snd]; [|discriminate].
      apply proposal_eqb_sound in E; subst p. intros _. split; [reflexivity|exact He].
  Qed.

  Lemma process_nonskip_eq (a : App) b e1 :
    a_committed a = c -> a_staged a = None ->
    check_if_prepared_proposal proposal_eqb (a_exec a) (b_meta b, b_data b) = (e1, false) ->
    d_wf (b_data b) = true ->
    Process a b = Process (Init c) b.
  Proof.
    intros Hc Hs EC EW.
    assert (E1 : forall p, e1 <> Prepared p).
    { intros p. replace e1 with (fst (check_if_prepared_proposal proposal_eqb (a_exec a) (b_meta b, b_data b)))
        by (rewrite EC; reflexivity). apply check_prepared_not_prepared. }
    unfold process. rewrite EC.
    cbn [init_app a_exec check_if_prepared_proposal].
    rewrite (match_not_prepared e1) by exact E1.
    rewrite EW. cbn [negb].
    rewrite (new_round_init (With_exec a e1)) by (cbn [with_exec a_committed a_staged]; assumption).
    reflexivity.
  Qed.

  Ltac inv_triv := split; [reflexivity|split; [reflexivity|exact I]].

  Lemma process_init_inv bs b : In b bs -> Inv bs (fst (Process (Init c) b)).
  Proof.
    intros Hb. unfold process.
    cbn [init_app a_exec check_if_prepared_proposal new_round with_exec a_committed a_staged].
    destruct (d_wf (b_data b)) eqn:EW; cbn [negb]; [|inv_triv].
    destruct (d_ecvalid (b_data b)) eqn:EE; cbn [negb]; [|inv_triv].
    destruct (d_uh (b_data b) =? uh_at (b_meta b)) eqn:EU; cbn [negb]; [|inv_triv].
    destruct (forallb (Check_tx (Pre_exec c (b_meta b))) (d_txs (b_data b))) eqn:EF;
      cbn [negb]; [|inv_triv].
    destruct (Process_loop (Pre_exec c (b_meta b)) GROUP_TOP (d_txs (b_data b)))
      as [sf [ex|e]] eqn:EP; [|inv_triv].
    destruct (list_eqb N.eqb (d_commit (b_data b)) (commit_of (s_l sf) (d_txs (b_data b))))
      eqn:EM; cbn [negb]; [|inv_triv].
    unfold post_exec.
    change (New_round (With_exec (Init c) Unset)) with (Init c).
    cbn [with_working with_exec a_exec a_working a_committed a_staged set_executed_block fresh
         w_s w_executed w_result s_l s_o init_app].
    destruct (process_finalize _ _ _ _ _ _ _ EP) as [_ Hmap]. rewrite Hmap, EM.
    destruct (l_post (s_l sf) (b_hash b) (b_meta b)) as [l' r] eqn:ELP.
    cbn [fst with_exec with_working a_committed a_staged a_exec a_working].
    split; [reflexivity|]. split; [reflexivity|].
    cbn [with_exec with_working a_committed a_staged a_exec a_working].
    exists b. split; [exact Hb|]. split; [reflexivity|].
    split; [exact EW|]. split; [exact EU|]. split; [exact EF|].
    exists sf, ex. split; [exact EP|]. split; [exact EM|].
    rewrite ELP. cbn [w_s w_result fst snd]. split; reflexivity.
  Qed.

  Lemma process_skip_inv bs (a : App) b e1 :
    Inv bs a -> In b bs ->
    check_if_prepared_proposal proposal_eqb (a_exec a) (b_meta b, b_data b) = (e1, true) ->
    d_wf (b_data b) = true ->
    Inv bs (fst (Process a b)).
  Proof.
    intros HI Hb EC EW.
    destruct (check_prepared_skip bs a (b_meta b, b_data b) HI) as [E1 HP];
      [rewrite EC; reflexivity|].
    rewrite EC in E1; cbn [fst] in E1. subst e1.
    destruct HI as (Hc & Hs & _).
    destruct HP as (mem & prices & sf & inc & Hm & EPL & Hd & Hw). cbn [fst snd] in Hm, EPL, Hd.
    destruct (prepare_process _ _ _ _ _ _ _ EPL) as [EPr Hincl].
    unfold process. rewrite EC. cbv beta iota zeta. rewrite EW. cbn [negb].
    cbn [with_exec a_working a_exec]. rewrite Hw. cbn [w_executed].
    unfold post_exec. cbn [with_exec a_working a_exec set_executed_block]. rewrite Hw.
    cbn [w_s w_executed w_result].
    destruct (l_post (s_l sf) (b_hash b) (b_meta b)) as [l' r] eqn:ELP.
    assert (EM : list_eqb N.eqb (d_commit (b_data b)) (commit_of (s_l sf) (map fst inc)) = true)
      by (rewrite Hd; cbn [d_commit]; apply listN_eqb_refl).
    rewrite EM. cbn [fst].
    split; [exact Hc|]. split; [exact Hs|].
    cbn [with_exec with_working a_exec a_working].
    exists b. split; [exact Hb|]. split; [reflexivity|].
    split; [exact EW|].
    split; [rewrite Hd; cbn [d_uh]; apply N.eqb_refl|].
    split.
    { rewrite Hd; cbn [d_txs]. apply forallb_forall. intros t Ht.
      rewrite forallb_forall in Hm. apply Hm, Hincl, Ht. }
    exists sf, inc. rewrite Hd at 1 2 3. cbn [d_txs d_commit].
    split; [exact EPr|]. split; [apply listN_eqb_refl|].
    rewrite ELP. cbn [w_s w_result fst snd]. split; reflexivity.
  Qed.

  Lemma process_inv bs (a : App) b : Inv bs a -> In b bs -> Inv bs (fst (Process a b)).
  Proof.
    intros HI Hb.
    destruct (check_if_prepared_proposal proposal_eqb (a_exec a) (b_meta b, b_data b))
      as [e1 skip] eqn:EC.
    destruct (d_wf (b_data b)) eqn:EW.
    - destruct skip.
      + eapply process_skip_inv; eassumption.
      + destruct HI as (Hc & Hs & _).
        rewrite (process_nonskip_eq a b e1 Hc Hs EC EW). apply process_init_inv, Hb.
    - assert (E1 : e1 = fst (check_if_prepared_proposal proposal_eqb (a_exec a) (b_meta b, b_data b)))
        by (rewrite EC; reflexivity).
      unfold process. rewrite EC. cbv beta iota zeta.
      rewrite (match_not_prepared e1)
        by (intros p; rewrite E1; apply check_prepared_not_prepared).
      rewrite EW. cbn [negb fst]. rewrite E1. apply check_prepared_inv, HI.
  Qed.

  (** ** Rounds *)

  Lemma round_step_inv bs (a : App) r :
    Inv bs a -> Mempool_fresh c r -> Inv (bs ++ Round_blocks c r) (Round_step a r).
  Proof.
    intros HI Hf. destruct r as [m mem prices own|b|]; cbn [round_step round_blocks mempool_fresh] in *.
    - destruct HI as (Hc & Hs & _). rewrite (prepare_eq_init a m mem prices Hc Hs).
      destruct (prepare_init_inv m mem prices Hf) as (a1 & d & EPr & HI1 & _). rewrite EPr.
      destruct own as [hh|].
      + apply process_inv; [apply HI1|]. apply in_or_app; right; left; reflexivity.
      + apply HI1.
    - apply process_inv; [|apply in_or_app; right; left; reflexivity].
      eapply Inv_mono; [|exact HI]. apply incl_appl, incl_refl.
    - destruct HI as (Hc & _). cbn [restart fst]. rewrite Hc. apply Inv_init.
  Qed.

  Lemma rounds_inv : forall rs bs (a : App),
    Inv bs a -> Forall (Mempool_fresh c) rs ->
    Inv (bs ++ flat_map (Round_blocks c) rs) (Rounds a rs).
  Proof.
    unfold rounds. induction rs as [|r rs IH]; intros bs a HI HF; cbn [fold_left flat_map].
    - rewrite app_nil_r. exact HI.
    - inversion HF as [|? ? Hr Hrs]; subst. rewrite app_assoc. apply IH; [|exact Hrs].
      apply round_step_inv; assumption.
  Qed.
End Inv.
