(** C05 -- commutation of oracle price application with currency-pair actions on other pairs,
    and independence of the price order. *)
From Astria Require Import Base.Bounded Abci.AbciModel Abci.AbciLemmasOracle.
From Coq Require Import Permutation.

(* ------------------------------------------------------------------------------------------ *)
(** * Commuting partial operations on the oracle store *)

Definition comm (g f : ostate -> option ostate) : Prop :=
  (forall o o1 o2, g o = Some o1 -> f o = Some o2 ->
                   exists o12, f o1 = Some o12 /\ g o2 = Some o12) /\
  (forall o o1, g o = Some o1 -> f o = None -> f o1 = None) /\
  (forall o o2, g o = None -> f o = Some o2 -> g o2 = None).

Lemma comm_id_r g : comm g (fun o => Some o).
Proof.
  repeat split.
  - intros o o1 o2 Hg Hf. injection Hf as <-. exists o1; split; [reflexivity|exact Hg].
  - intros o o1 _ Hf; discriminate.
  - intros o o2 Hg Hf. injection Hf as <-. exact Hg.
Qed.

Lemma comm_id_l f : comm (fun o => Some o) f.
Proof.
  repeat split.
  - intros o o1 o2 Hg Hf. injection Hg as <-. exists o2; split; [exact Hf|reflexivity].
  - intros o o1 Hg Hf. injection Hg as <-. exact Hf.
  - intros o o2 Hg _; discriminate.
Qed.

Lemma comm_seq_r g f1 f2 :
  comm g f1 -> comm g f2 -> comm g (fun o => obind (f1 o) f2).
Proof.
  intros (A1 & B1 & C1) (A2 & B2 & C2). repeat split.
  - intros o o1 o2 Hg Hf. destruct (f1 o) as [oa|] eqn:E1; cbn [obind] in Hf; [|discriminate].
    destruct (A1 _ _ _ Hg E1) as (o1a & F1 & G1).
    destruct (A2 _ _ _ G1 Hf) as (o12 & F2 & G2).
    exists o12. rewrite F1; cbn [obind]. split; assumption.
  - intros o o1 Hg Hf. destruct (f1 o) as [oa|] eqn:E1; cbn [obind] in Hf.
    + destruct (A1 _ _ _ Hg E1) as (o1a & F1 & G1). rewrite F1; cbn [obind].
      eapply B2; eassumption.
    + rewrite (B1 _ _ Hg E1). reflexivity.
  - intros o o2 Hg Hf. destruct (f1 o) as [oa|] eqn:E1; cbn [obind] in Hf; [|discriminate].
    eapply C2; [|eassumption]. eapply C1; eassumption.
Qed.

Lemma comm_seq_l g1 g2 f :
  comm g1 f -> comm g2 f -> comm (fun o => obind (g1 o) g2) f.
Proof.
  intros (A1 & B1 & C1) (A2 & B2 & C2). repeat split.
  - intros o o1 o2 Hg Hf. destruct (g1 o) as [ob|] eqn:E1; cbn [obind] in Hg; [|discriminate].
    destruct (A1 _ _ _ E1 Hf) as (ob2 & F1 & G1).
    destruct (A2 _ _ _ Hg F1) as (o12 & F2 & G2).
    exists o12. rewrite G1; cbn [obind]. split; assumption.
  - intros o o1 Hg Hf. destruct (g1 o) as [ob|] eqn:E1; cbn [obind] in Hg; [|discriminate].
    eapply B2; [eassumption|]. eapply B1; eassumption.
  - intros o o2 Hg Hf. destruct (g1 o) as [ob|] eqn:E1; cbn [obind] in Hg.
    + destruct (A1 _ _ _ E1 Hf) as (ob2 & F1 & G1). rewrite G1; cbn [obind].
      eapply C2; eassumption.
    + rewrite (C1 _ _ E1 Hf). reflexivity.
Qed.

Lemma comm_ext_r g f f' : (forall o, f o = f' o) -> comm g f -> comm g f'.
Proof.
  intros H (A & B & C). repeat split.
  - intros o o1 o2 Hg Hf. rewrite <- H in Hf. destruct (A _ _ _ Hg Hf) as (o12 & F & G).
    exists o12. rewrite <- H. split; assumption.
  - intros o o1 Hg Hf. rewrite <- H in *. eapply B; eassumption.
  - intros o o2 Hg Hf. rewrite <- H in Hf. eapply C; eassumption.
Qed.

Lemma comm_ext_l g g' f : (forall o, g o = g' o) -> comm g f -> comm g' f.
Proof.
  intros H (A & B & C). repeat split.
  - intros o o1 o2 Hg Hf. rewrite <- H in Hg. destruct (A _ _ _ Hg Hf) as (o12 & F & G).
    exists o12. rewrite <- H. split; assumption.
  - intros o o1 Hg Hf. rewrite <- H in Hg. eapply B; eassumption.
  - intros o o2 Hg Hf. rewrite <- H in *. eapply C; eassumption.
Qed.

(* ------------------------------------------------------------------------------------------ *)
(** * [put_price] against one action, a list of actions; [apply_prices] against a list *)

Lemma put_price_Some_nonce o k p h o1 :
  put_price o k p h = Some o1 ->
  exists ps, o_lookup k (o_pairs o) = Some ps /\ (ps_nonce ps <? U64_MAX) = true /\
             o1 = o_upd k (bump ps p h) o.
Proof.
  rewrite put_price_spec. destruct (o_lookup k (o_pairs o)) as [ps|]; [|discriminate].
  destruct (ps_nonce ps <? U64_MAX) eqn:En; [|discriminate].
  intros E; injection E as <-. exists ps; repeat split; try reflexivity; exact En.
Qed.

Lemma comm_put_price_oaction k p h a :
  ~ In k (oaction_pairs a) ->
  comm (fun o => put_price o k p h) (fun o => oaction_exec o a).
Proof.
  intros Hn. repeat split.
  - intros o o1 o2 Hg Hf. apply put_price_Some_nonce in Hg as (ps & El & En & ->).
    assert (Hp : is_some (o_lookup k (o_pairs o)) = true) by (rewrite El; reflexivity).
    rewrite oaction_exec_upd, Hf by assumption. cbn [option_map].
    eexists; split; [reflexivity|].
    rewrite put_price_spec, (oaction_exec_lookup _ _ _ _ Hn Hf), El, En. reflexivity.
  - intros o o1 Hg Hf. apply put_price_Some in Hg as (ps & El & ->).
    assert (Hp : is_some (o_lookup k (o_pairs o)) = true) by (rewrite El; reflexivity).
    rewrite oaction_exec_upd, Hf by assumption. reflexivity.
  - intros o o2 Hg Hf.
    rewrite put_price_spec, (oaction_exec_lookup _ _ _ _ Hn Hf).
    rewrite put_price_spec in Hg.
    destruct (o_lookup k (o_pairs o)) as [ps|]; [|reflexivity].
    destruct (ps_nonce ps <? U64_MAX); [discriminate|reflexivity].
Qed.

Lemma oactions_exec_cons o a r :
  oactions_exec o (a :: r) = obind (oaction_exec o a) (fun o' => oactions_exec o' r).
Proof. reflexivity. Qed.

Lemma apply_prices_cons o k p r h :
  apply_prices o ((k, p) :: r) h = obind (put_price o k p h) (fun o' => apply_prices o' r h).
Proof. reflexivity. Qed.

Lemma comm_put_price_oactions k p h acts :
  ~ In k (flat_map oaction_pairs acts) ->
  comm (fun o => put_price o k p h) (fun o => oactions_exec o acts).
Proof.
  induction acts as [|a r IH]; intros Hn.
  - apply comm_id_r.
  - cbn [flat_map] in Hn.
    eapply comm_ext_r; [intros o; symmetry; apply oactions_exec_cons|].
    apply (comm_seq_r _ (fun o => oaction_exec o a) (fun o => oactions_exec o r)).
    + apply comm_put_price_oaction. intros Hi; apply Hn, in_or_app; left; exact Hi.
    + apply IH. intros Hi; apply Hn, in_or_app; right; exact Hi.
Qed.

Lemma comm_apply_prices_oactions ps h acts :
  (forall k, In k (map fst ps) -> ~ In k (flat_map oaction_pairs acts)) ->
  comm (fun o => apply_prices o ps h) (fun o => oactions_exec o acts).
Proof.
  induction ps as [|[k p] r IH]; intros Hn.
  - apply comm_id_l.
  - eapply comm_ext_l; [intros o; symmetry; apply apply_prices_cons|].
    apply (comm_seq_l (fun o => put_price o k p h) (fun o => apply_prices o r h)).
    + apply comm_put_price_oactions. apply Hn. left; reflexivity.
    + apply IH. intros k' Hi. apply Hn. right; exact Hi.
Qed.

(* ------------------------------------------------------------------------------------------ *)
(** * The order of the prices is irrelevant *)

Lemma put_price_swap o k1 p1 k2 p2 h :
  k1 <> k2 ->
  obind (put_price o k1 p1 h) (fun o' => put_price o' k2 p2 h) =
  obind (put_price o k2 p2 h) (fun o' => put_price o' k1 p1 h).
Proof.
  intros Hne. assert (Hne' : k2 <> k1) by (intros E; apply Hne; symmetry; exact E).
  rewrite (put_price_spec o k1), (put_price_spec o k2).
  destruct (o_lookup k1 (o_pairs o)) as [s1|] eqn:E1;
    destruct (o_lookup k2 (o_pairs o)) as [s2|] eqn:E2; cbn [obind].
  - destruct (ps_nonce s1 <? U64_MAX) eqn:N1; destruct (ps_nonce s2 <? U64_MAX) eqn:N2;
      cbn [obind]; rewrite ?put_price_spec; cbn [o_upd o_pairs o_next o_num];
      rewrite ?o_lookup_put_other by assumption; rewrite ?E1, ?E2, ?N1, ?N2; try reflexivity.
    f_equal. unfold o_upd; cbn [o_pairs o_next o_num]. f_equal.
    apply o_put_put; [exact Hne'|]. rewrite E2; reflexivity.
  - destruct (ps_nonce s1 <? U64_MAX); cbn [obind]; [|reflexivity].
    rewrite put_price_spec; cbn [o_upd o_pairs]. rewrite o_lookup_put_other, E2 by assumption.
    reflexivity.
  - destruct (ps_nonce s2 <? U64_MAX); cbn [obind]; [|reflexivity].
    rewrite put_price_spec; cbn [o_upd o_pairs]. rewrite o_lookup_put_other, E1 by assumption.
    reflexivity.
  - reflexivity.
Qed.

Lemma apply_prices_perm ps ps' : Permutation ps ps' ->
  NoDup (map fst ps) -> forall o h, apply_prices o ps h = apply_prices o ps' h.
Proof.
  induction 1 as [|[k p] l l' HP IH|[k1 p1] [k2 p2] l|l l' l'' HP1 IH1 HP2 IH2]; intros Hnd o h.
  - reflexivity.
  - rewrite !apply_prices_cons. cbn [map fst] in Hnd. inversion Hnd as [|? ? _ Hnd']; subst.
    destruct (put_price o k p h); cbn [obind]; [apply IH; exact Hnd'|reflexivity].
  - cbn [map fst] in Hnd. inversion Hnd as [|? ? Hni _]; subst.
    assert (Hne : k1 <> k2) by (intros ->; apply Hni; left; reflexivity).
    rewrite (apply_prices_cons o k1), (apply_prices_cons o k2).
    pose proof (put_price_swap o k1 p1 k2 p2 h Hne) as S.
    destruct (put_price o k1 p1 h) as [oa|]; destruct (put_price o k2 p2 h) as [ob|];
      cbn [obind] in *; rewrite ?apply_prices_cons.
    + rewrite <- S. reflexivity.
    + rewrite S. reflexivity.
    + rewrite <- S. reflexivity.
    + reflexivity.
  - rewrite IH1 by exact Hnd. apply IH2.
    eapply Permutation_NoDup; [|exact Hnd]. apply Permutation_map; exact HP1.
Qed.
