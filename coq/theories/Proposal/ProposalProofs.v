(** C06 — proofs about ProposalModel.v (statements in ProposalSpec.v). *)
From Astria Require Import Base.Bounded Proposal.ProposalModel Proposal.ProposalSpec.
From Coq Require Import ZArith.
Open Scope N_scope.

(* ------------------------------------------------------------------------------------------ *)
(** * BlockSizeConstraints arithmetic *)

Lemma seq_has_space_spec c n :
  cur_seq c <= max_seq c -> (seq_has_space c n = true <-> cur_seq c + n <= max_seq c).
Proof.
  intros H. unfold seq_has_space, saturating_sub. rewrite N.leb_le. lia.
Qed.

Lemma comet_has_space_spec c n :
  cur_comet c <= max_comet c -> (comet_has_space c n = true <-> cur_comet c + n <= max_comet c).
Proof.
  intros H. unfold comet_has_space, saturating_sub. rewrite N.leb_le. lia.
Qed.

Lemma seq_checked_add_Some c n c' :
  seq_checked_add c n = Some c' <->
  (cur_seq c + n <= USIZE_MAX /\ cur_seq c + n <= max_seq c /\
   c' = mkC (max_seq c) (max_comet c) (cur_seq c + n) (cur_comet c)).
Proof.
  unfold seq_checked_add, checked_add.
  destruct (N.leb_spec (cur_seq c + n) USIZE_MAX).
  - destruct (N.leb_spec (cur_seq c + n) (max_seq c)); split; intros H1.
    + inversion H1; subst; auto.
    + destruct H1 as (_ & _ & ->); reflexivity.
    + discriminate.
    + lia.
  - split; intros H1; [discriminate|lia].
Qed.

Lemma comet_checked_add_Some c n c' :
  comet_checked_add c n = Some c' <->
  (cur_comet c + n <= USIZE_MAX /\ cur_comet c + n <= max_comet c /\
   c' = mkC (max_seq c) (max_comet c) (cur_seq c) (cur_comet c + n)).
Proof.
  unfold comet_checked_add, checked_add.
  destruct (N.leb_spec (cur_comet c + n) USIZE_MAX).
  - destruct (N.leb_spec (cur_comet c + n) (max_comet c)); split; intros H1.
    + inversion H1; subst; auto.
    + destruct H1 as (_ & _ & ->); reflexivity.
    + discriminate.
    + lia.
  - split; intros H1; [discriminate|lia].
Qed.

(* ------------------------------------------------------------------------------------------ *)
(** * Lists of groups *)

Fixpoint rsorted (l : list N) : Prop :=
  match l with
  | [] => True
  | x :: r => x <= hd G_BUNDLEABLE_GENERAL r /\ rsorted r
  end.

Lemma last_cons_default {A} (z : A) l d1 d2 : last (z :: l) d1 = last (z :: l) d2.
Proof.
  revert z. induction l as [|y l IH]; intros z; [reflexivity|].
  change (last (z :: y :: l) d1) with (last (y :: l) d1).
  change (last (z :: y :: l) d2) with (last (y :: l) d2). apply IH.
Qed.

Lemma nonincreasing_from_app g l x :
  nonincreasing_from g (l ++ [x]) <-> nonincreasing_from g l /\ x <= last l g.
Proof.
  revert g. induction l as [|y l IH]; intros g.
  - cbn. tauto.
  - change ((y :: l) ++ [x]) with (y :: (l ++ [x])). cbn [nonincreasing_from]. rewrite IH.
    destruct l as [|z l].
    + cbn. tauto.
    + change (last (y :: z :: l) g) with (last (z :: l) g).
      rewrite (last_cons_default z l y g). tauto.
Qed.

Lemma last_rev_hd {A} (l : list A) d : last (rev l) d = hd d l.
Proof.
  destruct l as [|x l]; [reflexivity|]. cbn [rev hd].
  induction (rev l) as [|y r IH]; [reflexivity|]. cbn [app last].
  destruct (r ++ [x]) eqn:E; [destruct r; discriminate|]. exact IH.
Qed.

Lemma rsorted_rev l : rsorted l -> nonincreasing_from G_BUNDLEABLE_GENERAL (rev l).
Proof.
  induction l as [|x l IH]; intros H; cbn [rev].
  - exact I.
  - destruct H as [H1 H2]. apply nonincreasing_from_app. split; [auto|].
    rewrite last_rev_hd. exact H1.
Qed.

(* ------------------------------------------------------------------------------------------ *)

Section Proofs.
  Context {S T C : Type}.
  Variable exec : S -> tx T -> outcome S.
  Variable construct : S -> tx T -> bool.
  Variable commit_datas commit_ids : list (tx T) -> S -> C.
  Variable ceqb : C -> C -> bool.

  Notation run_nonfatal := (run_nonfatal exec).
  Notation prepare_step := (prepare_step exec).
  Notation prepare_loop := (prepare_loop exec).
  Notation process_step := (process_step exec).
  Notation process_loop := (process_loop exec).

  Lemma run_nonfatal_app s0 a s1 b s2 :
    run_nonfatal s0 a s1 -> run_nonfatal s1 b s2 -> run_nonfatal s0 (a ++ b) s2.
  Proof.
    induction 1; intros Hb; cbn [app]; [assumption| |].
    - eapply rn_ok; eauto.
    - eapply rn_nf; eauto.
  Qed.

  (** Invariant of both loops.  [B] = bytes counted before the first transaction. *)
  Record inv (s0 : S) (B : N) (l : loop_state S T) : Prop := mkInv {
    i_seq : cur_seq (l_c l) = seq_total (l_included l);
    i_comet : cur_comet (l_c l) = B + len_total (l_included l);
    i_seq_le : cur_seq (l_c l) <= max_seq (l_c l);
    i_comet_le : cur_comet (l_c l) <= max_comet (l_c l);
    i_group : l_group l = hd G_BUNDLEABLE_GENERAL (map tx_group (l_included l));
    i_sorted : rsorted (map tx_group (l_included l));
    i_run : run_nonfatal s0 (rev (l_included l)) (l_state l) }.

  Definition same_limits (l l' : loop_state S T) : Prop :=
    max_seq (l_c l') = max_seq (l_c l) /\ max_comet (l_c l') = max_comet (l_c l).

  Lemma push_ok s0 B l t s' rm l' :
    inv s0 B l ->
    tx_group t <= l_group l ->
    run_nonfatal (l_state l) [t] s' ->
    push l t s' rm = SContinue l' ->
    inv s0 B l' /\ same_limits l l' /\ l_included l' = t :: l_included l /\ l_state l' = s'.
  Proof.
    intros I Hg Hr. unfold push.
    destruct (seq_checked_add (l_c l) (tx_seq t)) as [c1|] eqn:E1; [|discriminate].
    destruct (comet_checked_add c1 (tx_len t)) as [c2|] eqn:E2; [|discriminate].
    intros H; inversion H; subst l'; clear H.
    apply seq_checked_add_Some in E1. destruct E1 as (_ & Hs & ->).
    apply comet_checked_add_Some in E2. cbn in E2. destruct E2 as (_ & Hc & ->).
    destruct I. split; [|split; [split; reflexivity|split; reflexivity]].
    constructor; cbn.
    - unfold seq_total in *. cbn. lia.
    - unfold len_total in *. cbn. lia.
    - exact Hs.
    - exact Hc.
    - reflexivity.
    - split; [|assumption]. rewrite <- i_group0. exact Hg.
    - eapply run_nonfatal_app; eassumption.
  Qed.

  Lemma prepare_step_inv s0 B l t l' :
    inv s0 B l -> prepare_step l t = SContinue l' ->
    inv s0 B l' /\ same_limits l l' /\
    (l_included l' = l_included l \/ l_included l' = t :: l_included l).
  Proof.
    intros I. unfold ProposalModel.prepare_step.
    destruct (comet_has_space (l_c l) (tx_len t)); cbn [negb]; [|discriminate].
    destruct (seq_has_space (l_c l) (tx_seq t)); cbn [negb].
    2:{ intros H; inversion H; subst. split; [assumption|split; [split; reflexivity|left; reflexivity]]. }
    destruct (N.ltb_spec (l_group l) (tx_group t)) as [Hlt|Hge].
    { intros H; inversion H; subst. split; [assumption|split; [split; reflexivity|left; reflexivity]]. }
    destruct (exec (l_state l) t) as [s'| | |] eqn:E.
    - intros H. eapply push_ok in H; eauto.
      + destruct H as (H1 & H2 & H3 & _). auto.
      + eapply rn_ok; [exact E|constructor].
    - intros H. eapply push_ok in H; eauto.
      + destruct H as (H1 & H2 & H3 & _). auto.
      + eapply rn_nf; [exact E|constructor].
    - intros H; inversion H; subst. split; [assumption|split; [split; reflexivity|left; reflexivity]].
    - intros H; inversion H; subst. split; [|split; [split; reflexivity|left; reflexivity]].
      destruct I; constructor; assumption.
  Qed.

  Lemma prepare_loop_inv s0 B q : forall l l',
    inv s0 B l -> prepare_loop l q = Some l' ->
    inv s0 B l' /\ same_limits l l' /\
    (forall t, In t (l_included l') -> In t (l_included l) \/ In t q).
  Proof.
    induction q as [|t q IH]; intros l l' I; cbn [ProposalModel.prepare_loop].
    - intros H; inversion H; subst. split; [assumption|split; [split; reflexivity|auto]].
    - destruct (prepare_step l t) as [|l1|] eqn:E.
      + intros H; inversion H; subst. split; [assumption|split; [split; reflexivity|auto]].
      + intros H. destruct (prepare_step_inv _ _ _ _ _ I E) as (I1 & (L1 & L2) & Hin).
        destruct (IH _ _ I1 H) as (I2 & (L3 & L4) & Hin2).
        split; [assumption|split; [split; congruence|]].
        intros x Hx. destruct (Hin2 x Hx) as [Hx1|Hx1]; [|right; right; assumption].
        destruct Hin as [Hin|Hin]; rewrite Hin in Hx1; [left; assumption|].
        destruct Hx1 as [->|Hx1]; [right; left; reflexivity|left; assumption].
      + discriminate.
  Qed.

  (* ---------------------------------------------------------------------------------------- *)
  (** * prepare_proposal *)

  Lemma sumN_map_app {A} (f : A -> N) l1 l2 : sumN (map f (l1 ++ l2)) = sumN (map f l1) + sumN (map f l2).
  Proof. rewrite map_app. apply sumN_app. Qed.

  Lemma sumN_map_rev {A} (f : A -> N) l : sumN (map f (rev l)) = sumN (map f l).
  Proof.
    induction l as [|x l IH]; [reflexivity|]. cbn [rev]. rewrite sumN_map_app, IH. cbn. lia.
  Qed.

  Lemma inv_init s0 c :
    cur_seq c = 0 -> cur_seq c <= max_seq c -> cur_comet c <= max_comet c ->
    inv s0 (cur_comet c) (mkL c G_BUNDLEABLE_GENERAL s0 [] []).
  Proof.
    intros H0 H1 H2. constructor; cbn; try assumption; try reflexivity.
    - unfold len_total; cbn; lia.
    - constructor.
  Qed.

  (** What prepare computes, exposed. *)
  Lemma prepare_inl e s0 q mx p :
    prepare exec commit_datas commit_ids e s0 q mx = inl p ->
    exists c0 c1 c2 upg eci l,
      bsc_new mx (e_typed e) = Some c0 /\
      add_upgrade (T:=T) (C:=C) e c0 = Some (c1, upg) /\
      add_eci (T:=T) (C:=C) e c1 = Some (c2, eci) /\
      prepare_loop (mkL c2 G_BUNDLEABLE_GENERAL s0 [] []) q = Some l /\
      p_included p = rev (l_included l) /\ p_state p = l_state l /\ p_c p = l_c l /\
      p_entries p = EItem (IDatasRoot (commit_datas (p_included p) (p_state p)))
                    :: EItem (IIdsRoot (commit_ids (p_included p) (p_state p)))
                    :: upg ++ eci ++ map (fun t => ETx (honest_raw t)) (p_included p).
  Proof.
    unfold prepare.
    destruct (bsc_new mx (e_typed e)) as [c0|] eqn:E0; [|discriminate].
    destruct (add_upgrade e c0) as [[c1 upg]|] eqn:E1; [|discriminate].
    destruct (add_eci e c1) as [[c2 eci]|] eqn:E2; [|discriminate].
    destruct (prepare_loop _ q) as [l|] eqn:E3; [|discriminate].
    intros H; inversion H; subst; cbn.
    exists c0, c1, c2, upg, eci, l. repeat split; try reflexivity; assumption.
  Qed.

  Lemma bsc_new_Some mx typed c0 :
    bsc_new mx typed = Some c0 ->
    (0 <= mx)%Z /\ commitments_size typed <= Z.to_N mx /\
    c0 = mkC MAX_SEQ (Z.to_N mx) 0 (commitments_size typed).
  Proof.
    unfold bsc_new. destruct (Z.ltb_spec mx 0); [discriminate|].
    destruct (N.ltb_spec (Z.to_N mx) (commitments_size typed)); [discriminate|].
    intros H1; inversion H1; auto.
  Qed.

  Definition items_len (typed : bool) (l : list (entry T C)) : N := sumN (map (entry_len typed) l).

  Lemma add_upgrade_Some e c c' upg :
    add_upgrade (T:=T) (C:=C) e c = Some (c', upg) ->
    max_seq c' = max_seq c /\ max_comet c' = max_comet c /\ cur_seq c' = cur_seq c /\
    cur_comet c' = cur_comet c + items_len (e_typed e) upg /\
    (cur_comet c <= max_comet c -> cur_comet c' <= max_comet c') /\
    ((e_upgrade e = None /\ upg = []) \/
     (exists len h, e_upgrade e = Some (len, h) /\ upg = [EItem (IUpgrade len h)])).
  Proof.
    unfold add_upgrade. destruct (e_upgrade e) as [[len h]|].
    - destruct (comet_checked_add c len) as [c1|] eqn:E; [|discriminate].
      intros H; inversion H; subst. apply comet_checked_add_Some in E. destruct E as (_ & E & ->).
      cbn. unfold items_len; cbn. repeat split; try lia. right; eauto.
    - intros H; inversion H; subst. unfold items_len; cbn. repeat split; try lia. left; auto.
  Qed.

  Lemma add_eci_Some e c c' eci :
    add_eci (T:=T) (C:=C) e c = Some (c', eci) ->
    max_seq c' = max_seq c /\ max_comet c' = max_comet c /\ cur_seq c' = cur_seq c /\
    cur_comet c' = cur_comet c + items_len (e_typed e) eci /\
    (cur_comet c <= max_comet c -> cur_comet c' <= max_comet c') /\
    ((e_eci e = None /\ eci = []) \/
     (exists len el, e_eci e = Some (len, el) /\
        ((cur_comet c + len <= max_comet c /\ eci = [EItem (IEci len EciGood)]) \/
         (max_comet c < cur_comet c + len \/ USIZE_MAX < cur_comet c + len) /\
          eci = [EItem (IEci el EciGood)]))).
  Proof.
    unfold add_eci. destruct (e_eci e) as [[len el]|].
    - destruct (comet_checked_add c len) as [c1|] eqn:E.
      + intros H; inversion H; subst. apply comet_checked_add_Some in E. destruct E as (_ & E & ->).
        cbn. unfold items_len; cbn. repeat split; try lia. right. exists len, el. split; [reflexivity|].
        left; auto.
      + destruct (comet_checked_add c el) as [c2|] eqn:E2; [|discriminate].
        intros H; inversion H; subst. apply comet_checked_add_Some in E2. destruct E2 as (_ & E2 & ->).
        cbn. unfold items_len; cbn. repeat split; try lia. right. exists len, el. split; [reflexivity|].
        right. split; [|reflexivity].
        unfold comet_checked_add, checked_add in E.
        destruct (N.leb_spec (cur_comet c + len) USIZE_MAX); [|right; lia].
        destruct (N.leb_spec (cur_comet c + len) (max_comet c)); [discriminate|left; lia].
    - intros H; inversion H; subst. unfold items_len; cbn. repeat split; try lia. left; auto.
  Qed.

  (** Whichever of the two items was added, it is one that decodes and validates. *)
  Lemma add_eci_good e c c' eci :
    add_eci (T:=T) (C:=C) e c = Some (c', eci) ->
    (e_eci e = None /\ eci = []) \/
    (exists len el l, e_eci e = Some (len, el) /\ eci = [EItem (T:=T) (IEci (C:=C) l EciGood)]).
  Proof.
    intros H. apply add_eci_Some in H. destruct H as (_ & _ & _ & _ & _ & H).
    destruct H as [H|(len & el & Es & [[_ ->]|[_ ->]])]; [left; exact H| |];
      right; [exists len, el, len|exists len, el, el]; auto.
  Qed.

  Lemma prepare_facts e s0 q mx p :
    prepare exec commit_datas commit_ids e s0 q mx = inl p ->
    exists B l,
      inv s0 B l /\ p_included p = rev (l_included l) /\ p_state p = l_state l /\
      max_seq (l_c l) = MAX_SEQ /\ max_comet (l_c l) = Z.to_N mx /\ (0 <= mx)%Z /\
      proposal_len (e_typed e) (p_entries p) = B + len_total (l_included l) /\
      (forall t, In t (l_included l) -> In t q).
  Proof.
    intros H. destruct (prepare_inl _ _ _ _ _ H) as (c0 & c1 & c2 & upg & eci & l & H0 & H1 & H2 & H3 & P1 & P2 & P3 & P4).
    apply bsc_new_Some in H0. destruct H0 as (Hmx & Hsz & ->).
    apply add_upgrade_Some in H1. cbn in H1. destruct H1 as (U1 & U2 & U3 & U4 & U5 & _).
    apply add_eci_Some in H2. destruct H2 as (E1 & E2 & E3 & E4 & E5 & _).
    assert (I0 : inv s0 (cur_comet c2) (mkL c2 G_BUNDLEABLE_GENERAL s0 [] [])).
    { apply inv_init.
      - congruence.
      - rewrite E3, U3, E1, U1. unfold MAX_SEQ. lia.
      - apply E5, U5. exact Hsz. }
    destruct (prepare_loop_inv _ _ _ _ _ I0 H3) as (I1 & (L1 & L2) & Hin).
    exists (cur_comet c2), l. cbn in L1, L2.
    split; [exact I1|]. split; [exact P1|]. split; [exact P2|].
    split; [congruence|]. split; [congruence|]. split; [exact Hmx|].
    split.
    - rewrite P4. unfold proposal_len. cbn [map sumN entry_len item_len].
      rewrite !map_app, !sumN_app, map_map. cbn [entry_len honest_raw r_tx].
      rewrite P1. fold (len_total (rev (l_included l))). unfold len_total. rewrite sumN_map_rev.
      rewrite E4, U4. cbn [cur_comet]. unfold items_len, commitments_size.
      change (map (fun x : tx T => tx_len x) (l_included l)) with (map tx_len (l_included l)). lia.
    - intros t Ht. destruct (Hin t Ht) as [[]|]; assumption.
  Qed.

  Theorem prepare_within_limits : stmt_prepare_within_limits exec commit_datas commit_ids.
  Proof.
    intros e s0 q mx p H.
    destruct (prepare_facts _ _ _ _ _ H) as (B & l & I & P1 & _ & M1 & M2 & Hmx & PL & _).
    destruct I. split; [exact Hmx|]. split.
    - rewrite PL, <- i_comet0, <- M2. exact i_comet_le0.
    - rewrite P1. unfold seq_total. rewrite sumN_map_rev. fold (seq_total (l_included l)).
      rewrite <- i_seq0, <- M1. exact i_seq_le0.
  Qed.

  Theorem prepare_group_sorted : stmt_prepare_group_sorted exec commit_datas commit_ids.
  Proof.
    intros e s0 q mx p H.
    destruct (prepare_facts _ _ _ _ _ H) as (B & l & I & P1 & _).
    destruct I. unfold group_sorted. rewrite P1, map_rev. apply rsorted_rev. exact i_sorted0.
  Qed.

  Theorem prepare_only_nonfatal : stmt_prepare_only_nonfatal exec commit_datas commit_ids.
  Proof.
    intros e s0 q mx p H.
    destruct (prepare_facts _ _ _ _ _ H) as (B & l & I & P1 & P2 & _ & _ & _ & _ & Hin).
    destruct I. split.
    - rewrite P1, P2. exact i_run0.
    - intros t Ht. rewrite P1 in Ht. apply in_rev in Ht. auto.
  Qed.

  (* ---------------------------------------------------------------------------------------- *)
  (** * process_proposal *)

  Lemma process_step_inv s0 B l t l' :
    inv s0 B l -> process_step l t = inl l' ->
    inv s0 B l' /\ same_limits l l' /\ l_included l' = t :: l_included l.
  Proof.
    intros I. unfold ProposalModel.process_step.
    destruct (seq_has_space (l_c l) (tx_seq t)); cbn [negb]; [|discriminate].
    destruct (N.ltb_spec (l_group l) (tx_group t)); [discriminate|].
    destruct (exec (l_state l) t) as [s'| | |] eqn:E; try discriminate.
    - destruct (push l t s' false) as [|l1|] eqn:P; try discriminate.
      intros H1; inversion H1; subst. eapply push_ok in P; eauto.
      + destruct P as (P1 & P2 & P3 & _); auto.
      + eapply rn_ok; [exact E|constructor].
    - destruct (push l t (l_state l) true) as [|l1|] eqn:P; try discriminate.
      intros H1; inversion H1; subst. eapply push_ok in P; eauto.
      + destruct P as (P1 & P2 & P3 & _); auto.
      + eapply rn_nf; [exact E|constructor].
  Qed.

  Lemma process_loop_inv s0 B txs : forall l l',
    inv s0 B l -> process_loop l txs = inl l' ->
    inv s0 B l' /\ same_limits l l' /\ l_included l' = rev txs ++ l_included l.
  Proof.
    induction txs as [|t r IH]; intros l l' I; cbn [ProposalModel.process_loop].
    - intros H; inversion H; subst. split; [assumption|split; [split; reflexivity|reflexivity]].
    - destruct (process_step l t) as [l1|] eqn:E; [|discriminate].
      intros H. destruct (process_step_inv _ _ _ _ _ I E) as (I1 & (L1 & L2) & Hi).
      destruct (IH _ _ I1 H) as (I2 & (L3 & L4) & Hi2).
      split; [assumption|split; [split; congruence|]].
      rewrite Hi2, Hi. cbn [rev]. rewrite <- app_assoc. reflexivity.
  Qed.

  Lemma construct_all_Some s0 raws txs :
    construct_all construct s0 raws = Some txs -> Forall2 (good_entry (C:=C) construct s0) raws txs.
  Proof.
    revert txs. induction raws as [|x r IH]; intros txs; cbn [construct_all].
    - intros H; inversion H; constructor.
    - destruct (construct_one construct s0 x) as [t|] eqn:E1; [|discriminate].
      destruct (construct_all construct s0 r) as [ts|] eqn:E2; [|discriminate].
      intros H; inversion H; subst. constructor; [|auto].
      unfold construct_one in E1. destruct x as [i|rw]; [discriminate|].
      destruct (r_decodable rw) eqn:D; [|discriminate].
      destruct (r_signed rw) eqn:Sg; [|discriminate].
      destruct (construct s0 (r_tx rw)) eqn:K; [|discriminate].
      cbn in E1. inversion E1; subst. exists rw. auto.
  Qed.

  Theorem process_rejects_bad : stmt_process_rejects_bad exec construct commit_datas commit_ids ceqb.
  Proof.
    intros e s0 p. unfold process.
    destruct (parse e p) as [pd|] eqn:EP; [|discriminate].
    destruct (match pd_eci pd with Some EciInvalid => true | _ => false end); [discriminate|].
    destruct (upgrade_matches e (pd_upgrade pd)); cbn [negb]; [|discriminate].
    destruct (construct_all construct s0 (pd_raw pd)) as [txs|] eqn:EC; [|discriminate].
    destruct (process_loop _ txs) as [l|r] eqn:EL; [|discriminate].
    destruct (ceqb (pd_datas pd) (commit_datas txs (l_state l))) eqn:E1; cbn [negb]; [|discriminate].
    destruct (ceqb (pd_ids pd) (commit_ids txs (l_state l))) eqn:E2; cbn [negb]; [|discriminate].
    intros _.
    assert (I0 : inv s0 (cur_comet bsc_unlimited) (mkL bsc_unlimited G_BUNDLEABLE_GENERAL s0 [] [])).
    { apply inv_init; cbn; unfold MAX_SEQ, USIZE_MAX, U64_MAX; lia. }
    destruct (process_loop_inv _ _ _ _ _ I0 EL) as (I1 & (L1 & L2) & Hi).
    cbn in Hi, L1, L2. rewrite app_nil_r in Hi. destruct I1.
    exists pd, txs, (l_state l). split; [reflexivity|].
    split; [apply construct_all_Some; exact EC|].
    split.
    { unfold group_sorted. rewrite Hi in i_sorted0. rewrite map_rev in i_sorted0.
      apply rsorted_rev in i_sorted0. rewrite rev_involutive in i_sorted0. exact i_sorted0. }
    split.
    { rewrite Hi, rev_involutive in i_run0. exact i_run0. }
    split.
    { rewrite Hi in i_seq0. unfold seq_total in i_seq0. rewrite sumN_map_rev in i_seq0.
      unfold seq_total. rewrite <- i_seq0, <- L1. exact i_seq_le0. }
    split; assumption.
  Qed.

  (* ---------------------------------------------------------------------------------------- *)
  (** * prepare => process *)

  (** Replaying a list that is known to run without fatal failure, is group-sorted below the
      current group and fits the limits. *)
  Lemma process_loop_replay txs : forall l s1,
    cur_seq (l_c l) <= max_seq (l_c l) ->
    cur_comet (l_c l) <= max_comet (l_c l) ->
    max_seq (l_c l) <= USIZE_MAX -> max_comet (l_c l) <= USIZE_MAX ->
    cur_seq (l_c l) + seq_total txs <= max_seq (l_c l) ->
    cur_comet (l_c l) + len_total txs <= max_comet (l_c l) ->
    nonincreasing_from (l_group l) (map tx_group txs) ->
    run_nonfatal (l_state l) txs s1 ->
    exists l', process_loop l txs = inl l' /\ l_state l' = s1.
  Proof.
    induction txs as [|t r IH]; intros l s1 Hs Hc Ms Mc Hst Hct Hg Hr; cbn [ProposalModel.process_loop].
    - inversion Hr; subst. eauto.
    - unfold seq_total, len_total in Hst, Hct. cbn [map sumN] in Hst, Hct.
      fold (seq_total r) in Hst. fold (len_total r) in Hct.
      cbn [map nonincreasing_from] in Hg. destruct Hg as [Hg1 Hg2].
      unfold ProposalModel.process_step.
      assert (Hsp : seq_has_space (l_c l) (tx_seq t) = true) by (apply seq_has_space_spec; lia).
      rewrite Hsp; cbn [negb].
      destruct (N.ltb_spec (l_group l) (tx_group t)); [lia|].
      assert (P : forall s' rm, exists l1, push l t s' rm = SContinue l1 /\
                   l_state l1 = s' /\ l_group l1 = tx_group t /\
                   l_c l1 = mkC (max_seq (l_c l)) (max_comet (l_c l)) (cur_seq (l_c l) + tx_seq t)
                                (cur_comet (l_c l) + tx_len t)).
      { intros s' rm. unfold push.
        destruct (seq_checked_add (l_c l) (tx_seq t)) as [c1|] eqn:E1.
        2:{ exfalso. unfold seq_checked_add, checked_add in E1.
            destruct (N.leb_spec (cur_seq (l_c l) + tx_seq t) USIZE_MAX); [|lia].
            destruct (N.leb_spec (cur_seq (l_c l) + tx_seq t) (max_seq (l_c l))); [discriminate|lia]. }
        apply seq_checked_add_Some in E1. destruct E1 as (_ & _ & ->).
        destruct (comet_checked_add _ (tx_len t)) as [c2|] eqn:E2.
        2:{ exfalso. unfold comet_checked_add, checked_add in E2. cbn in E2.
            destruct (N.leb_spec (cur_comet (l_c l) + tx_len t) USIZE_MAX); [|lia].
            destruct (N.leb_spec (cur_comet (l_c l) + tx_len t) (max_comet (l_c l))); [discriminate|lia]. }
        apply comet_checked_add_Some in E2. cbn in E2. destruct E2 as (_ & _ & ->).
        eexists; split; [reflexivity|]. cbn. auto. }
      inversion Hr as [|sa ta sb ra sc Hex Hrest|sa ta ra sc Hex Hrest]; subst.
      + rewrite Hex. destruct (P sb false) as (l1 & P1 & P2 & P3 & P4). rewrite P1.
        apply IH; rewrite ?P4, ?P2, ?P3; cbn; try lia; assumption.
      + rewrite Hex. destruct (P (l_state l) true) as (l1 & P1 & P2 & P3 & P4). rewrite P1.
        apply IH; rewrite ?P4, ?P2, ?P3; cbn; try lia; assumption.
  Qed.

  Lemma construct_all_honest s0 txs :
    constructible_at_start construct s0 txs ->
    construct_all construct s0 (map (fun t => ETx (C:=C) (honest_raw t)) txs) = Some txs.
  Proof.
    induction 1 as [|t r Ht _ IH]; cbn [map construct_all]; [reflexivity|].
    cbn. rewrite Ht, IH. reflexivity.
  Qed.

  Lemma parse_honest e cd ci upg eci incl :
    env_wf e ->
    ((e_upgrade e = None /\ upg = []) \/
     (exists len h, e_upgrade e = Some (len, h) /\ upg = [EItem (T:=T) (IUpgrade (C:=C) len h)])) ->
    ((e_eci e = None /\ eci = []) \/
     (exists len el l, e_eci e = Some (len, el) /\ eci = [EItem (T:=T) (IEci (C:=C) l EciGood)])) ->
    exists pd,
      parse e (EItem (IDatasRoot cd) :: EItem (IIdsRoot ci)
               :: upg ++ eci ++ map (fun t => ETx (honest_raw t)) incl) = Some pd /\
      pd_datas pd = cd /\ pd_ids pd = ci /\
      pd_raw pd = map (fun t => ETx (honest_raw t)) incl /\
      upgrade_matches e (pd_upgrade pd) = true /\ pd_eci pd <> Some EciInvalid.
  Proof.
    intros Hwf Ucase Ecase. unfold parse. destruct (e_typed e) eqn:Ty.
    - destruct Ucase as [[Un ->]|(len & h & Us & ->)];
        destruct Ecase as [[En ->]|(elen & el & l & Es & ->)]; cbn [app]; rewrite ?En, ?Es.
      + destruct incl as [|t incl]; cbn [map]; eexists; (split; [reflexivity|]); cbn;
          unfold upgrade_matches; rewrite Un; repeat split; discriminate.
      + eexists; (split; [reflexivity|]); cbn;
          unfold upgrade_matches; rewrite Un; repeat split; discriminate.
      + eexists; (split; [reflexivity|]); cbn;
          unfold upgrade_matches; rewrite Us, N.eqb_refl; repeat split; discriminate.
      + eexists; (split; [reflexivity|]); cbn;
          unfold upgrade_matches; rewrite Us, N.eqb_refl; repeat split; discriminate.
    - destruct (Hwf Ty) as [Un En].
      destruct Ucase as [[_ ->]|(len & h & Us & _)]; [|congruence].
      destruct Ecase as [[_ ->]|(elen & el & l & Es & _)]; [|congruence].
      cbn [app]. eexists; (split; [reflexivity|]); cbn. unfold upgrade_matches. rewrite Un.
      repeat split; discriminate.
  Qed.

  Theorem prepare_accepted : stmt_prepare_accepted exec construct commit_datas commit_ids ceqb.
  Proof.
    intros e s0 q mx p Hrefl Hwf Hmx H Hcons.
    destruct (prepare_facts _ _ _ _ _ H) as (B & l & I & P1 & P2 & M1 & M2 & Hmx0 & PL & _).
    destruct (prepare_inl _ _ _ _ _ H) as (c0 & c1 & c2 & upg & eci & l2 & H0 & H1 & H2 & H3 & Q1 & Q2 & Q3 & Q4).
    apply bsc_new_Some in H0. destruct H0 as (_ & Hsz & ->).
    apply add_upgrade_Some in H1. cbn in H1. destruct H1 as (U1 & U2 & U3 & U4 & U5 & Ucase).
    pose proof (add_eci_good _ _ _ _ H2) as Ecase'.
    assert (Hbound : Z.to_N mx <= 9223372036854775807) by (unfold I64_MAX in Hmx; lia).
    destruct (parse_honest e (commit_datas (p_included p) (p_state p))
                (commit_ids (p_included p) (p_state p)) upg eci (p_included p) Hwf Ucase Ecase')
      as (pd & HP & D1 & D2 & D3 & D4 & D5).
    unfold process. rewrite Q4, HP.
    assert (HE : match pd_eci pd with Some EciInvalid => true | _ => false end = false).
    { destruct (pd_eci pd) as [[| |]|]; congruence. }
    rewrite HE, D4. cbn [negb]. rewrite D3, (construct_all_honest s0 _ Hcons).
    pose proof (prepare_within_limits _ _ _ _ _ H) as (_ & W1 & W2).
    destruct I.
    destruct (process_loop_replay (p_included p) (mkL bsc_unlimited G_BUNDLEABLE_GENERAL s0 [] []) (p_state p))
      as (l' & R1 & R2); cbn [l_c l_group l_state bsc_unlimited max_seq max_comet cur_seq cur_comet].
    - unfold MAX_SEQ; lia.
    - unfold USIZE_MAX, U64_MAX, commitments_size, root_item_len; lia.
    - unfold MAX_SEQ, USIZE_MAX, U64_MAX; lia.
    - lia.
    - cbn. exact W2.
    - rewrite PL in W1. rewrite P1. unfold len_total. rewrite sumN_map_rev.
      fold (len_total (l_included l)). unfold USIZE_MAX, U64_MAX, commitments_size, root_item_len.
      assert (len_total (l_included l) <= Z.to_N mx) by lia. lia.
    - rewrite P1, map_rev. apply rsorted_rev. exact i_sorted0.
    - rewrite P1, P2. exact i_run0.
    - rewrite R1, R2, D1, D2, !Hrefl. reflexivity.
  Qed.

  (* ---------------------------------------------------------------------------------------- *)
  (** * Each way a proposal can be wrong leads to rejection *)

  Lemma run_nonfatal_det s0 txs s1 s2 :
    run_nonfatal s0 txs s1 -> run_nonfatal s0 txs s2 -> s1 = s2.
  Proof.
    intros H1; revert s2. induction H1 as [s|s t sa r sb Hex Hr IH|s t r sb Hex Hr IH]; intros s2 H2.
    - inversion H2; reflexivity.
    - inversion H2; subst; try congruence.
      match goal with Hx : exec s t = ExOk _ |- _ => rewrite Hex in Hx; inversion Hx; subst end.
      auto.
    - inversion H2; subst; try congruence. auto.
  Qed.

  Lemma good_entries_map s0 raws txs :
    Forall2 (good_entry (C:=C) construct s0) (map (fun r => ETx r) raws) txs ->
    txs = map r_tx raws /\
    Forall (fun r => r_decodable r = true /\ r_signed r = true /\ construct s0 (r_tx r) = true) raws.
  Proof.
    revert txs. induction raws as [|r raws IH]; intros txs H; cbn [map] in *.
    - inversion H; subst. split; constructor.
    - inversion H as [|x t xs ts Hg Hrest]; subst.
      destruct (IH _ Hrest) as [-> HF].
      destruct Hg as (r' & E & Et & D & Sg & K). inversion E; subst r'.
      split; [cbn; congruence|]. constructor; [|assumption]. rewrite Et. auto.
  Qed.

  Definition bad_proposal (s0 : S) (pd : parsed T C) (raws : list (rawtx T)) : Prop :=
    let txs := map r_tx raws in
    Exists (fun r => r_decodable r = false \/ r_signed r = false \/ construct s0 (r_tx r) = false) raws
    \/ ~ group_sorted txs
    \/ MAX_SEQ < seq_total txs
    \/ (forall s1, ~ run_nonfatal s0 txs s1)
    \/ (exists s1, run_nonfatal s0 txs s1 /\
         (ceqb (pd_datas pd) (commit_datas txs s1) = false \/
          ceqb (pd_ids pd) (commit_ids txs s1) = false)).

  Theorem process_rejects_each e s0 p :
    (parse (T:=T) (C:=C) e p = None ->
       process exec construct commit_datas commit_ids ceqb e s0 p = Reject RParse) /\
    (forall pd, parse e p = Some pd ->
       (exists i, In (EItem i) (pd_raw pd)) ->
       process exec construct commit_datas commit_ids ceqb e s0 p <> Accept) /\
    (forall pd raws, parse e p = Some pd -> pd_raw pd = map (fun r => ETx r) raws ->
       bad_proposal s0 pd raws ->
       process exec construct commit_datas commit_ids ceqb e s0 p <> Accept).
  Proof.
    split; [|split].
    - intros H. unfold process. rewrite H. reflexivity.
    - intros pd HP (i & Hi) HA.
      destruct (process_rejects_bad _ _ _ HA) as (pd' & txs & s1 & HP' & HG & _).
      rewrite HP in HP'; inversion HP'; subst pd'.
      clear - HG Hi. induction HG as [|x t xs ts Hg _ IH]; [destruct Hi|].
      destruct Hi as [->|Hi]; [|auto].
      destruct Hg as (r & E & _). discriminate.
    - intros pd raws HP HR Hbad HA.
      destruct (process_rejects_bad _ _ _ HA) as (pd' & txs & s1 & HP' & HG & HS & HRun & HSeq & HC1 & HC2).
      rewrite HP in HP'; inversion HP'; subst pd'. rewrite HR in HG.
      destruct (good_entries_map _ _ _ HG) as [-> HF].
      destruct Hbad as [Hb|[Hb|[Hb|[Hb|Hb]]]].
      + apply Exists_exists in Hb. destruct Hb as (r & Hin & Hr).
        rewrite Forall_forall in HF. destruct (HF r Hin) as (D & Sg & K).
        destruct Hr as [Hr|[Hr|Hr]]; congruence.
      + auto.
      + apply N.lt_nge in Hb. auto.
      + exact (Hb s1 HRun).
      + destruct Hb as (s2 & HRun2 & Hc).
        rewrite (run_nonfatal_det _ _ _ _ HRun2 HRun) in Hc. destruct Hc; congruence.
  Qed.

End Proofs.
