(** C06 — executable model of the sequencer's block proposal logic
    (crates/astria-sequencer/src/app/mod.rs: prepare_proposal, prepare_proposal_tx_execution,
    process_proposal, process_proposal_tx_execution, proposal_checks_and_tx_execution;
    proposal/block_size_constraints.rs; the fixed data-item order of
    astria-core sequencerblock/v1/block/mod.rs ExpandedBlockData::new_from_{typed,untyped}_data).

    Proof-free.  The chain state [S], the transaction payload [T], transaction execution, the
    construction-time checks of CheckedTransaction::new and the two rollup-data commitments are
    parameters here; ProposalLedger.v instantiates them with a small ledger for the extracted
    driver and for the concrete witnesses. *)
From Astria Require Import Base.Bounded.
From Coq Require Import ZArith.
Open Scope N_scope.

Definition USIZE_MAX : N := U64_MAX.
Definition I64_MAX : N := 9223372036854775807.
(** MAX_SEQUENCE_DATA_BYTES_PER_BLOCK *)
Definition MAX_SEQ : N := 256000.
(** checked_transaction::MAX_TX_BYTES *)
Definition MAX_TX_BYTES : N := 256000.

(** Group ranks: UnbundleableSudo = 1, BundleableSudo = 2, UnbundleableGeneral = 3,
    BundleableGeneral = 4 (derived Ord on the enum discriminants). *)
Definition G_UNBUNDLEABLE_SUDO : N := 1.
Definition G_BUNDLEABLE_SUDO : N := 2.
Definition G_UNBUNDLEABLE_GENERAL : N := 3.
Definition G_BUNDLEABLE_GENERAL : N := 4.

(* ------------------------------------------------------------------------------------------ *)
(** * BlockSizeConstraints *)

Record constraints := mkC {
  max_seq : N; max_comet : N; cur_seq : N; cur_comet : N }.

(** GeneratedCommitments::total_size: two encoded DataItems of 32 + 2 bytes, or two raw roots. *)
Definition root_item_len (typed : bool) : N := if typed then 34 else 32.
Definition commitments_size (typed : bool) : N := root_item_len typed + root_item_len typed.

(** BlockSizeConstraints::new(cometbft_max_size : i64, uses_data_item_enum) *)
Definition bsc_new (max_tx_bytes : Z) (typed : bool) : option constraints :=
  if (max_tx_bytes <? 0)%Z then None
  else let m := Z.to_N max_tx_bytes in
       if m <? commitments_size typed then None
       else Some (mkC MAX_SEQ m 0 (commitments_size typed)).

Definition bsc_unlimited : constraints := mkC MAX_SEQ USIZE_MAX 0 (commitments_size true).

Definition seq_has_space (c : constraints) (n : N) : bool :=
  n <=? saturating_sub (max_seq c) (cur_seq c).
Definition comet_has_space (c : constraints) (n : N) : bool :=
  n <=? saturating_sub (max_comet c) (cur_comet c).

Definition seq_checked_add (c : constraints) (n : N) : option constraints :=
  match checked_add USIZE_MAX (cur_seq c) n with
  | None => None
  | Some v => if v <=? max_seq c then Some (mkC (max_seq c) (max_comet c) v (cur_comet c)) else None
  end.
Definition comet_checked_add (c : constraints) (n : N) : option constraints :=
  match checked_add USIZE_MAX (cur_comet c) n with
  | None => None
  | Some v => if v <=? max_comet c then Some (mkC (max_seq c) (max_comet c) (cur_seq c) v) else None
  end.

(* ------------------------------------------------------------------------------------------ *)
(** * Transactions, execution, proposals *)

Section Proposal.
  Variable S : Type.   (* chain state *)
  Variable T : Type.   (* transaction payload (signer, nonce, actions) *)
  Variable C : Type.   (* a commitment (Merkle root) *)

  Record tx := mkTx {
    tx_id : N;         (* identifies the encoded bytes *)
    tx_len : N;        (* encoded_bytes().len() *)
    tx_seq : N;        (* sum of the data lengths of its RollupDataSubmission actions *)
    tx_group : N;      (* rank of its action group *)
    tx_body : T }.

  (** Result of App::execute_transaction on the current state.  Every failure leaves the state
      unchanged (the StateDelta transaction is dropped). *)
  Inductive outcome :=
  | ExOk (s' : S)
  | ExNonFatal       (* CheckedActionExecutionError::NonFatalExecution: included with an error code *)
  | ExBadNonce       (* CheckedTransactionExecutionError::InvalidNonce *)
  | ExFatal.         (* every other error *)

  Variable exec : S -> tx -> outcome.
  (** CheckedTransaction::new against a state, for a decodable, correctly signed transaction
      (size limit, nonce not below the account nonce, per-action checks, chain id). *)
  Variable construct : S -> tx -> bool.
  (** generate_rollup_datas_commitment over the transactions and the deposits cached in the
      post-execution state. *)
  Variable commit_datas : list tx -> S -> C.
  Variable commit_ids : list tx -> S -> C.
  Variable ceqb : C -> C -> bool.

  (** Bytes of a transaction as they arrive in a proposal. *)
  Record rawtx := mkRaw { r_decodable : bool; r_signed : bool; r_tx : tx }.
  Definition honest_raw (t : tx) : rawtx := mkRaw true true t.

  (** Content of an ExtendedCommitInfo item: it decodes (as an
      ExtendedCommitInfoWithCurrencyPairMapping) and passes ProposalHandler::validate_proposal; it
      decodes but is refused by validate_proposal; or it does not decode (for instance an item
      holding empty bytes: the `extended_commit_info` field of the decoded message is unset,
      astria-core protocol/price_feed.rs try_from_raw).
      The item prepare_proposal falls back to when the extended commit info does not fit,
      the encoding of ExtendedCommitInfoWithCurrencyPairMapping::empty(round) for the round of the
      local last commit, is of the first kind: it decodes, and validate_proposal accepts an
      extended commit info without votes whose round is that of the proposed last commit. *)
  Inductive eci_quality := EciGood | EciInvalid | EciUndecodable.

  (** The injected data items. *)
  Inductive item :=
  | IDatasRoot (c : C)
  | IIdsRoot (c : C)
  | IUpgrade (len : N) (hashes : N)
  | IEci (len : N) (q : eci_quality)
  | IGarbage (len : N).

  Inductive entry := EItem (i : item) | ETx (r : rawtx).

  Definition item_len (typed : bool) (i : item) : N :=
    match i with
    | IDatasRoot _ | IIdsRoot _ => root_item_len typed
    | IUpgrade l _ | IEci l _ | IGarbage l => l
    end.
  Definition entry_len (typed : bool) (e : entry) : N :=
    match e with EItem i => item_len typed i | ETx r => tx_len (r_tx r) end.
  Definition proposal_len (typed : bool) (p : list entry) : N := sumN (map (entry_len typed) p).

  (** What the node derives from its own state for the block being proposed. *)
  Record env := mkEnv {
    e_typed : bool;                    (* uses_data_item_enum(height) *)
    e_upgrade : option (N * N);        (* upgrade activating at this height: (encoded length, hashes) *)
    e_eci : option (N * N) }.          (* vote extensions enabled: (length of the encoded extended
                                          commit info item, length of the encoded item holding
                                          the empty extended commit info of the same round) *)

  (* ---------------------------------------------------------------------------------------- *)
  (** ** The shared per-transaction step (proposal_checks_and_tx_execution) *)

  Record loop_state := mkL {
    l_c : constraints;
    l_group : N;
    l_state : S;
    l_included : list tx;     (* in reverse order *)
    l_removed : list tx }.    (* handed to mempool.remove_tx_invalid, in reverse order *)

  Inductive step_result :=
  | SBreak
  | SContinue (l : loop_state)
  | SError.                 (* "error growing ... block size" *)

  Definition push (l : loop_state) (t : tx) (s' : S) (rm : bool) : step_result :=
    match seq_checked_add (l_c l) (tx_seq t) with
    | None => SError
    | Some c1 =>
      match comet_checked_add c1 (tx_len t) with
      | None => SError
      | Some c2 => SContinue (mkL c2 (tx_group t) s' (t :: l_included l)
                                  (if rm then t :: l_removed l else l_removed l))
      end
    end.

  Definition prepare_step (l : loop_state) (t : tx) : step_result :=
    if negb (comet_has_space (l_c l) (tx_len t)) then SBreak
    else if negb (seq_has_space (l_c l) (tx_seq t)) then SContinue l
    else if l_group l <? tx_group t then SContinue l
    else match exec (l_state l) t with
         | ExOk s' => push l t s' false
         | ExNonFatal => push l t (l_state l) true
         | ExBadNonce => SContinue l
         | ExFatal => SContinue (mkL (l_c l) (l_group l) (l_state l) (l_included l) (t :: l_removed l))
         end.

  Fixpoint prepare_loop (l : loop_state) (q : list tx) : option loop_state :=
    match q with
    | [] => Some l
    | t :: q' =>
      match prepare_step l t with
      | SBreak => Some l
      | SContinue l' => prepare_loop l' q'
      | SError => None
      end
    end.

  Inductive reason :=
  | RParse | REci | RUpgrade | RConstruct | RSeqLimit | RGroup | RExec | RGrow | RCommit | RCommitIds.

  Definition process_step (l : loop_state) (t : tx) : loop_state + reason :=
    if negb (seq_has_space (l_c l) (tx_seq t)) then inr RSeqLimit
    else if l_group l <? tx_group t then inr RGroup
    else match exec (l_state l) t with
         | ExOk s' => match push l t s' false with SContinue l' => inl l' | _ => inr RGrow end
         | ExNonFatal => match push l t (l_state l) true with SContinue l' => inl l' | _ => inr RGrow end
         | ExBadNonce | ExFatal => inr RExec
         end.

  Fixpoint process_loop (l : loop_state) (txs : list tx) : loop_state + reason :=
    match txs with
    | [] => inl l
    | t :: r => match process_step l t with inl l' => process_loop l' r | inr e => inr e end
    end.

  (* ---------------------------------------------------------------------------------------- *)
  (** ** prepare_proposal *)

  Inductive prep_error := PSize | PItemSize | PGrow.

  Record prepared := mkP {
    p_included : list tx;
    p_state : S;
    p_removed : list tx;
    p_c : constraints;
    p_entries : list entry }.

  Definition add_upgrade (e : env) (c : constraints) : option (constraints * list entry) :=
    match e_upgrade e with
    | None => Some (c, [])
    | Some (len, h) => match comet_checked_add c len with
                       | None => None
                       | Some c' => Some (c', [EItem (IUpgrade len h)])
                       end
    end.

  Definition add_eci (e : env) (c : constraints) : option (constraints * list entry) :=
    match e_eci e with
    | None => Some (c, [])
    | Some (len, empty_len) =>
      match comet_checked_add c len with
      | Some c' => Some (c', [EItem (IEci len EciGood)])
      | None => match comet_checked_add c empty_len with
                | Some c' => Some (c', [EItem (IEci empty_len EciGood)])
                | None => None
                end
      end
    end.

  Definition prepare (e : env) (s0 : S) (queue : list tx) (max_tx_bytes : Z) : prepared + prep_error :=
    match bsc_new max_tx_bytes (e_typed e) with
    | None => inr PSize
    | Some c0 =>
      match add_upgrade e c0 with
      | None => inr PItemSize
      | Some (c1, upg) =>
        match add_eci e c1 with
        | None => inr PItemSize
        | Some (c2, eci) =>
          match prepare_loop (mkL c2 G_BUNDLEABLE_GENERAL s0 [] []) queue with
          | None => inr PGrow
          | Some l =>
            let incl := rev (l_included l) in
            inl (mkP incl (l_state l) (rev (l_removed l)) (l_c l)
                     (EItem (IDatasRoot (commit_datas incl (l_state l)))
                      :: EItem (IIdsRoot (commit_ids incl (l_state l)))
                      :: upg ++ eci ++ map (fun t => ETx (honest_raw t)) incl))
          end
        end
      end
    end.

  (* ---------------------------------------------------------------------------------------- *)
  (** ** process_proposal *)

  Record parsed := mkParsed {
    pd_datas : C; pd_ids : C; pd_upgrade : option N; pd_eci : option eci_quality; pd_raw : list entry }.

  (** Typed data (post-Aspen): RollupTransactionsRoot, RollupIdsRoot, [UpgradeChangeHashes] (taken
      only when the third entry decodes as one), ExtendedCommitInfo iff vote extensions are
      enabled, then user transactions.  Untyped data: two 32-byte roots, then transactions. *)
  Definition parse (e : env) (p : list entry) : option parsed :=
    if e_typed e then
      match p with
      | EItem (IDatasRoot cd) :: EItem (IIdsRoot ci) :: r =>
        let '(upg, r1) := match r with
                          | EItem (IUpgrade _ h) :: r' => (Some h, r')
                          | _ => (None, r)
                          end in
        match e_eci e with
        | None => Some (mkParsed cd ci upg None r1)
        | Some _ => match r1 with
                    | EItem (IEci _ EciUndecodable) :: _ => None
                    | EItem (IEci _ q) :: r2 => Some (mkParsed cd ci upg (Some q) r2)
                    | _ => None
                    end
        end
      | _ => None
      end
    else
      match p with
      | EItem i1 :: EItem i2 :: r =>
        match i1, i2 with
        | (IDatasRoot cd | IIdsRoot cd), (IDatasRoot ci | IIdsRoot ci) => Some (mkParsed cd ci None None r)
        | _, _ => None
        end
      | _ => None
      end.

  (** construct_checked_txs against the block-start state: every entry after the injected items
      is decoded, its signature verified, and CheckedTransaction::new run on it. *)
  Definition construct_one (s0 : S) (x : entry) : option tx :=
    match x with
    | EItem _ => None
    | ETx r => if r_decodable r && r_signed r && construct s0 (r_tx r) then Some (r_tx r) else None
    end.

  Fixpoint construct_all (s0 : S) (l : list entry) : option (list tx) :=
    match l with
    | [] => Some []
    | x :: r => match construct_one s0 x, construct_all s0 r with
                | Some t, Some ts => Some (t :: ts)
                | _, _ => None
                end
    end.

  Inductive verdict := Accept | Reject (r : reason).

  Definition upgrade_matches (e : env) (got : option N) : bool :=
    match e_upgrade e, got with
    | None, None => true
    | Some (_, h), Some h' => h =? h'
    | _, _ => false
    end.

  Definition process (e : env) (s0 : S) (p : list entry) : verdict :=
    match parse e p with
    | None => Reject RParse
    | Some pd =>
      if match pd_eci pd with Some EciInvalid => true | _ => false end then Reject REci
      else if negb (upgrade_matches e (pd_upgrade pd)) then Reject RUpgrade
      else match construct_all s0 (pd_raw pd) with
           | None => Reject RConstruct
           | Some txs =>
             match process_loop (mkL bsc_unlimited G_BUNDLEABLE_GENERAL s0 [] []) txs with
             | inr r => Reject r
             | inl l =>
               if negb (ceqb (pd_datas pd) (commit_datas txs (l_state l))) then Reject RCommit
               else if negb (ceqb (pd_ids pd) (commit_ids txs (l_state l))) then Reject RCommitIds
               else Accept
             end
           end
    end.

End Proposal.

Arguments mkTx {T}. Arguments tx_id {T}. Arguments tx_len {T}. Arguments tx_seq {T}.
Arguments tx_group {T}. Arguments tx_body {T}.
Arguments ExOk {S}. Arguments ExNonFatal {S}. Arguments ExBadNonce {S}. Arguments ExFatal {S}.
Arguments mkRaw {T}. Arguments r_decodable {T}. Arguments r_signed {T}. Arguments r_tx {T}.
Arguments honest_raw {T}.
Arguments IDatasRoot {C}. Arguments IIdsRoot {C}. Arguments IUpgrade {C}. Arguments IEci {C}.
Arguments IGarbage {C}.
Arguments EItem {T C}. Arguments ETx {T C}.
Arguments item_len {C}. Arguments entry_len {T C}. Arguments proposal_len {T C}.
Arguments mkL {S T}. Arguments l_c {S T}. Arguments l_group {S T}. Arguments l_state {S T}.
Arguments l_included {S T}. Arguments l_removed {S T}.
Arguments SBreak {S T}. Arguments SContinue {S T}. Arguments SError {S T}.
Arguments push {S T}. Arguments prepare_step {S T}. Arguments prepare_loop {S T}.
Arguments process_step {S T}. Arguments process_loop {S T}.
Arguments mkP {S T C}. Arguments p_included {S T C}. Arguments p_state {S T C}.
Arguments p_removed {S T C}. Arguments p_c {S T C}. Arguments p_entries {S T C}.
Arguments add_upgrade {T C}. Arguments add_eci {T C}.
Arguments prepare {S T C}.
Arguments mkParsed {T C}. Arguments pd_datas {T C}. Arguments pd_ids {T C}.
Arguments pd_upgrade {T C}. Arguments pd_eci {T C}. Arguments pd_raw {T C}.
Arguments parse {T C}. Arguments construct_one {S T C}. Arguments construct_all {S T C}.
Arguments process {S T C}.
