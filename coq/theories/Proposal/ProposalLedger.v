(** C06 — a small concrete ledger instantiating the abstract pieces of ProposalModel.v
    (state, payload, execution, construction-time checks, commitments).  Used by the extracted
    driver (correspondence with the real sequencer on the action kinds below, native asset only)
    and for the concrete witnesses.  Proof-free.

    Sources: checked_transaction/mod.rs (new, execute), checked_actions/{transfer,
    rollup_data_submission,sudo_address_change,ibc_sudo_change,fee_change,init_bridge_account}.rs
    (new / run_mutable_checks / execute), checked_actions/checked_action.rs (pay_fee),
    checked_actions/utils.rs (fee), fees/fee_handler.rs (variable components, fee assets),
    astria-core action/group/mod.rs, proposal/commitment.rs, app/mod.rs end_block. *)
From Astria Require Import Base.Bounded Proposal.ProposalModel.
Open Scope N_scope.

Inductive action :=
| ATransfer (to amt : N)
| ARollup (rid len : N)
| ASudoChange (to : N)
| AIbcSudoChange (to : N)
| AFeeChange (kind base mult : N)   (* kind 0 transfer, 1 rollup data, 2 init bridge, else untracked *)
| AInitBridge.

Record body := mkBody { b_signer : N; b_nonce : N; b_actions : list action }.

Record lstate := mkLS {
  ls_nonce : list (N * N);
  ls_bal : list (N * N);
  ls_sudo : N;
  ls_ibcsudo : N;
  ls_bridges : list N;
  ls_fee_transfer : N * N;      (* (base, multiplier) *)
  ls_fee_rollup : N * N;
  ls_fee_initbridge : N * N;
  ls_blockfees : N }.

Fixpoint aget (m : list (N * N)) (k : N) : N :=
  match m with [] => 0 | (k', v) :: r => if k =? k' then v else aget r k end.
Fixpoint aset (m : list (N * N)) (k v : N) : list (N * N) :=
  match m with
  | [] => [(k, v)]
  | (k', v') :: r => if k =? k' then (k, v) :: r else (k', v') :: aset r k v
  end.
Fixpoint memN (x : N) (l : list N) : bool :=
  match l with [] => false | y :: r => (x =? y) || memN x r end.

Definition action_group (a : action) : N :=
  match a with
  | ATransfer _ _ | ARollup _ _ => G_BUNDLEABLE_GENERAL
  | AInitBridge => G_UNBUNDLEABLE_GENERAL
  | AFeeChange _ _ _ => G_BUNDLEABLE_SUDO
  | ASudoChange _ | AIbcSudoChange _ => G_UNBUNDLEABLE_SUDO
  end.
Definition is_bundleable (g : N) : bool := (g =? G_BUNDLEABLE_GENERAL) || (g =? G_BUNDLEABLE_SUDO).

(** Actions::try_from_list_of_actions *)
Definition body_group (acts : list action) : option N :=
  match acts with
  | [] => None
  | a :: r =>
    let g := action_group a in
    if (negb (is_bundleable g)) && negb (match r with [] => true | _ => false end) then None
    else if forallb (fun b => action_group b =? g) r then Some g else None
  end.

Definition seq_of (acts : list action) : N :=
  sumN (map (fun a => match a with ARollup _ len => len | _ => 0 end) acts).

Definition ltx := tx body.
Definition mk_ltx (id len : N) (b : body) : option ltx :=
  match body_group (b_actions b) with
  | None => None
  | Some g => Some (mkTx id len (seq_of (b_actions b)) g b)
  end.

Definition fee_amount (f : N * N) (var : N) : N :=
  saturating_add U128_MAX (fst f) (saturating_mul U128_MAX var (snd f)).

(** pay_fee: block fees grow, the signer's balance shrinks; fails on insufficient balance. *)
Definition pay (st : lstate) (signer fee : N) : option lstate :=
  match checked_sub (aget (ls_bal st) signer) fee with
  | None => None
  | Some b => Some (mkLS (ls_nonce st) (aset (ls_bal st) signer b) (ls_sudo st) (ls_ibcsudo st)
                         (ls_bridges st) (ls_fee_transfer st) (ls_fee_rollup st)
                         (ls_fee_initbridge st) (ls_blockfees st + fee))
  end.

Definition with_bal (st : lstate) (bal : list (N * N)) : lstate :=
  mkLS (ls_nonce st) bal (ls_sudo st) (ls_ibcsudo st) (ls_bridges st) (ls_fee_transfer st)
       (ls_fee_rollup st) (ls_fee_initbridge st) (ls_blockfees st).

Definition exec_action (st : lstate) (signer : N) (a : action) : option lstate :=
  match a with
  | ATransfer to amt =>
    match pay st signer (fee_amount (ls_fee_transfer st) 0) with
    | None => None
    | Some st1 =>
      if memN signer (ls_bridges st1) then None
      else match checked_sub (aget (ls_bal st1) signer) amt with
           | None => None
           | Some b =>
             let bal1 := aset (ls_bal st1) signer b in
             match checked_add U128_MAX (aget bal1 to) amt with
             | None => None
             | Some b' => Some (with_bal st1 (aset bal1 to b'))
             end
           end
    end
  | ARollup _ len => pay st signer (fee_amount (ls_fee_rollup st) len)
  | ASudoChange to =>
    if signer =? ls_sudo st
    then Some (mkLS (ls_nonce st) (ls_bal st) to (ls_ibcsudo st) (ls_bridges st) (ls_fee_transfer st)
                    (ls_fee_rollup st) (ls_fee_initbridge st) (ls_blockfees st))
    else None
  | AIbcSudoChange to =>
    if signer =? ls_sudo st
    then Some (mkLS (ls_nonce st) (ls_bal st) (ls_sudo st) to (ls_bridges st) (ls_fee_transfer st)
                    (ls_fee_rollup st) (ls_fee_initbridge st) (ls_blockfees st))
    else None
  | AFeeChange kind base mult =>
    if signer =? ls_sudo st
    then Some (mkLS (ls_nonce st) (ls_bal st) (ls_sudo st) (ls_ibcsudo st) (ls_bridges st)
                    (if kind =? 0 then (base, mult) else ls_fee_transfer st)
                    (if kind =? 1 then (base, mult) else ls_fee_rollup st)
                    (if kind =? 2 then (base, mult) else ls_fee_initbridge st)
                    (ls_blockfees st))
    else None
  | AInitBridge =>
    match pay st signer (fee_amount (ls_fee_initbridge st) 0) with
    | None => None
    | Some st1 =>
      if memN signer (ls_bridges st1) then None
      else Some (mkLS (ls_nonce st1) (ls_bal st1) (ls_sudo st1) (ls_ibcsudo st1)
                      (signer :: ls_bridges st1) (ls_fee_transfer st1) (ls_fee_rollup st1)
                      (ls_fee_initbridge st1) (ls_blockfees st1))
    end
  end.

Fixpoint exec_actions (st : lstate) (signer : N) (acts : list action) : option lstate :=
  match acts with
  | [] => Some st
  | a :: r => match exec_action st signer a with None => None | Some st' => exec_actions st' signer r end
  end.

(** CheckedTransaction::execute *)
Definition lexec (st : lstate) (t : ltx) : outcome lstate :=
  let b := tx_body t in
  let cur := aget (ls_nonce st) (b_signer b) in
  if negb (cur =? b_nonce b) then ExBadNonce
  else if U32_MAX <=? cur then ExFatal
  else
    let st1 := mkLS (aset (ls_nonce st) (b_signer b) (cur + 1)) (ls_bal st) (ls_sudo st) (ls_ibcsudo st)
                    (ls_bridges st) (ls_fee_transfer st) (ls_fee_rollup st) (ls_fee_initbridge st)
                    (ls_blockfees st) in
    match exec_actions st1 (b_signer b) (b_actions b) with
    | None => ExFatal
    | Some st' => ExOk st'
    end.

Definition construct_action (st : lstate) (signer : N) (a : action) : bool :=
  match a with
  | ATransfer _ _ => negb (memN signer (ls_bridges st))
  | ARollup _ len => 0 <? len
  | ASudoChange _ | AIbcSudoChange _ | AFeeChange _ _ _ => signer =? ls_sudo st
  | AInitBridge => negb (memN signer (ls_bridges st))
  end.

(** CheckedTransaction::new on decodable, correctly signed bytes *)
Definition lconstruct (st : lstate) (t : ltx) : bool :=
  let b := tx_body t in
  (tx_len t <=? MAX_TX_BYTES)
  && (aget (ls_nonce st) (b_signer b) <=? b_nonce b)
  && forallb (construct_action st (b_signer b)) (b_actions b).

(** Commitments: the preimages of the two Merkle roots (rollup ids in ascending order, each
    with the data lengths of its submissions in block order; the harness derives the data bytes
    from the length).  No deposits arise from the action kinds modelled here. *)
Definition commitment := list (N * list N).

Fixpoint add_data (m : commitment) (rid len : N) : commitment :=
  match m with
  | [] => [(rid, [len])]
  | (r, ds) :: rest => if rid =? r then (r, ds ++ [len]) :: rest else (r, ds) :: add_data rest rid len
  end.
Fixpoint insert_sorted (x : N * list N) (m : commitment) : commitment :=
  match m with
  | [] => [x]
  | y :: rest => if fst x <=? fst y then x :: m else y :: insert_sorted x rest
  end.
Definition sort_commitment (m : commitment) : commitment := fold_right insert_sorted [] m.

Definition rollup_data (txs : list ltx) : commitment :=
  fold_left (fun m t =>
    fold_left (fun m a => match a with ARollup rid len => add_data m rid len | _ => m end)
              (b_actions (tx_body t)) m) txs [].

Definition lcommit_datas (txs : list ltx) (_ : lstate) : commitment := sort_commitment (rollup_data txs).
Definition lcommit_ids (txs : list ltx) (_ : lstate) : commitment :=
  map (fun x => (fst x, [])) (sort_commitment (rollup_data txs)).

Fixpoint list_eqb {A} (eqb : A -> A -> bool) (l1 l2 : list A) : bool :=
  match l1, l2 with
  | [], [] => true
  | x :: r1, y :: r2 => eqb x y && list_eqb eqb r1 r2
  | _, _ => false
  end.
Definition commitment_eqb (c1 c2 : commitment) : bool :=
  list_eqb (fun x y => (fst x =? fst y) && list_eqb N.eqb (snd x) (snd y)) c1 c2.

(** The instantiated model *)
Definition lprepare := prepare lexec lcommit_datas lcommit_ids.
Definition lprocess := process lexec lconstruct lcommit_datas lcommit_ids commitment_eqb.

(** end_block: the block's fees go to the sudo address as it is after the transactions ran. *)
Definition end_block (st : lstate) : lstate :=
  mkLS (ls_nonce st)
       (aset (ls_bal st) (ls_sudo st) (N.min U128_MAX (aget (ls_bal st) (ls_sudo st) + ls_blockfees st)))
       (ls_sudo st) (ls_ibcsudo st) (ls_bridges st) (ls_fee_transfer st) (ls_fee_rollup st)
       (ls_fee_initbridge st) 0.

(** finalize_block without a cached proposal: failing transactions are dropped *)
Fixpoint run_block (st : lstate) (txs : list ltx) : lstate :=
  match txs with
  | [] => st
  | t :: r => match lexec st t with ExOk st' => run_block st' r | _ => run_block st r end
  end.

(** ChainInitializer defaults of the harness: dummy_genesis_fees *)
Definition genesis (accounts : list (N * N)) (sudo ibcsudo : N) : lstate :=
  mkLS [] accounts sudo ibcsudo [] (2, 1002) (1, 1001) (4, 1004) 0.
