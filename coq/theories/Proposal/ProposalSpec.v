(** C06 — vocabulary and statements about ProposalModel.v. *)
From Astria Require Import Base.Bounded Proposal.ProposalModel.
From Coq Require Import ZArith.
Open Scope N_scope.

(** Action groups never increase along the list, starting below [g]. *)
Fixpoint nonincreasing_from (g : N) (l : list N) : Prop :=
  match l with
  | [] => True
  | x :: r => x <= g /\ nonincreasing_from x r
  end.

Section Spec.
  Context {S T C : Type}.
  Variable exec : S -> tx T -> outcome S.
  Variable construct : S -> tx T -> bool.
  Variable commit_datas commit_ids : list (tx T) -> S -> C.
  Variable ceqb : C -> C -> bool.

  Definition group_sorted (l : list (tx T)) : Prop :=
    nonincreasing_from G_BUNDLEABLE_GENERAL (map tx_group l).

  (** Executing [l] in order from [s] ends in [s'], and no transaction fails fatally (each one
      either succeeds or fails with the non-fatal error that is recorded in the block). *)
  Inductive run_nonfatal : S -> list (tx T) -> S -> Prop :=
  | rn_nil s : run_nonfatal s [] s
  | rn_ok s t s1 r s2 : exec s t = ExOk s1 -> run_nonfatal s1 r s2 -> run_nonfatal s (t :: r) s2
  | rn_nf s t r s2 : exec s t = ExNonFatal -> run_nonfatal s r s2 -> run_nonfatal s (t :: r) s2.

  Definition seq_total (l : list (tx T)) : N := sumN (map tx_seq l).
  Definition len_total (l : list (tx T)) : N := sumN (map tx_len l).

  (** An entry is the bytes of a decodable, correctly signed transaction that passes
      CheckedTransaction::new in state [s0]. *)
  Definition good_entry (s0 : S) (x : entry T C) (t : tx T) : Prop :=
    exists r, x = ETx r /\ r_tx r = t /\ r_decodable r = true /\ r_signed r = true /\
              construct s0 t = true.

  (** Untyped (pre-Aspen) blocks carry neither upgrade change hashes nor extended commit info. *)
  Definition env_wf (e : env) : Prop :=
    e_typed e = false -> e_upgrade e = None /\ e_eci e = None.

  (** DESIGN F10: every included transaction passes the construction-time checks in the
      block-start state. *)
  Definition constructible_at_start (s0 : S) (l : list (tx T)) : Prop :=
    Forall (fun t => construct s0 t = true) l.

  (* ---------------------------------------------------------------------------------------- *)

  Definition stmt_prepare_within_limits : Prop :=
    forall e s0 q mx p,
      prepare exec commit_datas commit_ids e s0 q mx = inl p ->
      (0 <= mx)%Z /\
      proposal_len (e_typed e) (p_entries p) <= Z.to_N mx /\
      seq_total (p_included p) <= MAX_SEQ.

  Definition stmt_prepare_group_sorted : Prop :=
    forall e s0 q mx p,
      prepare exec commit_datas commit_ids e s0 q mx = inl p ->
      group_sorted (p_included p).

  Definition stmt_prepare_only_nonfatal : Prop :=
    forall e s0 q mx p,
      prepare exec commit_datas commit_ids e s0 q mx = inl p ->
      run_nonfatal s0 (p_included p) (p_state p) /\
      (forall t, In t (p_included p) -> In t q).

  Definition stmt_process_rejects_bad : Prop :=
    forall e s0 p,
      process exec construct commit_datas commit_ids ceqb e s0 p = Accept ->
      exists pd txs s1,
        parse e p = Some pd /\
        Forall2 (good_entry s0) (pd_raw pd) txs /\
        group_sorted txs /\
        run_nonfatal s0 txs s1 /\
        seq_total txs <= MAX_SEQ /\
        ceqb (pd_datas pd) (commit_datas txs s1) = true /\
        ceqb (pd_ids pd) (commit_ids txs s1) = true.

  Definition stmt_prepare_accepted : Prop :=
    forall e s0 q mx p,
      (forall c, ceqb c c = true) ->
      env_wf e ->
      (mx <= Z.of_N I64_MAX)%Z ->
      prepare exec commit_datas commit_ids e s0 q mx = inl p ->
      constructible_at_start s0 (p_included p) ->
      process exec construct commit_datas commit_ids ceqb e s0 (p_entries p) = Accept.

End Spec.
