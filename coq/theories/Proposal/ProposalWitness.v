(** C06 — concrete runs of the instantiated model (ProposalLedger.v): non-vacuity of the
    theorems, and the witness that an honest proposal can be rejected when an included
    transaction is not constructible in the block-start state (DESIGN F10). *)
From Astria Require Import Base.Bounded Proposal.ProposalModel Proposal.ProposalSpec
  Proposal.ProposalLedger Proposal.ProposalProofs.
From Coq Require Import ZArith.
Open Scope N_scope.

Definition mk (id len : N) (b : body) : ltx :=
  match mk_ltx id len b with Some t => t | None => mkTx id len 0 0 b end.

(** accounts 0..3 with funds; sudo = account 0 *)
Definition st0 : lstate := genesis [(0, 1000000000); (1, 1000000000); (2, 1000000000); (3, 5)] 0 1.
(** typed block with an extended commit info item of 4 bytes (no votes; the fallback item is
    the same 4 bytes) *)
Definition env0 : env := mkEnv true None (Some (4, 4)).
(** typed block whose extended commit info item carries three signed votes (294 bytes) *)
Definition env_votes : env := mkEnv true None (Some (294, 4)).

Definition t_transfer : ltx := mk 1 231 (mkBody 1 0 [ATransfer 2 100]).
Definition t_rollup : ltx := mk 2 400 (mkBody 2 0 [ARollup 7 150]).
Definition t_rollup2 : ltx := mk 3 300 (mkBody 2 1 [ARollup 5 60]).
Definition t_poor : ltx := mk 4 231 (mkBody 3 0 [ATransfer 2 100]).       (* insufficient funds *)
Definition t_gap : ltx := mk 5 231 (mkBody 1 5 [ATransfer 2 1]).          (* nonce gap *)
Definition t_feechange : ltx := mk 6 120 (mkBody 0 0 [AFeeChange 0 3 0]).
Definition t_sudo : ltx := mk 7 130 (mkBody 0 1 [ASudoChange 1]).
Definition t_big : ltx := mk 8 200100 (mkBody 1 1 [ARollup 9 200000]).
Definition t_big2 : ltx := mk 9 100100 (mkBody 1 2 [ARollup 9 100000]).  (* would exceed 256 000 *)

Definition queue0 : list ltx :=
  [t_transfer; t_rollup; t_poor; t_gap; t_big; t_big2; t_rollup2; t_feechange; t_sudo].

(** a run that exercises every guard: [t_poor] fails fatally and is excluded (and handed to the
    mempool for removal), [t_gap] has a bad nonce and is skipped, [t_big2] does not fit the
    sequenced-data limit and is skipped, the sudo-group transactions come last *)
Example ex_prepare :
  match lprepare env0 st0 queue0 1000000 with
  | inl p => map tx_id (p_included p) = [1; 2; 8; 3; 6; 7] /\
             map tx_id (p_removed p) = [4] /\
             proposal_len true (p_entries p) = 68 + 4 + (231 + 400 + 200100 + 300 + 120 + 130) /\
             seq_total (p_included p) = 200210 /\
             lprocess env0 st0 (p_entries p) = Accept
  | inr _ => False
  end.
Proof. vm_compute. repeat split; reflexivity. Qed.

(** max_tx_bytes cuts the block: the first transaction that does not fit ends the loop *)
Example ex_prepare_break :
  match lprepare env0 st0 queue0 (68 + 4 + 231 + 400 + 100) with
  | inl p => map tx_id (p_included p) = [1; 2] /\ lprocess env0 st0 (p_entries p) = Accept
  | inr _ => False
  end.
Proof. vm_compute. repeat split; reflexivity. Qed.

Example ex_prepare_too_small : lprepare env0 st0 queue0 67 = inr PSize.
Proof. reflexivity. Qed.

(** rejections, one per guard *)
Definition honest_entries (mx : Z) : list (entry body commitment) :=
  match lprepare env0 st0 queue0 mx with inl p => p_entries p | inr _ => [] end.

Definition swap01 {A} (l : list A) : list A :=
  match l with a :: b :: r => b :: a :: r | _ => l end.

Example ex_reject_group :
  (* the two sudo-group transactions moved in front of the general ones *)
  lprocess env0 st0 (firstn 3 (honest_entries 1000000)
                     ++ [ETx (honest_raw t_feechange); ETx (honest_raw t_transfer)]) = Reject RGroup.
Proof. vm_compute. reflexivity. Qed.

Example ex_reject_commit :
  lprocess env0 st0 (firstn 3 (honest_entries 1000000) ++ [ETx (honest_raw t_transfer)]) = Reject RCommit.
Proof. vm_compute. reflexivity. Qed.

Example ex_reject_fatal :
  lprocess env0 st0 (honest_entries 1000000 ++ [ETx (honest_raw t_poor)]) = Reject RGroup /\
  lprocess env0 st0 (firstn 5 (honest_entries 1000000) ++ [ETx (honest_raw t_poor)]) = Reject RExec.
Proof. vm_compute. split; reflexivity. Qed.

Example ex_reject_seqlimit :
  lprocess env0 st0 (firstn 3 (honest_entries 1000000)
                     ++ map (fun t => ETx (honest_raw t)) [t_transfer; t_big; t_big2]) = Reject RSeqLimit.
Proof. vm_compute. reflexivity. Qed.

Example ex_reject_unsigned :
  lprocess env0 st0 (firstn 3 (honest_entries 1000000) ++ [ETx (mkRaw true false t_transfer)])
  = Reject RConstruct.
Proof. vm_compute. reflexivity. Qed.

Example ex_reject_items_reordered :
  lprocess env0 st0 (swap01 (honest_entries 1000000)) = Reject RParse.
Proof. vm_compute. reflexivity. Qed.

(* ------------------------------------------------------------------------------------------ *)
(** * F10: an honest proposal that validators reject *)

(** Account 1 signed an IbcSudoChange while it was the sudo address (so the mempool holds a
    CheckedTransaction for it); since then the sudo address moved to account 0.  Account 0's
    SudoAddressChange back to account 1 is ahead of it in the builder queue.  The proposer executes
    both cached transactions successfully; a validator constructs every transaction of the block
    against the block-start state, where account 1 is not the sudo address. *)
Definition st10 : lstate := genesis [(0, 1000000); (1, 1000000)] 0 1.
Definition t_back : ltx := mk 1 130 (mkBody 0 0 [ASudoChange 1]).
Definition t_stale : ltx := mk 2 130 (mkBody 1 0 [AIbcSudoChange 3]).

Lemma prepare_accepted_refuted :
  exists (e : env) (s0 : lstate) (q : list ltx) (mx : Z) p,
    env_wf e /\ (mx <= Z.of_N I64_MAX)%Z /\
    lprepare e s0 q mx = inl p /\
    p_included p = q /\
    run_nonfatal lexec s0 (p_included p) (p_state p) /\
    ~ constructible_at_start lconstruct s0 (p_included p) /\
    lprocess e s0 (p_entries p) = Reject RConstruct.
Proof.
  destruct (lprepare env0 st10 [t_back; t_stale] 100000) as [p|] eqn:E; [|vm_compute in E; discriminate].
  exists env0, st10, [t_back; t_stale], 100000%Z, p.
  split; [intros H; discriminate|].
  split; [vm_compute; discriminate|].
  split; [exact E|].
  vm_compute in E. inversion E; subst p; clear E. cbn [p_included p_state p_entries].
  split; [reflexivity|].
  split.
  { eapply rn_ok; [vm_compute; reflexivity|]. eapply rn_ok; [vm_compute; reflexivity|]. constructor. }
  split.
  { intros H. inversion H as [|x l H1 H2]; subst. inversion H2 as [|y l' H3 H4]; subst.
    vm_compute in H3. discriminate. }
  vm_compute. reflexivity.
Qed.

(* ------------------------------------------------------------------------------------------ *)
(** * The extended commit info does not fit below max_tx_bytes *)

(** prepare_proposal then substitutes the encoding of the empty extended commit info of the same
    round; the block (here: 68 bytes of commitments, the 4-byte item, one 231-byte transaction of
    a queue of two) stays within max_tx_bytes and is accepted. *)
Example ex_prepare_eci_fallback :
  match lprepare env_votes st0 [t_transfer; t_rollup] (68 + 4 + 231) with
  | inl p => firstn 1 (skipn 2 (p_entries p)) = [EItem (IEci 4 EciGood)] /\
             map tx_id (p_included p) = [1] /\
             proposal_len true (p_entries p) = 303 /\
             lprocess env_votes st0 (p_entries p) = Accept
  | inr _ => False
  end.
Proof. vm_compute. repeat split; reflexivity. Qed.

(** when it fits, the item with the votes is the one in the block *)
Example ex_prepare_eci_fits :
  match lprepare env_votes st0 [t_transfer] (68 + 294 + 231) with
  | inl p => firstn 1 (skipn 2 (p_entries p)) = [EItem (IEci 294 EciGood)] /\
             map tx_id (p_included p) = [1] /\
             lprocess env_votes st0 (p_entries p) = Accept
  | inr _ => False
  end.
Proof. vm_compute. repeat split; reflexivity. Qed.

(** not even the empty extended commit info fits: prepare_proposal fails *)
Example ex_prepare_eci_no_room : lprepare env_votes st0 [t_transfer] 71 = inr PItemSize.
Proof. reflexivity. Qed.

(** an item that does not decode (such as one holding empty bytes) in the place of the extended
    commit info is a parse failure *)
Example ex_reject_eci_undecodable :
  lprocess env0 st0 (firstn 2 (honest_entries 1000000) ++ [EItem (IEci 2 EciUndecodable)]
                     ++ skipn 3 (honest_entries 1000000)) = Reject RParse.
Proof. vm_compute. reflexivity. Qed.

(** ** prepare_proposal as it was before repository commit a321bb4 (finding F10b; kept for the
    record, used by no other definition and not extracted) *)

(** The fallback item held empty bytes, which do not decode as an
    ExtendedCommitInfoWithCurrencyPairMapping. *)
Definition add_eci_before_a321bb4 (e : env) (c : constraints)
  : option (constraints * list (entry body commitment)) :=
  match e_eci e with
  | None => Some (c, [])
  | Some (len, empty_len) =>
    match comet_checked_add c len with
    | Some c' => Some (c', [EItem (IEci len EciGood)])
    | None => match comet_checked_add c empty_len with
              | Some c' => Some (c', [EItem (IEci empty_len EciUndecodable)])
              | None => None
              end
    end
  end.

Definition lprepare_before_a321bb4 (e : env) (s0 : lstate) (queue : list ltx) (max_tx_bytes : Z)
  : prepared lstate body commitment + prep_error :=
  match bsc_new max_tx_bytes (e_typed e) with
  | None => inr PSize
  | Some c0 =>
    match add_upgrade e c0 with
    | None => inr PItemSize
    | Some (c1, upg) =>
      match add_eci_before_a321bb4 e c1 with
      | None => inr PItemSize
      | Some (c2, eci) =>
        match prepare_loop lexec (mkL c2 G_BUNDLEABLE_GENERAL s0 [] []) queue with
        | None => inr PGrow
        | Some l =>
          let incl := rev (l_included l) in
          inl (mkP incl (l_state l) (rev (l_removed l)) (l_c l)
                   (EItem (IDatasRoot (lcommit_datas incl (l_state l)))
                    :: EItem (IIdsRoot (lcommit_ids incl (l_state l)))
                    :: upg ++ eci ++ map (fun t => ETx (honest_raw t)) incl))
        end
      end
    end
  end.

(** With the 4-byte extended commit info of a commit without votes and the 2-byte item holding
    empty bytes, max_tx_bytes = 71 produced a block within the limit that no process_proposal
    could parse (nor the proposer's own process_proposal, nor finalize_block). *)
Lemma prepare_before_a321bb4_rejected :
  exists (e : env) (s0 : lstate) (q : list ltx) (mx : Z) p,
    env_wf e /\ (mx <= Z.of_N I64_MAX)%Z /\
    lprepare_before_a321bb4 e s0 q mx = inl p /\
    constructible_at_start lconstruct s0 (p_included p) /\
    proposal_len (e_typed e) (p_entries p) <= Z.to_N mx /\
    lprocess e s0 (p_entries p) = Reject RParse.
Proof.
  pose (e := mkEnv true None (Some (4, 2))).
  destruct (lprepare_before_a321bb4 e st0 [t_transfer] 71) as [p|] eqn:E; [|vm_compute in E; discriminate].
  exists e, st0, [t_transfer], 71%Z, p.
  split; [intros H; discriminate|].
  split; [vm_compute; discriminate|].
  split; [exact E|].
  vm_compute in E. inversion E; subst p; clear E. cbn [p_included p_entries].
  split; [constructor|].
  split; [vm_compute; discriminate|].
  vm_compute. reflexivity.
Qed.

(** On the same input the current definition fails to propose at all when both items have the
    4 bytes they have for a commit without votes, and proposes an acceptable block whenever the
    empty extended commit info is the shorter one. *)
Example ex_same_input_now :
  lprepare env0 st0 [t_transfer] 71 = inr PItemSize /\
  match lprepare env_votes st0 [t_transfer] 72 with
  | inl p => lprocess env_votes st0 (p_entries p) = Accept
  | inr _ => False
  end.
Proof. vm_compute. split; reflexivity. Qed.

(** The instantiated commitment comparison is reflexive (hypothesis of prepare_accepted). *)
Lemma list_eqb_refl {A} (eqb : A -> A -> bool) :
  (forall x, eqb x x = true) -> forall l, list_eqb eqb l l = true.
Proof. intros H l; induction l as [|x l IH]; cbn; [reflexivity|]. rewrite H, IH. reflexivity. Qed.

Lemma commitment_eqb_refl c : commitment_eqb c c = true.
Proof.
  apply list_eqb_refl. intros [r ds]. cbn. rewrite N.eqb_refl. cbn.
  apply list_eqb_refl. apply N.eqb_refl.
Qed.
