(** C09 — model of conductor's firm-block acceptance
    (crates/astria-conductor/src/celestia/{block_verifier,verify,reconstruct}.rs), after the `fix:` commits.
    Signatures are abstract: each commit signature entry carries whether ed25519 verification of the
    canonical precommit vote succeeds for the key the validator set lists under that address.
    Proof-free: this file is what gets extracted and run against the code. *)
From Astria Require Export Base.Bounded.

(** [does_commit_voting_power_have_quorum] (fixed): 3*committed > 2*total in u128, no overflow *)
Definition quorum (committed total : N) : bool :=
  saturating_mul U128_MAX total 2 <? saturating_mul U128_MAX committed 3.

(** the pre-fix function, kept to state what was wrong *)
Definition quorum_prefix (committed total : N) : bool :=
  if total <? 3 then saturating_mul U64_MAX total 2 <? saturating_mul U64_MAX committed 3
  else (total / 3) * 2 <? committed.

(** a validator of the set returned by the sequencer: address (derived from the key) and power *)
Record validator := { v_addr : N; v_power : N }.

Inductive sig_state := SigValid | SigInvalid | SigMissing.

Inductive commit_sig :=
| CsAbsent
| CsNil
| CsCommit (addr : N) (s : sig_state).

Inductive quorum_error :=
| ECommitHeightMismatch
| ETotalVotingPowerOverflowed
| EEmptySignature
| ENoSuchValidator
| EDuplicateVote
| EVerifyVoteSignature
| ECommitVotingPowerExceedsTotal
| ENoQuorum.

(** total voting power: try_fold checked_add *)
Fixpoint total_power (vs : list validator) (acc : N) : option N :=
  match vs with
  | [] => Some acc
  | v :: r => match checked_add U64_MAX acc (v_power v) with
              | Some a => total_power r a
              | None => None
              end
  end.

(** HashMap::collect: for a repeated address the LAST entry wins *)
Fixpoint lookup (vs : list validator) (a : N) : option validator :=
  match vs with
  | [] => None
  | v :: r => match lookup r a with
              | Some w => Some w
              | None => if v_addr v =? a then Some v else None
              end
  end.

Fixpoint memN (a : N) (l : list N) : bool :=
  match l with [] => false | x :: r => (x =? a) || memN a r end.

(** the loop over commit signatures: returns the tallied power (saturating) *)
Fixpoint tally (vs : list validator) (sigs : list commit_sig) (seen : list N) (acc : N)
  : N + quorum_error :=
  match sigs with
  | [] => inl acc
  | CsAbsent :: r | CsNil :: r => tally vs r seen acc
  | CsCommit a s :: r =>
      match s with
      | SigMissing => inr EEmptySignature
      | _ =>
        match lookup vs a with
        | None => inr ENoSuchValidator
        | Some v =>
            if memN a seen then inr EDuplicateVote
            else match s with
                 | SigValid => tally vs r (a :: seen) (saturating_add U64_MAX acc (v_power v))
                 | _ => inr EVerifyVoteSignature
                 end
        end
      end
  end.

(** [ensure_commit_has_quorum] *)
Definition ensure_commit_has_quorum (commit_height set_height : N) (vs : list validator)
    (sigs : list commit_sig) : option quorum_error :=
  if negb (commit_height =? set_height) then Some ECommitHeightMismatch
  else match total_power vs 0 with
       | None => Some ETotalVotingPowerOverflowed
       | Some total =>
           match tally vs sigs [] 0 with
           | inr e => Some e
           | inl c =>
               if total <? c then Some ECommitVotingPowerExceedsTotal
               else if negb (quorum c total) then Some ENoQuorum
               else None
           end
       end.

(** [BlobVerifier::verify_metadata] decision, given the (cached) commit for the metadata's height:
    [None] = could not fetch / no quorum. Returns whether the metadata is kept. *)
Record commit_info := { ci_chain : N; ci_hash : N }.
Record metadata := { md_height : N; md_chain : N; md_hash : N }.

Definition accept_metadata (commit_for : N -> option commit_info) (m : metadata) : bool :=
  match commit_for (md_height m) with
  | None => false
  | Some c => (ci_chain c =? md_chain m) && (ci_hash c =? md_hash m)
  end.

(** the pre-fix decision: the mismatch was only logged *)
Definition accept_metadata_prefix (commit_for : N -> option commit_info) (m : metadata) : bool :=
  match commit_for (md_height m) with
  | None => false
  | Some _ => true
  end.

(** [verify_metadata] over a list: items below the next expected firm height are dropped unverified;
    accepted ones are keyed by block hash (a later one with the same hash replaces the earlier). *)
Definition verify_all (commit_for : N -> option commit_info) (next_firm : N) (ms : list metadata)
  : list metadata :=
  filter (fun m => (next_firm <=? md_height m) && accept_metadata commit_for m) ms.

(** reconstruct: a rollup blob (block hash, audit verdict against the header with that hash) is
    attached to the header with the same hash iff its Merkle audit against that header's
    rollup-transactions root succeeds.  [audit r m] abstracts the C08 verification. *)
Record rollup_blob := { rb_hash : N; rb_id : N }.

Fixpoint remove_hash (h : N) (ms : list metadata) : list metadata :=
  match ms with
  | [] => []
  | m :: r => if md_hash m =? h then r else m :: remove_hash h r
  end.
Definition find_hash (h : N) (ms : list metadata) : option metadata :=
  find (fun m => md_hash m =? h) ms.

Fixpoint reconstruct (audit : rollup_blob -> metadata -> bool)
    (headers : list metadata) (rollups : list rollup_blob) : list (metadata * option rollup_blob) :=
  match rollups with
  | [] => map (fun m => (m, None)) headers     (* leftover headers (filtered by contains_rollup_id in the code) *)
  | rb :: r =>
      match find_hash (rb_hash rb) headers with
      | Some m => if audit rb m
                  then (m, Some rb) :: reconstruct audit (remove_hash (rb_hash rb) headers) r
                  else reconstruct audit headers r
      | None => reconstruct audit headers r
      end
  end.
