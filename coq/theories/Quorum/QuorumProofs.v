(** C09 — proofs of the statements in QuorumSpec.v *)
From Astria Require Import Quorum.QuorumSpec.

(** * threshold *)

Theorem quorum_exact : stmt_quorum_exact.
Proof.
  unfold stmt_quorum_exact, quorum, saturating_mul. intros c t Hc Ht.
  rewrite N.ltb_lt. unfold U128_MAX, U64_MAX in *. lia.
Qed.

Theorem quorum_prefix_refuted : stmt_quorum_prefix_refuted.
Proof.
  exists 3, 5. unfold U64_MAX.
  split; [lia|]. split; [lia|]. split; [vm_compute; reflexivity | lia].
Qed.

(** * tally *)

Lemma memN_false a l : memN a l = false -> ~ In a l.
Proof.
  induction l as [|x l IH]; cbn [memN In]; intros H.
  - intros [].
  - apply orb_false_iff in H. destruct H as [H1 H2].
    apply N.eqb_neq in H1. intros [E|E]; [congruence | exact (IH H2 E)].
Qed.

Lemma lookup_addr vs a v : lookup vs a = Some v -> v_addr v = a.
Proof.
  induction vs as [|w vs IH]; cbn [lookup]; intros H.
  - discriminate.
  - destruct (lookup vs a) as [u|] eqn:E.
    + inversion H; subst. apply IH; reflexivity.
    + destruct (N.eqb_spec (v_addr w) a) as [Ea|Ea]; [|discriminate].
      inversion H; subst; reflexivity.
Qed.

Lemma total_power_bound vs : forall acc t, acc <= U64_MAX -> total_power vs acc = Some t -> t <= U64_MAX.
Proof.
  induction vs as [|v vs IH]; cbn [total_power]; intros acc t Ha H.
  - inversion H; subst; exact Ha.
  - destruct (checked_add U64_MAX acc (v_power v)) as [a|] eqn:E; [|discriminate].
    apply checked_add_Some in E. destruct E as [-> E]. eapply IH; eassumption.
Qed.

Lemma tally_inv vs : forall sigs seen acc c,
  tally vs sigs seen acc = inl c ->
  (acc <= U64_MAX -> c <= U64_MAX) /\
  exists signers,
    NoDup (map v_addr signers) /\
    (forall v, In v signers ->
       lookup vs (v_addr v) = Some v /\ In (CsCommit (v_addr v) SigValid) sigs /\
       ~ In (v_addr v) seen) /\
    c <= acc + sumN (map v_power signers).
Proof.
  induction sigs as [|s sigs IH]; intros seen acc c H.
  - cbn [tally] in H. inversion H; subst. split; [tauto|].
    exists []. cbn [map sumN]. split; [constructor|]. split; [intros v []|lia].
  - destruct s as [| |a st].
    + cbn [tally] in H. destruct (IH _ _ _ H) as [Hb [S [Hn [Hs Hc]]]].
      split; [exact Hb|]. exists S. split; [exact Hn|]. split; [|exact Hc].
      intros v Hv. destruct (Hs v Hv) as [H1 [H2 H3]].
      split; [exact H1|]. split; [right; exact H2|exact H3].
    + cbn [tally] in H. destruct (IH _ _ _ H) as [Hb [S [Hn [Hs Hc]]]].
      split; [exact Hb|]. exists S. split; [exact Hn|]. split; [|exact Hc].
      intros v Hv. destruct (Hs v Hv) as [H1 [H2 H3]].
      split; [exact H1|]. split; [right; exact H2|exact H3].
    + cbn [tally] in H. destruct st; try discriminate.
      * destruct (lookup vs a) as [w|] eqn:El; [|discriminate].
        destruct (memN a seen) eqn:Em; [discriminate|].
        destruct (IH _ _ _ H) as [Hb [S [Hn [Hs Hc]]]].
        pose proof (lookup_addr _ _ _ El) as Ea.
        pose proof (memN_false _ _ Em) as Hns.
        split.
        { intros _. apply Hb. unfold saturating_add. lia. }
        exists (w :: S). cbn [map sumN]. split.
        { constructor; [|exact Hn]. intros Hin.
          apply in_map_iff in Hin. destruct Hin as [u [Hu1 Hu2]].
          destruct (Hs u Hu2) as [_ [_ H3]]. apply H3. left. congruence. }
        split.
        { intros v [Hv|Hv].
          - subst v. rewrite Ea. split; [exact El|]. split; [left; reflexivity|exact Hns].
          - destruct (Hs v Hv) as [H1 [H2 H3]].
            split; [exact H1|]. split; [right; exact H2|].
            intros Hin. apply H3. right. exact Hin. }
        unfold saturating_add in Hc. lia.
      * destruct (lookup vs a) as [w|]; [|discriminate].
        destruct (memN a seen); discriminate.
Qed.

Theorem tally_sound : stmt_tally_sound.
Proof.
  unfold stmt_tally_sound, ensure_commit_has_quorum. intros ch sh vs sigs H.
  destruct (N.eqb_spec ch sh) as [E|E]; cbn [negb] in H; [|discriminate].
  split; [exact E|].
  destruct (total_power vs 0) as [total|] eqn:Et; [|discriminate].
  destruct (tally vs sigs [] 0) as [c|e] eqn:Ec; [|discriminate].
  destruct (total <? c); [discriminate|].
  destruct (quorum c total) eqn:Eq; cbn [negb] in H; [|discriminate].
  destruct (tally_inv _ _ _ _ _ Ec) as [Hb [S [Hn [Hs Hc]]]].
  assert (Hc64 : c <= U64_MAX) by (apply Hb; unfold U64_MAX; lia).
  assert (Ht64 : total <= U64_MAX).
  { eapply total_power_bound; [|exact Et]. unfold U64_MAX; lia. }
  apply (quorum_exact c total Hc64 Ht64) in Eq.
  exists total, S. split; [reflexivity|]. split; [exact Hn|]. split.
  - intros v Hv. destruct (Hs v Hv) as [H1 [H2 _]]. split; assumption.
  - lia.
Qed.

(** * metadata *)

Theorem metadata_accept : stmt_metadata_accept.
Proof.
  unfold stmt_metadata_accept, accept_metadata. intros cf m H.
  destruct (cf (md_height m)) as [c|]; [|discriminate].
  apply andb_true_iff in H. destruct H as [H1 H2].
  apply N.eqb_eq in H1. apply N.eqb_eq in H2.
  exists c. split; [reflexivity|]. split; assumption.
Qed.

Theorem metadata_prefix_refuted : stmt_metadata_prefix_refuted.
Proof.
  exists (fun _ => Some {| ci_chain := 0; ci_hash := 0 |}),
         {| md_height := 0; md_chain := 0; md_hash := 1 |}.
  split; [reflexivity|].
  intros c Hc. inversion Hc; subst. cbn [ci_hash md_hash]. discriminate.
Qed.

Theorem verify_all_sound : stmt_verify_all_sound.
Proof.
  unfold stmt_verify_all_sound, verify_all. intros cf nf ms m H.
  apply filter_In in H. destruct H as [H1 H2].
  apply andb_true_iff in H2. destruct H2 as [H2 H3].
  apply N.leb_le in H2.
  split; [exact H1|]. split; assumption.
Qed.

(** * reconstruct *)

Lemma remove_hash_In h ms m : In m (remove_hash h ms) -> In m ms.
Proof.
  induction ms as [|x ms IH]; cbn [remove_hash]; intros H.
  - exact H.
  - destruct (md_hash x =? h).
    + right; exact H.
    + destruct H as [H|H]; [left; exact H|right; exact (IH H)].
Qed.

Theorem reconstruct_bound : stmt_reconstruct_bound.
Proof.
  unfold stmt_reconstruct_bound. intros audit hs rs. revert hs.
  induction rs as [|rb rs IH]; intros hs m o H.
  - cbn [reconstruct] in H. apply in_map_iff in H. destruct H as [x [Hx1 Hx2]].
    inversion Hx1; subst. split; [exact Hx2|exact I].
  - cbn [reconstruct] in H.
    assert (Hweak : forall hs', (forall x, In x hs' -> In x hs) ->
              In (m, o) (reconstruct audit hs' rs) ->
              In m hs /\ match o with
                         | Some rb0 => In rb0 (rb :: rs) /\ rb_hash rb0 = md_hash m /\ audit rb0 m = true
                         | None => True
                         end).
    { intros hs' Hsub Hin. destruct (IH hs' m o Hin) as [H1 H2].
      split; [apply Hsub; exact H1|].
      destruct o as [rb0|]; [|exact I].
      destruct H2 as [H2 H3]. split; [right; exact H2|exact H3]. }
    destruct (find_hash (rb_hash rb) hs) as [m0|] eqn:Ef.
    + destruct (audit rb m0) eqn:Ea.
      * destruct H as [H|H].
        -- inversion H; subst.
           unfold find_hash in Ef. apply find_some in Ef. destruct Ef as [F1 F2].
           apply N.eqb_eq in F2.
           split; [exact F1|]. split; [left; reflexivity|]. split; [symmetry; exact F2|exact Ea].
        -- apply (Hweak (remove_hash (rb_hash rb) hs)); [|exact H].
           intros x. apply remove_hash_In.
      * apply (Hweak hs); [tauto|exact H].
    + apply (Hweak hs); [tauto|exact H].
Qed.

(** * non-vacuity *)

(** With powers 10/10/10 and signers 1 and 3 the committed power is exactly two thirds
    (3*20 = 2*30), which the strict threshold rejects; the accepting instance below gives
    validator 3 power 11 (3*21 = 63 > 62 = 2*31). *)
Example tally_exact_two_thirds_rejected :
  ensure_commit_has_quorum 5 5
    [ {|v_addr:=1;v_power:=10|}; {|v_addr:=2;v_power:=10|}; {|v_addr:=3;v_power:=10|} ]
    [CsCommit 1 SigValid; CsCommit 3 SigValid; CsAbsent] = Some ENoQuorum.
Proof. vm_compute; reflexivity. Qed.

Example tally_accepts_somewhere :
  ensure_commit_has_quorum 5 5
    [ {|v_addr:=1;v_power:=10|}; {|v_addr:=2;v_power:=10|}; {|v_addr:=3;v_power:=11|} ]
    [CsCommit 1 SigValid; CsCommit 3 SigValid; CsAbsent] = None.
Proof. vm_compute; reflexivity. Qed.

Example dup_rejected :
  ensure_commit_has_quorum 5 5
    [ {|v_addr:=1;v_power:=34|}; {|v_addr:=2;v_power:=33|}; {|v_addr:=3;v_power:=33|} ]
    [CsCommit 1 SigValid; CsCommit 1 SigValid] = Some EDuplicateVote.
Proof. vm_compute; reflexivity. Qed.

Print Assumptions quorum_exact.
Print Assumptions quorum_prefix_refuted.
Print Assumptions tally_sound.
Print Assumptions metadata_accept.
Print Assumptions metadata_prefix_refuted.
Print Assumptions verify_all_sound.
Print Assumptions reconstruct_bound.
Print Assumptions tally_exact_two_thirds_rejected.
Print Assumptions tally_accepts_somewhere.
Print Assumptions dup_rejected.
