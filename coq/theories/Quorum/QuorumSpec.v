(** C09 — statements proved in QuorumProofs.v *)
From Astria Require Export Quorum.QuorumModel.

(** the threshold is exactly "strictly more than two thirds" on u64 inputs *)
Definition stmt_quorum_exact : Prop :=
  forall c t, c <= U64_MAX -> t <= U64_MAX -> (quorum c t = true <-> 2 * t < 3 * c).

(** what was wrong before the fix: total = 5, committed = 3 (60%) passed *)
Definition stmt_quorum_prefix_refuted : Prop :=
  exists c t, c <= U64_MAX /\ t <= U64_MAX /\ quorum_prefix c t = true /\ ~ (2 * t < 3 * c).

(** acceptance of a commit implies: heights agree, and there is a set of DISTINCT validators of the
    set, each with a valid signature in the commit, holding > 2/3 of the total power *)
Definition stmt_tally_sound : Prop :=
  forall ch sh vs sigs,
    ensure_commit_has_quorum ch sh vs sigs = None ->
    ch = sh /\
    exists total signers,
      total_power vs 0 = Some total /\
      NoDup (map v_addr signers) /\
      (forall v, In v signers ->
         lookup vs (v_addr v) = Some v /\ In (CsCommit (v_addr v) SigValid) sigs) /\
      2 * total < 3 * sumN (map v_power signers).

(** metadata is kept only if hash and chain id equal those of the commit for its height *)
Definition stmt_metadata_accept : Prop :=
  forall cf m, accept_metadata cf m = true ->
    exists c, cf (md_height m) = Some c /\ ci_chain c = md_chain m /\ ci_hash c = md_hash m.

Definition stmt_metadata_prefix_refuted : Prop :=
  exists cf m, accept_metadata_prefix cf m = true /\
    forall c, cf (md_height m) = Some c -> ci_hash c <> md_hash m.

Definition stmt_verify_all_sound : Prop :=
  forall cf nf ms m, In m (verify_all cf nf ms) ->
    In m ms /\ nf <= md_height m /\ accept_metadata cf m = true.

(** rollup data is attached only to a verified header with the same block hash and only if the
    Merkle audit against that header succeeds; every output header is one of the verified ones *)
Definition stmt_reconstruct_bound : Prop :=
  forall audit hs rs m o, In (m, o) (reconstruct audit hs rs) ->
    In m hs /\
    match o with
    | Some rb => In rb rs /\ rb_hash rb = md_hash m /\ audit rb m = true
    | None => True
    end.
