(** C09 — the firm-block pipeline composed: decode (all-or-nothing per blob, convert.rs) →
    verify_metadata (verify.rs) → reconstruct (reconstruct.rs).  Entries carry the verdict
    bits that the abstract parts (protobuf well-formedness, Merkle audit = C08) produce.
    Proof-free; extracted. *)
From Astria Require Export Quorum.QuorumModel.

Record pmeta := { pm_meta : metadata; pm_wf : bool; pm_has_rollup : bool }.
(** [pr_own]: the entry's rollup id is the conductor's own (entries of other rollups are ignored by
    reconstruct.rs after fix b791679, even though their Merkle audit succeeds) *)
Record prollup := { pr_blob : rollup_blob; pr_wf : bool; pr_audit : bool; pr_txs : N; pr_own : bool }.

(** one malformed entry drops the whole list of that blob *)
Definition decode_blob {A} (wf : A -> bool) (entries : list A) : list A :=
  if forallb wf entries then entries else [].

Definition eq_meta (a b : metadata) : bool :=
  (md_height a =? md_height b) && (md_chain a =? md_chain b) && (md_hash a =? md_hash b).

(** verified headers are keyed by block hash: keep one per hash *)
Fixpoint dedup_hash (ms : list metadata) : list metadata :=
  match ms with
  | [] => []
  | m :: r => if existsb (fun x => md_hash x =? md_hash m) r then dedup_hash r else m :: dedup_hash r
  end.

Definition has_rollup (pms : list pmeta) (m : metadata) : bool :=
  existsb (fun p => eq_meta (pm_meta p) m && pm_has_rollup p) pms.

Definition audit_of (prs : list prollup) (rb : rollup_blob) (m : metadata) : bool :=
  existsb (fun p => (rb_hash (pr_blob p) =? rb_hash rb) && (rb_id (pr_blob p) =? rb_id rb) && pr_audit p) prs.

Record out_block := { ob_meta : metadata; ob_txs : option N }.

Definition pipeline (cf : N -> option commit_info) (next_firm : N)
    (meta_blobs : list (list pmeta)) (rollup_blobs : list (list prollup)) : N * N * N * list out_block :=
  let ms := flat_map (decode_blob pm_wf) meta_blobs in
  let rs_all := flat_map (decode_blob pr_wf) rollup_blobs in
  let rs := filter pr_own rs_all in
  let verified := dedup_hash (verify_all cf next_firm (map pm_meta ms)) in
  let rec := reconstruct (audit_of rs) verified (map pr_blob rs) in
  let outs :=
    flat_map (fun '(m, o) =>
      match o with
      | Some rb =>
          match find (fun p => (rb_hash (pr_blob p) =? rb_hash rb) && (rb_id (pr_blob p) =? rb_id rb) && pr_audit p) rs with
          | Some p => [{| ob_meta := m; ob_txs := Some (pr_txs p) |}]
          | None => []
          end
      | None => if has_rollup ms m then [] else [{| ob_meta := m; ob_txs := None |}]
      end) rec in
  (N.of_nat (length ms), N.of_nat (length rs_all), N.of_nat (length verified), outs).
