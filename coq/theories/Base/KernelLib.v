(** Helpers used by the definitions that tools/rs2v.py generates into Kernels/*.v.
    Hand-written.  Machine integers are [N]; a Rust function [f : (T...) -> R] becomes
    [f : T... -> option R] where [None] means "the Rust code panics (debug build)".
    Generated files depend on Base/ only.

    Word sizes are passed explicitly: [mx] is the largest value of the type
    ([U64_MAX] for u64/usize, [U128_MAX] for u128, ...), [w] its width in bits. *)
From Astria Require Export Base.Bounded.
From Coq Require Export ZArith.

Definition U8_MAX  : N := 255.
Definition U16_MAX : N := 65535.

(** the panic monad *)
Definition bind {A B} (x : option A) (f : A -> option B) : option B :=
  match x with Some a => f a | None => None end.
Notation "'do' x <- a ; b" := (bind a (fun x => b)) (at level 200, x name, a at level 100, b at level 200).
Notation "'do' ' ( x , y ) <- a ; b" := (bind a (fun '(x, y) => b))
  (at level 200, x name, y name, a at level 100, b at level 200).

(** [assert!(b)] *)
Definition assert (b : bool) : option unit := if b then Some tt else None.

(** [!x] on a word whose all-ones value is [mx] *)
Definition lnot (mx x : N) : N := N.lxor x mx.
(** [x << k] for a constant k < w: the high bits are dropped *)
Definition shl (w x k : N) : N := (N.shiftl x k) mod 2 ^ w.
(** [x >> k] for a constant k < w *)
Definition shr (x k : N) : N := N.shiftr x k.

(** [x.next_power_of_two()] in a debug build: panics when the result does not fit *)
Definition next_power_of_two (mx x : N) : option N :=
  let r := if x <=? 1 then 1 else 2 ^ N.log2_up x in
  if r <=? mx then Some r else None.
Definition is_power_of_two (x : N) : bool :=
  negb (x =? 0) && (N.land x (x - 1) =? 0).

(** [a / b], [a % b], [checked_div], [checked_rem]: [None] for b = 0.  For the plain
    operators [None] is the panic, for the checked ones it is the returned value. *)
Definition checked_div (a b : N) : option N := if b =? 0 then None else Some (a / b).
Definition checked_rem (a b : N) : option N := if b =? 0 then None else Some (a mod b).

Definition wrapping_sub (w a b : N) : N := (a + 2 ^ w - b mod 2 ^ w) mod 2 ^ w.
Definition wrapping_mul (w a b : N) : N := (a * b) mod 2 ^ w.
Definition abs_diff (a b : N) : N := if a <? b then b - a else a - b.
(** [x as uN] to a narrower type *)
Definition truncate (w x : N) : N := x mod 2 ^ w.

Definition is_some {A} (o : option A) : bool := match o with Some _ => true | None => false end.
Definition unwrap_or {A} (o : option A) (d : A) : A := match o with Some a => a | None => d end.

(** [Result<T, E>]: the error VALUE is not modelled.  A function returning [Result] becomes
    [option (result T)]: [None] = panic, [Some RErr] = it returned [Err(_)], [Some (ROk v)] =
    it returned [Ok(v)] -- an error return is never confused with a panic. *)
Inductive result (T : Type) := ROk (v : T) | RErr.
Arguments ROk {T} v.
Arguments RErr {T}.
(** [o.ok_or(e)], [o.ok_or_else(|| e)], [o.ok_or_eyre(msg)] *)
Definition ok_or {T} (o : option T) : result T := match o with Some v => ROk v | None => RErr end.
(** [r.unwrap()], [r.expect(msg)] *)
Definition unwrap_res {T} (r : result T) : option T := match r with ROk v => Some v | RErr => None end.
Definition is_ok {T} (r : result T) : bool := match r with ROk _ => true | RErr => false end.
(** the model side usually writes an error-returning function as [option T] *)
Definition res_of_opt {T} (o : option T) : result T := ok_or o.

(** [i64::MAX] as an unsigned number: the largest [tendermint::block::Height] *)
Definition I64_MAX : N := 9223372036854775807.
(** [x.try_into()] / [T::try_from(x)] into a type whose largest value is [mx] (from an unsigned
    type, so there is no lower bound to check) *)
Definition try_into_ranged (mx x : N) : result N := if x <=? mx then ROk x else RErr.
(** [tendermint::block::Height::increment] (tendermint-0.40.4 src/block/height.rs:76, not part
    of the repository, transcribed by hand):
    [Height::try_from(self.0.checked_add(1).expect("height overflow")).unwrap()] *)
Definition height_increment (h : N) : option N :=
  do h1 <- checked_add U64_MAX h 1;
  unwrap_res (try_into_ranged I64_MAX h1).

(** signed integers ([i128]) are [Z]; [mn]/[mx] the smallest/largest value of the type.
    Rust's [/] and [%] truncate towards zero: [Z.quot]/[Z.rem]. *)
Definition I128_MAX : Z := 170141183460469231731687303715884105727%Z.
Definition I128_MIN : Z := (-170141183460469231731687303715884105728)%Z.
Definition i_checked_add (mn mx a b : Z) : option Z :=
  let s := (a + b)%Z in if ((mn <=? s) && (s <=? mx))%Z then Some s else None.
Definition i_checked_sub (mn mx a b : Z) : option Z :=
  let s := (a - b)%Z in if ((mn <=? s) && (s <=? mx))%Z then Some s else None.
(** [None] for a zero divisor and for [MIN / -1] *)
Definition i_checked_div (mn a b : Z) : option Z :=
  if (b =? 0)%Z then None else if ((b =? -1) && (a =? mn))%Z then None else Some (Z.quot a b).
Definition i_checked_rem (mn a b : Z) : option Z :=
  if (b =? 0)%Z then None else if ((b =? -1) && (a =? mn))%Z then None else Some (Z.rem a b).

(** elementary facts used by Kernels/KernelEq.v *)
Lemma bind_Some {A B} (a : A) (f : A -> option B) : bind (Some a) f = f a.
Proof. reflexivity. Qed.
Lemma bind_ret {A} (x : option A) : bind x (fun a => Some a) = x.
Proof. destruct x; reflexivity. Qed.
Lemma saturating_mul_exact mx a b : a * b <= mx -> saturating_mul mx a b = a * b.
Proof. unfold saturating_mul; lia. Qed.
