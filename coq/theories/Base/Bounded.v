(** Machine integers as [N] with explicit bounds.  No proofs that depend on the
    model live here except elementary facts about these operations. *)
From Coq Require Export NArith PeanoNat Arith List Bool Lia.
Export ListNotations.
Open Scope N_scope.

Definition U32_MAX  : N := 4294967295.
Definition U64_MAX  : N := 18446744073709551615.
Definition U128_MAX : N := 340282366920938463463374607431768211455.

Definition checked_add (mx a b : N) : option N :=
  if a + b <=? mx then Some (a + b) else None.
Definition checked_sub (a b : N) : option N :=
  if b <=? a then Some (a - b) else None.
Definition checked_mul (mx a b : N) : option N :=
  if a * b <=? mx then Some (a * b) else None.
Definition saturating_add (mx a b : N) : N := N.min mx (a + b).
Definition saturating_mul (mx a b : N) : N := N.min mx (a * b).
Definition saturating_sub (a b : N) : N := a - b.   (* N subtraction truncates at 0 *)
Definition wrapping_add (w a b : N) : N := (a + b) mod 2 ^ w.

Fixpoint sumN (l : list N) : N :=
  match l with [] => 0 | x :: r => x + sumN r end.

Lemma sumN_app l1 l2 : sumN (l1 ++ l2) = sumN l1 + sumN l2.
Proof. induction l1 as [|x l1 IH]; cbn [sumN app]; lia. Qed.

Lemma saturating_add_exact mx a b : a + b <= mx -> saturating_add mx a b = a + b.
Proof. unfold saturating_add; lia. Qed.

Lemma checked_add_Some mx a b r : checked_add mx a b = Some r <-> (r = a + b /\ a + b <= mx).
Proof.
  unfold checked_add. destruct (N.leb_spec (a + b) mx); split; intros H0.
  - inversion H0; subst; split; [reflexivity|assumption].
  - destruct H0 as [-> _]; reflexivity.
  - discriminate.
  - destruct H0 as [_ H1]; lia.
Qed.

Lemma checked_sub_Some a b r : checked_sub a b = Some r <-> (r = a - b /\ b <= a).
Proof.
  unfold checked_sub. destruct (N.leb_spec b a); split; intros H0.
  - inversion H0; subst; split; [reflexivity|assumption].
  - destruct H0 as [-> _]; reflexivity.
  - discriminate.
  - destruct H0 as [_ H1]; lia.
Qed.
