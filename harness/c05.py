"""C05 -- deterministic, call-path independent block execution: model (coq/theories/Abci) vs
crates/astria-sequencer (app/mod.rs prepare_proposal / process_proposal / finalize_block / commit,
app/execution_state.rs), driven through the hook app/verif_c05.rs.

One case = N independent replicas of the sequencer App (own TempStorage each) with the same
genesis, then a number of heights.  At every height one block D<h> is decided; every replica gets
it through its own legal ABCI call path (proposer, validator, other proposals first, own proposal
not decided, finalize only, restart at various points, ...).  At half of the heights there is a
NEAR TWIN T of D: the same txs, but ONE other request field the application reads (misbehavior
naming a current validator, block time, proposer address, next validators hash, last-commit
round / votes, block hash); one of the two is decided after replicas have prepared / processed the
other one, so a cached execution may only be reused when every field agrees.  The monitor
compares, on the implementation's observations alone, all FinalizeBlock responses and post-commit
dumps pairwise."""
import os
import re
from collections import Counter

from common import CaseCheck, VERIF, run_harness, run_model, split_cases

PAIRS = ["BTC/USD", "ETH/USD", "SOL/USD", "TIA/USD"]        # alphabetical = numbering of the model
PAIRNUM = {p: i + 1 for i, p in enumerate(PAIRS)}
GROUPS = {"UnbundleableSudo": 1, "BundleableSudo": 2, "UnbundleableGeneral": 3, "BundleableGeneral": 4}

SHARDS = int(os.environ.get("VERIF_C05_SHARDS", str(max(2, min(10, (os.cpu_count() or 4) * 2 // 3)))))

FINDING_ID = "F7"
FINDING_TEXT = ("F7 finalize_block applies the block's oracle prices before looking at skip_execution: on the cached "
                "path (block already executed in process_proposal) the prices are written AFTER the block's "
                "transactions, on the fresh path BEFORE them; a block carrying a price for a currency pair that one of "
                "its own transactions removes (CurrencyPairsChange::Removal) therefore fails FinalizeBlock with "
                "'currency pair state not found' on every proposer/validator and succeeds on every syncing/restarted "
                "node (app/mod.rs finalize_block + oracle/state_ext.rs put_price_for_currency_pair)")

FINDING2_ID = "F15"
FINDING2_TEXT = ("F15 construction checks (CheckedTransaction::new, incl. the 'mutable' checks such as 'signer is the sudo "
                 "address') are made on the state a block starts from by process_proposal and by a fresh finalize_block, "
                 "never by prepare_proposal (the mempool's txs were constructed when they were admitted). A tx that went "
                 "stale in the proposer's mempool and is valid again only after an earlier tx of the same block is "
                 "included by the proposer, accepted by its own process_proposal (cached, execution skipped) and "
                 "finalized, while every validator rejects the proposal and every syncing / restarted node fails "
                 "FinalizeBlock ('failed to construct checked transaction'): with a proposer holding > 2/3 of the power "
                 "(or a single validator) the chain commits a block nobody else can execute")

# ------------------------------------------------------------------------------------------ paths
# every path is a list of steps; D = the decided block, X = another (possibly invalid) proposal of
# the height (only if one exists), Y = an own proposal of that replica which is not decided
PATHS = {
    "V": ["proc D", "fin D"],
    "F": ["fin D"],
    "RF": ["restart", "fin D"],
    "VR": ["proc D", "restart", "fin D"],
    "VV": ["proc D", "proc D", "fin D"],
    "O": ["proc X", "proc D", "fin D"],
    "OX": ["proc X", "fin D"],
    "OO": ["proc X", "proc X", "proc D", "fin D"],
    "DXD": ["proc D", "proc X", "fin D"],
    "DXDD": ["proc D", "proc X", "proc D", "fin D"],
    "R2": ["prep Y", "proc D", "fin D"],
    "R2P": ["prep Y", "proc Y", "proc D", "fin D"],
    "PF": ["prep Y", "fin D"],
    "PPF": ["prep Y", "proc Y", "fin D"],
    "YRV": ["prep Y", "restart", "proc D", "fin D"],
    "XY": ["proc X", "prep Y", "proc Y", "proc D", "fin D"],
    "FRF": ["fin D", "restart", "fin D"],                 # crash between FinalizeBlock and Commit
    "VFRF": ["proc D", "fin D", "restart", "fin D"],
}
NEED_X = {k for k, v in PATHS.items() if any(s.endswith(" X") for s in v)}
PROPOSER_PATHS = {
    "P": ["prep D", "proc D", "fin D"],
    "P0": ["prep D", "fin D"],
    "PY": ["prep Y", "prep D", "proc D", "fin D"],
    "PYP": ["prep Y", "proc Y", "prep D", "proc D", "fin D"],
    "PR": ["prep D", "proc D", "restart", "fin D"],
    "PXD": ["prep D", "proc D", "proc X", "proc D", "fin D"],
}


# ---- near twins: at such a height there is, next to D, a block T = D except for ONE request field
# (misbehavior, time, proposer, next validators hash, last-commit round, last-commit votes, block
# hash).  One of the two is decided (W), the other (O) is what replicas have cached before.
# Steps: D / T = the two blocks by name, W / O = decided / other, "prep O" = an own PrepareProposal
# with exactly O's request fields (the response is compared with O: same mempool, same state).
NT_PROPOSER_PATHS = {            # the replica which prepared D (first step, emitted before T is defined)
    "T": {                       # ... and the near twin T is decided
        "nP1": ["prep D", "proc T", "fin T"],
        "nP2": ["prep D", "fin T"],
        "nP3": ["prep D", "proc D", "proc T", "fin T"],
        "nP4": ["prep D", "proc D", "fin T"],
        "nP5": ["prep D", "proc T", "restart", "fin T"],
        "nP6": ["prep D", "proc T", "proc D", "proc T", "fin T"],
    },
    "D": {                       # ... and D itself is decided after the node saw T
        "nQ1": ["prep D", "proc T", "proc D", "fin D"],
        "nQ2": ["prep D", "proc T", "fin D"],
        "nQ3": ["prep D", "proc D", "proc T", "fin D"],
        "nQ4": ["prep D", "proc D", "proc T", "proc D", "fin D"],
        "nQ5": ["prep D", "proc D", "fin D"],
    },
}
NT_PATHS = {
    "nOV": ["proc O", "proc W", "fin W"],
    "nOF": ["proc O", "fin W"],
    "nOOV": ["proc O", "proc O", "proc W", "fin W"],
    "nWOW": ["proc W", "proc O", "proc W", "fin W"],
    "nWOF": ["proc W", "proc O", "fin W"],
    "nYOV": ["prep Y", "proc O", "proc W", "fin W"],
    "nORV": ["proc O", "restart", "proc W", "fin W"],
    "nOFRF": ["proc O", "fin W", "restart", "fin W"],
    "nV": ["proc W", "fin W"],
    "nF": ["fin W"],
    "nRF": ["restart", "fin W"],
}
NT_PREP_PATHS = {                # own proposal with O's request fields first (not for lc / round twins)
    "nTV": ["prep O", "proc W", "fin W"],
    "nTF": ["prep O", "fin W"],
    "nTTV": ["prep O", "proc O", "proc W", "fin W"],
    "nTTF": ["prep O", "proc O", "fin W"],
    "nTWO": ["prep O", "proc W", "proc O", "fin W"],
}
NT_FIELDS = ["misb"] * 4 + ["time"] * 2 + ["prop", "nvh", "round", "votes", "salt"]
FLAGNUM = {"a": 1, "c": 2, "n": 3}             # BlockIdFlag


def kvs(tokens):
    return dict(t.split("=", 1) for t in tokens if "=" in t)


# ------------------------------------------------------------------------------------------ generator

class Gen:
    """Builds one case.  Keeps a small prediction of the committed state (nonces, pairs) only to
    make most transactions valid; nothing the check concludes depends on the prediction."""

    def __init__(self, rng, idx, tier):
        self.rng = rng
        self.idx = idx
        self.lines = []
        self.txn = 0
        self.ecn = 0
        self.nonces = Counter()
        self.pairs = set()
        self.evid = 0
        self.alive = {0, 1, 2, 3}          # genesis validators not yet removed by decided evidence
        self.ecspecs = {}

    def emit(self, s):
        self.lines.append(s)

    def new_tx(self, signer, action, kind, nonce=None):
        """kind: 0 executes, 1 fails when executed, 2 cannot even be constructed"""
        self.txn += 1
        name = "t%dx%d" % (self.idx, self.txn)      # unique over the whole run (tx ids survive `case`)
        if nonce is None:
            nonce = self.nonces[signer]
        self.emit("#kind %s %d" % (name, kind))
        self.emit("tx %s a%d %d %s" % (name, signer, nonce, action))
        return {"name": name, "signer": signer, "nonce": nonce, "kind": kind, "action": action}

    # ---- transactions
    def ledger_tx(self, bridge):
        r = self.rng
        c = r.random()
        payer = r.choice([1, 2, 3, 5])
        if c < 0.30:
            return self.new_tx(payer, "transfer to=a%d amt=%d asset=s0 fee=s0" % (r.randrange(0, 8), r.randint(1, 10 ** 6)), 0)
        if c < 0.45:
            ln = r.choice([0, 1, 32, 200, 200])
            return self.new_tx(payer, "rollup id=r%d len=%d fee=s0" % (r.randint(1, 4), ln), 0 if ln else 2)   # empty data: rejected at construction
        if c < 0.55 and bridge:
            return self.new_tx(payer, "lock to=a4 amt=%d asset=s0 fee=s0 dest=d%d" % (r.randint(1, 1000), r.randint(0, 9)), 0)
        if c < 0.62 and bridge:
            self.evid += 1
            return self.new_tx(4, "unlock to=a%d amt=%d fee=s0 bridge=a4 blk=%d evid=ev%d_%d memo=-" % (
                r.randrange(0, 8), r.randint(1, 50), r.randint(1, 9), self.idx, self.evid), 0)
        if c < 0.70:
            return self.new_tx(0, "feechange kind=%s base=%d mult=%d" % (
                r.choice(["transfer", "rollup", "lock", "pairs", "valupdate"]), r.randint(0, 30), r.randint(0, 3)), 0)
        if c < 0.74:
            return self.new_tx(0, "sudochange to=a0", 0)
        if c < 0.77:
            return self.new_tx(0, "ibcsudo to=a1", 0)
        if c < 0.84:
            return self.new_tx(0, "valupdate key=a%d power=%d" % (r.choice([0, 1, 2, 3, 6, 7]), r.randint(1, 25)), 0)
        if c < 0.90:
            return self.new_tx(payer, "transfer to=a2 amt=%d asset=s0 fee=s0" % (10 ** 26), 1)
        if c < 0.94:
            return self.new_tx(5, "sudochange to=a5", 2)
        if c < 0.97:
            return self.new_tx(payer, "lock to=a2 amt=5 asset=s0 fee=s0 dest=x", 2)
        # a nonce from the future: parked in the mempool / fails in a hand-built block
        return self.new_tx(payer, "transfer to=a1 amt=1 asset=s0 fee=s0", 0, nonce=self.nonces[payer] + r.randint(2, 4))

    def pair_tx(self, priced):
        """a CurrencyPairsChange by the sudo account; biased towards the priced pairs"""
        r = self.rng
        present = sorted(self.pairs)
        absent = [p for p in PAIRS if p not in self.pairs]
        c = r.random()
        if c < 0.55 and present:
            pool = [p for p in present if p in priced] or present
            ps = [r.choice(pool)] if r.random() < 0.7 else r.sample(present, min(len(present), 2))
            return self.new_tx(0, "pairs remove=%s" % ",".join(ps), 0), ("-", ps)
        if c < 0.8 and absent:
            ps = r.sample(absent, r.randint(1, min(2, len(absent))))
            return self.new_tx(0, "pairs add=%s" % ",".join(ps), 0), ("+", ps)
        if c < 0.9 and absent:
            return self.new_tx(0, "pairs remove=%s" % absent[0], 0), None          # fails: not present
        if present:
            return self.new_tx(0, "pairs add=%s" % present[0], 0), None            # fails: already there
        return self.new_tx(0, "pairs add=%s" % absent[0], 0), ("+", [absent[0]])

    def predict(self, txs):
        """the txs an honest proposer would include (mempool order: group, nonce distance, arrival)"""
        nonces = Counter(self.nonces)
        pairs = set(self.pairs)
        pend = []
        by_signer = {}
        for i, t in enumerate(txs):
            if t["kind"] == 2 or t["nonce"] < self.nonces[t["signer"]]:
                continue
            by_signer.setdefault(t["signer"], []).append((t["nonce"], i, t))
        for s, l in by_signer.items():
            expect = self.nonces[s]
            for n, i, t in sorted(l, key=lambda x: (x[0], x[1])):
                if n == expect:
                    pend.append((i, t))
                    expect += 1
        out = []
        for i, t in pend:
            out.append((-t["group"], t["nonce"] - self.nonces[t["signer"]], i, t))
        out.sort(key=lambda x: x[:3])
        inc = []
        for _, _, _, t in out:
            if nonces[t["signer"]] != t["nonce"] or t["kind"] != 0:
                continue
            pc = t.get("pairs")
            if "pairs " in t["action"]:
                if pc is None:
                    continue
                if pc[0] == "-" and not all(p in pairs for p in pc[1]):
                    continue
                if pc[0] == "+" and any(p in pairs for p in pc[1]):
                    continue
                pairs = pairs - set(pc[1]) if pc[0] == "-" else pairs | set(pc[1])
            nonces[t["signer"]] += 1
            inc.append(t)
        return inc, nonces, pairs

    @staticmethod
    def group_of(action):
        a = action.split()[0]
        if a in ("sudochange", "ibcsudo"):
            return 1
        if a in ("feechange", "valupdate", "pairs", "feeasset", "relayer"):
            return 2
        if a in ("initbridge", "bsudo"):
            return 3
        return 4

    # ---- one case
    def build(self, style):
        r = self.rng
        ninst = r.choice([4, 4, 5, 5, 6])
        upgrade = style == "upgrade"
        self.emit("case %d style=%s" % (self.idx, style))
        self.emit("inst %d" % ninst)
        if upgrade:
            aspen = r.choice([2, 3])
            blackburn = aspen + r.choice([1, 2])
            self.emit("genesis vals=a0:10,a1:10,a2:10,a3:10 aspen=%d blackburn=%d" % (aspen, blackburn))
            start = 1
            self.emit("advance %d" % (start - 1) if start > 1 else "#")
            height = start
            nheights = blackburn + 1
            ve_from = 10 ** 9
        else:
            aspen = 1
            self.emit("genesis vals=a0:10,a1:10,a2:10,a3:10")
            pre = r.choice([2, 2, 3, 4])
            self.emit("advance %d" % pre)
            height = pre + 1
            nheights = r.choice([1, 2, 2, 3])
            ve_from = 3
            self.pairs = {"BTC/USD", "ETH/USD"}
            if r.random() < 0.4:
                self.emit("oraclepair SOL/USD 6")
                self.pairs.add("SOL/USD")
        bridge = False
        if not upgrade and r.random() < 0.6:
            self.emit("#kind t%dx9000 0" % self.idx)
            self.emit("tx t%dx9000 a4 0 initbridge rollup=r1 asset=s0 fee=s0 sudo=a4 withdrawer=a4" % self.idx)
            self.emit("block t%dx9000" % self.idx)
            self.nonces[4] = 1
            height += 1
            bridge = True
        self.emit("idump 0")
        ids = {"BTC/USD": 0, "ETH/USD": 1, "SOL/USD": 2}
        for hh in range(nheights):
            h = height + hh
            stop = self.height(h, ninst, style, bridge, h >= ve_from, ids)
            if stop:
                break
        return self.lines

    def make_ec(self, priced_ids, style):
        """an extended commit of the four genesis validators"""
        r = self.rng
        self.ecn += 1
        name = "e%d" % self.ecn
        rnd = r.choice([0, 0, 0, 1, 2])
        nvote = r.choice([4, 4, 3, 3, 3, 2])
        voters = r.sample(range(4), nvote)
        votes = []
        sigmode = r.random()
        for k in range(4):
            if k in voters:
                if priced_ids:
                    items = ",".join("%d=%d" % (i, r.choice([1, 7, 10 ** 6, 5 * 10 ** 9]) + r.randint(0, 50))
                                     for i in sorted(priced_ids) if r.random() < 0.9)
                else:
                    items = ""
                sig = "ok"
                if sigmode < 0.06 and k == voters[0]:
                    sig = r.choice(["bad", "none"])
                votes.append("a%d:c:%s%s" % (k, items or "-", "" if sig == "ok" else ":" + sig))
            else:
                votes.append("a%d:%s:-" % (k, r.choice(["a", "n"])))
        if r.random() < 0.05:
            votes = []
        self.emit("ec %s round=%d votes=%s" % (name, rnd, "/".join(votes) or "-"))
        self.ecspecs[name] = (rnd, votes)
        return name, rnd

    @staticmethod
    def merge_args(args, override):
        """the argument string `args` of a prep with the key of `override` (k=v) replaced / added
        (before txs=, which stays last)"""
        key = override.split("=", 1)[0]
        toks = [t for t in args.split() if not t.startswith(key + "=")]
        toks.insert(len(toks) - 1, override)
        return " " + " ".join(toks)

    def near_twin_override(self, h, ecname, ecround, dprop):
        """(field, override arguments of `hand T like=D`, usable for an own PrepareProposal)"""
        r = self.rng
        f = r.choice(NT_FIELDS)
        if f == "votes" and not (ecname and self.ecspecs[ecname][1]):
            f = "round"
        if f == "misb":
            pool = sorted(self.alive) if len(self.alive) > 2 else []
            if pool and r.random() < 0.8:
                who = r.sample(pool, 2 if len(pool) > 3 and r.random() < 0.15 else 1)
            else:
                who = [r.choice([5, 6, 7])]            # evidence against somebody who is no validator (any more)
            return f, "misb=%s" % ",".join("a%d" % k for k in who), True
        if f == "time":
            return f, "tplus=%d" % r.choice([1, 2, 500, 999, 1000, 86400000]), True
        if f == "prop":
            return f, "prop=a%d" % r.choice([k for k in range(4) if k != dprop]), True
        if f == "nvh":
            return f, "nvh=%d" % r.randint(1, 9), True
        if f == "salt":
            return f, "salt=%d" % r.randint(1, 99), True
        if f == "round":
            return f, "round=%d" % (ecround + r.choice([1, 1, 2])), False
        rnd, votes = self.ecspecs[ecname]
        votes = list(votes)
        k = r.randrange(len(votes))
        acct, flag = votes[k].split(":")[:2]
        votes[k] = "%s:%s:-" % (acct, {"c": "a", "n": "a", "a": "n"}[flag])
        self.ecn += 1
        name = "e%db" % self.ecn
        self.emit("ec %s round=%d votes=%s" % (name, rnd, "/".join(votes)))
        self.ecspecs[name] = (rnd, votes)
        return "votes", "lc=%s" % name, False

    def height(self, h, ninst, style, bridge, ve, ids):
        r = self.rng
        self.emit("#height %d" % h)
        priced = set()
        ecname, ecround = None, 0
        if ve or r.random() < 0.3:
            pids = set()
            if ve and style != "upgrade" and r.random() < 0.85:
                known = [p for p in sorted(self.pairs)]
                pick = [p for p in known if r.random() < 0.8]
                priced = set(pick)
                pids = {ids[p] for p in pick if p in ids}
                if r.random() < 0.1:
                    pids.add(9)                       # an id no pair has
            ecname, ecround = self.make_ec(pids, style)
        # the decided block's mempool
        txs = []
        ntx = r.choice([0, 1, 2, 3, 3, 4, 6])
        for _ in range(ntx):
            if style == "oracle" and r.random() < 0.45:
                t, pc = self.pair_tx(priced)
                t["pairs"] = pc
                txs.append(t)
            else:
                txs.append(self.ledger_tx(bridge))
        for t in txs:
            t["group"] = self.group_of(t["action"])
            # follow-up nonce for a second tx of the same signer
            self.nonces[t["signer"]] = max(self.nonces[t["signer"]], 0)
        # renumber nonces so that several txs of one signer form a sequence (most of the time)
        seen = Counter()
        for t in txs:
            if t["nonce"] == self.nonces[t["signer"]] and seen[t["signer"]] and r.random() < 0.85:
                t["nonce"] += seen[t["signer"]]
                self.lines = [l if not l.startswith("tx %s " % t["name"]) else
                              "tx %s a%d %d %s" % (t["name"], t["signer"], t["nonce"], t["action"]) for l in self.lines]
            if t["nonce"] >= self.nonces[t["signer"]]:
                seen[t["signer"]] += 1
        # two txs with identical bytes (same signer, nonce, action) would be one tx under two names
        uniq, seen_bytes = [], set()
        for t in txs:
            key = (t["signer"], t["nonce"], t["action"])
            if key in seen_bytes:
                self.lines = [l for l in self.lines if not l.startswith("tx %s " % t["name"]) and
                              not l.startswith("#kind %s " % t["name"])]
                continue
            seen_bytes.add(key)
            uniq.append(t)
        txs = uniq
        inc, nonces_after, pairs_after = self.predict(txs)
        touched = set()
        for t in inc:
            if t.get("pairs"):
                touched |= set(t["pairs"][1])
        potential_f7 = bool(priced & touched)
        # other proposals of the height
        D = "D%d" % h
        X = None
        scratch = ninst - 1
        common = ""
        if ecname:
            common += " ec=%s" % ecname
        byz = style != "upgrade" and r.random() < 0.06
        allnames = ",".join(t["name"] for t in txs) or "-"
        if r.random() < 0.7:
            X = "X%d" % h
            sub = [t["name"] for t in txs if r.random() < 0.6]
            r.shuffle(sub)
            bad = r.choice(["", "", "", " bad=commit", " bad=item"])
            mode = " ecmode=raw" if ecname and r.random() < 0.3 else ""
            self.emit("hand %d %s%s%s prop=a1 round=%d tplus=%d%s txs=%s" % (
                scratch, X, common, mode, ecround, r.randint(1, 9), bad, ",".join(sub) or "-"))
        proposer = r.randrange(0, ninst - 1)
        dprop = r.choice([0, 2, 3])
        pargs = "%s prop=a%d round=%d txs=%s" % (common, dprop, ecround, allnames)
        ysub = [t["name"] for t in txs if r.random() < 0.5]
        yargs = "%s prop=a3 round=%d tplus=%d txs=%s" % (common, ecround, 11, ",".join(ysub) or "-")
        if byz:
            # a block no honest proposer would build is decided (needs > 2/3 byzantine power)
            self.emit("hand %d %s%s prop=a2 round=%d txs=%s" % (scratch, D, common, ecround, allnames))
        # a near twin T of D: equal except for one request field; one of the two is decided
        nt = None
        if r.random() < 0.5:
            f, ov, preparable = self.near_twin_override(h, ecname, ecround, 2 if byz else dprop)
            nt = {"field": f, "ov": ov, "T": "T%d" % h, "decided": r.choice(["T", "T", "T", "D", "D"]),
                  "prep": preparable and not byz}
            if byz:
                self.emit("hand %d %s like=%s %s" % (scratch, nt["T"], D, ov))
        W = nt["T"] if nt and nt["decided"] == "T" else D
        O = (D if W != D else nt["T"]) if nt else None
        plan = []
        for i in range(ninst):
            if i == scratch:
                plan.append((i, "F", ["fin W"]))
            elif i == proposer and not byz:
                if nt:
                    # the chain that matters most: prepared D is cached, the twin arrives through
                    # ProcessProposal + FinalizeBlock
                    table = NT_PROPOSER_PATHS[nt["decided"]]
                    k = "nP1" if nt["decided"] == "T" and r.random() < 0.5 else r.choice(sorted(table))
                    plan.append((i, k, table[k]))
                else:
                    k = r.choice([k for k in PROPOSER_PATHS if X or "X" not in "".join(PROPOSER_PATHS[k])])
                    plan.append((i, k, PROPOSER_PATHS[k]))
            elif nt and r.random() < 0.75:
                table = dict(NT_PATHS)
                if nt["prep"]:
                    table.update(NT_PREP_PATHS)
                k = r.choice(sorted(table))
                plan.append((i, k, table[k]))
            else:
                k = r.choice([k for k in PATHS if X or k not in NEED_X])
                plan.append((i, k, [x.replace(" D", " W") for x in PATHS[k]]))
        if nt and nt["prep"] and r.random() < 0.8:
            # ... and the same chain from the other side: an own proposal with O's fields is cached,
            # W is processed and finalized
            q = r.choice([i for i in range(ninst - 1) if i != proposer])
            plan[q] = (q, "nTV", NT_PREP_PATHS["nTV"])
        # a second replica preparing the very same proposal must produce the very same block
        twin = None
        if not byz and not nt and ninst >= 5 and r.random() < 0.3:
            twin = r.choice([i for i in range(ninst - 1) if i != proposer])
            plan[twin] = (twin, "P", PROPOSER_PATHS["P"])
        self.emit("#paths %s" % " ".join("%d:%s" % (i, k) for i, k, _ in plan))
        if nt:
            self.emit("#nt %d field=%s decided=%s %s" % (h, nt["field"], nt["decided"], nt["ov"]))
        order = [proposer] + [i for i in range(ninst) if i != proposer]
        twin_defined = byz
        for i in order:
            _, k, steps = plan[i]
            for s in steps:
                op, _, arg = s.partition(" ")
                blk = {"D": D, "X": X, "W": W, "O": O, "T": nt["T"] if nt else None,
                       "Y": "Y%d_%d" % (h, i)}.get(arg)
                if op == "prep":
                    if arg == "D" or (arg == "O" and O == D):
                        self.emit("prep %d %s%s" % (i, D, pargs))
                    elif arg == "O":
                        self.emit("prep %d %s%s %s" % (i, O, self.merge_args(pargs, nt["ov"]), ""))
                        self.lines[-1] = self.lines[-1].rstrip()
                    else:
                        self.emit("prep %d %s%s" % (i, blk, yargs))
                    if nt and not twin_defined and arg == "D":
                        self.emit("hand %d %s like=%s %s" % (scratch, nt["T"], D, nt["ov"]))
                        twin_defined = True
                elif op == "proc":
                    self.emit("proc %d %s" % (i, blk))
                elif op == "fin":
                    self.emit("fin %d %s" % (i, blk))
                else:
                    self.emit("restart %d" % i)
            self.emit("commit %d" % i)
        if nt and nt["decided"] == "T" and nt["field"] == "misb":
            self.alive -= {int(x[1:]) for x in nt["ov"].split("=", 1)[1].split(",")}
        for i in range(ninst):
            self.emit("idump %d" % i)
        if not byz:
            self.nonces = nonces_after
            self.pairs = pairs_after
            nid = max(list(ids.values()) + [1]) + 1
            for t in inc:
                if t.get("pairs") and t["pairs"][0] == "+":
                    for p in t["pairs"][1]:
                        ids[p] = nid
                        nid += 1
        return potential_f7 or byz


# ------------------------------------------------------------------------------------------ parsing

def split_heights(case):
    """case lines grouped by '#height h' markers: [(h, [lines])]; the part before the first marker
    has h = None"""
    out = [(None, [])]
    for l in case[1:]:
        if l.startswith("#height "):
            out.append((int(l.split()[1]), []))
        else:
            out[-1][1].append(l)
    return out


def impl_by_height(case, il):
    """aligns the implementation's lines with the '#height' segments of the case (comment lines
    produce no output; every other line produces >= 1 line; idump and dump produce blocks)."""
    segs = []
    pos = 1
    lines = il

    def take_one(script_line):
        nonlocal pos
        t = script_line.split()
        got = []
        if not t or t[0].startswith("#") or pos >= len(lines):
            return got
        got.append(lines[pos])
        pos += 1
        if t[0] in ("idump", "dump") and got[0].endswith(" begin"):
            end = ("idump ", " end") if t[0] == "idump" else ("dump end", "dump end")
            while pos < len(lines):
                got.append(lines[pos])
                pos += 1
                if got[-1].startswith(end[0]) and got[-1].endswith(end[1]):
                    break
        elif t[0] == "block":
            while not got[-1].startswith("block ") and pos < len(lines):
                got.append(lines[pos])
                pos += 1
        while pos < len(lines) and lines[pos].startswith("replica-diverge"):
            got.append(lines[pos])
            pos += 1
        return got

    for h, sl in split_heights(case):
        seg = []
        for s in sl:
            seg.append((s, take_one(s)))
        segs.append((h, seg))
    return segs


def fin_fields(line):
    t = line.split()
    if len(t) >= 4 and t[3] == "ok":
        return ("ok",) + tuple(sorted((k, v) for k, v in kvs(t[4:]).items() if k != "h"))
    return (t[3] if len(t) > 3 else "?",)


# ------------------------------------------------------------------------------------------ the check

class C05(CaseCheck):
    pid = "C05"
    rule = ("seeded cases of 4-7 independent App replicas (own TempStorage, own hash-map seeds) on one genesis "
            "(4 validators); per case 1-3 heights (upgrade cases: every height from 1 across the Aspen and Blackburn "
            "activation heights); per height a decided block built by an honest PrepareProposal on one replica from a "
            "mempool of 0-6 txs (transfers, rollup data, bridge lock/unlock, fee changes, sudo / ibc-sudo changes, "
            "validator updates, CurrencyPairsChange add/remove, txs failing at execution, txs failing construction, "
            "nonce gaps), optionally another hand-built proposal X (subset / other order / corrupted commitment / "
            "missing data item / unvalidated extended commit) and per-replica own proposals Y; every replica receives "
            "the decided block through a randomly chosen legal call path (P P0 PY PYP PR PXD V F RF VR VV O OX OO DXD "
            "DXDD R2 R2P PF PPF YRV XY FRF VFRF); at 50% of the heights a near twin T of D (= D except for one of: "
            "misbehavior evidence against 1-2 current validators or a non-validator, block time +1ms..+1d, proposer "
            "address, next_validators_hash, last-commit round, one last-commit vote flag, block hash only) is defined "
            "(`hand T like=D <field>`), T or D is decided (50/50) and the replicas reach the decided block W from the "
            "other one O through the near-twin paths (the preparer of D: nP1-nP6 prepare D [process D] then process / "
            "finalize T, nQ1-nQ5 prepare D, process T, then D; others: nOV nOF nOOV nWOW nWOF nYOV nORV nOFRF nV nF nRF, "
            "and own PrepareProposal with O's fields first: nTV nTF nTTV nTTF nTWO); post-Aspen heights >= 3 carry a signed extended commit (3-4 of 4 validators, "
            "rounds 0-2, prices for 0-3 of the stored pairs incl. an unknown id, occasionally a forged or missing "
            "signature or an empty commit); 6% of the decided blocks are hand-built (byzantine majority); non-trivial "
            "= at least three replicas finalize a decided block that has a user tx or an oracle price; distinct = "
            "distinct script text")
    assumptions = [
        "block execution (ledger part) is an abstract deterministic function in the theorems; the model driver "
        "instantiates it with nonces + the log of executed tx ids, tx outcomes other than nonce / currency-pair "
        "checks are inputs (generator's #kind annotations), as are the tx group and the mempool's builder-queue order "
        "(printed by the hook) and the validity of the extended commit (ecok, C15's subject)",
        "cnidarium StateDelta / Snapshot / ephemeral object store are modelled as functional state copies",
        "CometBFT's block hash determines the block (hash_consistent); the hook derives the hash from height, time, "
        "proposer, last commit, data, misbehavior, next_validators_hash and a salt (standing for what CometBFT hashes "
        "but never shows to the application); two blocks equal in everything the application sees may still have "
        "different hashes (near twin `salt`)",
        "evidence is always a DuplicateVote at the previous height with fixed power / total power; only the named "
        "validator varies (the application reads nothing else of it); the validator set of the model's concrete "
        "ledger follows ValidatorUpdate actions post-Aspen only (upgrade cases do not compare validator lines)",
        "a proposer's mempool holds only transactions whose construction checks pass on the state the block starts "
        "from (mempool_fresh); transactions that went stale in the mempool are not generated (C06 / C13 territory)",
        "block size limits of PrepareProposal are not modelled (the generated mempools stay far below them)",
        "pre_execute_transactions / end_block do not touch the oracle store in the model (true except for the Aspen "
        "activation block, which carries no prices); upgrade cases compare call outcomes and state partitions only",
        "prices are non-negative in the generated extended commits (i128 medians are C15's subject)",
        "events of FinalizeBlock are not compared (not part of the property; CometBFT hashes code, data, gas only)",
    ]
    open_statements = (
        "stmt_path_independent_full (call-path independence for ALL blocks) is false of the code: refuted by "
        "C05_path_independent_refuted (finding F7, confirmed by replay on the real App); proved instead: "
        "C05_path_independent for every block that carries no oracle price for a currency pair touched by one of its "
        "own transactions",
        "call-path independence without the mempool hypothesis of `legal` (mempool_fresh) is false of the code as well: "
        "C05_stale_mempool_refuted (finding F15, confirmed by replay: corpus case `stale`); the generated stream keeps "
        "mempools fresh, the stale case runs from the corpus with the monitor only (no model)",
    )
    extra_tb = ("sequencer harness: crates/astria-sequencer/src/app/verif_c05.rs on top of app/verif.rs (real App, real "
                "Mempool, TempStorage per replica, real ed25519 vote-extension signatures, real prost encoding)",)

    # -- generation -----------------------------------------------------------------------------
    def gen(self, rng, tier):
        n = 24 if tier == "quick" else 300
        cases = []
        for i in range(n):
            style = rng.choice(["oracle"] * 5 + ["ledger"] * 2 + ["upgrade"] * 3)
            cases.append(Gen(rng, i, tier).build(style))
        return cases

    # -- execution ------------------------------------------------------------------------------
    def impl(self, cases):
        """every replica costs a TempStorage (rocksdb) + genesis, ~1 s of CPU: shard the cases over
        several harness processes"""
        from concurrent.futures import ThreadPoolExecutor
        from common import cargo_build
        cargo_build()
        k = max(1, min(SHARDS, len(cases)))
        shards = [cases[i::k] for i in range(k)]

        def one(args):
            n, sh = args
            text = "\n".join("\n".join(c) for c in sh) + "\n"
            return split_cases(run_harness("astria-sequencer", "app::verif_c05::drive", text, "c05s%d" % n, timeout=3400))
        with ThreadPoolExecutor(max_workers=k) as ex:
            outs = list(ex.map(one, enumerate(shards)))
        res = [None] * len(cases)
        for n, (sh, o) in enumerate(zip(shards, outs)):
            if len(o) != len(sh):
                from common import TieBroken
                raise TieBroken("harness shard %d returned %d cases for %d" % (n, len(o), len(sh)))
            for j, il in enumerate(o):
                res[n + j * k] = il
        return res

    # -- abstraction for the model ----------------------------------------------------------------
    @staticmethod
    def abstract(case, il):
        """the model's script: initial oracle store / nonces from the first idump, tx table from the
        case + the implementation's `tx` lines (group), prep queues / ecok / ve from the hook"""
        hdr = kvs(case[0].split()[2:])
        segs = impl_by_height(case, il)
        out = [case[0]]
        ninst = 1
        txnum = {}
        kinds = {}
        txdef = {}
        blocknum = {}
        ecs = {}
        ecfull = {}          # ec name -> (round, [(validator, flag number)])
        fields = {}          # block name -> request fields given to the model
        inited = False
        height = None
        for h, seg in segs:
            for s, got in seg:
                t = s.split()
                if not t:
                    continue
                if t[0] == "#kind":
                    kinds[t[1]] = int(t[2])
                    continue
                if t[0].startswith("#"):
                    continue
                if any("parseerr" in g.split()[-1:] or g.endswith(" panic") for g in got[:1]):
                    return None
                if t[0] == "mp" or "keep=1" in t:
                    return None            # stale mempools are outside `legal` (mempool_fresh)
                if t[0] == "inst":
                    ninst = int(t[1])
                    out.append("inst %d" % ninst)
                elif t[0] == "tx":
                    g = got[0].split()
                    if "builderr" in g:
                        return None
                    name = t[1]
                    txnum[name] = int(name.split("x")[-1])
                    group = GROUPS[kvs(g)["group"]]
                    oacts = []
                    for a in " ".join(t[4:]).split(" ; "):
                        at = a.split()
                        if at and at[0] == "pairs":
                            k = kvs(at[1:])
                            sign = "+" if "add" in k else "-"
                            ps = (k.get("add") or k.get("remove")).split(",")
                            if any(p not in PAIRNUM for p in ps):
                                return None
                            oacts.append(sign + ".".join(str(PAIRNUM[p]) for p in ps))
                    vupd = []
                    for a in " ".join(t[4:]).split(" ; "):
                        at = a.split()
                        if at and at[0] == "valupdate":
                            k = kvs(at[1:])
                            vupd.append("%s:%s" % (k["key"][1:], k["power"]))
                    txdef[name] = "mtx %d signer=%s nonce=%s group=%d body=%d oacts=%s vupd=%s" % (
                        txnum[name], t[2][1:], t[3], group, kinds.get(name, 0), "/".join(oacts) or "-",
                        "/".join(vupd) or "-")
                    out.append(txdef[name])
                elif t[0] == "ec":
                    k = kvs(t[2:])
                    votes = []
                    for v in (k["votes"].split("/") if k["votes"] != "-" else []):
                        f = v.split(":")
                        if f[1] == "c":
                            votes.append(f[2] if f[2] != "-" else "")
                    ecs[t[1]] = (int(k["round"]), votes)
                    ecfull[t[1]] = (int(k["round"]), [
                        (int(v.split(":")[0][1:]), FLAGNUM[v.split(":")[1]])
                        for v in (k["votes"].split("/") if k["votes"] != "-" else [])])
                elif t[0] == "idump":
                    if not inited:
                        pairs, nonces, nxt, num, vals = [], [], 0, 0, []
                        for g in got:
                            gt = g.split()
                            if gt[0] == "oracle":
                                k = kvs(gt[2:])
                                if gt[1] not in PAIRNUM:
                                    return None
                                pairs.append("%d:%s:%s:%s:%s" % (PAIRNUM[gt[1]], k["id"], k["nonce"], k["price"], k["ph"]))
                            elif gt[0] == "oraclemeta":
                                k = kvs(gt[1:])
                                nxt, num = k["next"], k["num"]
                            elif gt[0] == "nonce":
                                nonces.append("%s:%s" % (gt[1][1:], gt[2]))
                            elif gt[0] == "validator":
                                if not gt[1].startswith("a"):
                                    return None
                                vals.append("%s:%s" % (gt[1][1:], kvs(gt[2:])["power"]))
                        hh = 0
                        out.append("init pairs=%s next=%s num=%s nonces=%s height=%d vals=%s" % (
                            ";".join(pairs) or "-", nxt, num, ",".join(nonces) or "-", hh, ",".join(vals) or "-"))
                        inited = True
                        out.append("idump %s" % t[1])
                    else:
                        out.append("idump %s" % t[1])
                elif t[0] in ("prep", "hand"):
                    g = got[0].split()
                    k = kvs(t[3:])
                    gk = kvs(g)
                    if "h" not in gk:
                        return None
                    hgt = int(gk["h"])
                    blocknum.setdefault(t[2], len(blocknum) + 1)
                    ve = gk.get("ve") == "1"
                    if "like" in k:
                        # near twin: the base block's fields with the given ones replaced
                        if k["like"] not in fields:
                            return None
                        f = dict(fields[k["like"]])
                        if "tplus" in k:
                            f["time"] = hgt * 1000 + int(k["tplus"])
                        if "prop" in k:
                            f["prop"] = int(k["prop"][1:])
                        if "nvh" in k:
                            f["nvh"] = int(k["nvh"])
                        if "misb" in k:
                            f["misb"] = [int(x[1:]) for x in k["misb"].split(",")] if k["misb"] != "-" else []
                        if k.get("lc", "-") != "-":
                            f["lcround"], f["lcvotes"] = ecfull[k["lc"]]
                        if "round" in k:
                            f["lcround"] = int(k["round"])
                        fields.setdefault(t[2], f)
                        out.append("hand %s %s like=%s %s hash=%d valid=%s" % (
                            t[1], t[2], k["like"], C05.show_fields(f), blocknum[t[2]],
                            "1" if (not ve or gk.get("valid") == "1") else "0"))
                        continue
                    ec = k.get("ec")
                    if ec == "-":
                        ec = None
                    f = {"h": hgt, "time": hgt * 1000 + int(k.get("tplus", "0")), "prop": int(k.get("prop", "a0")[1:]),
                         "nvh": int(k.get("nvh", "0")),
                         "misb": [int(x[1:]) for x in k["misb"].split(",")] if k.get("misb", "-") != "-" else [],
                         "lcround": ecfull[ec][0] if ec else int(k.get("round", "0")),
                         "lcvotes": ecfull[ec][1] if ec else []}
                    fields.setdefault(t[2], f)
                    votes = "/".join(v or "9999=0" for v in ecs[ec][1]) if (ec and ve) else "-"
                    # a commit vote with an empty extension contributes no prices ("9999=0": unknown id)
                    line = "%s %s %s %s hash=%d valid=%s votes=%s" % (
                        t[0], t[1], t[2], C05.show_fields(f), blocknum[t[2]],
                        "1" if (ve and gk.get("ecok") == "1") else "0", votes or "-")
                    if t[0] == "prep":
                        q = gk.get("queue", "-")
                        line += " queue=%s" % (",".join(str(txnum[x]) for x in q.split(",")) if q != "-" else "-")
                    else:
                        names = k.get("txs", "-")
                        line += " txs=%s" % (",".join(str(txnum[x]) for x in names.split(",")) if names != "-" else "-")
                        if "bad" in k:
                            line += " bad=%s" % k["bad"]
                        if k.get("ecmode") == "raw" and ve:
                            line += " ecmode=raw"
                    out.append(line)
                elif t[0] in ("proc", "fin"):
                    if len(t) > 3:
                        return None            # inline near twins (corpus): monitor only
                    out.append("%s %s %s" % (t[0], t[1], t[2]))
                elif t[0] in ("commit", "restart"):
                    out.append("%s %s" % (t[0], t[1]))
                elif t[0] in ("genesis", "advance", "oraclepair", "block", "mint", "allowfee"):
                    if inited:
                        return None        # replicated history after the model started: not modelled
        if not inited:
            return None
        return out, txnum

    @staticmethod
    def show_fields(f):
        return "h=%d time=%d prop=%d nvh=%d lcround=%d lcvotes=%s misb=%s" % (
            f["h"], f["time"], f["prop"], f["nvh"], f["lcround"],
            "/".join("%d:%d" % v for v in f["lcvotes"]) or "-", ",".join(str(x) for x in f["misb"]) or "-")

    def model_all(self, cases, impl):
        scripts, idx = [], []
        for n, (c, il) in enumerate(zip(cases, impl)):
            a = self.abstract(c, il)
            if a is not None:
                scripts.append(a[0])
                idx.append(n)
        res = [None] * len(cases)
        if scripts:
            text = "\n".join("\n".join(s) for s in scripts) + "\n"
            outs = split_cases(run_model("c05", text))
            if len(outs) != len(scripts):
                raise RuntimeError("model returned %d cases for %d" % (len(outs), len(scripts)))
            for n, o in zip(idx, outs):
                res[n] = self.canon_lines(o)
        return res

    def canon(self, il):
        return self.canon_lines(il)

    @staticmethod
    def canon_lines(lines):
        """comparable form: C05 ops only; app hashes replaced by the index of their first
        appearance; tx names -> numbers (implementation side); pairs -> numbers"""
        upgrade = "style=upgrade" in lines[0]
        out = [lines[0]]
        hashes = {}
        in_dump = False
        for l in lines[1:]:
            t = l.split()
            if not t:
                continue
            if t[0] == "idump":
                in_dump = len(t) == 3 and t[2] == "begin"
                if len(t) == 3:
                    out.append(l)
                else:
                    out.append(l)
                continue
            if in_dump:
                if t[0] == "nonce":
                    out.append("nonce %s %s" % (t[1].lstrip("a"), t[2]))
                elif t[0] == "oracle" and not upgrade:
                    out.append("oracle %s %s" % (PAIRNUM.get(t[1], t[1]), " ".join(t[2:])))
                elif t[0] == "oraclemeta" and not upgrade:
                    out.append(l)
                elif t[0] == "validator" and not upgrade:
                    out.append("validator %s %s" % (t[1].lstrip("a"), " ".join(t[2:])))
                elif t[0] == "valcount" and not upgrade:
                    out.append(l)
                continue
            if t[0] in ("prep", "hand"):
                k = kvs(t[3:])
                if t[3] != "ok":
                    out.append(" ".join(t[:4]))
                    continue
                user = k.get("user", "-")
                if user != "-":
                    user = ",".join(x.split("x")[-1] for x in user.split(","))
                # `match` is not compared: two honest proposers may order the id -> pair mapping of the
                # extended commit differently (hash-set iteration); the blocks are equivalent
                out.append("%s %s %s ok user=%s" % (t[0], t[1], t[2], user))
            elif t[0] == "proc":
                out.append(l)
            elif t[0] == "fin":
                if t[3] == "ok":
                    k = kvs(t[4:])
                    cls = hashes.setdefault(k["apphash"], len(hashes))
                    codes = k.get("codes", "-")
                    if codes != "-":
                        codes = ",".join("0" if c == "0" else "1" for c in codes.split(","))
                    out.append("fin %s %s ok cls=%d codes=%s" % (t[1], t[2], cls, codes))
                else:
                    out.append(" ".join(t[:4]))
            elif t[0] == "commit":
                out.append(" ".join(t[:3]))
            elif t[0] == "restart":
                out.append(l)
            elif t[0] == "replica-diverge":
                out.append(l)
        return out

    # -- the property, on the implementation's observations only ----------------------------------
    def monitor(self, case, il):
        """A replica whose FinalizeBlock failed is a halted node (service/consensus.rs panics):
        nothing it does afterwards is a legal continuation, so it is ignored from then on."""
        fails = []
        fins = {}        # block -> {inst: fields}
        procs = {}       # block -> {inst: [ok/err]}
        dead = set()
        cur = None
        dump_groups = []  # list of {inst: text} for consecutive idumps
        group = {}
        for l in il[1:]:
            t = l.split()
            if not t:
                continue
            if cur is not None:
                if t[0] == "idump" and t[-1] == "end":
                    if cur[0] not in dead:
                        group[cur[0]] = "\n".join(cur[1])
                    cur = None
                else:
                    cur[1].append(l)
                continue
            if t[0] == "idump" and t[-1] == "begin":
                cur = (t[1], [])
                continue
            if group and t[0] != "idump":
                dump_groups.append(group)
                group = {}
            if t[0] in ("prep", "hand", "proc", "fin", "commit", "restart", "idump", "mp") and len(t) > 1 and t[1] in dead:
                continue
            if t[-1] == "panic":
                fails.append("panic: %r" % l)
            if t[0] == "replica-diverge":
                fails.append("replicas fed the same deterministic history diverge (replica %s)" % t[1])
            if t[0] == "fin":
                f = fin_fields(l)
                per = fins.setdefault(t[2], {})
                label = t[1]
                while label in per:              # FinalizeBlock replayed after a crash
                    label += "'"
                per[label] = f
                if f[0] != "ok":
                    dead.add(t[1])
            elif t[0] == "proc":
                procs.setdefault(t[2], {}).setdefault(t[1], []).append(t[3] if t[3] == "ok" else "err")
            elif t[0] == "commit" and len(t) > 2 and t[2].startswith("err=") and t[2] != "err=nofinalize":
                fails.append("commit failed after a successful FinalizeBlock: %r" % l)
        if group:
            dump_groups.append(group)
        failed_insts = set()
        for blk, per in sorted(fins.items()):
            oks = sorted(i for i, f in per.items() if f[0] == "ok")
            errs = sorted(i for i, f in per.items() if f[0] != "ok")
            failed_insts |= set(errs)
            if oks and errs:
                kinds = sorted({per[i][0] for i in errs})
                fails.append("path-dependent failure: FinalizeBlock of %s ok on replicas %s but %s on replicas %s" % (
                    blk, ",".join(oks), "/".join(kinds), ",".join(errs)))
            distinct = {}
            for i in oks:
                distinct.setdefault(per[i], []).append(i)
            if len(distinct) > 1:
                desc = "; ".join("%s: %s" % (",".join(v), " ".join("%s=%s" % kv for kv in k[1:])) for k, v in distinct.items())
                fails.append("path-dependent result: FinalizeBlock responses for %s differ: %s" % (blk, desc))
        for blk, per in sorted(procs.items()):
            res = {}
            for i, l in per.items():
                for x in l:
                    res.setdefault(x, set()).add(i)
            if len(res) > 1:
                fails.append("path-dependent verdict: ProcessProposal of %s accepted on replicas %s, rejected on %s" % (
                    blk, ",".join(sorted(res["ok"])), ",".join(sorted(res["err"]))))
        for g in dump_groups:
            texts = {}
            for i, txt in g.items():
                texts.setdefault(txt, []).append(i)
            if len(texts) > 1:
                groups = sorted(texts.values())
                a, b = list(texts.keys())[:2]
                diff = [x for x in a.split("\n") if x not in b.split("\n")][:3] + \
                       [x for x in b.split("\n") if x not in a.split("\n")][:3]
                fails.append("path-dependent state: post-commit dumps differ between replica groups %s (%s)" % (
                    groups, " | ".join(diff)))
        return fails

    # -- shrinking: whole heights first, then lines; a candidate must stay a well-formed script and
    #    keep the same kind of failure
    def shrink(self, case, kind):
        from common import ddmin
        head = case[0]

        def first_key(c):
            try:
                r = self.evaluate([c])[0]
            except Exception:
                return None, None
            if any(l.endswith(" parseerr") for l in r[1]):
                return None, r
            for k, w in r[3]:
                if k == kind:
                    return w.split(":")[0] + ":" + w.split(":")[1][:24] if kind == "monitor" else "c", r
            return None, r
        key, _ = first_key(case)
        if key is None:
            return case

        def fails(sub):
            k, _ = first_key([head] + sub)
            return k == key
        ops = case[1:]
        # 1. drop trailing heights
        marks = [i for i, l in enumerate(ops) if l.startswith("#height ")]
        for m in marks[1:]:
            if fails(ops[:m]):
                ops = ops[:m]
                break
        # 2. lines
        try:
            return [head] + ddmin(ops, fails, max_runs=int(os.environ.get("VERIF_C05_SHRINK_RUNS", "24")))
        except Exception:
            return [head] + ops

    # -- known finding ------------------------------------------------------------------------------
    def classify(self, what, case, il):
        """F7: exactly the blocks that carry a price for a pair which one of their own (included)
        transactions removes or adds, failing with put-price on the cached paths only.
        F15: exactly the blocks prepared from a mempool holding txs admitted at an earlier height
        (`mp` / `keep=1`), failing construction everywhere but on the proposer's cached path."""
        f15 = self.classify_f15(what, case, il)
        if f15:
            return f15
        m = re.search(r"FinalizeBlock of (\S+) ok on replicas (\S+) but (\S+) on replicas (\S+)", what)
        if not m:
            return None
        blk, oks, kinds, errs = m.groups()
        if kinds != "err=putprice":
            return None
        info = self.block_info(case, il, blk)
        if info is None or not info["priced"] & info["touched"]:
            return None
        # the failing replicas are those which executed the block before FinalizeBlock (cached path)
        for i in errs.split(","):
            if not info["cached"].get(i):
                return None
        for i in oks.split(","):
            if info["cached"].get(i):
                return None
        for f in self.findings():
            if f.get("id") == FINDING_ID and f.get("status") == "known":
                return f["what"]
        return FINDING_TEXT

    def classify_f15(self, what, case, il):
        stale = any(l.split()[:1] == ["mp"] or " keep=1" in l for l in case)
        if not stale:
            return None
        m = re.search(r"FinalizeBlock of (\S+) ok on replicas (\S+) but (\S+) on replicas (\S+)", what)
        v = re.search(r"ProcessProposal of (\S+) accepted on replicas (\S+), rejected on (\S+)", what)
        if m:
            blk, good, kinds, bad = m.groups()
            if kinds != "err=construct":
                return None
        elif v:
            blk, good, bad = v.groups()
        else:
            return None
        # the block must have been prepared with keep=1, and exactly its proposers (cached by their
        # own ProcessProposal) may succeed
        prepared_stale = {l.split()[1] for l in case
                          if l.split()[:1] == ["prep"] and l.split()[2] == blk and " keep=1" in l}
        if not prepared_stale:
            return None
        info = self.block_info(case, il, blk)
        if info is None:
            return None
        for i in good.split(","):
            if i.rstrip("'") not in prepared_stale:
                return None
            if m and not info["cached"].get(i):
                return None
        for i in bad.split(","):
            if i.rstrip("'") in prepared_stale and (not m or info["cached"].get(i)):
                return None
        if v:
            # rejections must be construction failures
            for l in il:
                t = l.split()
                if t[:1] == ["proc"] and t[2] == blk and t[3] not in ("ok", "err=construct"):
                    return None
        for f in self.findings():
            if f.get("id") == FINDING2_ID and f.get("status") == "known":
                return f["what"]
        return FINDING2_TEXT

    @staticmethod
    def block_info(case, il, blk):
        """priced pairs (the extended commit's ids mapped through the oracle store dumped before the
        block was built), pairs touched by the block's included txs, and per replica whether the
        block was cached (executed by an accepted ProcessProposal, no reset since) when its
        FinalizeBlock arrived"""
        txpairs = {}
        ecs = {}
        blk_args = None
        # a near twin (`hand .. like=<base>`, or inline `<base>~field=..`) carries the data of its base
        root = blk.split("~")[0]
        likes = {}
        for l in case:
            t = l.split()
            if t[:1] == ["hand"] and len(t) > 3:
                k = kvs(t[3:])
                if "like" in k:
                    likes.setdefault(t[2], k["like"])
        seen_roots = set()
        while root in likes and root not in seen_roots:
            seen_roots.add(root)
            root = likes[root]
        for l in case:
            t = l.split()
            if not t:
                continue
            if t[0] == "tx":
                ps = set()
                for a in " ".join(t[4:]).split(" ; "):
                    at = a.split()
                    if at and at[0] == "pairs":
                        k = kvs(at[1:])
                        ps |= set((k.get("add") or k.get("remove")).split(","))
                txpairs[t[1]] = ps
            elif t[0] == "ec":
                ids = set()
                k = kvs(t[2:])
                for v in (k["votes"].split("/") if k["votes"] != "-" else []):
                    f = v.split(":")
                    if f[1] == "c" and f[2] != "-":
                        ids |= {int(x.split("=")[0]) for x in f[2].split(",")}
                ecs[t[1]] = ids
            elif t[0] in ("prep", "hand") and t[2] == root and blk_args is None:
                blk_args = kvs(t[3:])
        idmap = {}
        info = None
        cached_now = {}
        at_fin = {}
        for l in il[1:]:
            t = l.split()
            if not t:
                continue
            if t[0] == "oracle" and info is None:
                k = kvs(t[2:])
                if "id" in k:
                    idmap[int(k["id"])] = t[1]
            elif t[0] in ("prep", "hand") and len(t) > 3:
                if t[0] == "prep":
                    cached_now[t[1]] = False
                if t[2] == root and info is None and t[3] == "ok" and blk_args is not None:
                    gk = kvs(t[4:])
                    priced = set()
                    if gk.get("ve") == "1" and gk.get("ecok") == "1" and blk_args.get("ec") in ecs:
                        priced = {idmap[i] for i in ecs[blk_args["ec"]] if i in idmap}
                    user = gk.get("user", "-")
                    touched = set()
                    for x in (user.split(",") if user != "-" else []):
                        touched |= txpairs.get(x, set())
                    info = {"priced": priced, "touched": touched}
            elif t[0] == "proc" and len(t) > 3:
                if t[3] == "ok":
                    cached_now[t[1]] = t[2] == blk
                elif t[3] != "err=parse":
                    cached_now[t[1]] = False
            elif t[0] in ("restart", "commit"):
                cached_now[t[1]] = False
            elif t[0] == "fin" and t[2] == blk:
                at_fin.setdefault(t[1], cached_now.get(t[1], False))
        if info is not None:
            info["cached"] = at_fin
        return info

    @staticmethod
    def findings():
        import json
        p = os.path.join(VERIF, "known_findings.json")
        try:
            return [f for f in json.load(open(p))["findings"] if f["property"] == "C05"]
        except (OSError, ValueError, KeyError):
            return []

    def nontrivial(self, case, il):
        fins = Counter()
        rich = set()
        for l in il[1:]:
            t = l.split()
            if t and t[0] == "fin" and len(t) > 3 and t[3] == "ok":
                fins[t[2]] += 1
            if t and t[0] in ("prep", "hand") and len(t) > 3 and t[3] == "ok":
                k = kvs(t[4:])
                if k.get("user", "-") != "-" or k.get("ecok") == "1":
                    rich.add(t[2])
        return any(n >= 3 and b in rich for b, n in fins.items())

    def stats(self, cases, impl):
        st = Counter()
        for case, il in zip(cases, impl):
            st["style_" + kvs(case[0].split()[2:]).get("style", "?")] += 1
            for l in case:
                if l.startswith("#paths "):
                    for p in l.split()[1:]:
                        st["path_" + p.split(":")[1]] += 1
                elif l.startswith("#height "):
                    st["heights"] += 1
                elif l.startswith("#nt "):
                    k = kvs(l.split()[2:])
                    st["near_twin_heights"] += 1
                    st["near_twin_%s_decided_%s" % (k["field"], "twin" if k["decided"] == "T" else "base")] += 1
            for l in il[1:]:
                t = l.split()
                if not t:
                    continue
                if t[0] in ("fin", "proc", "prep", "hand", "commit") and len(t) > 3:
                    st["%s_%s" % (t[0], t[3] if t[0] != "commit" else t[2])] += 1
                elif t[0] == "commit" and len(t) == 3:
                    st["commit_" + t[2].split("=")[0]] += 1
                if t[0] == "prep" and len(t) > 3 and t[3] == "ok":
                    k = kvs(t[4:])
                    if k.get("ecok") == "1":
                        st["proposals_with_valid_extended_commit"] += 1
                    if k.get("match") in ("0", "1"):
                        st["twin_proposals_identical" if k["match"] == "1" else "twin_proposals_differ_in_encoding"] += 1
                    n = 0 if k.get("user", "-") == "-" else len(k["user"].split(","))
                    st["proposal_user_txs_%d" % min(n, 5)] += 1
            for blk in {l.split()[2] for l in il[1:] if l.startswith("fin ")}:
                info = self.block_info(case, il, blk)
                if info and info["priced"]:
                    st["decided_blocks_with_prices"] += 1
                if info and info["touched"]:
                    st["decided_blocks_touching_pairs"] += 1
                if info and info["priced"] & info["touched"]:
                    st["decided_blocks_in_known_class_F7"] += 1
        return dict(st)


CHECK = C05()
