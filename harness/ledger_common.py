"""Shared machinery of the ledger checks C01..C04: script generator, parsing of the sequencer
harness' observations (crates/astria-sequencer/src/app/verif.rs + verif_ledger.rs), the model
driver input, and the base CaseCheck class.  The property monitors live in c01.py .. c04.py.

Script grammar: harness/notes/sequencer_app_harness.md plus the ops of verif_ledger.rs
(`txr`, `exec` with fee/deposit lines, `deposits`, `bdeposits`, `setnonce <acct> <u32>`, and the
action `ibcrelay bad=<k>` = an IbcRelay message that always fails execution: fatally before the
Blackburn upgrade, non-fatally afterwards - `exec .. err=<class> unchanged=<b> included=1`, resp.
`txres <id> code=10` in a `block`)."""
import hashlib
import os
import re
from collections import Counter
from concurrent.futures import ThreadPoolExecutor

from common import CaseCheck, TieBroken, cargo_build, ddmin, run_harness, run_model

U128 = 2 ** 128 - 1
U64 = 2 ** 64 - 1
U32 = 2 ** 32 - 1
ASSET_DENOMS = ["nria", "transfer/channel-0/utia", "transfer/channel-1/uosmo", "ugly"]
ASSET_HASH = [hashlib.sha256(d.encode()).hexdigest() for d in ASSET_DENOMS]
NACC = 16
CHANNELS = ["channel-0", "channel-1", "channel-2"]
KINDS = ["transfer", "rollup", "ics20w", "initbridge", "lock", "unlock", "btransfer", "bsudo", "ibcrelay",
         "valupdate", "feeasset", "feechange", "relayer", "sudochange", "ibcsudo", "recover", "pairs", "markets"]
PAYING = {"transfer", "rollup", "ics20w", "initbridge", "lock", "unlock", "btransfer", "bsudo"}
GROUP = {"sudochange": 1, "ibcsudo": 1, "relayer": 2, "feechange": 2, "feeasset": 2, "initbridge": 3, "bsudo": 3,
         "rollup": 4, "transfer": 4, "valupdate": 4, "ics20w": 4, "lock": 4, "unlock": 4, "btransfer": 4, "ibcrelay": 4}
SHARDS = int(os.environ.get("VERIF_LEDGER_SHARDS", "8"))


# ------------------------------------------------------------------------------------------ assets

def asset_index(tok):
    """script asset token -> index 0..3 (s<k> or ibc/<hash of the k-th denom>)"""
    if tok.startswith("ibc/"):
        return ASSET_HASH.index(tok[4:].lower())
    return int(tok[1:])


def asset_is_ibc_form(tok):
    return tok.startswith("ibc/")


def asset_display_len(tok):
    return 68 if tok.startswith("ibc/") else len(ASSET_DENOMS[int(tok[1:])])


def ics20_is_source(asset_idx, chan):
    """ICS-20: this chain is the source of a denomination unless its trace starts with the
    port/channel the packet leaves through (then it is a voucher that is burned)."""
    return not ASSET_DENOMS[asset_idx].startswith("transfer/%s/" % chan)


def ibc_form(k):
    return "ibc/" + ASSET_HASH[k]


# ------------------------------------------------------------------------------------------ parsing

def kvs(tokens):
    return dict(t.split("=", 1) for t in tokens if "=" in t)


def parse_action(tokens):
    a = {"name": tokens[0]}
    a.update(kvs(tokens[1:]))
    return a


def parse_tx_actions(tokens):
    acts, cur = [], []
    for t in tokens:
        if t == ";":
            if cur:
                acts.append(parse_action(cur))
            cur = []
        else:
            cur.append(t)
    if cur:
        acts.append(parse_action(cur))
    return acts


class Dump:
    """one `dump begin .. dump end` block"""

    def __init__(self, lines):
        self.lines = lines
        self.bal, self.nonce, self.escrow, self.bridge, self.wevent = {}, {}, {}, {}, {}
        self.relayers, self.fee, self.feeassets, self.validators = set(), {}, set(), {}
        self.blockfees, self.deposits = {}, {}
        self.sudo = self.ibcsudo = self.valcount = self.rawhash = None
        for l in lines:
            t = l.split()
            k = t[0]
            if k == "bal":
                self.bal[(t[1], asset_index(t[2]))] = int(t[3])
            elif k == "nonce":
                self.nonce[t[1]] = int(t[2])
            elif k == "escrow":
                self.escrow[(t[1], asset_index(t[2]))] = int(t[3])
            elif k == "bridge":
                d = kvs(t[2:])
                self.bridge[t[1]] = d
            elif k == "wevent":
                self.wevent[(t[1], t[2])] = int(t[3])
            elif k == "sudo":
                self.sudo = t[1]
            elif k == "ibcsudo":
                self.ibcsudo = t[1]
            elif k == "relayer":
                self.relayers.add(t[1])
            elif k == "fee":
                self.fee[t[1]] = None if t[2] in ("none", "err") else (int(t[2]), int(t[3]))
            elif k == "feeasset":
                self.feeassets.add(t[1])
            elif k == "validator":
                self.validators[t[1]] = t[2]
            elif k == "valcount":
                self.valcount = t[1]
            elif k == "blockfees":
                self.blockfees[asset_index(t[1])] = int(t[2])
            elif k == "deposits":
                self.deposits[t[1]] = int(t[2])
            elif k == "rawhash":
                self.rawhash = (t[1], t[2])

    def b(self, acct, asset):
        return self.bal.get((acct, asset), 0)

    def total(self, asset, with_fees=True):
        s = sum(v for (a, k), v in self.bal.items() if k == asset)
        s += sum(v for (c, k), v in self.escrow.items() if k == asset)
        if with_fees:
            s += self.blockfees.get(asset, 0)
        return s

    def bridge_priv(self, acct):
        d = self.bridge.get(acct)
        if d is None:
            return None
        return (d["rollup"], d["asset"], d["sudo"], d["withdrawer"], d["disabled"])

    def same_as(self, other):
        return self.lines == other.lines


def chunk(case, il):
    """align script ops with the observation lines they produced -> [(op tokens, [lines])]"""
    out, p = [], 0
    n = len(il)
    for line in case:
        t = line.split()
        if not t or t[0].startswith("#"):
            continue
        op = t[0]
        if p >= n:
            raise ValueError("observations end before op %r" % line)
        first = il[p]
        k = 1
        if op == "dump" and first == "dump begin":
            while p + k < n and il[p + k - 1] != "dump end":
                k += 1
        elif op == "block":
            while p + k <= n and not il[p + k - 1].startswith("block "):
                k += 1
        elif op == "exec" and first.startswith("exec %s ok" % t[1]):
            while p + k < n and (il[p + k].startswith("fee %s " % t[1]) or il[p + k].startswith("dep %s " % t[1])):
                k += 1
        elif op == "txr" and first.startswith("nonce "):
            k = 2
        elif op in ("deposits", "bdeposits"):
            m = re.search(r"\bn=(\d+)", first)
            k = 1 + (int(m.group(1)) if m else 0)
        out.append((t, il[p:p + k]))
        p += k
    if p != n:
        raise ValueError("observations continue after the last op: %r" % il[p:p + 3])
    return out


def parse_deposit(tokens):
    d = kvs(tokens)
    d["amount"] = int(d["amount"])
    d["idx"] = int(d["idx"])
    d["asset_i"] = asset_index(d["asset"]) if re.fullmatch(r"s\d+", d["asset"]) else None
    return d


class Trace:
    """structured view of one case: a list of events (dicts with key `k`)"""

    def __init__(self, case, il):
        self.case, self.il = case, il
        self.events = []
        self.txs = {}           # id -> txdef (latest definition)
        self.error = None
        try:
            self._build(chunk(case, il))
        except Exception as ex:          # malformed observations are a finding in themselves
            self.error = "cannot align observations with the script: %s" % ex

    def _build(self, chunks):
        ev = self.events
        for t, lines in chunks:
            op, first = t[0], lines[0]
            ft = first.split()
            if len(ft) >= 2 and ft[-1] in ("panic", "parseerr"):
                ev.append({"k": "bad", "op": op, "line": first})
                continue
            if op == "dump":
                ev.append({"k": "dump", "d": Dump(lines)})
            elif op in ("tx", "txr"):
                if op == "txr":
                    nonce = int(lines[0].split()[2])
                    txline = lines[1]
                    signer, acts = t[2], parse_tx_actions(t[4:])
                else:
                    nonce, txline = int(t[3]), lines[0]
                    signer, acts = t[2], parse_tx_actions(t[4:])
                built = "builderr" not in txline
                d = {"k": "txdef", "id": t[1], "signer": signer, "nonce": nonce, "actions": acts, "built": built}
                if built:
                    self.txs[t[1]] = d
                ev.append(d)
            elif op == "exec":
                e = {"k": "exec", "id": t[1], "line": first, "fees": [], "deps": [], "tx": self.txs.get(t[1])}
                kv = kvs(ft)
                if " ok " in first + " ":
                    e["status"] = "ok"
                    e["depevents"] = int(kv.get("depevents", 0))
                    e["nfees"] = int(kv.get("fees", 0))
                    for l in lines[1:]:
                        lt = l.split()
                        if lt[0] == "fee":
                            f = kvs(lt[2:])
                            e["fees"].append({"pos": int(f["pos"]), "kind": f["kind"], "asset": f["asset"],
                                              "asset_i": asset_index(f["asset"]) if re.fullmatch(r"s\d+", f["asset"]) else None,
                                              "amount": int(f["amount"])})
                        else:
                            e["deps"].append(parse_deposit(lt[2:]))
                elif "err" in kv:
                    e["status"] = "err"
                    e["cls"] = kv["err"]
                    e["unchanged"] = kv.get("unchanged")
                    e["included"] = kv.get("included") == "1"     # failed non-fatally: stays in the block
                elif "constructerr" in kv:
                    e["status"], e["cls"] = "constructerr", kv["constructerr"]
                else:
                    e["status"] = ft[2] if len(ft) > 2 else "?"
                ev.append(e)
            elif op == "block":
                res = []
                for l in lines[:-1]:
                    lt = l.split()
                    kv = kvs(lt)
                    if "code" in kv:
                        res.append((lt[1], "code", kv["code"]))
                    elif "dropped" in kv:
                        res.append((lt[1], "dropped", kv["dropped"]))
                    elif "constructerr" in kv:
                        res.append((lt[1], "constructerr", kv["constructerr"]))
                    else:
                        res.append((lt[1], "unknown", ""))
                kv = kvs(lines[-1].split())
                ev.append({"k": "block", "ok": "height" in kv, "cls": kv.get("err"), "height": kv.get("height"),
                           "results": [(i, st, x, self.txs.get(i)) for i, st, x in res]})
            elif op == "begin":
                ev.append({"k": "begin", "ok": "height=" in first, "line": first})
            elif op == "end":
                kv = kvs(ft)
                ev.append({"k": "end", "ok": "height" in kv, "cls": kv.get("err"), "line": first})
            elif op in ("deposits", "bdeposits"):
                ev.append({"k": op, "list": [parse_deposit(l.split()[1:]) for l in lines[1:]], "line": first})
            elif op in ("mint", "allowfee", "escrow", "ibcchan", "setnonce"):
                ev.append({"k": "god", "op": op, "args": t[1:], "line": first})
            elif op == "advance":
                ev.append({"k": "advance", "line": first})
            elif op in ("case", "genesis"):
                ev.append({"k": op, "line": first})
            else:
                ev.append({"k": "other", "op": op, "line": first})

    # ---- navigation helpers -----------------------------------------------------------------
    def dump_before(self, i):
        """the dump observed right before event i (only tx definitions in between), else None"""
        j = i - 1
        while j >= 0 and self.events[j]["k"] == "txdef":
            j -= 1
        return self.events[j]["d"] if j >= 0 and self.events[j]["k"] == "dump" else None

    def dump_after(self, i):
        j = i + 1
        while j < len(self.events) and self.events[j]["k"] in ("txdef", "deposits", "bdeposits"):
            j += 1
        return self.events[j]["d"] if j < len(self.events) and self.events[j]["k"] == "dump" else None

    def blocks(self):
        """yields committed units: ('manual', begin_idx, end_idx, [exec event idx]) for begin..end that
        ended ok, ('block', idx) for `block` ops that committed"""
        i, n = 0, len(self.events)
        while i < n:
            e = self.events[i]
            if e["k"] == "block" and e["ok"]:
                yield ("block", i, i, [])
            elif e["k"] == "begin" and e["ok"]:
                j, execs = i + 1, []
                while j < n and self.events[j]["k"] not in ("end", "begin", "block", "advance", "case", "genesis"):
                    if self.events[j]["k"] == "exec":
                        execs.append(j)
                    j += 1
                if j < n and self.events[j]["k"] == "end":
                    if self.events[j]["ok"]:
                        yield ("manual", i, j, execs)
                    else:
                        yield ("manual-failed", i, j, execs)
                    i = j
                else:
                    yield ("manual-abandoned", i, j - 1, execs)
                    i = j - 1
            i += 1

    def successful_txs(self, with_pos=False):
        """tx definitions of every transaction that took effect in a committed block, in history order
        (with_pos: pairs (index of the event in which it took effect, tx definition))"""
        out = []
        for kind, b, e, execs in self.blocks():
            if kind == "block":
                for i, st, x, tx in self.events[b]["results"]:
                    if st == "code" and x == "0" and tx is not None:
                        out.append((b, tx))
            elif kind == "manual":
                for j in execs:
                    ex = self.events[j]
                    if ex["status"] == "ok" and ex["tx"] is not None:
                        out.append((j, ex["tx"]))
        return out if with_pos else [tx for _, tx in out]


# ------------------------------------------------------------------------------------------ value flows

def action_flows(act, signer, pre):
    """the value movements an executed action stands for: [(from account | None, to, asset index, amount)]
    where `to` is an account name, ('escrow', channel) or None (burned)"""
    n = act["name"]
    if n in ("transfer", "lock"):
        return [(signer, act["to"], asset_index(act["asset"]), int(act["amt"]))]
    if n in ("unlock", "btransfer"):
        br = pre.bridge.get(act["bridge"])
        if br is None or not re.fullmatch(r"s\d+", br["asset"]):
            return None
        return [(act["bridge"], act["to"], asset_index(br["asset"]), int(act["amt"]))]
    if n == "ics20w":
        k = asset_index(act["denom"])
        frm = act["bridge"] if act.get("bridge", "-") != "-" else signer
        to = ("escrow", act["chan"]) if ics20_is_source(k, act["chan"]) else None
        return [(frm, to, k, int(act["amt"]))]
    return []


def action_variable(act):
    if act["name"] == "lock":
        return asset_display_len(act["asset"]) + len(act["dest"]) + 16
    if act["name"] == "rollup":
        return int(act["len"])
    return 0


def carried_event(act):
    """(bridge, event id) a withdrawal action carries, else None"""
    n = act["name"]
    if n in ("unlock", "btransfer"):
        return (act["bridge"], act["evid"])
    if n == "ics20w" and act.get("bridge", "-") != "-" and act.get("evid", "-") != "-":
        return (act["bridge"], act["evid"])
    return None


# ------------------------------------------------------------------------------------------ generator

BAL_POOL = [0, 1, 1000, 10 ** 6, 10 ** 12, 10 ** 19, 2 ** 100, 2 ** 127, U128]
AMT_SMALL = [0, 1, 2, 7, 100, 12345]


class Gen:
    """generator of one case; tracks an optimistic view of the chain (who is sudo, which accounts
    are bridges, ...) to keep most transactions valid.  `focus` in {"c01","c02","c03","c04"}
    shifts the weights; `adversarial` makes most transactions invalid."""

    def __init__(self, rng, label, focus, adversarial=False, quick=True):
        self.r, self.label, self.focus, self.adv, self.quick = rng, label, focus, adversarial, quick
        self.L = []
        self.ntx = 0
        self.evn = 0
        self.used_evids = []
        self.defined = []        # tx ids defined and (probably) executed: candidates for replay
        self.nonce_edge = set()  # accounts whose nonce was put to the top of the u32 range

    # -- helpers
    def emit(self, s):
        self.L.append(s)

    def txid(self):
        self.ntx += 1
        return "%s_%d" % (self.label, self.ntx)

    def acct(self, lo=0, hi=9):
        return "a%d" % self.r.randint(lo, hi)

    def user(self):
        """a signer that is (probably) not a bridge account"""
        if self.r.random() < 0.9:
            return "a%d" % self.r.randint(0, 5)
        return self.acct(0, 11)

    def fresh_evid(self):
        self.evn += 1
        e = "e%s_%d" % (self.label, self.evn)
        self.used_evids.append(e)
        return e

    def fee_asset(self):
        r = self.r.random()
        if r < 0.07:
            return self.r.choice(["s1", "s2", "s3"])            # possibly not allowed
        if r < 0.12:
            return ibc_form(0)
        pool = sorted(self.feeassets)
        return self.r.choice(pool) if pool else "s0"

    def amount(self):
        r = self.r.random()
        if r < 0.6:
            return self.r.choice(AMT_SMALL)
        if r < 0.93:
            return self.r.randint(1, 10 ** 5)
        return self.r.choice([10 ** 19, 2 ** 64, 2 ** 127, U128 - 1, U128])

    def dest(self):
        r = self.r.random()
        if r < 0.8:
            return "d%d" % self.r.randint(0, 99)
        if r < 0.9:
            return "x" * self.r.choice([1, 40, 64, 200])
        return "0x" + "ab" * 20

    # -- genesis and setup
    def header(self):
        r = self.r
        self.emit("case %s focus=%s%s" % (self.label, self.focus, " adversarial" if self.adv else ""))
        accts = []
        for k in range(r.randint(4, 6)):
            accts.append("a%d:%d" % (k, r.choice(BAL_POOL[2:7]) if k < 3 else r.choice(BAL_POOL)))
        self.sudo = "a%d" % r.randint(0, 2)
        self.ibcsudo = "a%d" % r.randint(0, 2) if r.random() < 0.7 else self.sudo
        bb = r.choice([2, 2, 2, 2, 0, 5, 6])
        g = "genesis acct=%s sudo=%s ibcsudo=%s" % (",".join(accts), self.sudo, self.ibcsudo)
        g += " blackburn=%d" % bb
        if self.adv and r.random() < 0.12:
            g += " fees=none"           # every action is disabled (no fee components stored)
        # IBC relayer accounts (the only possible signers of an IbcRelay action)
        self.relayers = set()
        if r.random() < 0.7:
            self.relayers = set(r.sample(["a3", "a4", "a5"], r.choice([1, 1, 2])))
            g += " relayers=%s" % ",".join(sorted(self.relayers))
        self.emit(g)
        self.emit("advance %d" % r.choice([2, 2, 3]))
        self.channels = []
        if r.random() < 0.85:
            self.emit("ibcchan channel-0")
            self.channels.append("channel-0")
        if r.random() < 0.4:
            self.emit("ibcchan channel-1")
            self.channels.append("channel-1")
        self.emit("dump")
        self.feeassets = {"s0"}
        self.bridges = {}
        # funding (inside one manual block: a single commit): every account used as a signer gets
        # native funds; most get the voucher / plain assets too; boundary balances are sprinkled in
        self.emit("begin")
        for k in range(3, 12):
            self.emit("mint a%d s0 %d" % (k, r.choice([10 ** 9, 10 ** 12, 10 ** 19, 2 ** 100])))
        for k in range(0, 10):
            if r.random() < 0.8:
                self.emit("mint a%d s1 %d" % (k, r.choice([10 ** 6, 10 ** 9, 10 ** 12])))
            if r.random() < 0.5:
                self.emit("mint a%d s3 %d" % (k, r.choice([10 ** 6, 10 ** 9])))
            if r.random() < 0.25:
                self.emit("mint a%d s2 %d" % (k, r.choice([1000, 10 ** 9])))
        for _ in range(r.randint(1, 3)):
            self.emit("mint %s s%d %d" % (self.acct(0, 11), r.randint(1, 3), r.choice(BAL_POOL[:2] + BAL_POOL[6:])))
        if r.random() < 0.5:
            self.emit("allowfee s1")
            self.feeassets.add("s1")
        if r.random() < 0.25:
            self.emit("allowfee s3")
            self.feeassets.add("s3")
        if r.random() < 0.3:
            self.emit("escrow channel-0 s0 %d" % r.choice([1, 1000, 10 ** 19, U128]))
        self.emit("end")
        # bridges: a6 (native asset), a8 (native asset, for bridge transfers), sometimes a7 (voucher)
        ids = []
        plan = [("a6", "s0", "r1"), ("a8", "s0", "r3")]
        if r.random() < 0.5:
            plan.append(("a7", r.choice(["s1", "s3"]), "r2"))
        for b, asset, rollup in plan:
            sd = r.choice(["-", "a2", "a3", b])
            wd = r.choice(["-", "a3", "a3", "a4", b])
            t = self.txid()
            self.emit("txr %s %s +0 initbridge rollup=%s asset=%s fee=s0 sudo=%s withdrawer=%s" % (t, b, rollup, asset, sd, wd))
            self.bridges[b] = {"asset": asset, "rollup": rollup, "sudo": b if sd == "-" else sd,
                               "withdrawer": b if wd == "-" else wd}
            ids.append(t)
        self.emit("block " + " ".join(ids))
        self.emit("dump")
        # give the bridges something to pay out (and to pay fees with when they sign for themselves)
        self.emit("begin")
        for b, br in self.bridges.items():
            self.emit("mint %s %s %d" % (b, br["asset"], r.choice([500, 10 ** 6, 10 ** 9, 10 ** 19])))
            if br["asset"] != "s0" and r.random() < 0.7:
                self.emit("mint %s s0 %d" % (b, 10 ** 9))
        self.emit("end")
        self.emit("dump")

    # -- single actions (valid-biased); return (signer, action string)
    def a_transfer(self, signer=None):
        r = self.r
        s = signer or self.user()
        to = self.acct(0, 11)
        asset = r.choice(["s0", "s0", "s0", "s0", "s0", "s1", "s2", "s3", ibc_form(0)])
        return s, "transfer to=%s amt=%d asset=%s fee=%s" % (to, self.amount(), asset, self.fee_asset())

    def a_lock(self, signer=None):
        r = self.r
        s = signer or self.user()
        if self.bridges and r.random() < 0.9:
            b = r.choice(sorted(self.bridges))
            asset = self.bridges[b]["asset"] if r.random() < 0.9 else r.choice(["s0", "s1", "s3"])
        else:
            b, asset = self.acct(0, 9), "s0"
        if r.random() < 0.12:
            asset = ibc_form(asset_index(asset))
        return s, "lock to=%s amt=%d asset=%s fee=%s dest=%s" % (b, self.amount(), asset, self.fee_asset(), self.dest())

    def bridge_for(self, signer):
        """a bridge account, preferably one whose withdrawer is `signer`"""
        bs = sorted(self.bridges)
        mine = [b for b in bs if self.bridges[b]["withdrawer"] == signer]
        if signer is not None and mine and self.r.random() < 0.9:
            return self.r.choice(mine)
        return self.r.choice(bs)

    def pick_evid(self):
        r = self.r.random()
        if r < 0.78 or not self.used_evids:
            return self.fresh_evid()
        if r < 0.97:
            return self.r.choice(self.used_evids)
        return "L" * 257

    def a_unlock(self, signer=None):
        r = self.r
        if not self.bridges:
            return self.a_transfer(signer)
        b = self.bridge_for(signer)
        s = signer or (self.bridges[b]["withdrawer"] if r.random() < 0.85 else self.acct(0, 9))
        to = self.acct(0, 5) if r.random() < 0.92 else r.choice(sorted(self.bridges))
        amt = r.choice([1, 1, 5, 100, 499, 500, 501] + ([0, 10 ** 6] if r.random() < 0.2 else [])) if r.random() < 0.85 else self.amount()
        memo = r.choice(["-", "-", "-", "m", "M" * 64]) if r.random() < 0.95 else "M" * 65
        blk = r.choice([1, 2, 77, 0]) if r.random() < 0.15 else r.randint(1, 10 ** 6)
        return s, "unlock to=%s amt=%d fee=%s bridge=%s memo=%s blk=%d evid=%s" % (
            to, amt, self.fee_asset(), b, memo, blk, self.pick_evid())

    def a_btransfer(self, signer=None):
        r = self.r
        bs = sorted(self.bridges)
        if len(bs) < 2:
            return self.a_transfer(signer)
        b = self.bridge_for(signer)
        same = [x for x in bs if self.bridges[x]["asset"] == self.bridges[b]["asset"]]
        to = r.choice(same) if r.random() < 0.85 else r.choice(bs + [self.acct(0, 5)])
        s = signer or (self.bridges[b]["withdrawer"] if r.random() < 0.85 else self.acct(0, 9))
        amt = r.choice([1, 5, 100, 500] + ([0, 501] if r.random() < 0.2 else [])) if r.random() < 0.85 else self.amount()
        blk = r.choice([1, 9, 0]) if r.random() < 0.15 else r.randint(1, 10 ** 6)
        return s, "btransfer to=%s amt=%d fee=%s dest=%s bridge=%s blk=%d evid=%s" % (
            to, amt, self.fee_asset(), self.dest(), b, blk, self.pick_evid())

    def a_ics20w(self, signer=None):
        r = self.r
        chan = r.choice(self.channels) if self.channels and r.random() < 0.9 else r.choice(CHANNELS)
        denom = r.choice(["s0", "s0", "s0", "s1", "s1", "s2", "s3", ibc_form(0), ibc_form(1)])
        amt = r.choice([1, 5, 100] + ([0] if r.random() < 0.15 else [])) if r.random() < 0.8 else self.amount()
        if self.bridges and r.random() < 0.3:
            b = self.bridge_for(signer)
            s = signer or (self.bridges[b]["withdrawer"] if r.random() < 0.85 else self.acct(0, 9))
            extra = " bridge=%s evid=%s blk=%d" % (b, self.pick_evid(), r.choice([1, 5, 0, 123]))
            if r.random() < 0.1:
                extra = " bridge=%s" % b                      # bridge withdrawal without a rollup memo
            if r.random() < 0.3:
                denom = self.bridges[b]["asset"]
            if r.random() < 0.12:
                # bridge_address naming an account that is NOT a bridge account (somebody's plain
                # account): must be refused, whoever signs
                nb = [a for a in (self.acct(0, 9) for _ in range(6)) if a not in self.bridges]
                if nb:
                    extra = extra.replace("bridge=%s" % b, "bridge=%s" % nb[0])
        else:
            s = signer or self.user()
            extra = ""
            if r.random() < 0.1:
                extra = " evid=%s blk=3" % self.pick_evid()   # rollup memo without a bridge address: plain memo
        return s, "ics20w amt=%d denom=%s dest=%s ret=%s chan=%s fee=%s%s" % (
            amt, denom, self.dest(), self.acct(0, 9), chan, self.fee_asset(), extra)

    def a_rollup(self, signer=None):
        r = self.r
        s = signer or self.user()
        return s, "rollup id=r%d len=%d fee=%s" % (r.randint(0, 3), r.choice([1, 1, 10, 100, 1000] + ([0] if r.random() < 0.2 else [])), self.fee_asset())

    def a_ibcrelay(self, signer=None):
        """an IbcRelay message that fails execution; only an IBC relayer can even construct it"""
        r = self.r
        s = signer or (r.choice(sorted(self.relayers)) if self.relayers and r.random() < 0.9 else self.user())
        return s, "ibcrelay bad=%d" % r.randint(0, 3)

    def a_valupdate(self, signer=None):
        r = self.r
        s = signer or (self.sudo if r.random() < 0.8 else self.acct(0, 5))
        return s, "valupdate key=a%d power=%d" % (r.randint(0, 5), r.choice([0, 0, 1, 10, 2 ** 31]))

    def a_feechange(self):
        r = self.r
        kind = r.choice(["transfer", "lock", "unlock", "rollup", "ics20w", "btransfer", "initbridge", "bsudo", "valupdate", "feechange", "recover"])
        base = r.choice([0, 1, 12, 1000, 2 ** 64, U128]) if r.random() < 0.9 else r.randint(0, U128)
        mult = r.choice([0, 1, 3, 2 ** 64, U128])
        return "feechange kind=%s base=%d mult=%d" % (kind, base, mult)

    def a_feeasset(self):
        r = self.r
        if r.random() < 0.5:
            a = r.choice(["s1", "s2", "s3", "s0"])
            self.feeassets.add(a)
            return "feeasset add=%s" % a
        a = r.choice(sorted(self.feeassets) + ["s2"])
        if len(self.feeassets) > 1:
            self.feeassets.discard(a)
        return "feeasset remove=%s" % a

    def a_relayer(self):
        r = self.r
        if r.random() < 0.6 or not self.relayers:
            a = self.acct(0, 9)
            self.relayers.add(a)
            return "relayer add=%s" % a
        a = r.choice(sorted(self.relayers) + [self.acct(0, 9)])
        self.relayers.discard(a)
        return "relayer remove=%s" % a

    # -- transactions
    def general_bundle(self, n=None, signer=None):
        r = self.r
        n = n or r.choice([1, 1, 2, 2, 3, 4])
        w = {"c01": [5, 3, 2, 2, 3, 2, 1, 0.7], "c02": [3, 2, 4, 3, 3, 1, 3, 0.7], "c03": [4, 3, 3, 2, 2, 2, 1, 1.5],
             "c04": [1, 5, 5, 4, 4, 1, 0, 0.7]}[self.focus]
        gens = [self.a_transfer, self.a_lock, self.a_unlock, self.a_btransfer, self.a_ics20w, self.a_rollup, self.a_valupdate,
                self.a_ibcrelay]
        acts = []
        for _ in range(n):
            g = r.choices(gens, weights=w)[0]
            s, a = g(signer)
            if signer is None and g in (self.a_unlock, self.a_btransfer, self.a_valupdate, self.a_ibcrelay):
                signer = s          # authority-bound actions fix the signer of the bundle
            acts.append(a)
        if signer is None:
            signer = self.user()
        if self.adv and r.random() < 0.5:
            signer = self.acct(0, 11)
        return signer, acts

    def sudo_bundle(self):
        r = self.r
        acts = []
        for _ in range(r.choice([1, 1, 2, 3])):
            acts.append(r.choice([self.a_feechange, self.a_feechange, self.a_feeasset, self.a_relayer])())
        signer = self.sudo if r.random() < 0.85 else self.acct(0, 5)
        if any(a.startswith("relayer") for a in acts) and r.random() < 0.7:
            signer = self.ibcsudo
        return signer, acts

    def single(self):
        r = self.r
        k = r.random()
        if k < 0.25:
            to = self.acct(0, 4)
            signer = self.sudo if r.random() < 0.8 else self.acct(0, 5)
            if signer == self.sudo:
                self.old_sudo, self.sudo = self.sudo, to
            return signer, ["sudochange to=%s" % to]
        if k < 0.45:
            to = self.acct(0, 4)
            signer = self.sudo if r.random() < 0.8 else self.ibcsudo
            if signer == self.sudo:
                self.ibcsudo = to
            return signer, ["ibcsudo to=%s" % to]
        if k < 0.6:
            b = self.acct(9, 11)
            asset = r.choice(["s0", "s0", "s1", "s3"])
            signer = b if r.random() < 0.85 else r.choice(sorted(self.bridges) or [b])
            sd, wd = r.choice(["-", "a2", b]), r.choice(["-", "a3", b])
            if signer == b and b not in self.bridges:
                self.bridges[b] = {"asset": asset, "rollup": "r0", "sudo": b if sd == "-" else sd, "withdrawer": b if wd == "-" else wd}
            return signer, ["initbridge rollup=r0 asset=%s fee=%s sudo=%s withdrawer=%s" % (asset, self.fee_asset(), sd, wd)]
        if not self.bridges:
            return self.general_bundle()
        b = r.choice(sorted(self.bridges))
        br = self.bridges[b]
        signer = br["sudo"] if r.random() < 0.8 else r.choice([br["withdrawer"], self.acct(0, 9)])
        ns = r.choice(["-", "-", "a2", "a4", b])
        nw = r.choice(["-", "a3", "a4", "a5", b])
        dis = r.choice(["0", "0", "1", "-"])
        if signer == br["sudo"]:
            if nw != "-":
                br["old_withdrawer"], br["withdrawer"] = br["withdrawer"], nw
            if ns != "-":
                br["sudo"] = ns
        return signer, ["bsudo bridge=%s newsudo=%s newwithdrawer=%s fee=%s disable=%s" % (b, ns, nw, self.fee_asset(), dis)]

    def mixed_invalid(self):
        """a bundle the transaction builder refuses"""
        r = self.r
        s, a = self.a_transfer()
        other = r.choice(["sudochange to=a1", self.a_feechange(), "initbridge rollup=r0 asset=s0 fee=s0", "ibcsudo to=a2 ; ibcsudo to=a3"])
        return s, [a, other] if r.random() < 0.5 else [other, a]

    def failing_bundle(self):
        """a general bundle of n actions whose action at index i passes construction but fails at
        execution; the actions before it have visible effects (fees, transfers, deposits, event ids)"""
        r = self.r
        n = r.randint(1, 4)
        i = r.randrange(n)
        signer = self.acct(3, 5)
        pre = []
        acts = []
        mode = r.choice(["funds", "overflow", "dupevid", "funds"] + (["ibcrelay", "ibcrelay"] if self.relayers else []))
        wd_bridge = None
        if mode == "ibcrelay":
            # fails at the IbcRelay action: a fatal error before Blackburn, afterwards a non-fatal one (the
            # transaction stays in the block with an error code) - without a trace in both eras
            signer = r.choice(sorted(self.relayers))
            pre.append("mint %s s0 %d" % (signer, 10 ** 12))
        if mode == "dupevid":
            cands = [b for b, br in self.bridges.items() if re.fullmatch(r"a[0-9]", br["withdrawer"])]
            if not cands:
                mode = "funds"
            else:
                wd_bridge = r.choice(sorted(cands))
                signer = self.bridges[wd_bridge]["withdrawer"]
                pre.append("mint %s s0 %d" % (signer, 10 ** 12))
                pre.append("mint %s %s %d" % (wd_bridge, self.bridges[wd_bridge]["asset"], 10 ** 6))
        ev = self.fresh_evid()
        for j in range(n):
            if j == i:
                if mode == "funds":
                    pre.append("mint %s s3 %d" % (signer, 5))
                    acts.append("transfer to=%s amt=6 asset=s3 fee=s0" % self.acct(0, 9))
                elif mode == "overflow":
                    victim = self.acct(10, 11)
                    pre.append("mint %s s2 %d" % (victim, U128))
                    pre.append("mint %s s2 %d" % (signer, 10))
                    acts.append("transfer to=%s amt=1 asset=s2 fee=s0" % victim)
                elif mode == "ibcrelay":
                    acts.append("ibcrelay bad=%d" % r.randint(0, 3))
                else:
                    acts.append("unlock to=a5 amt=1 fee=s0 bridge=%s memo=- blk=2 evid=%s" % (wd_bridge, ev))
            else:
                if mode == "dupevid" and j < i and not any("evid=%s" % ev in a for a in acts):
                    acts.append("unlock to=a4 amt=2 fee=s0 bridge=%s memo=- blk=1 evid=%s" % (wd_bridge, ev))
                    continue
                c = r.random()
                if c < 0.4 or not self.bridges:
                    acts.append("transfer to=%s amt=%d asset=s0 fee=s0" % (self.acct(0, 9), r.choice([1, 10, 100])))
                elif c < 0.75:
                    b = r.choice(sorted(self.bridges))
                    acts.append("lock to=%s amt=%d asset=%s fee=s0 dest=%s" % (b, r.choice([1, 3]), self.bridges[b]["asset"], self.dest()))
                else:
                    acts.append("rollup id=r1 len=%d fee=s0" % r.choice([1, 20]))
        return signer, acts, pre, i

    # -- blocks
    def tx_lines(self, signer, acts, delta="+0"):
        t = self.txid()
        body = "%s %s %s" % (signer, delta, " ; ".join(acts))
        self.last_body = body
        self.emit("txr %s %s" % (t, body))
        return t

    def next_tx(self, deltas):
        """emit the definition of one transaction; returns its id.  `deltas`: per-signer nonce
        offsets already used in this block (for the `block` path)"""
        r = self.r
        k = r.random()
        pre = []
        fw = {"c01": 0.12, "c02": 0.05, "c03": 0.3, "c04": 0.15}[self.focus]
        if k < fw:
            signer, acts, pre, _ = self.failing_bundle()
        elif k < fw + 0.5:
            signer, acts = self.general_bundle()
        elif k < fw + 0.64:
            signer, acts = self.sudo_bundle()
        elif k < fw + 0.8 + (0.1 if self.focus == "c02" else 0):
            signer, acts = self.single()
        elif k < 0.97:
            signer, acts = self.general_bundle()
        else:
            signer, acts = self.mixed_invalid()
        for p in pre:
            self.emit(p)
        d = deltas.get(signer, 0)
        x = r.random()
        bad = 0.35 if self.adv else 0.08
        if x < bad / 2:
            delta = d + r.choice([1, 2, 5])         # gap
        elif x < bad:
            delta = d - r.choice([1, 1, 3])         # stale
        else:
            delta = d
            deltas[signer] = d + 1
        t = self.tx_lines(signer, acts, "%+d" % delta)
        self.defined.append(t)
        return t, bool(pre)

    def f9_scenario(self):
        """a fee schedule at the top of u128 (needs the sudo key): base + mult*var >= 2^128"""
        r = self.r
        kind = r.choice(["rollup", "lock"])
        base, mult = r.choice([(2 ** 127, 2 ** 127), (1, U128), (U128, 1), (U128 - 5, 1)])
        t1 = self.tx_lines(self.sudo, ["feechange kind=%s base=%d mult=%d" % (kind, base, mult)])
        self.emit("allowfee s3")
        self.feeassets.add("s3")
        payer = self.acct(3, 5)
        self.emit("mint %s s3 %d" % (payer, U128))
        self.emit("mint %s s3 0" % self.sudo)
        self.emit("begin")
        self.emit("dump")
        self.emit("exec %s" % t1)
        self.emit("dump")
        if kind == "rollup":
            act = "rollup id=r2 len=%d fee=s3" % r.choice([1, 5, 10])
        else:
            b = sorted(self.bridges)[0] if self.bridges else "a6"
            act = "lock to=%s amt=0 asset=%s fee=s3 dest=%s" % (b, self.bridges.get(b, {"asset": "s0"})["asset"], self.dest())
        t2 = self.tx_lines(payer, [act])
        self.emit("exec %s" % t2)
        self.emit("dump")
        self.emit("deposits")
        self.emit("end")
        self.emit("bdeposits")
        self.emit("dump")
        # restore a sane schedule so that the rest of the history is not starved
        t3 = self.tx_lines(self.sudo, ["feechange kind=%s base=3 mult=1" % kind])
        self.emit("block %s" % t3)
        self.emit("dump")

    def run_txs(self, plan, manual):
        """execute the planned transactions [(signer, [actions], expected to take effect)] in one block: either
        one by one (`begin` / `exec` / `end`, each defined right before it runs, a dump after every step) or
        all at once through `block` (nonces counted per signer over the transactions expected to take effect)"""
        if manual:
            self.emit("begin")
            self.emit("dump")
            for signer, acts, _ in plan:
                t = self.tx_lines(signer, acts)
                self.defined.append(t)
                self.emit("exec %s" % t)
                self.emit("dump")
            self.emit("deposits")
            self.emit("end")
            self.emit("bdeposits")
            self.emit("dump")
            return
        ids, deltas = [], {}
        for signer, acts, ok in plan:
            d = deltas.get(signer, 0)
            t = self.tx_lines(signer, acts, "%+d" % d)
            self.defined.append(t)
            if ok:
                deltas[signer] = d + 1
            ids.append(t)
        self.emit("dump")
        self.emit("block " + " ".join(ids))
        self.emit("bdeposits")
        self.emit("dump")

    def fee_payment(self, payer, asset):
        """one or two fee-paying actions of `payer` with the fee in `asset`"""
        r = self.r
        acts = []
        for _ in range(r.choice([1, 1, 2])):
            c = r.random()
            if c < 0.5 or not self.bridges:
                acts.append("transfer to=%s amt=%d asset=s0 fee=%s" % (self.acct(0, 9), r.choice([1, 10, 1000]), asset))
            elif c < 0.75:
                acts.append("rollup id=r%d len=%d fee=%s" % (r.randint(0, 3), r.choice([1, 10, 100]), asset))
            else:
                b = r.choice(sorted(self.bridges))
                acts.append("lock to=%s amt=%d asset=%s fee=%s dest=%s" % (b, r.choice([1, 3]), self.bridges[b]["asset"], asset, self.dest()))
        return acts

    def feeasset_scenario(self):
        """the set of allowed fee assets changes between fee payments of ONE block: removal after a payment
        (the collected fee must still reach the fee recipient), payment after a removal (must fail), addition
        then payment, re-addition"""
        r = self.r
        self.emit("# scenario feeasset")
        x = r.choice(["s1", "s3"])
        y = "s3" if x == "s1" else "s1"
        payers = r.sample(["a3", "a4", "a5"], 3)
        self.emit("allowfee s0")
        self.emit("allowfee %s" % x)
        self.feeassets |= {"s0", x}
        for p in payers:
            self.emit("mint %s %s %d" % (p, x, r.choice([10 ** 9, 10 ** 12])))
            self.emit("mint %s %s %d" % (p, y, r.choice([10 ** 9, 10 ** 12])))
            self.emit("mint %s s0 %d" % (p, 10 ** 12))
        if r.random() < 0.3:
            self.emit("mint %s %s %d" % (self.sudo, x, r.choice([0, 5, U128 - 10 ** 6])))     # the fee recipient's own holding
        y_allowed = y in self.feeassets
        pattern = r.choice(["pay-remove", "pay-remove-pay", "remove-pay", "add-pay", "pay-remove-add-pay", "pay-remove-pay-add-pay",
                            "pay-pay-remove"])
        plan = []
        k = 0
        allowed = True
        for step in pattern.split("-"):
            if step == "pay":
                plan.append((payers[k % 3], self.fee_payment(payers[k % 3], x), allowed))
                k += 1
            elif step == "remove":
                plan.append((self.sudo, ["feeasset remove=%s" % x], allowed))
                allowed = False
            else:
                if pattern == "add-pay":             # a different asset becomes allowed and is used at once
                    plan.append((self.sudo, ["feeasset add=%s" % y], not y_allowed))
                    plan.append((payers[k % 3], self.fee_payment(payers[k % 3], y), True))
                    k += 1
                    self.feeassets.add(y)
                    break
                plan.append((self.sudo, ["feeasset add=%s" % x], not allowed))
                allowed = True
        if allowed:
            self.feeassets.add(x)
        else:
            self.feeassets.discard(x)
        self.run_txs(plan, manual=r.random() < 0.55)

    def nonce_scenario(self):
        """an account at the top of the u32 nonce range: u32::MAX - 1 executes once more, at u32::MAX every
        transaction must fail (checked_add), also when it is replayed in later blocks"""
        r = self.r
        self.emit("# scenario nonce")
        fresh = [a for a in ["a3", "a4", "a5", "a10", "a11"] if a not in self.nonce_edge]
        who = r.choice(fresh or ["a3", "a4", "a5", "a10", "a11"])
        self.nonce_edge.add(who)
        start = r.choice([U32 - 1, U32 - 1, U32])
        self.emit("mint %s s0 %d" % (who, 10 ** 12))
        self.emit("setnonce %s %d" % (who, start))
        self.emit("dump")

        def act():
            return r.choice(["transfer to=%s amt=%d asset=s0 fee=s0" % (self.acct(0, 9), r.choice([1, 1000])),
                             "rollup id=r1 len=%d fee=s0" % r.choice([1, 10])])
        if r.random() < 0.55:
            self.emit("begin")
            self.emit("dump")
            ids = []
            for _ in range(2 if start == U32 - 1 else 1):
                t = self.tx_lines(who, [act()])
                ids.append(t)
                self.emit("exec %s" % t)
                self.emit("dump")
            self.emit("exec %s" % ids[-1])              # the transaction carrying nonce u32::MAX, again
            self.emit("dump")
            if r.random() < 0.5:
                t = self.tx_lines(who, [act()], "+1")   # clamped to u32::MAX
                ids.append(t)
                self.emit("exec %s" % t)
                self.emit("dump")
            self.emit("deposits")
            self.emit("end")
            self.emit("bdeposits")
            self.emit("dump")
            # ... and in the next block
            if r.random() < 0.5:
                self.emit("begin")
                self.emit("dump")
                self.emit("exec %s" % ids[-1])
                self.emit("dump")
                self.emit("end")
                self.emit("dump")
            else:
                self.emit("block %s" % ids[-1])
                self.emit("dump")
        else:
            ids = []
            for k in range(2 if start == U32 - 1 else 1):
                ids.append(self.tx_lines(who, [act()], "%+d" % k))
            self.emit("dump")
            self.emit("block " + " ".join(ids))
            self.emit("dump")
            self.emit("block %s" % ids[-1])             # replay of the transaction carrying nonce u32::MAX
            self.emit("dump")
            t = self.tx_lines(who, [act()])
            self.emit("block %s %s" % (ids[-1], t))
            self.emit("dump")
        self.defined.extend(ids)

    def relay_scenario(self):
        """bundles [visible actions..., failing IbcRelay, ...] signed by a relayer, alone and mixed with
        ordinary, dropped and relayer-removing transactions in one block"""
        r = self.r
        self.emit("# scenario relay")
        if self.relayers and r.random() < 0.8:
            who = r.choice(sorted(self.relayers))
        else:
            who = r.choice(["a3", "a4", "a5"])
            t = self.tx_lines(self.ibcsudo, ["relayer add=%s" % who])
            self.emit("block %s" % t)
            self.emit("dump")
            self.relayers.add(who)
        self.emit("mint %s s0 %d" % (who, 10 ** 12))
        other = r.choice([a for a in ["a3", "a4", "a5"] if a != who])

        def bundle():
            n = r.randint(1, 4)
            i = r.randrange(n)
            acts = []
            for j in range(n):
                if j == i:
                    acts.append("ibcrelay bad=%d" % r.randint(0, 3))
                    continue
                c = r.random()
                if c < 0.45 or not self.bridges:
                    acts.append("transfer to=%s amt=%d asset=s0 fee=s0" % (self.acct(0, 9), r.choice([1, 10, 1000])))
                elif c < 0.75:
                    b = r.choice(sorted(self.bridges))
                    acts.append("lock to=%s amt=%d asset=%s fee=s0 dest=%s" % (b, r.choice([1, 3]), self.bridges[b]["asset"], self.dest()))
                elif c < 0.9:
                    acts.append("rollup id=r1 len=%d fee=s0" % r.choice([1, 20]))
                else:
                    acts.append("ibcrelay bad=%d" % r.randint(0, 3))
            return acts
        plan = []
        for _ in range(r.choice([1, 2, 3])):
            c = r.random()
            if c < 0.55:
                plan.append((who, bundle(), False))
            elif c < 0.7:
                plan.append((other, ["transfer to=%s amt=%d asset=s0 fee=s0" % (self.acct(0, 9), r.choice([1, 10]))], True))
            elif c < 0.8:
                plan.append((other, ["transfer to=%s amt=6 asset=s2 fee=s0" % self.acct(0, 9)], False))     # dropped: no funds
            elif c < 0.9:
                plan.append((who, ["transfer to=%s amt=%d asset=s0 fee=s0" % (self.acct(0, 9), r.choice([1, 10]))], True))
            else:
                plan.append((self.ibcsudo, ["relayer remove=%s" % who], True))      # the relayer check then fails at execution
                plan.append((who, bundle(), False))
                self.relayers.discard(who)
        self.run_txs(plan, manual=r.random() < 0.5)

    def manual_block(self):
        r = self.r
        self.emit("begin")
        self.emit("dump")
        for _ in range(r.choice([0, 1, 2, 2, 3, 4, 5])):
            rr = r.random()
            if rr < 0.08 and self.defined:
                self.emit("exec %s" % r.choice(self.defined))        # replay of an earlier transaction
                self.emit("dump")
                continue
            if rr < 0.13:
                self.emit("mint %s s%d %d" % (self.acct(0, 9), r.randint(0, 3), r.choice(BAL_POOL)))
                self.emit("dump")
            t, had_pre = self.next_tx({})
            if had_pre:
                self.emit("dump")
            self.emit("exec %s" % t)
            self.emit("dump")
        self.emit("deposits")
        self.emit("end")
        self.emit("bdeposits")
        self.emit("dump")

    def finalize_block(self):
        r = self.r
        ids = []
        deltas = {}
        bodies = set()
        for _ in range(r.choice([0, 1, 2, 3, 4, 5])):
            if r.random() < 0.08 and self.defined:
                t = r.choice(self.defined)
                if t not in ids:            # the base harness cannot tell two copies of one tx in a block apart
                    ids.append(t)
                continue
            t, _ = self.next_tx(deltas)
            if self.last_body in bodies:    # (same signer, nonce, actions) = same bytes = same tx id
                continue
            bodies.add(self.last_body)
            ids.append(t)
        self.emit("dump")
        self.emit("block " + " ".join(ids))
        self.emit("bdeposits")
        self.emit("dump")

    def build(self):
        r = self.r
        self.header()
        nblocks = r.choice([1, 2, 3, 3, 4, 5]) if self.quick else r.choice([2, 3, 4, 5, 5])
        for _ in range(nblocks):
            x = r.random()
            y = r.random()
            if x < (0.1 if self.focus == "c01" else 0.02) and self.sudo:
                self.f9_scenario()
            elif y < {"c01": 0.2, "c03": 0.06}.get(self.focus, 0.04):
                self.feeasset_scenario()
            elif y < {"c01": 0.23, "c03": 0.18}.get(self.focus, 0.07):
                self.nonce_scenario()
            elif y < {"c01": 0.27, "c03": 0.32}.get(self.focus, 0.11):
                self.relay_scenario()
            elif x < 0.68:
                self.manual_block()
            else:
                self.finalize_block()
        return self.L


def gen_cases(rng, tier, focus, n_quick, n_thorough):
    n = n_quick if tier == "quick" else n_thorough
    cases = []
    for i in range(n):
        adv = rng.random() < 0.15
        g = Gen(rng, "%s%s%d" % (focus[1:], "x" if adv else "n", i), focus, adversarial=adv, quick=(tier == "quick"))
        cases.append(g.build())
    return cases


# ------------------------------------------------------------------------------------------ check base class

RE_LEN = re.compile(r" len=\d+")
RE_HASH = re.compile(r" apphash=\S+")
RE_VUP = re.compile(r" vupdates=\S+")

F8_TEXT = ("F8 Ics20Withdrawal of a sequencer-origin asset under its ibc/<hash> denomination is burned instead of escrowed "
           "(checked_actions/ics20_withdrawal.rs is_source() is false for Denom::IbcPrefixed): the per-asset total of balances + "
           "escrow drops although no voucher left the chain")
F9_TEXT = ("F9 fee saturates: with base + multiplier*size >= 2^128 the fee charged is u128::MAX, not base + multiplier*size "
           "(checked_actions/utils.rs fee(): saturating_mul / saturating_add; reachable only through a FeeChange to ~u128::MAX by the sudo key)")


class LedgerCheck(CaseCheck):
    focus = None
    n_quick = 120
    n_thorough = 2500
    assumptions = [
        "cnidarium StateDelta (copy-on-write, try_begin_transaction / apply / drop, ephemeral object store) is modelled as a functional "
        "copy of the state: exec_tx returns the original state on error; its real behaviour is sampled through full dumps and raw state "
        "hashes around every failing transaction, not proved",
        "identifiers are integers: addresses a0..a15 (ed25519 keys [0x40+k;32]), assets s0..s3 (nria, transfer/channel-0/utia, "
        "transfer/channel-1/uosmo, ugly) incl. their ibc/<sha256> form, rollups r<k>, channels channel-0..2; bech32 prefixes are always "
        "the base prefix (ensure_base_prefix never fails); signatures, protobuf encoding, tx size and chain id checks are exercised by "
        "the correspondence only (the harness signs every tx with the stated key, so `signed by x` = the script's signer)",
        "IBC core (send_packet_check / send_packet_execute) is an oracle bit per channel: open transfer channel written by `ibcchan`; "
        "incoming ICS-20 packets (recv/ack/timeout, refunds) are property C18's and are not generated here",
        "only the post-Aspen validator-update path is modelled (genesis aspen=1, histories start at height >= 3); Blackburn activation "
        "(disableable bridge deposits, IbcRelay failures become non-fatal) is modelled with its activation height; price-feed and "
        "RecoverIbcClient actions are not generated; the only IbcRelay message generated is one that always fails execution (a client "
        "upgrade for a non-existing client): successful relaying (IBC core, incoming packets) is property C18's",
        "error texts are abstracted to the harness' error classes; when several actions of one transaction fail construction the class "
        "reported by the code is one of the model's (convert_actions runs the constructions concurrently)",
        "destination accounts are table accounts a0..a15 and channels channel-0..2 only (balances of other addresses are not dumped)",
    ]

    def gen(self, rng, tier):
        return gen_cases(rng, tier, self.focus, self.n_quick, self.n_thorough)

    # ---- implementation
    def impl(self, cases):
        if not cases:
            return []
        nsh = max(1, min(SHARDS, len(cases) // 8 or 1))
        shards = [cases[i::nsh] for i in range(nsh)]
        cargo_build()           # once, before the shard threads start

        def run(k):
            text = "\n".join("\n".join(c) for c in shards[k]) + "\n"
            lines = run_harness("astria-sequencer", "app::verif_ledger::drive", text, "%s_%d" % (self.pid.lower(), k))
            out, cur = [], None
            for l in lines:
                if l.startswith("case "):
                    cur = [l]
                    out.append(cur)
                elif cur is not None:
                    cur.append(l)
            if len(out) != len(shards[k]):
                raise TieBroken("harness returned %d cases for %d" % (len(out), len(shards[k])))
            return out
        with ThreadPoolExecutor(max_workers=nsh) as ex:
            res = list(ex.map(run, range(nsh)))
        out = [None] * len(cases)
        for k in range(nsh):
            for j, o in enumerate(res[k]):
                out[k + j * nsh] = o
        return out

    # ---- model
    def model_input(self, case, il):
        """script lines; after the first `dump` the implementation's dump as `init` lines"""
        lines = []
        try:
            ch = chunk(case, il)
        except ValueError:
            return None
        done = False
        for t, obs in ch:
            lines.append(" ".join(t))
            if t[0] == "dump" and not done:
                if obs[0] != "dump begin":
                    return None
                lines += ["init " + l for l in obs[1:-1]] + ["init end"]
                done = True
        return lines if done else None

    def model_all(self, cases, impl):
        inputs = [self.model_input(c, il) for c, il in zip(cases, impl)]
        text = "\n".join("\n".join(i) for i in inputs if i is not None) + "\n"
        outs, cur = [], None
        if text.strip():
            for l in run_model("ledger", text):
                if l.startswith("case "):
                    cur = [l]
                    outs.append(cur)
                elif cur is not None:
                    cur.append(l)
        it = iter(outs)
        res = []
        for c, il, i in zip(cases, impl, inputs):
            if i is None:
                res.append(None)
                continue
            ml = next(it)
            ci = self.canon(il)
            # construction errors: the code reports one of the failing actions' classes
            if len(ml) == len(ci):
                for k, (a, b) in enumerate(zip(ci, ml)):
                    if a != b and "constructerr=" in b and "constructerr=" in a:
                        pa, ca = a.rsplit("=", 1)
                        pb, cb = b.rsplit("=", 1)
                        if pa == pb and ca in cb.split("|"):
                            ml[k] = a
            res.append(ml)
        return res

    def canon(self, lines):
        out = []
        for l in lines:
            if l.startswith("rawhash "):
                continue
            if l.startswith("tx "):
                l = RE_LEN.sub("", l)
            elif l.startswith("block ") or l.startswith("end "):
                l = RE_VUP.sub("", RE_HASH.sub("", l))
            out.append(l)
        return out

    # ---- monitors: subclasses implement check(trace) -> [failure strings]
    def monitor(self, case, il):
        tr = Trace(case, il)
        if tr.error:
            return [tr.error]
        fails = []
        for e in tr.events:
            if e["k"] == "bad":
                fails.append("harness op failed: %s" % e["line"])
        return fails + self.check(tr)

    def check(self, tr):
        return []

    # ---- shrinking: keep the header (up to the dump that seeds the model) and demand the same kind of failure
    @staticmethod
    def fail_tag(kind, what):
        if kind == "monitor":
            return re.sub(r"^\[F\d+\] ", "", what).split(":")[0]
        m = re.search(r"impl='?(\w+)", what)
        return "corr-" + (m.group(1) if m else "")

    def shrink(self, case, kind):
        try:
            cut = case.index("dump") + 1
        except ValueError:
            return case
        head, ops = case[:cut], case[cut:]
        try:
            tags = {self.fail_tag(k, w) for k, w in self.evaluate([case])[0][3] if k == kind and not self.classify(w, case, None)}
        except Exception:
            return case
        if not tags:
            return case

        def fails(sub):
            try:
                f = self.evaluate([head + sub])[0][3]
            except Exception:
                return False
            if any("harness op failed" in w or "cannot align" in w for _, w in f):
                return False
            return any(k == kind and self.fail_tag(k, w) in tags and not self.classify(w, case, None) for k, w in f)
        try:
            return head + ddmin(ops, fails, max_runs=50)
        except Exception:
            return case

    def classify(self, what, case, il):
        if "[F9]" in what:
            return F9_TEXT
        if "[F8]" in what:
            return F8_TEXT
        return None

    def nontrivial(self, case, il):
        ok = sum(1 for l in il if (l.startswith("exec ") and " ok " in l + " ") or (l.startswith("txres ") and l.endswith("code=0")))
        bad = sum(1 for l in il if (l.startswith("exec ") and " err=" in l) or " dropped=" in l or "constructerr=" in l)
        return ok >= 3 and bad >= 1

    def stats(self, cases, impl):
        c = Counter()
        for case, il in zip(cases, impl):
            for l in case:
                t = l.split()
                if t and t[0] == "txr":
                    for a in parse_tx_actions(t[4:]):
                        c["action_" + a["name"]] += 1
                    c["txs"] += 1
                elif t and t[0] in ("block", "begin", "mint", "setnonce"):
                    c["op_" + t[0]] += 1
                elif len(t) >= 3 and t[0] == "#" and t[1] == "scenario":
                    c["scenario_" + t[2]] += 1
            for l in il:
                if l.startswith("exec "):
                    if " ok " in l + " ":
                        c["exec_ok"] += 1
                    else:
                        m = re.search(r"(err|constructerr)=(\S+)", l)
                        c["exec_%s_%s%s" % (m.group(1), m.group(2), "_nonfatal" if " included=1" in l else "") if m else "exec_other"] += 1
                elif l.startswith("txres "):
                    m = re.search(r"(code|dropped|constructerr)=(\S+)", l)
                    c["txres_%s_%s" % (m.group(1), m.group(2)) if m else "txres_unknown"] += 1
                elif l.endswith("builderr"):
                    c["builderr"] += 1
                elif l.startswith("block err") or l.startswith("end err"):
                    c[l.replace(" ", "_")] += 1
        return dict(c)
