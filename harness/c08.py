"""C08 — astria-merkle: model (coq/theories/Merkle) vs crates/astria-merkle.
Two passes: (1) build trees, roots and proofs; (2) verify honest and mutated proofs (every
mutation is computed here from pass-1 output, so both sides see identical explicit data)."""
import hashlib
from collections import Counter

from common import CaseCheck, run_harness, run_model, split_cases

U64 = 2 ** 64 - 1


def leaf(seed, k):
    return ("L%d:%d" % (seed, k)).encode()


def mth(hs):
    """independent RFC 6962 section 2.1 recursion on leaf hashes"""
    n = len(hs)
    if n == 0:
        return hashlib.sha256(b"").digest()
    if n == 1:
        return hs[0]
    k = 1
    while k * 2 < n:
        k *= 2
    return hashlib.sha256(b"\x01" + mth(hs[:k]) + mth(hs[k:])).digest()


def rfc_path(m, hs):
    n = len(hs)
    if n <= 1:
        return []
    k = 1
    while k * 2 < n:
        k *= 2
    if m < k:
        return rfc_path(m, hs[:k]) + [mth(hs[k:])]
    return rfc_path(m - k, hs[k:]) + [mth(hs[:k])]


def flip(b, bit):
    b = bytearray(b)
    b[(bit // 8) % len(b)] ^= 1 << (bit % 8)
    return bytes(b)


class C08(CaseCheck):
    pid = "C08"
    rule = ("pass 1: trees of every size 0..N (quick N=40, thorough N=130) x every leaf index, plus random sizes up to 2^16 "
            "(thorough) with sampled indices; pass 2: for each proof the honest verify plus single mutations (bit flip in "
            "leaf / in each path element / in root, path segment dropped / appended / truncated mid-segment, index±1, "
            "size±1/±2, size even, size 0, index >= 2^63, size = 2^64-1, size >= 2^63) and direct calls of every private "
            "index function on boundary values; non-trivial = tree with >= 2 leaves or a mutated proof; distinct = distinct script")
    assumptions = ["SHA-256 is abstract in the theorems (Section variable nodeH); collision freedom enters as the explicit Collision disjunct",
                   "leaf hashing (0x00 prefix) and the 32-byte chunking of the audit path are done by the driver, not the model"]

    # -- generation -----------------------------------------------------------------------------
    def gen(self, rng, tier):
        self.tier = tier
        cases = []
        top = 40 if tier == "quick" else 130
        for n in range(0, top + 1):
            seed = rng.randrange(1000)
            cases.append(["case tree %d %d" % (n, seed), "tree %d %d" % (n, seed), "root"] +
                         ["proof %d" % i for i in range(0, n + 2)])
        big = [rng.randrange(130, 3000) for _ in range(4)] if tier == "quick" else \
              [rng.randrange(130, 70000) for _ in range(12)] + [65535, 65536, 65537]
        for n in big:
            seed = rng.randrange(1000)
            idxs = sorted({0, 1, n - 1, n - 2, n // 2} | {rng.randrange(n) for _ in range(6)})
            cases.append(["case tree %d %d" % (n, seed), "tree %d %d" % (n, seed), "root"] +
                         ["proof %d" % i for i in idxs] + ["proof %d" % n])
        # index functions on boundary values
        vals = [0, 1, 2, 3, 4, 5, 6, 7, 8, 14, 15, 16, 2 ** 31, 2 ** 32 - 1, 2 ** 62, 2 ** 63 - 1, 2 ** 63, 2 ** 63 + 1,
                U64 - 2, U64 - 1, U64] + [rng.randrange(U64) for _ in range(10)] + [rng.randrange(200) for _ in range(10)]
        lines = ["case idx"]
        for f in ("last_set_bit", "last_zero_bit", "perfect_parent", "perfect_left_child", "perfect_right_child",
                  "complete_root", "is_perfect"):
            for v in vals:
                lines.append("idx %s %d" % (f, v))
        for f in ("complete_parent", "complete_right_child", "complete_parent_and_sibling",
                  "is_leaf_index_in_tree"):
            for _ in range(60 if tier == "quick" else 600):
                n = rng.choice([rng.randrange(1, 64), rng.randrange(1, 2000), rng.choice(vals)])
                i = rng.choice([rng.randrange(0, max(1, n)), rng.choice(vals), rng.randrange(0, 64)])
                lines.append("idx %s %d %d" % (f, i, n))
        cases.append(lines)
        return cases

    # -- execution ------------------------------------------------------------------------------
    def impl(self, cases):
        text = "\n".join("\n".join(c[:1] + [l for l in c[1:]]) for c in cases) + "\n"
        p1 = split_cases(run_harness("astria-merkle", "verif::drive", text, "c08"))
        # pass 2: verification scripts derived from pass-1 proofs
        self.p2, self.musts = [], []
        for c, il in zip(cases, p1):
            self.must = []
            self.p2.append(self.verify_script(c, il))
            self.musts.append(self.must)
        text2 = "\n".join("\n".join(["case v"] + v) for v in self.p2) + "\n"
        p2 = split_cases(run_harness("astria-merkle", "verif::drive", text2, "c08v"))
        return [a + b[1:] for a, b in zip(p1, p2)]

    def model_all(self, cases, impl):
        text = "\n".join("\n".join(c + v) for c, v in zip(cases, self.p2)) + "\n"
        return split_cases(run_model("c08", text))

    def verify_script(self, case, il):
        """honest + mutated verifications for the proofs of one case"""
        hdr = case[0].split()
        if hdr[1] != "tree":
            return []
        n, seed = int(hdr[2]), int(hdr[3])
        rng = __import__("random").Random("v/%d/%d" % (n, seed))
        root = next((l.split()[1] for l in il if l.startswith("root ")), None)
        if root is None or root == "panic":
            return []
        out = []
        self.must = []
        proofs = [l for l in il if l.startswith("proof idx=")]
        budget = 12 if n <= 40 else 4
        if len(proofs) > budget:
            proofs = rng.sample(proofs, budget)
        for l in proofs:
            kv = dict(x.split("=", 1) for x in l.split()[1:])
            idx, size = int(kv["idx"]), int(kv["size"])
            segs = [] if kv["path"] == "-" else kv["path"].split(",")
            lf = leaf(seed, idx).hex()

            def v(path=None, i=idx, s=size, leafhex=lf, r=root, must=None):
                p = "".join(segs if path is None else path)
                out.append("verify %s %d %d %s %s" % (p or "-", i, s, leafhex, r))
                self.must.append(must)
            v(must=True)
            v(leafhex=flip(bytes.fromhex(lf), rng.randrange(8 * len(lf) // 2)).hex(), must=False)
            v(leafhex=lf + "00", must=False)
            v(r=flip(bytes.fromhex(root), rng.randrange(256)).hex(), must=False)
            # structured root edits: the same mask xor-ed into two bytes (defeats an xor-accumulating compare),
            # two bytes swapped, a flip in the last byte, everything complemented
            rb = bytearray(bytes.fromhex(root))
            i1, i2 = rng.sample(range(32), 2)
            m = rng.randrange(1, 256)
            r2 = bytearray(rb); r2[i1] ^= m; r2[i2] ^= m
            v(r=bytes(r2).hex(), must=False)
            if rb[i1] != rb[i2]:
                r3 = bytearray(rb); r3[i1], r3[i2] = r3[i2], r3[i1]
                v(r=bytes(r3).hex(), must=False)
            r4 = bytearray(rb); r4[31] ^= 1
            v(r=bytes(r4).hex(), must=False)
            v(r=bytes(b ^ 0xFF for b in rb).hex(), must=False)
            for j in range(len(segs)):
                if len(segs) <= 4 or rng.random() < 0.4:
                    m = list(segs)
                    m[j] = flip(bytes.fromhex(m[j]), rng.randrange(256)).hex()
                    v(path=m, must=False)
            if segs:
                v(path=segs[:-1])
                v(path=segs[1:])
                v(path=segs[:-1] + [segs[-1][:40]])
                if len(segs) >= 2:
                    v(path=[segs[1], segs[0]] + segs[2:])
            v(path=segs + [root])
            v(path=segs + ["ab" * 32, "cd" * 32])
            v(path=segs + ["00" * 32] * 70)
            for di in (-1, 1):
                if idx + di >= 0:
                    v(i=idx + di)
            for ds in (-2, -1, 1, 2):
                if size + ds >= 0:
                    v(s=size + ds)
            v(s=0)
            v(i=2 ** 63)
            v(i=2 ** 63 - 1, s=U64)
            v(i=U64)
            v(s=U64)
            v(s=2 ** 63)
            v(s=2 ** 63 + 1)
            v(i=rng.randrange(2 ** 62), s=rng.randrange(2 ** 63, U64))
        return out

    # -- oracle on the implementation alone ----------------------------------------------------------
    def monitor(self, case, il):
        fails = []
        hdr = case[0].split()
        for l in il:
            if l.endswith("panic") and not l.startswith("idx "):
                fails.append("panic: %r" % l)
        if hdr[1] != "tree":
            return fails
        n, seed = int(hdr[2]), int(hdr[3])
        hs = [hashlib.sha256(b"\x00" + leaf(seed, k)).digest() for k in range(n)]
        want = mth(hs).hex()
        root = next((l.split()[1] for l in il if l.startswith("root ")), None)
        if root != want:
            fails.append("root of %d leaves is not the RFC 6962 tree hash: %s vs %s" % (n, root, want))
        for l in il:
            if l.startswith("proof idx="):
                kv = dict(x.split("=", 1) for x in l.split()[1:])
                got = [] if kv["path"] == "-" else kv["path"].split(",")
                if n <= 300 and got != [h.hex() for h in rfc_path(int(kv["idx"]), hs)]:
                    fails.append("audit path for leaf %s of %d is not the RFC 6962 path" % (kv["idx"], n))
        # pass 2: the honest proof must verify; a changed leaf, path element or root must not.
        # (changed index / size / path length only have to agree with the model and not panic)
        k = self.cur_index(case)
        res = [l for l in il if l.startswith("verify ")]
        for cmd, must, r in zip(self.p2[k], self.musts[k], res):
            if must is True and "ok=true" not in r:
                fails.append("honest proof rejected: %s -> %s" % (cmd[:160], r))
            if must is False and "ok=true" in r:
                fails.append("proof with a changed leaf/path element/root accepted: %s -> %s" % (cmd[:200], r))
        return fails

    def cur_index(self, case):
        return self._index[id(case)]

    def evaluate(self, cases):
        self._index = {id(c): k for k, c in enumerate(cases)}
        return super().evaluate(cases)

    def nontrivial(self, case, il):
        hdr = case[0].split()
        return hdr[1] == "idx" or int(hdr[2]) >= 2

    def shrink(self, case, kind):
        return case   # cases are already minimal units (one tree); the failing line is in the replay

    def stats(self, cases, impl):
        c = Counter()
        for il in impl:
            for l in il[1:]:
                t = l.split()
                key = t[0]
                if t[0] == "verify":
                    key += "_" + t[1].split("=")[0] + ("=" + t[1].split("=")[1] if t[1].startswith(("ok", "err")) else "")
                c[key] += 1
        return dict(c)


CHECK = C08()
