"""C01 — ledger conservation: value only moves; fees are exact and fully routed.
Model coq/theories/Ledger vs crates/astria-sequencer (accounts/state_ext.rs, checked_actions/*,
fees/*, app/mod.rs end_block).  See ledger_common.py for generator and observation parser."""
import re

from ledger_common import (CHANNELS, NACC, PAYING, U128, LedgerCheck, action_flows, action_variable, asset_index,
                           asset_is_ibc_form, ics20_is_source)

ASSETS = range(4)


def expected_fee(table, act):
    """base + mult*size under the fee schedule `table` (exact integers)"""
    f = table.get(act["name"])
    if f is None:
        return None
    return f[0] + f[1] * action_variable(act)


class C01(LedgerCheck):
    pid = "C01"
    focus = "c01"
    n_quick = 110
    n_thorough = 2000
    rule = ("seeded histories as for C03 (same generator, weights shifted to transfers / locks / withdrawals / fee changes), amounts in "
            "{0,1,small,bal-1,bal,bal+1 via exact mints,2^64,2^127,u128::MAX}, every allowed and non-allowed fee asset incl. the ibc/<hash> "
            "form, fee schedules up to u128::MAX (the saturation edge F9 is driven explicitly in ~10% of the cases), outgoing ICS-20 "
            "withdrawals of source / voucher / ibc-hash denominations; fee-asset scenarios in ~20% of the blocks (the allowed-fee-asset set "
            "changes between fee payments of one block: removal after payment, payment after removal, addition then payment, re-addition; "
            "in begin/exec/end blocks and through finalize_block), so that the routing of the block fees is checked for assets whose "
            "allowed status changed during the block; after every transaction and every block the monitor sums all "
            "balances + escrow + block fees per asset over the dump. non-trivial = >= 3 transactions took effect and >= 1 failed; "
            "distinct = distinct script text")
    assumptions = LedgerCheck.assumptions + [
        "minting/burning by IBC: only the outgoing side (Ics20Withdrawal) is generated; the monitor's expected burn is the ICS-20 rule "
        "(a denomination whose trace starts with the packet's source port/channel is a voucher and is burned, anything else is escrowed)",
        "block_conserves hypothesis: the credit of the block fees to the fee recipient does not overflow (if it does, finalize_block "
        "fails and there is no state after the block; the harness reports `end err=overflow` / `block err=overflow`)",
    ]

    def check_exec(self, tr, i, e, pre, post, fails):
        tx = e["tx"]
        tid = e["id"]
        signer = tx["signer"]
        acts = tx["actions"]
        # --- fee events: one per paying action, exact amount, signer's fee asset
        fees_by_asset = {}
        paying = [(k, a) for k, a in enumerate(acts) if a["name"] in PAYING]
        if len(e["fees"]) != len(paying):
            fails.append("fee: tx %s has %d paying actions but %d fee events" % (tid, len(paying), len(e["fees"])))
        for (k, a), f in zip(paying, e["fees"]):
            want = expected_fee(pre.fee, a)
            fa = asset_index(a["fee"])
            if f["pos"] != k or f["kind"] != a["name"] or f["asset_i"] != fa:
                fails.append("fee: tx %s action %d (%s, fee asset s%d): event says pos=%d kind=%s asset=%s"
                             % (tid, k, a["name"], fa, f["pos"], f["kind"], f["asset"]))
            if want is None:
                fails.append("fee: tx %s action %d (%s) executed although no fee is configured" % (tid, k, a["name"]))
            elif f["amount"] != want:
                tag = "[F9] " if want > U128 and f["amount"] == U128 else ""
                fails.append("%sfee: tx %s action %d (%s): charged %d, configured base + mult*size = %d + %d*%d = %d"
                             % (tag, tid, k, a["name"], f["amount"], pre.fee[a["name"]][0], pre.fee[a["name"]][1],
                                action_variable(a), want))
            fees_by_asset[f["asset_i"]] = fees_by_asset.get(f["asset_i"], 0) + f["amount"]
        # --- block fees grow by exactly the fee events
        for k in ASSETS:
            d = post.blockfees.get(k, 0) - pre.blockfees.get(k, 0)
            if d != fees_by_asset.get(k, 0):
                fails.append("fee: tx %s: block fees of s%d grew by %d, fee events sum to %d" % (tid, k, d, fees_by_asset.get(k, 0)))
        # --- value only moves along the declared transfers; fees come from the signer only
        delta = {}
        esc = {}
        burn = {}
        f8 = {}          # (channel, asset) -> amount withdrawn under the ibc/<hash> form of a source denomination
        ok = True
        for a in acts:
            fl = action_flows(a, signer, pre)
            if fl is None:
                ok = False
                break
            for frm, to, k, amt in fl:
                delta[(frm, k)] = delta.get((frm, k), 0) - amt
                if to is None:
                    burn[k] = burn.get(k, 0) + amt
                elif isinstance(to, tuple):
                    esc[(to[1], k)] = esc.get((to[1], k), 0) + amt
                    if a["name"] == "ics20w" and asset_is_ibc_form(a["denom"]):
                        f8[(to[1], k)] = f8.get((to[1], k), 0) + amt
                else:
                    delta[(to, k)] = delta.get((to, k), 0) + amt
        for k, v in fees_by_asset.items():
            delta[(signer, k)] = delta.get((signer, k), 0) - v
        if ok:
            for acc in ["a%d" % n for n in range(NACC)]:
                for k in ASSETS:
                    got = post.b(acc, k) - pre.b(acc, k)
                    want = delta.get((acc, k), 0)
                    if got != want:
                        fails.append("movement: tx %s signed by %s: balance of %s in s%d changed by %d, its actions and fees account for %d"
                                     % (tid, signer, acc, k, got, want))
            for c in CHANNELS:
                for k in ASSETS:
                    got = post.escrow.get((c, k), 0) - pre.escrow.get((c, k), 0)
                    want = esc.get((c, k), 0)
                    if got != want:
                        tag = "[F8] " if f8.get((c, k), 0) > 0 and want - got == f8[(c, k)] else ""
                        fails.append("%smovement: tx %s: escrow of %s in s%d changed by %d, its withdrawals account for %d"
                                     % (tag, tid, c, k, got, want))
        # --- conservation per asset (balances + escrow + block fees), up to the ICS-20 burns
        for k in ASSETS:
            if post.total(k) + burn.get(k, 0) != pre.total(k):
                lost = pre.total(k) - post.total(k) - burn.get(k, 0)
                f8k = sum(v for (c, kk), v in f8.items() if kk == k)
                tag = "[F8] " if f8k > 0 and lost == f8k else ""
                fails.append("%sconservation: tx %s: total of s%d went from %d to %d (ICS-20 burn %d)"
                             % (tag, tid, k, pre.total(k), post.total(k), burn.get(k, 0)))

    def check(self, tr):
        fails = []
        ev = tr.events
        for i, e in enumerate(ev):
            if e["k"] == "exec" and e["status"] == "ok" and e["tx"] is not None:
                pre, post = tr.dump_before(i), tr.dump_after(i)
                if pre is not None and post is not None:
                    self.check_exec(tr, i, e, pre, post, fails)
            elif e["k"] == "exec" and e["status"] in ("err", "constructerr"):
                pre, post = tr.dump_before(i), tr.dump_after(i)
                if pre is not None and post is not None:
                    for k in ASSETS:
                        if pre.total(k) != post.total(k) or pre.blockfees.get(k, 0) != post.blockfees.get(k, 0):
                            fails.append("conservation: failed tx %s changed the total / block fees of s%d" % (e["id"], k))
            elif e["k"] == "end" and e["ok"]:
                # fees of the block go to the fee recipient (the sudo address at the end of the block)
                post = tr.dump_after(i)
                pre = self.last_dump_in_block(tr, i)
                if pre is None or post is None:
                    continue
                for acc in ["a%d" % n for n in range(NACC)]:
                    for k in ASSETS:
                        want = pre.b(acc, k) + (pre.blockfees.get(k, 0) if acc == pre.sudo else 0)
                        if post.b(acc, k) != want:
                            fails.append("routing: at the end of the block %s holds %d of s%d; before the end it held %d, block fees %d, fee recipient %s"
                                         % (acc, post.b(acc, k), k, pre.b(acc, k), pre.blockfees.get(k, 0), pre.sudo))
                if post.blockfees:
                    fails.append("routing: block fees survive the end of the block: %s" % post.blockfees)
                if pre.escrow != post.escrow:
                    fails.append("conservation: ending the block changed the escrow balances")
            elif e["k"] == "block" and e["ok"]:
                pre, post = tr.dump_before(i), tr.dump_after(i)
                if pre is None or post is None:
                    continue
                burn, f8 = {}, {}
                for tid, st, x, tx in e["results"]:
                    if st == "code" and x == "0" and tx is not None:
                        for a in tx["actions"]:
                            if a["name"] == "ics20w":
                                k = asset_index(a["denom"])
                                if not ics20_is_source(k, a["chan"]):
                                    burn[k] = burn.get(k, 0) + int(a["amt"])
                                elif asset_is_ibc_form(a["denom"]):
                                    f8[k] = f8.get(k, 0) + int(a["amt"])
                for k in ASSETS:
                    if post.total(k, with_fees=False) + burn.get(k, 0) != pre.total(k, with_fees=False):
                        lost = pre.total(k, False) - post.total(k, False) - burn.get(k, 0)
                        fails.append("%sconservation: block: total of s%d went from %d to %d (ICS-20 burn %d)"
                                     % ("[F8] " if f8.get(k, 0) > 0 and lost == f8[k] else "", k, pre.total(k, False), post.total(k, False), burn.get(k, 0)))
                if post.blockfees:
                    fails.append("routing: block fees survive the block: %s" % post.blockfees)
        return fails

    @staticmethod
    def last_dump_in_block(tr, end_idx):
        """the dump taken after the last state change before `end` (deposits listing may sit in between)"""
        j = end_idx - 1
        while j >= 0 and tr.events[j]["k"] in ("deposits", "txdef"):
            j -= 1
        return tr.events[j]["d"] if j >= 0 and tr.events[j]["k"] == "dump" else None


CHECK = C01()
