"""C16 — composer BundleFactory: model (coq/theories/Bundle) vs crates/astria-composer."""
from collections import Counter

from common import CaseCheck, run_harness, run_model, split_cases

OVERHEAD = 108   # approx. prost overhead of a RollupDataSubmission with an ibc-prefixed fee asset


class C16(CaseCheck):
    pid = "C16"
    rule = ("seeded op scripts push/popf/popn on a fresh BundleFactory(max,cap); sizes drawn around max "
            "(max-2..max+2, max/2±1, small), caps 0..3; every script ends by draining; a case is "
            "non-trivial when it contains at least one flush into the finished queue or a refusal; "
            "distinct = distinct script text")
    assumptions = ["encoded sizes are inputs of the model (taken from prost's encoded_len on the real action)",
                   "2*max <= usize::MAX (theorem hypothesis; all encoded actions of a bundle coexist in memory)"]

    def gen(self, rng, tier):
        n = 400 if tier == "quick" else 20000
        cases = []
        for _ in range(n):
            mx = rng.choice([120, 150, 200, 250, 400, 1000, 5000])
            cap = rng.choice([0, 1, 1, 2, 3])
            lines = ["case %d %d" % (mx, cap)]
            nid = 1
            for _ in range(rng.randint(1, 60)):
                r = rng.random()
                if r < 0.72:
                    body = mx - OVERHEAD
                    target = rng.choice([body + d for d in (-3, -2, -1, 0, 1, 2)] +
                                        [body // 2 + d for d in (-1, 0, 1)] +
                                        [body // 3, 0, 1, 5, body // 4, body * 2])
                    lines.append("push %d %d" % (nid, max(0, target)))
                    nid += 1
                elif r < 0.88:
                    lines.append("popf")
                else:
                    lines.append("popn")
            lines += ["popn"] * (cap + 2)     # drain: finished queue, current bundle, then an empty one
            cases.append(lines)
        return cases

    def impl(self, cases):
        text = "\n".join("\n".join(c) for c in cases) + "\n"
        return split_cases(run_harness("astria-composer", "executor::bundle_factory::verif::drive", text, "c16"))

    def model_all(self, cases, impl):
        text = "\n".join("\n".join(il) for il in impl) + "\n"
        return split_cases(run_model("c16", text))

    def canon(self, lines):
        return [" ".join(t for t in l.split() if not t.startswith("real=")) for l in lines]

    def monitor(self, case, il):
        """C16's conclusions evaluated directly on the implementation's observations."""
        fails = []
        mx = int(case[0].split()[1])
        accepted, emitted = [], []
        for l in il[1:]:
            t = l.split()
            kv = dict(x.split("=", 1) for x in t if "=" in x)
            if "panic" in t:
                fails.append("panic at %r" % l)
            if t[0] == "push":
                size = int(kv["size"])
                if kv["res"] == "ok":
                    accepted.append(t[1])
                if (kv["res"] == "toolarge") != (size > mx):
                    fails.append("refusal rule: size=%d max=%d res=%s" % (size, mx, kv["res"]))
            elif len(t) > 1 and t[1] == "bundle":
                if int(kv["real"]) > mx:
                    fails.append("emitted bundle of encoded size %s > max %d" % (kv["real"], mx))
                if kv["real"] != kv["size"]:
                    fails.append("bundle reports size %s but holds %s bytes" % (kv["size"], kv["real"]))
                emitted += [x for x in kv["ids"].split(",") if x]
        if emitted != accepted[:len(emitted)]:
            fails.append("emitted ids are not a prefix of the accepted ids: %s vs %s" % (emitted[:20], accepted[:20]))
        elif case[-1] == "popn" and il[-1].endswith("count=0 ids=") and emitted != accepted:
            fails.append("accepted transactions lost after draining: accepted %d emitted %d" % (len(accepted), len(emitted)))
        return fails

    def nontrivial(self, case, il):
        return any("res=full" in l or "res=toolarge" in l for l in il) or \
            sum(1 for l in il if " bundle " in l and "count=0" not in l) >= 2

    def stats(self, cases, impl):
        c = Counter()
        for il in impl:
            for l in il[1:]:
                t = l.split()
                if t[0] == "push":
                    c["push_" + t[3].split("=")[1]] += 1
                else:
                    c[t[0] + ("_none" if t[1] == "none" else "_bundle")] += 1
        return dict(c)


CHECK = C16()
