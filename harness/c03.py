"""C03 — transactions are atomic and execute at most once, in nonce order.
Model coq/theories/Ledger vs crates/astria-sequencer (checked_transaction/mod.rs, app/mod.rs
execute_transaction).  See ledger_common.py for the script generator and the observation parser."""
from ledger_common import LedgerCheck


class C03(LedgerCheck):
    pid = "C03"
    focus = "c03"
    n_quick = 110
    n_thorough = 2000
    rule = ("seeded histories on a fresh chain (4-6 genesis accounts incl. balances 0/1/huge, 2-3 assets, 2-3 bridge accounts, "
            "Blackburn at 3/never/mid-history): 1-5 blocks, each either executed transaction by transaction (begin / exec / end with a "
            "full state dump before and after every exec) or through finalize_block + commit; 0-5 txs per block, 1-4 actions per tx over "
            "transfer, lock, unlock, bridge transfer, ICS-20 withdrawal, rollup data, validator update, fee change, fee-asset change, "
            "relayer change, sudo / ibc-sudo change, init bridge, bridge sudo change; nonces relative to the signer's current nonce "
            "(+0 valid, gapped, stale), replays of earlier transactions, bundles whose action at index i (every i) passes construction "
            "and fails at execution (insufficient funds / credit overflow / event id reused inside the bundle / a failing IbcRelay "
            "message signed by an IBC relayer: fatal before Blackburn, non-fatal = included with an error code afterwards) after actions "
            "with visible effects; relay scenarios (such bundles alone and mixed with ordinary, dropped and relayer-removing transactions "
            "in one block, executed one by one and through finalize_block); nonce-edge scenarios (`setnonce` puts an account at "
            "u32::MAX-1 / u32::MAX: one more execution, then every transaction incl. replays in later blocks must fail); fee-asset "
            "changes between payments of one block; 15% adversarial cases (random signers, 35% bad nonces). non-trivial = >= 3 "
            "transactions took effect and >= 1 failed or was refused; distinct = distinct script text")

    def check(self, tr):
        fails = []
        ev = tr.events
        for i, e in enumerate(ev):
            if e["k"] == "exec":
                pre, post = tr.dump_before(i), tr.dump_after(i)
                tx = e["tx"]
                if e["status"] == "err" and e.get("cls") == "noblock":
                    continue
                if e["status"] == "err":
                    # atomicity: a failing transaction leaves no trace - whether it is dropped from the block (fatal
                    # error) or stays in it with an error result (non-fatal error, `included=1`)
                    how = "%s, non-fatal: included in the block" % e["cls"] if e.get("included") else e["cls"]
                    if e.get("unchanged") != "true":
                        fails.append("atomicity: failed tx %s (%s) changed the raw state / block fees / cached deposits: %s"
                                     % (e["id"], how, e["line"]))
                    if pre is not None and post is not None and not pre.same_as(post):
                        diff = [l for l in post.lines if l not in pre.lines][:4]
                        fails.append("atomicity: state dump differs after failed tx %s (%s): %s" % (e["id"], how, diff))
                elif e["status"] in ("constructerr", "unknown", "err=noblock"):
                    if pre is not None and post is not None and not pre.same_as(post):
                        fails.append("atomicity: state dump differs after refused tx %s" % e["id"])
                elif e["status"] == "ok" and tx is not None and pre is not None and post is not None:
                    s = tx["signer"]
                    if pre.nonce.get(s, 0) != tx["nonce"]:
                        fails.append("nonce: tx %s with nonce %d took effect while the signer's nonce was %d"
                                     % (e["id"], tx["nonce"], pre.nonce.get(s, 0)))
                    if post.nonce.get(s, 0) != pre.nonce.get(s, 0) + 1:
                        fails.append("nonce: tx %s raised the signer's nonce from %d to %d"
                                     % (e["id"], pre.nonce.get(s, 0), post.nonce.get(s, 0)))
                    for a in set(pre.nonce) | set(post.nonce):
                        if a != s and pre.nonce.get(a, 0) != post.nonce.get(a, 0):
                            fails.append("nonce: tx %s changed the nonce of %s" % (e["id"], a))
            elif e["k"] == "block" and e["ok"]:
                pre, post = tr.dump_before(i), tr.dump_after(i)
                if pre is None or post is None:
                    continue
                # per signer: the successful txs carry exactly the nonces pre, pre+1, ... in block order
                expect = dict(pre.nonce)
                for tid, st, x, tx in e["results"]:
                    if st == "code" and x == "0" and tx is not None:
                        s = tx["signer"]
                        if tx["nonce"] != expect.get(s, 0):
                            fails.append("nonce: tx %s with nonce %d took effect in a block while the signer's nonce was %d"
                                         % (tid, tx["nonce"], expect.get(s, 0)))
                        expect[s] = expect.get(s, 0) + 1
                for a in set(expect) | set(post.nonce):
                    if expect.get(a, 0) != post.nonce.get(a, 0):
                        fails.append("nonce: after the block the nonce of %s is %d, the transactions that took effect account for %d"
                                     % (a, post.nonce.get(a, 0), expect.get(a, 0)))
                if not any(st == "code" and x == "0" for _, st, x, _ in e["results"]):
                    # nothing took effect (every tx was refused, dropped or included with an error code): only the
                    # height may differ -> compare ledgers, and no deposit may be published
                    failed = ",".join("%s:%s=%s" % (tid, st, x) for tid, st, x, _ in e["results"]) or "no txs"
                    for key in ("bal", "nonce", "escrow", "bridge", "wevent"):
                        if getattr(pre, key) != getattr(post, key):
                            fails.append("atomicity: block without any successful tx changed %s (%s)" % (key, failed))
                    if i + 1 < len(ev) and ev[i + 1]["k"] == "bdeposits" and ev[i + 1]["list"]:
                        fails.append("atomicity: block without any successful tx published deposits (%s)" % failed)
            elif e["k"] == "block" and not e["ok"]:
                pre, post = tr.dump_before(i), tr.dump_after(i)
                if pre is not None and post is not None and not pre.same_as(post):
                    fails.append("atomicity: a block that failed to finalize changed the state")
        # at most once over the whole (committed) history.  `setnonce` is a write of the harness that no chain
        # operation can do: it starts a new history for that account.
        seen = {}
        marks = [(i, None, e["args"][0]) for i, e in enumerate(ev) if e["k"] == "god" and e["op"] == "setnonce" and e["args"]]
        marks += [(i, tx, None) for i, tx in tr.successful_txs(with_pos=True)]
        for _, tx, reset in sorted(marks, key=lambda m: (m[0], m[1] is not None)):
            if tx is None:
                seen = {k: v for k, v in seen.items() if k[0] != reset}
                continue
            key = (tx["signer"], tx["nonce"])
            if key in seen:
                fails.append("replay: signer %s nonce %d took effect twice (txs %s and %s)" % (key[0], key[1], seen[key], tx["id"]))
            seen[key] = tx["id"]
        return fails


CHECK = C03()
