"""Shared machinery for all checks: building /repo's harness binaries, building the Coq
development (with the Admitted/Axiom gate and the Print Assumptions allow-list), running the
extracted model driver, diffing, shrinking, known-findings and evidence writing."""
import fcntl
import hashlib
import json
import os
import random
import re
import subprocess
import sys
import time

VERIF = os.path.dirname(os.path.dirname(os.path.abspath(__file__)))
REPO = os.environ.get("VERIF_REPO", "/repo")
COQ = os.path.join(VERIF, "coq")
CACHE = os.path.join(VERIF, ".cache")
EVID = os.path.join(VERIF, "evidence")
REPLAYS = os.path.join(EVID, "replays")
DRIVER = os.path.join(COQ, "extraction", "build", "driver")

# crate -> cargo package; every one has a `verif` cargo feature guarding the in-crate harness
HOOKED = ["astria-merkle", "astria-composer", "astria-conductor", "astria-sequencer",
          "astria-sequencer-relayer", "astria-core"]

# axioms of the standard library that may appear under Print Assumptions (named in DESIGN 2.2)
ALLOWED_AXIOMS = {
    "functional_extensionality_dep", "FunctionalExtensionality.functional_extensionality_dep",
    "proof_irrelevance", "ProofIrrelevance.proof_irrelevance", "JMeq_eq", "JMeq.JMeq_eq",
    "Eqdep.Eq_rect_eq.eq_rect_eq", "eq_rect_eq", "Classical_Prop.classic", "classic",
    "propositional_extensionality", "PropExtensionality.propositional_extensionality",
}

GATE_RE = re.compile(
    r"\b(Admitted|admit|Axiom|Axioms|Parameter|Parameters|Conjecture|Conjectures|Admit Obligations|"
    r"bypass_check|Unset Guard Checking|Unset Positivity Checking|Unset Universe Checking)\b|"
    r"type-in-type|impredicative-set")


def log(*a):
    print(*a, file=sys.stderr, flush=True)


def sh(cmd, cwd=None, env=None, timeout=None, check=False, stdin=None):
    e = dict(os.environ)
    e.setdefault("CARGO_NET_OFFLINE", "true")
    if env:
        e.update(env)
    p = subprocess.run(cmd, cwd=cwd, env=e, timeout=timeout, shell=isinstance(cmd, str),
                       stdout=subprocess.PIPE, stderr=subprocess.PIPE, input=stdin)
    if check and p.returncode != 0:
        raise RuntimeError("command failed (%s): %s\n%s\n%s" % (
            p.returncode, cmd, p.stdout.decode(errors="replace")[-4000:],
            p.stderr.decode(errors="replace")[-4000:]))
    return p


class Lock:
    def __init__(self, name):
        os.makedirs(CACHE, exist_ok=True)
        self.path = os.path.join(CACHE, name + ".lock")

    def __enter__(self):
        self.f = open(self.path, "w")
        fcntl.flock(self.f, fcntl.LOCK_EX)
        return self

    def __exit__(self, *a):
        fcntl.flock(self.f, fcntl.LOCK_UN)
        self.f.close()


# --------------------------------------------------------------------------- Rust side

class TieBroken(Exception):
    """The harness could not be built or run against /repo's current tree."""


def hooked_crates():
    out = []
    for c in HOOKED:
        p = os.path.join(REPO, "crates", c, "Cargo.toml")
        try:
            if re.search(r"^verif\s*=", open(p).read(), re.M):
                out.append(c)
        except OSError:
            pass
    return out


_built = None


def cargo_build():
    """Build all hooked crates' lib-test binaries in one cargo invocation (one feature
    resolution, shared with every other check) from /repo's current working tree."""
    global _built
    if _built is not None:
        return _built
    crates = hooked_crates()
    cmd = ["cargo", "test", "--offline", "--lib", "--no-run", "--message-format=json"]
    for c in crates:
        cmd += ["-p", c]
    cmd += ["--features", ",".join(c + "/verif" for c in crates)]
    with Lock("cargo"):
        t0 = time.time()
        p = sh(cmd, cwd=REPO, timeout=3600)
        log("[cargo] build of %d hooked crates: %.0fs rc=%d" % (len(crates), time.time() - t0, p.returncode))
    exes = {}
    errors = []
    for line in p.stdout.decode(errors="replace").splitlines():
        if not line.startswith("{"):
            continue
        try:
            m = json.loads(line)
        except ValueError:
            continue
        if m.get("reason") == "compiler-artifact" and m.get("executable") and m.get("profile", {}).get("test"):
            name = m["target"]["name"].replace("_", "-")
            exes[name] = m["executable"]
        if m.get("reason") == "compiler-message" and m["message"].get("level") == "error":
            errors.append(m["message"].get("rendered", "")[:2000])
    if p.returncode != 0:
        raise TieBroken("cargo build of the harness failed:\n" + "\n".join(errors[:5]) +
                        p.stderr.decode(errors="replace")[-3000:])
    _built = exes
    return exes


def run_harness(crate, test_path, script_text, tag, env=None, timeout=1800):
    """Run the in-crate `drive` test of `crate` on a script; returns the observation lines."""
    exes = cargo_build()
    if crate not in exes:
        raise TieBroken("no test binary for %s (have %s)" % (crate, sorted(exes)))
    os.makedirs(os.path.join(CACHE, "run"), exist_ok=True)
    inp = os.path.join(CACHE, "run", "%s.%d.in" % (tag, os.getpid()))
    outp = os.path.join(CACHE, "run", "%s.%d.out" % (tag, os.getpid()))
    open(inp, "w").write(script_text)
    if os.path.exists(outp):
        os.remove(outp)
    e = {"VERIF_IN": inp, "VERIF_OUT": outp, "RUST_BACKTRACE": "0", "RUST_LOG": "off"}
    if env:
        e.update(env)
    cwd = os.path.join(REPO, "crates", crate)
    p = None
    for attempt in range(4):
        try:
            p = sh([exes[crate], test_path, "--exact", "--test-threads=1"], cwd=cwd, env=e, timeout=timeout)
            break
        except OSError as ex:
            # ENOENT / ETXTBSY: another check's cargo invocation is relinking this very test binary
            # (checks started together share /repo/target).  Wait for that cargo run to finish
            # (the lock), ask cargo again where the binary is, and retry.
            log("[harness] test binary of %s not runnable (%s); waiting for cargo and retrying" % (crate, ex))
            global _built
            time.sleep(5 + 10 * attempt)
            _built = None
            exes = cargo_build()
    if p is None:
        raise TieBroken("test binary of %s could not be executed after 4 attempts" % crate)
    if p.returncode != 0 or not os.path.exists(outp):
        raise TieBroken("harness %s::%s failed rc=%s\n%s\n%s" % (
            crate, test_path, p.returncode, p.stdout.decode(errors="replace")[-3000:],
            p.stderr.decode(errors="replace")[-3000:]))
    out = open(outp).read()
    os.remove(inp)
    os.remove(outp)
    return out.splitlines()


def run_model(model, text, timeout=1800):
    """Run the extracted Coq model (OCaml driver) on `text`; returns its output lines."""
    coq_build()
    p = sh([DRIVER, model], stdin=text.encode(), timeout=timeout)
    if p.returncode != 0:
        raise RuntimeError("model driver %s failed: %s" % (model, p.stderr.decode(errors="replace")[-3000:]))
    return p.stdout.decode().splitlines()


# --------------------------------------------------------------------------- Coq side

_coq_done = None


def coq_sources():
    out = []
    for root, _, files in os.walk(COQ):
        if "/build" in root:
            continue
        for f in files:
            if f.endswith(".v"):
                out.append(os.path.join(root, f))
    return sorted(out)


def gate():
    """No Admitted / Axiom / Parameter / disabled checks anywhere in the development."""
    bad = []
    for f in coq_sources():
        txt = open(f).read()
        # strip comments (non-nested is enough: we never write the words in comments either)
        for i, line in enumerate(txt.splitlines(), 1):
            if GATE_RE.search(line):
                bad.append("%s:%d: %s" % (os.path.relpath(f, VERIF), i, line.strip()))
    proj = open(os.path.join(COQ, "_CoqProject")).read()
    if GATE_RE.search(proj):
        bad.append("_CoqProject: forbidden flag")
    return bad


def coq_build(clean=False):
    """Regenerate kernels from /repo, full .vo build through coq_makefile, rebuild the driver."""
    global _coq_done
    if _coq_done is not None and not clean:
        return _coq_done
    with Lock("coq"):
        t0 = time.time()
        kern = regenerate_kernels()
        bad = gate()
        if bad:
            _coq_done = {"ok": False, "error": "gate: " + "; ".join(bad[:5]), "kernels": kern}
            return _coq_done
        files = [os.path.relpath(f, COQ) for f in coq_sources() if "/extraction/" not in f]
        proj = "-Q theories Astria\n-arg -w -arg -notation-overridden,-deprecated-hint-without-locality,-deprecated-instance-without-locality\n" + "\n".join(files) + "\n"
        pp = os.path.join(COQ, "_CoqProject")
        if not os.path.exists(pp) or open(pp).read() != proj:
            open(pp, "w").write(proj)
        if clean:
            sh("make cleanall >/dev/null 2>&1; rm -f Makefile Makefile.conf", cwd=COQ)
        mk = os.path.join(COQ, "Makefile")
        if not os.path.exists(mk) or os.path.getmtime(mk) < os.path.getmtime(pp):
            sh("coq_makefile -f _CoqProject -o Makefile", cwd=COQ, check=True)
        p = sh("timeout 3000 make -j16 -k 2>&1", cwd=COQ)
        out = p.stdout.decode(errors="replace")
        ok = p.returncode == 0
        failed = re.findall(r"\*\*\* \[Makefile:\d+: (\S+?)\.vo\]", out)
        res = {"ok": ok, "make_log": out[-6000:], "failed": failed, "kernels": kern,
               "wall_s": time.time() - t0}
        # extraction driver: rebuild when any model .vo is newer
        try:
            need = not os.path.exists(DRIVER)
            if not need:
                dm = os.path.getmtime(DRIVER)
                srcs = [f for f in coq_sources()] + \
                       [os.path.join(COQ, "extraction", f) for f in os.listdir(os.path.join(COQ, "extraction"))
                        if f.endswith(".ml") or f.endswith(".sh")]
                need = any(os.path.getmtime(f) > dm for f in srcs)
            if need:
                q = sh([os.path.join(COQ, "extraction", "build.sh")], timeout=1200)
                if q.returncode != 0:
                    res["driver_error"] = (q.stdout + q.stderr).decode(errors="replace")[-3000:]
        except Exception as ex:  # noqa
            res["driver_error"] = str(ex)
        log("[coq] build ok=%s %.0fs" % (ok, time.time() - t0))
        _coq_done = res
        return res


def regenerate_kernels():
    """tools/rs2v.py: regenerate coq/theories/Kernels/*.v from /repo sources (only rewrites a
    file when its content changes, to keep make incremental)."""
    tool = os.path.join(VERIF, "tools", "rs2v.py")
    if not os.path.exists(tool):
        return {"ok": True, "kernels": []}
    p = sh([sys.executable, tool, "--repo", REPO, "--out", os.path.join(COQ, "theories", "Kernels")])
    try:
        info = json.loads(p.stdout.decode())
    except ValueError:
        info = {"ok": False, "error": (p.stdout + p.stderr).decode(errors="replace")[-2000:]}
    if p.returncode != 0:
        info["ok"] = False
    return info


def check_property_file(pid):
    """Compile Properties/<pid>.v on its own and read back, per pinned theorem, what
    Print Assumptions reports.  Returns dict(theorems=[...], ok=bool, axioms={thm: [...]})."""
    build = coq_build()
    path = os.path.join(COQ, "theories", "Properties", pid + ".v")
    src = open(path).read()
    theorems = re.findall(r"^\s*Theorem\s+(\w+)", src, re.M)
    printed = re.findall(r"^\s*Print Assumptions\s+(\w+)\s*\.", src, re.M)
    res = {"theorems": theorems, "ok": False, "axioms": {}, "error": None,
           "checker_cmd": "cd coq && coq_makefile -f _CoqProject -o Makefile && make -j16 && coqc -Q theories Astria theories/Properties/%s.v" % pid}
    if not build["ok"] and not os.path.exists(path[:-2] + ".vo"):
        res["error"] = "coq build failed: " + ",".join(build.get("failed", [])) + "\n" + build.get("make_log", build.get("error", ""))[-1500:]
        return res
    if not build["ok"]:
        # some file failed; is it in the dependency cone of this property?
        deps = sh("coqdep -Q theories Astria theories/Properties/%s.v 2>/dev/null" % pid, cwd=COQ).stdout.decode()
        cone = failed_in_cone(pid, build.get("failed", []))
        if cone or build.get("error"):
            res["error"] = "coq build failed in the cone of %s: %s\n%s" % (pid, cone, build.get("make_log", build.get("error", ""))[-1500:])
            return res
    if set(theorems) != set(printed):
        res["error"] = "every pinned theorem needs a Print Assumptions: %s vs %s" % (theorems, printed)
        return res
    with Lock("coq"):
        p = sh("timeout 1200 coqc -Q theories Astria -w none theories/Properties/%s.v 2>&1" % pid, cwd=COQ)
    out = p.stdout.decode(errors="replace")
    if p.returncode != 0:
        res["error"] = out[-3000:]
        return res
    blocks = re.split(r"(?m)^(?=Closed under the global context|Axioms:)", out)
    blocks = [b for b in blocks if b.startswith("Closed under") or b.startswith("Axioms:")]
    if len(blocks) != len(printed):
        res["error"] = "could not match Print Assumptions output (%d blocks, %d commands)" % (len(blocks), len(printed))
        return res
    bad = []
    for name, b in zip(printed, blocks):
        if b.startswith("Closed"):
            res["axioms"][name] = []
        else:
            ax = re.findall(r"(?m)^([A-Za-z_][\w.']*)\s*:", b[len("Axioms:"):])
            res["axioms"][name] = ax
            for a in ax:
                if a not in ALLOWED_AXIOMS and a.split(".")[-1] not in ALLOWED_AXIOMS:
                    bad.append("%s depends on %s" % (name, a))
    if bad:
        res["error"] = "axioms outside the allow-list: " + "; ".join(bad)
        return res
    res["ok"] = True
    return res


def failed_in_cone(pid, failed):
    if not failed:
        return []
    # transitive deps through coqdep
    seen, todo = set(), ["theories/Properties/%s.v" % pid]
    while todo:
        f = todo.pop()
        if f in seen or not os.path.exists(os.path.join(COQ, f)):
            continue
        seen.add(f)
        d = sh("coqdep -Q theories Astria %s 2>/dev/null" % f, cwd=COQ).stdout.decode()
        for m in re.findall(r"(theories/\S+?)\.vo", d):
            todo.append(m + ".v")
    return [f for f in failed if f + ".v" in seen]


def trusted_base(prop_res, extra=()):
    ax = sorted({a for l in prop_res.get("axioms", {}).values() for a in l})
    tb = ["Coq 8.16.1 kernel (coqc, full .vo build via coq_makefile; vm_compute used in Example/finite-sweep lemmas; no native_compute)",
          "Print Assumptions for every pinned theorem: " + ("Closed under the global context" if not ax else "axioms " + ", ".join(ax)),
          "extraction: ExtrOcamlBasic only (bool, option, unit, list, prod, sumbool mapped to OCaml; no Extract Constant); N/positive kept as Coq datatypes; OCaml 4.13.1 + coq/extraction/util.ml and drv_*.ml line parsers",
          "correspondence harness: in-crate Rust test `verif::drive` (cargo feature verif) + python generators/canonicalisers in /verif/harness"]
    return tb + list(extra)


# --------------------------------------------------------------------------- known findings

def load_findings(pid):
    p = os.path.join(VERIF, "known_findings.json")
    if not os.path.exists(p):
        return []
    return [f for f in json.load(open(p))["findings"] if f["property"] == pid]


# --------------------------------------------------------------------------- shrinking

def ddmin(items, fails, max_runs=200):
    """Delta debugging on a list; `fails(sub)` re-runs the implementation."""
    runs = [0]

    def f(x):
        runs[0] += 1
        return fails(x)
    n = 2
    cur = list(items)
    while len(cur) >= 2 and runs[0] < max_runs:
        chunk = max(1, len(cur) // n)
        reduced = False
        for i in range(0, len(cur), chunk):
            cand = cur[:i] + cur[i + chunk:]
            if cand and f(cand):
                cur = cand
                n = max(n - 1, 2)
                reduced = True
                break
        if not reduced:
            if chunk == 1:
                break
            n = min(len(cur), n * 2)
    return cur


# --------------------------------------------------------------------------- results / evidence

class Result:
    def __init__(self, pid, tier, seed):
        self.pid, self.tier, self.seed = pid, tier, seed
        self.t0 = time.time()
        self.violations = []      # (what, replay_path, no_input)
        self.known = []           # strings
        self.coverage = {}
        self.assumptions = []

    def violation(self, what, replay, no_input=False):
        os.makedirs(REPLAYS, exist_ok=True)
        path = os.path.join(REPLAYS, "%s-%s-%d.json" % (self.pid, self.tier, len(self.violations)))
        replay = dict(replay)
        replay.update({"property": self.pid, "what": what, "seed": self.seed})
        json.dump(replay, open(path, "w"), indent=1)
        self.violations.append((what, path, no_input))

    def known_finding(self, what):
        if what not in self.known:
            self.known.append(what)

    def finish(self):
        ev = {
            "property_id": self.pid, "tier": self.tier, "seed": self.seed, "level": "proof",
            "coverage": self.coverage, "assumptions": self.assumptions,
            "wall_s": round(time.time() - self.t0, 2), "violations": len(self.violations),
            "known_findings_reported": self.known,
        }
        os.makedirs(EVID, exist_ok=True)
        json.dump(ev, open(os.path.join(EVID, self.pid + ".json"), "w"), indent=1)
        for k in self.known:
            print("KNOWN-FINDING: property=%s %s" % (self.pid, k))
        for what, path, no_input in self.violations:
            log("violation: " + what)
            print("VIOLATION property=%s replay=%s%s" % (self.pid, path, " no-failing-input-found" if no_input else ""))
        sys.stdout.flush()
        return 1 if self.violations else 0


def coqchk(pid, timeout=900):
    """thorough tier: re-check the compiled property file and everything it depends on with the
    independent checker and read back the axioms it reports"""
    with Lock("coq"):
        p = sh("timeout %d coqchk -silent -o -Q theories Astria Astria.Properties.%s 2>&1" % (timeout, pid), cwd=COQ)
    out = p.stdout.decode(errors="replace")
    if p.returncode == 124:
        # the independent checker has no VM: conversion-heavy lemmas (kernel equations over 128-bit constants, the
        # bounded Merkle sweep) can take it very long.  A timeout is recorded, it is not a failed obligation: the
        # kernel (coqc) has accepted every file in the full build above.
        return {"ok": None, "axioms": "coqchk timed out after %ds (not a failure; coqc accepted the full build)" % timeout, "tail": ""}
    ax = re.search(r"\* Axioms:\s*(.*?)(?:\n\s*\n|\n\* |\Z)", out, re.S)
    axioms = ax.group(1).strip() if ax else ""
    return {"ok": p.returncode == 0, "axioms": re.sub(r"\s+", " ", axioms)[:2000], "tail": out[-1500:]}


def kernel_coverage(kernel_modules):
    """The kernels of the given generated modules (Kernels/<Module>.v) as tools/rs2v.py regenerated
    them from the Rust sources in THIS run: name, source position, Coq name.  They are tied to the
    model by the keq_ lemmas of Kernels/KernelEq*.v and pinned by `Cxx_kernel(s)_tied`."""
    kern = coq_build().get("kernels", {})
    mine = [k for k in kern.get("kernels", []) if k.get("coq", "").split(".")[0] in kernel_modules]
    out = {"modules": list(kernel_modules),
           "regenerated_from_source": [{kk: k[kk] for kk in ("name", "source", "coq", "fragment_of") if kk in k}
                                       for k in mine],
           "translator_ok": bool(kern.get("ok")) and
           all(any(k["coq"].startswith(m + ".") for k in mine) for m in kernel_modules)}
    if not kern.get("ok"):
        out["translator_error"] = kern.get("error", "")[:1000]
    return out


def proof_coverage(res, pid, extra_tb=(), open_statements=(), kernel_modules=()):
    """Run the proof side for `pid`; fill coverage keys; on failure register a violation
    (caller may later replace it by one with a concrete input)."""
    pr = check_property_file(pid)
    n = len(pr["theorems"])
    if pr["ok"] and res.tier == "thorough" and os.environ.get("VERIF_NO_COQCHK") != "1":
        ck = coqchk(pid)
        res.coverage["coqchk"] = {"ok": ck["ok"], "axioms": ck["axioms"] or "<none>"}
        if ck["ok"] is False:
            pr["ok"] = False
            pr["error"] = "coqchk failed: " + ck["tail"]
    res.coverage.update({
        "obligations": n,
        "discharged": n if pr["ok"] else 0,
        "theorems": pr["theorems"],
        "checker_cmd": pr["checker_cmd"],
        "trusted_base": trusted_base(pr, extra_tb),
        "open_statements": list(open_statements),
    })
    if kernel_modules:
        res.coverage["kernels"] = kernel_coverage(kernel_modules)
    return pr


def distinct_count(cases):
    return len({hashlib.sha256(repr(c).encode()).hexdigest() for c in cases})


def rng_for(seed, tag):
    return random.Random("%s/%s" % (seed, tag))


# --------------------------------------------------------------------------- generic case runner

def split_cases(lines, header="case"):
    """Split observation lines into per-case lists; each case starts with a `case` line."""
    out = []
    for l in lines:
        if l.split(" ", 1)[0] == header:
            out.append([l])
        elif out:
            out[-1].append(l)
    return out


class CaseCheck:
    """A property check over independent cases (each a list of script lines whose first line
    starts with `case`).  Subclasses give: gen(rng, tier) -> cases; impl(cases) -> per-case
    observation lines; model(case, impl_lines) -> model lines in the comparable format;
    canon(impl_lines) -> comparable impl lines; monitor(case, impl_lines) -> [failure strings];
    nontrivial(case, impl_lines) -> bool; classify(what, case, impl_lines) -> known-finding text or None."""
    pid = None
    corpus = []          # minimised regressions, run first
    open_statements = ()
    extra_tb = ()
    assumptions = ()
    kernel_modules = ()  # generated modules Kernels/<Module>.v whose keq_ lemmas Properties/<pid>.v pins

    def corpus_cases(self):
        p = os.path.join(VERIF, "harness", "corpus", self.pid + ".json")
        if os.path.exists(p):
            return [c["case"] for c in json.load(open(p))]
        return []

    def canon(self, lines):
        return lines

    def classify(self, what, case, impl_lines):
        return None

    def nontrivial(self, case, impl_lines):
        return len(case) > 2

    def stats(self, cases, impl):
        return {}

    def evaluate(self, cases):
        """returns list of (case, impl_lines, failures) where failures = [(kind, what)]"""
        impl = self.impl(cases)
        if len(impl) != len(cases):
            raise TieBroken("harness returned %d cases for %d" % (len(impl), len(cases)))
        model = self.model_all(cases, impl)
        out = []
        for c, il, ml in zip(cases, impl, model):
            fails = []
            for w in self.monitor(c, il):
                fails.append(("monitor", w))
            ci = self.canon(il)
            if ml is not None and ci != ml:
                k = next((i for i, (a, b) in enumerate(zip(ci, ml)) if a != b), min(len(ci), len(ml)))
                fails.append(("correspondence", "model and implementation differ at step %d: impl=%r model=%r" % (
                    k, ci[k] if k < len(ci) else None, ml[k] if k < len(ml) else None)))
            out.append((c, il, ml, fails))
        return out

    def model_all(self, cases, impl):
        return [self.model(c, il) for c, il in zip(cases, impl)]

    def shrink(self, case, kind):
        head, ops = case[0], case[1:]

        def fails(sub):
            try:
                r = self.evaluate([[head] + sub])
            except Exception:
                return False
            return any(k == kind for k, _ in r[0][3])
        try:
            return [head] + ddmin(ops, fails, max_runs=60)
        except Exception:
            return case

    def run(self, tier, seed, replay=None):
        res = Result(self.pid, tier, seed)
        res.assumptions = list(self.assumptions)
        pr = proof_coverage(res, self.pid, self.extra_tb, self.open_statements, self.kernel_modules)
        try:
            if replay:
                cases = [json.load(open(replay))["case"]]
            else:
                rng = rng_for(seed, self.pid)
                cases = self.corpus_cases() + self.gen(rng, tier)
            t0 = time.time()
            ev = self.evaluate(cases)
            log("[%s] evaluated %d cases in %.0fs" % (self.pid, len(cases), time.time() - t0))
        except TieBroken as ex:
            res.coverage.update({"evaluations": 0, "distinct_nontrivial": 0})
            res.violation("tie to /repo broken: " + str(ex)[:3000],
                          {"kind": "tie", "names": "correspondence harness for " + self.pid, "detail": str(ex)[-6000:]},
                          no_input=True)
            return res.finish()
        reported = set()
        concrete = 0
        for c, il, ml, fails in ev:
            for kind, what in fails:
                kf = self.classify(what, c, il)
                if kf:
                    res.known_finding(kf)
                    continue
                key = (kind, what.split(":")[0][:40])
                if key in reported:
                    continue
                reported.add(key)
                small = self.shrink(c, kind) if not replay else c
                sev = self.evaluate([small])[0]
                res.violation("%s: %s" % (kind, what), {"kind": kind, "case": small, "impl": sev[1], "model": sev[2],
                                                          "failures": [w for _, w in sev[3]], "original_case": c})
                concrete += 1
        if not pr["ok"] and concrete == 0:
            res.violation("proof obligation no longer checks: " + (pr["error"] or "")[:2000],
                          {"kind": "proof", "names": pr["theorems"], "detail": pr["error"]}, no_input=True)
        nt = [(c, il) for c, il, _, _ in ev if self.nontrivial(c, il)]
        res.coverage.update({
            "evaluations": len(ev),
            "distinct_nontrivial": distinct_count([c for c, _ in nt]),
            "traces_validated_against_impl": len(ev),
            "rule": self.rule,
            "samples": [{"case": c, "impl": il} for c, il in nt[:2]],
            "input_distribution": self.stats(cases, [il for _, il, _, _ in ev]),
        })
        return res.finish()
