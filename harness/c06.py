"""C06 — honest proposals are accepted; malformed or over-limit ones rejected.
Model: coq/theories/Proposal (ProposalModel.v + the small ledger ProposalLedger.v) vs the real
App::prepare_proposal / App::process_proposal of crates/astria-sequencer, driven by
crates/astria-sequencer/src/app/verif_c06.rs (two independent Apps A = proposer, B = validator).

Script grammar: every op of the sequencer app harness (harness/notes/sequencer_app_harness.md; run
on A and on B) plus
  ins <txid>...        CheckTx (service::mempool::check_tx) of each tx against A's committed state
  prepare max=<i64> [votes=0|1]
                       prepare_proposal on A at height committed+1 (prints A's builder queue first); with
                       votes=1 the local last commit carries a signed Commit vote of every validator
  process              process_proposal on B for A's response
  mut <kind> <args>    process_proposal on B for a single-field mutation of A's response:
                       swap i j | drop i | dup i | flip item byte | trunc idx n | swapitems i j |
                       dropitem i | sig i byte | body i byte | append ids [recommit] |
                       prepend ids [recommit]      (indices are taken modulo the respective count)
  finalize             A: own process_proposal + finalize_block + commit; B: finalize_block + commit
"""
from collections import Counter

from common import CaseCheck, TieBroken, run_harness, run_model, split_cases

MAX_SEQ = 256000
I64_MAX = 2 ** 63 - 1
RANK = {"UnbundleableSudo": 1, "BundleableSudo": 2, "UnbundleableGeneral": 3, "BundleableGeneral": 4}
NONFATAL_CODE = None   # any non-zero code is the non-fatal execution failure (only IbcRelay; unreachable here)

# encoded lengths of the injected data items the model cannot derive from the script (measured on
# the implementation; a drift shows up as a correspondence failure of the calibration corpus case)
# eci: extended commit info item for a local last commit without votes; eci_votes: with the signed votes of
# the three default validators (`prepare ... votes=1`); eci_empty: the item holding the empty extended commit
# info of the same round which prepare_proposal falls back to when the other one does not fit
CONFIG = {"uch_aspen": 104, "uch_blackburn": 104, "eci": 4, "eci_votes": 294, "eci_empty": 4}

PAUPER = "a15"      # never funded, never receives: every fee-paying tx it signs fails at execution
FILLER = "a14"      # funded, signs only the rollup-data transactions used to overflow the block
RICH = 10 ** 19


def kvs(tokens):
    d = {}
    for x in tokens:
        if "=" in x:
            k, v = x.split("=", 1)
            d[k] = v
    return d


def parse_tx_line(line):
    """script line `tx id signer nonce actions...` -> dict(id, signer, nonce, seq, rollups, kinds)"""
    t = line.split()
    if len(t) < 5 or t[0] != "tx":
        return None
    acts, cur = [], []
    for x in t[4:]:
        if x == ";":
            if cur:
                acts.append(cur)
            cur = []
        else:
            cur.append(x)
    if cur:
        acts.append(cur)
    seq, rollups, kinds = 0, [], []
    for a in acts:
        kinds.append(a[0])
        if a[0] == "rollup":
            d = kvs(a[1:])
            try:
                seq += int(d.get("len", "0"))
            except ValueError:
                pass
            rollups.append((d.get("id"), d.get("len")))
    try:
        nonce = int(t[3])
    except ValueError:
        nonce = None
    return {"id": t[1], "signer": t[2], "nonce": nonce, "seq": seq, "rollups": rollups, "kinds": kinds}


def ids_of(v):
    return [] if v in ("-", "") else v.split(",")


class C06(CaseCheck):
    pid = "C06"
    rule = ("seeded scripts: genesis (typed and legacy data items; heights at and around the Aspen/Blackburn "
            "activation and the vote-extension enable height), optional committed history, a mempool filled through "
            "CheckTx with transfers, rollup data (1 B .. 200 kB, prefix sums around 256 000), bundles, sudo / "
            "bundleable-sudo / unbundleable-general transactions, dependent nonces, gaps, stale-authority and "
            "bridge-account transactions; prepare_proposal (local last commit without votes or with the signed votes "
            "of all validators) with max_tx_bytes swept around the prefix sums of the real encoded sizes, with the "
            "extended commit info fitting / not fitting (and 0, 63..73, -1, i64::MAX); process_proposal on an independent App for the honest "
            "proposal and 8-14 single-field mutations; optional finalize and a second round; plus a malformed stream. "
            "A case is non-trivial when a proposal with >= 1 transaction was prepared and >= 1 mutation judged; "
            "distinct = distinct script text")
    assumptions = [
        "'within the CometBFT byte limit' = the sequencer's own accounting: sum of the raw lengths of all entries of the PrepareProposal response <= max_tx_bytes; CometBFT's protobuf framing is outside the repository",
        "the mempool's builder queue is an input of the model (observed on the implementation before every prepare_proposal; its order is C13's subject)",
        "encoded transaction lengths and the lengths of the injected upgrade-change-hash / extended-commit-info items are inputs of the model (taken from the implementation)",
        "vote extensions carry no prices: the extended commit info is either without votes or holds Commit votes with an empty, correctly signed vote extension of every validator; ProposalHandler::validate_proposal is exercised on these two shapes only",
        "the NonFatalExecution branch (IbcRelay after Blackburn) is model-only: the app harness has no IbcRelay action",
        "ed25519 / sha256 / protobuf are the real ones on the implementation side and abstract (decodable, signed flags; commitments as preimages) in the model",
    ]
    extra_tb = ("model instance for the correspondence: Proposal/ProposalLedger.v (native asset; transfer, rollup data, "
                "sudo address change, ibc sudo change, fee change, init bridge account)",)

    # ------------------------------------------------------------------ generation
    def __init__(self):
        self.nid = 0
        self.lens = {}

    def fresh(self):
        self.nid += 1
        return "t%d" % self.nid

    def gen(self, rng, tier):
        # genesis of the two Apps dominates the cost of a case (seconds on a loaded machine), so
        # every case carries several rounds of mempool filling / prepare / process / mutations
        n = 18 if tier == "quick" else 500
        protos = []
        styles = ["f10", "basic", "seq", "bytes", "legacy", "heights", "history", "bridge", "bytes"]
        for i in range(n):
            st = styles[i % len(styles)]
            protos.append(self.proto_case(rng, st, i))
        protos += self.fixed_cases()
        # measure the encoded length of every transaction on the real code, then fix max_tx_bytes
        self.measure([l for p in protos for l in p["lines"] if isinstance(l, str) and l.startswith("tx ")])
        cases = [self.finish_case(rng, p) for p in protos]
        m = 3 if tier == "quick" else 60
        cases += [self.malformed_case(rng, i) for i in range(m)]
        cases += [self.deposit_case(rng, i) for i in range(4 if tier == "quick" else 80)]
        return cases

    def measure(self, txlines):
        txlines = [l for l in txlines if l.split()[1] not in self.lens]
        if not txlines:
            return
        out = run_harness("astria-sequencer", "app::verif_c06::drive", "\n".join(txlines) + "\n", "c06m")
        for l in out:
            t = l.split()
            if len(t) >= 3 and t[0] == "tx" and t[2].startswith("len="):
                self.lens[t[1]] = (int(t[2][4:]), t[3].split("=", 1)[1])

    # a proto case = dict(lines=[... with ("PREPARE", spec) placeholders ...], meta)
    def proto_case(self, rng, style, idx):
        g = _Gen(self, rng, style, idx)
        return g.build()

    def finish_case(self, rng, proto):
        """replace the PREPARE placeholders by concrete max_tx_bytes values"""
        out = []
        for l in proto["lines"]:
            if isinstance(l, tuple):
                _, spec = l
                out.append("prepare max=%d%s" % (self.choose_max(rng, spec), " votes=1" if spec.get("votes") else ""))
            else:
                out.append(l)
        return out

    def items_len(self, aspen, blackburn, height, votes=False):
        typed = aspen != 0 and height >= aspen
        n = 68 if typed else 64
        if aspen != 0 and height == aspen:
            n += CONFIG["uch_aspen"]
        elif blackburn != 0 and height == blackburn:
            n += CONFIG["uch_blackburn"]
        if aspen != 0 and height >= aspen + 2:
            n += CONFIG["eci_votes"] if votes else CONFIG["eci"]
        return n

    def choose_max(self, rng, spec):
        """spec: dict(order=[tx ids in the expected queue order], aspen, blackburn, height, mode)"""
        votes = bool(spec.get("votes"))
        base = self.items_len(spec["aspen"], spec["blackburn"], spec["height"], votes)
        lens = [self.lens.get(i, (230, "?"))[0] for i in spec["order"]]
        total = base + sum(lens)
        mode = spec.get("mode") or rng.choice(["all", "all", "all", "prefix", "prefix", "prefix", "prefix", "tiny", "huge"]
                                              + (["fallback"] * 5 if votes else []))
        if isinstance(mode, int):
            return mode
        if mode == "fallback":
            # the extended commit info with the votes does not fit, the empty one (mostly) does
            low = base - CONFIG["eci_votes"] + CONFIG["eci_empty"]
            k = rng.randint(0, len(lens))
            return low + sum(lens[:k]) + rng.choice([-1, 0, 0, 0, 1, 2, 17])
        if mode == "all":
            return total + rng.choice([0, 0, 1, 5, 1000, 10 ** 6])
        if mode == "prefix":
            k = rng.randint(1, len(lens)) if lens else 0
            return base + sum(lens[:k]) + rng.choice([-1, 0, 0, 1, 2, 17])
        if mode == "tiny":
            return rng.choice([0, 1, 63, 64, 65, 67, 68, 69, 70, 71, 72, 73, base - 1, base, base + 1, -1, -5])
        return rng.choice([I64_MAX, I64_MAX - 1, 2 ** 40, 21 * 2 ** 20])

    def fixed_cases(self):
        """calibration / regression cases (well-formed, run through the model as well)"""
        out = []
        # empty mempool at heights 1..6 of the default upgrade schedule: item structure only
        l = ["case fixed-items", "genesis"]
        for h in range(1, 7):
            l += [("PREPARE", {"order": [], "aspen": 1, "blackburn": 3, "height": h, "mode": "all"}),
                  "process", "mut flip 0 7", "mut flip 1 1", "mut swapitems 0 1", "mut dropitem 0", "mut trunc 1 5",
                  "finalize"]
        out.append({"lines": l})
        # the extended commit info just fits / does not fit.  Without votes it is the same 4 bytes as the empty one
        # prepare_proposal falls back to: 72 is the minimum at height 5, below that prepare_proposal fails.  With
        # votes: 68 + eci_votes is the minimum for the votes; from there down to 72 the block carries the empty
        # extended commit info instead and must be accepted (regression for F10b, repaired by a321bb4)
        l = ["case fixed-eci-fallback", "genesis", "advance 4"]
        for mx in (72, 71, 70, 69, 68, 67):
            l += [("PREPARE", {"order": [], "aspen": 1, "blackburn": 3, "height": 5, "mode": mx}), "process",
                  "mut flip 0 3", "mut dropitem 2"]
        full = 68 + CONFIG["eci_votes"]
        for mx in (full + 1, full, full - 1, 73, 72, 71):
            l += [("PREPARE", {"order": [], "aspen": 1, "blackburn": 3, "height": 5, "mode": mx, "votes": True}),
                  "process", "mut flip 0 3", "mut dropitem 2", "mut trunc 2 1"]
        l += [("PREPARE", {"order": [], "aspen": 1, "blackburn": 3, "height": 5, "mode": 72, "votes": True}),
              "process", "finalize",
              ("PREPARE", {"order": [], "aspen": 1, "blackburn": 3, "height": 6, "mode": full, "votes": True}),
              "process", "finalize"]
        out.append({"lines": l})
        l = ["case fixed-legacy", "genesis aspen=0 blackburn=0", "advance 2",
             ("PREPARE", {"order": [], "aspen": 0, "blackburn": 0, "height": 3, "mode": "all"}),
             "process", "mut flip 0 7", "mut swapitems 0 1", "mut dropitem 1", "finalize"]
        out.append({"lines": l})
        return out

    def malformed_case(self, rng, idx):
        junk = ["prepare", "prepare max=abc", "mut", "mut swap", "mut swap x y", "mut nosuch 1 2", "ins", "ins nosuch",
                "process", "finalize", "mut drop 0", "mut append nosuch", "mut append t1,,", "prepare max=99999999999999999999",
                "tx zz a99 0 transfer to=a1 amt=1 asset=s0 fee=s0", "frobnicate 1 2 3", "mut flip 0", "mut trunc 0",
                "block nosuch", "ins t1 t1 t1", "mut sig 0 0", "mut body 0 0"]
        a = self.fresh()
        b = self.fresh()
        l = ["case malformed-%d" % idx]
        l += rng.sample(junk, 4)
        l += ["genesis", "advance %d" % rng.randint(0, 4),
              "tx %s a1 0 transfer to=a2 amt=5 asset=s0 fee=s0" % a,
              "tx %s a2 0 rollup id=r1 len=10 fee=s0" % b]
        body = ["ins %s %s" % (a, b), "prepare max=%d" % rng.choice([100000, 300, 68, -1]), "process", "finalize"]
        for _ in range(rng.randint(6, 16)):
            body.insert(rng.randint(0, len(body)), rng.choice(junk))
        return l + body

    def deposit_case(self, rng, idx):
        """monitor-only family (no model: the ledger instance of the model has no bridge deposits): blocks whose
        rollup-data commitments cover rollups that receive ONLY a bridge deposit next to rollups with sequenced
        data, with the deposit-only rollup id sorting before / after / between the others.  The honest proposal
        must be accepted by the validator and finalized by the proposer."""
        ids = [self.fresh() for _ in range(12)]
        low, mid, high = rng.sample([1, 2, 3, 5, 8, 13, 21, 34, 55, 89, 144, 200], 3)
        low, mid, high = sorted((low, mid, high))
        dep_rollup = rng.choice([low, mid, high])
        seq_rollups = [r for r in (low, mid, high) if r != dep_rollup]
        l = ["case malformed-deposits-%d" % idx, "genesis", "advance 4",
             "tx %s a1 0 initbridge rollup=r%d asset=s0 fee=s0 sudo=a1 withdrawer=a1" % (ids[0], dep_rollup),
             "block %s" % ids[0]]
        txs = ["tx %s a2 0 lock to=a1 amt=%d asset=s0 fee=s0 dest=rollupaddr" % (ids[1], rng.randint(1, 1000))]
        n = 0
        for k, r in enumerate(seq_rollups):
            if rng.random() < 0.85:
                txs.append("tx %s a%d 0 rollup id=r%d len=%d fee=s0" % (ids[2 + k], 3 + k, r, rng.randint(1, 60)))
        if rng.random() < 0.4:
            txs.append("tx %s a5 0 rollup id=r%d len=7 fee=s0" % (ids[6], dep_rollup))   # deposit AND data for one rollup
        rng.shuffle(txs)
        l += txs
        l += ["ins " + " ".join(t.split()[1] for t in txs), "prepare max=100000", "process", "finalize",
              "prepare max=100000", "process", "finalize"]
        return l

    # ------------------------------------------------------------------ execution
    def impl(self, cases):
        text = "\n".join("\n".join(c) for c in cases) + "\n"
        return split_cases(run_harness("astria-sequencer", "app::verif_c06::drive", text, "c06", timeout=3000))

    @staticmethod
    def is_malformed(case):
        return case[0].startswith("case malformed")

    def model_all(self, cases, impl):
        """Build the model's input: script lines enriched with the implementation's observations
        the model takes as inputs (encoded lengths, CheckTx already/removed outcomes, builder queue)."""
        lines = ["config " + " ".join("%s=%d" % kv for kv in sorted(CONFIG.items()))]
        idx = []
        for c, il in zip(cases, impl):
            if self.is_malformed(c):
                idx.append(False)
                continue
            idx.append(True)
            txlen = {}
            insq = []
            queues = []
            for l in il:
                t = l.split()
                if t[0] == "tx" and len(t) >= 3 and t[2].startswith("len="):
                    txlen[t[1]] = t[2][4:]
                elif t[0] == "ins" and len(t) >= 3:
                    insq.append((t[1], t[2]))
                elif t[0] == "queue":
                    queues.append(l)
            insq.reverse()
            queues.reverse()
            for l in c:
                t = l.split()
                if t[0] == "tx":
                    lines.append("tx %s txlen=%s %s" % (t[1], txlen.get(t[1], "0"), " ".join(t[2:])))
                elif t[0] == "ins":
                    for i in t[1:]:
                        res = insq.pop()[1] if insq else "x"
                        lines.append("ins %s %s" % (i, "skip" if res in ("already", "removed") else "x"))
                elif t[0] == "prepare":
                    lines.append(queues.pop() if queues else "queue -")
                    lines.append(l)
                else:
                    lines.append(l)
        out = split_cases(run_model("c06", "\n".join(lines) + "\n"))
        it = iter(out)
        return [next(it) if ok else None for ok in idx]

    def canon(self, lines):
        out = []
        for l in lines:
            t = l.split()
            if t[0] == "txres" and len(t) == 3:
                k = t[2].split("=", 1)[0]
                out.append("txres %s %s" % (t[1], t[2] if k == "code" else k))
            elif t[0] == "block" and len(t) > 1 and t[1].startswith("height="):
                out.append("block " + t[1])
            elif t[0] == "ins" and len(t) == 3:
                r = t[2]
                if r in ("pending", "parked") or r.startswith("err:"):
                    r = "ok"
                elif r in ("already", "removed"):
                    r = "skip"
                out.append("ins %s %s" % (t[1], r))
            elif t[0] == "prepare" and len(t) > 1 and t[1] == "ok":
                keep = []
                for x in t:
                    if x.startswith("left="):
                        continue
                    if x.startswith("dry="):
                        x = "dry=" + ",".join("err" if w.startswith("err") else w for w in x[4:].split(","))
                    keep.append(x)
                out.append(" ".join(keep))
            elif t[0] == "mut" and len(t) > 1 and t[1] == "body":
                out.append(" ".join(x for x in t if not x.startswith("byte=")))
            else:
                out.append(" ".join(t))
        return out

    # ------------------------------------------------------------------ the property, on the implementation alone
    def monitor(self, case, il):
        fails = []
        defs = {}
        for l in case:
            d = parse_tx_line(l)
            if d:
                defs[d["id"]] = d
        group = {}
        honest = None          # dict(ids, max, accepted)
        for l in il[1:]:
            t = l.split()
            kv = kvs(t)
            if "panic" in t[1:2] or (len(t) > 2 and t[2] == "panic"):
                fails.append("panic: %r" % l)
                continue
            if t[0] == "desync":
                fails.append("the two Apps diverged on the same committed history: %r" % l)
            if t[0] == "tx" and "group" in kv:
                group[t[1]] = RANK.get(kv["group"], 0)
            elif t[0] in ("block", "advance", "mint", "genesis"):
                honest = None
            elif t[0] == "prepare":
                honest = None
                if t[1] != "ok":
                    continue
                ids = ids_of(kv["ids"])
                mx = int(kv["max"])
                lens = [int(x) for x in ids_of(kv.get("itemlens", "-"))]
                # recognisable only when the proposer had votes to include (otherwise both items are the same bytes)
                honest = {"ids": ids, "max": mx, "accepted": None, "nitems": int(kv["nitems"]),
                          "fallback": kv.get("votes") == "1" and len(lens) >= 3 and lens[-1] != CONFIG["eci_votes"]}
                if "tailmismatch" in t:
                    fails.append("prepare: response transactions differ from the executed ones: %r" % l)
                if int(kv["bytes"]) > mx:
                    fails.append("prepare: %s bytes > max_tx_bytes %d" % (kv["bytes"], mx))
                if "?" in ids:
                    fails.append("prepare: included a transaction that was never submitted: %r" % l)
                    continue
                seq = sum(defs[i]["seq"] for i in ids)
                if seq > MAX_SEQ:
                    fails.append("prepare: %d bytes of sequenced data > %d" % (seq, MAX_SEQ))
                gs = [group.get(i, 0) for i in ids]
                if any(a < b for a, b in zip(gs, gs[1:])):
                    fails.append("prepare: action groups not ordered: %s" % gs)
                dry = ids_of(kv["dry"])
                if any(w != "ok" for w in dry) or len(dry) != len(ids):
                    fails.append("prepare: an included transaction fails when the block is executed: dry=%s ids=%s" % (kv["dry"], kv["ids"]))
            elif t[0] == "process" and honest is not None and len(t) > 1 and t[1] != "none":
                honest["accepted"] = (t[1] == "accept")
                if t[1] != "accept":
                    fails.append("honest proposal rejected: verdict=%s noncons=%s ecifallback=%d ids=%s max=%d" % (
                        t[1], kv.get("noncons"), honest["fallback"], ",".join(honest["ids"]) or "-", honest["max"]))
            elif t[0] == "finalize" and "own" in kv:
                if kv["own"] != "accept":
                    fails.append("the proposer's own process_proposal refused its proposal: %r" % l)
            elif t[0] == "mut" and honest is not None and "verdict" in kv:
                why = self.must_reject(t[1], kv, honest, defs, group)
                if why and kv["verdict"] == "accept":
                    fails.append("mutated proposal accepted (%s): %r" % (why, l))
        return fails

    @staticmethod
    def must_reject(kind, kv, honest, defs, group):
        """reason why the property demands rejection of this mutated proposal, or None when the
        property is silent (the mutation may well yield another valid block)."""
        if kv.get("same") == "1":
            return None
        L = honest["ids"]
        if "?" in L:
            return None
        g = lambda i: group.get(i, 0)
        if kind == "swap":
            a, b = L[int(kv["i"])], L[int(kv["j"])]
            if g(a) != g(b):
                return "transactions mis-ordered by group"
            if defs[a]["signer"] == defs[b]["signer"]:
                return "nonce order of one signer reversed (fatal failure)"
            return None
        if kind == "drop":
            i = int(kv["i"])
            a = L[i]
            if defs[a]["rollups"]:
                return "commitments do not match the transactions (rollup data dropped)"
            if any(defs[x]["signer"] == defs[a]["signer"] for x in L[i + 1:]):
                return "nonce gap (fatal failure)"
            return None
        if kind == "dup":
            return "same transaction twice (fatal failure)"
        if kind == "flip":
            return "commitment item altered"
        if kind == "trunc":
            if kv.get("item") == "1" and int(kv["i"]) >= 2:
                return None
            return "truncated (undecodable) entry"
        if kind == "swapitems":
            return "commitment items reordered" if min(int(kv["i"]), int(kv["j"])) < 2 else None
        if kind == "dropitem":
            return "commitment item missing" if int(kv["i"]) < 2 else None
        if kind == "sig":
            return "signature corrupted"
        if kind == "body":
            return "signed body altered"
        if kind in ("append", "prepend"):
            X = ids_of(kv["txs"])
            if any(x not in defs or x not in group for x in X):
                return None
            new = L + X if kind == "append" else X + L
            gs = [g(i) for i in new]
            if any(a < b for a, b in zip(gs, gs[1:])):
                return "transactions mis-ordered by group"
            if sum(defs[i]["seq"] for i in new) > MAX_SEQ:
                return "sequenced data over the limit"
            if any(defs[x]["signer"] == PAUPER for x in X):
                return "fatally failing transaction"
            if kv.get("recommit") != "1" and any(defs[x]["rollups"] for x in X):
                return "commitments do not match the transactions (rollup data added)"
            return None
        return None

    def classify(self, what, case, il):
        # F10: validators construct every transaction of the block against the block-start state,
        # the proposer executes the CheckedTransactions cached in its mempool.
        if what.startswith("honest proposal rejected: verdict=reject=construct noncons=") and \
                not what.startswith("honest proposal rejected: verdict=reject=construct noncons=- "):
            return ("F10 process_proposal rejects an honest prepare_proposal block whose transaction passes its "
                    "construction-time check only after an earlier transaction of the same block "
                    "(construct_checked_txs runs against the block-start state; app/mod.rs:631)")
        return None

    def nontrivial(self, case, il):
        got = any(l.startswith("prepare ok") and " ids=-" not in l for l in il)
        return got and any(l.startswith("mut ") and "verdict=" in l for l in il)

    def stats(self, cases, impl):
        c = Counter()
        for case, il in zip(cases, impl):
            for l in il[1:]:
                t = l.split()
                kv = kvs(t)
                if t[0] == "prepare":
                    c["prepare_" + (t[1] if t[1] == "ok" else "err_" + kv.get("err", t[1]))] += 1
                    if t[1] == "ok":
                        n = len(ids_of(kv["ids"]))
                        c["included_%s" % ("0" if n == 0 else "1-3" if n < 4 else "4+")] += 1
                        q = [x for x in il if x.startswith("queue")]
                        if int(kv["bytes"]) == int(kv["max"]):
                            c["bytes_exactly_max"] += 1
                        if kv["removed"] != "-":
                            c["prepare_removed_failing"] += 1
                        if "votes" in kv:
                            lens = ids_of(kv.get("itemlens", "-"))
                            if kv["votes"] == "1" and len(lens) >= 3:
                                c["eci_with_votes" if int(lens[-1]) == CONFIG["eci_votes"] else
                                  "eci_fallback_empty" if int(lens[-1]) == CONFIG["eci_empty"] else "eci_other"] += 1
                elif t[0] == "process" and len(t) > 1:
                    c["honest_" + t[1].replace("=", "_")] += 1
                elif t[0] == "mut" and "verdict" in kv:
                    c["mut_%s_%s" % (t[1], kv["verdict"].replace("reject=", ""))] += 1
                elif t[0] == "finalize":
                    c["finalize_" + ("ok" if "height" in kv else t[1] if len(t) > 1 else "?")] += 1
                elif t[0] == "ins" and len(t) == 3:
                    c["ins_" + t[2].split(":")[0]] += 1
        return dict(c)


class _Gen:
    """builds one well-formed case (with PREPARE placeholders)"""

    def __init__(self, chk, rng, style, idx):
        self.c, self.rng, self.style, self.idx = chk, rng, style, idx
        self.lines = []
        self.nonce = {}          # next fresh nonce per account
        self.chain = {}          # the generator's estimate of the on-chain nonce per account
        self.height = 0
        self.aspen, self.blackburn = 1, 3
        self.sudo = "a0"
        self.bridges = set()
        self.seeded = []         # (id, signer, nonce, group) already inserted by history()

    def emit(self, l):
        self.lines.append(l)

    def tx(self, signer, action, nonce=None):
        """defines a transaction; with nonce=None the signer's next fresh nonce is used"""
        i = self.c.fresh()
        if nonce is None:
            nonce = self.nonce.get(signer, 0)
            self.nonce[signer] = nonce + 1
        self.emit("tx %s %s %d %s" % (i, signer, nonce, action))
        return i, nonce

    @staticmethod
    def group_of(action):
        k = action.split()[0]
        return {"transfer": 4, "rollup": 4, "initbridge": 3, "feechange": 2, "sudochange": 1, "ibcsudo": 1}[k]

    def transfer(self, rng, to=None, amt=None):
        to = to or rng.choice(["a1", "a2", "a3", "a4", "a6", "a7"])
        amt = rng.choice([0, 1, 100, 10 ** 6, 10 ** 12]) if amt is None else amt
        return "transfer to=%s amt=%d asset=s0 fee=s0" % (to, amt)

    def rollup(self, rng, ln=None):
        ln = rng.choice([1, 10, 300, 5000, 50000]) if ln is None else ln
        return "rollup id=r%d len=%d fee=s0" % (rng.choice([1, 1, 2, 3, 200]), ln)

    def random_action(self, rng, signer):
        r = rng.random()
        if signer == self.sudo and r < 0.5:
            k = rng.random()
            if k < 0.5:
                return "feechange kind=%s base=%d mult=%d" % (rng.choice(["transfer", "rollup", "initbridge", "lock"]),
                                                             rng.choice([0, 1, 2, 9]), rng.choice([0, 1, 1001]))
            if k < 0.8:
                return "ibcsudo to=%s" % rng.choice(["a1", "a2", "a3"])
            return "sudochange to=%s" % self.sudo          # to itself: keeps the generator's view simple
        if r < 0.55:
            return self.transfer(rng)
        if r < 0.9:
            return self.rollup(rng)
        if r < 0.95:
            return self.transfer(rng) + " ; " + self.rollup(rng)
        return self.rollup(rng) + " ; " + self.rollup(rng) + " ; " + self.transfer(rng)

    def spec(self, order, mode=None, votes=False):
        return ("PREPARE", {"order": list(order), "aspen": self.aspen, "blackburn": self.blackburn,
                            "height": self.height + 1, "mode": mode, "votes": votes})

    def queue_order(self, entries):
        """expected builder queue: group descending, nonce difference, insertion order"""
        key = lambda e: (-e[3], e[2] - self.chain.get(e[1], 0), e[4])
        return [e[0] for e in sorted(entries, key=key)]

    def mutations(self, rng, extra_pool):
        kinds = ["swap", "swap", "drop", "drop", "dup", "flip", "flip", "trunc", "trunc", "swapitems", "dropitem",
                 "sig", "body", "append_fail", "append_pool", "overflow"]
        out = []
        for k in rng.sample(kinds, rng.randint(8, 14)):
            a, b = rng.randint(0, 40), rng.randint(0, 40)
            if k in ("swap", "swapitems"):
                out.append("mut %s %d %d" % (k, a, b))
            elif k in ("drop", "dup", "dropitem"):
                out.append("mut %s %d" % (k, a))
            elif k == "flip":
                out.append("mut flip %d %d" % (a, rng.choice([0, 1, 2, 3, 17, 33, b])))
            elif k == "trunc":
                out.append("mut trunc %d %d" % (a, rng.choice([0, 1, 31, 32, 33, 66, 100, b * 7])))
            elif k in ("sig", "body"):
                out.append("mut %s %d %d" % (k, a, rng.randint(0, 500)))
            elif k == "append_fail":
                f, _ = self.tx(PAUPER, self.transfer(rng, amt=1000), nonce=0)
                out.append("mut append %s%s" % (f, rng.choice(["", " recommit"])))
            elif k == "append_pool" and extra_pool:
                xs = rng.sample(extra_pool, min(len(extra_pool), rng.randint(1, 2)))
                out.append("mut %s %s%s" % (rng.choice(["append", "prepend"]), ",".join(xs), rng.choice(["", " recommit"])))
            elif k == "overflow":
                lens = rng.choice([[200000, 56001], [128000, 128000, 1], [100000, 100000, 56000], [200000, 55999], [255999, 1]])
                xs = [self.tx(FILLER, "rollup id=r9 len=%d fee=s0" % ln, nonce=j)[0] for j, ln in enumerate(lens)]
                out.append("mut prepend %s recommit" % ",".join(xs))
        return out

    def build(self):
        rng, style = self.rng, self.style
        base_style = style
        self.emit("case %s-%d" % (style, self.idx))
        gen = "genesis acct=" + ",".join("a%d:%d" % (k, RICH) for k in range(6)) + ",%s:%d" % (FILLER, RICH)
        if style == "legacy":
            self.aspen, self.blackburn = 0, 0
            gen += " aspen=0 blackburn=0"
        elif style == "heights" and rng.random() < 0.5:
            self.aspen = rng.choice([1, 2, 3])
            self.blackburn = self.aspen + rng.choice([1, 2, 3])
            gen += " aspen=%d blackburn=%d" % (self.aspen, self.blackburn)
        if rng.random() < 0.3:
            self.sudo = rng.choice(["a1", "a2"])
            gen += " sudo=%s" % self.sudo
        self.emit(gen)
        adv = rng.choice([0, 1, 2, 3, 4, 6]) if style != "heights" else rng.choice([0, 0, 1, 1, 2, 3, 4])
        if adv:
            self.emit("advance %d" % adv)
            self.height += adv
        if style in ("history", "bridge", "f10"):
            self.history(rng)
        rounds = rng.choice([2, 3, 3, 4])
        for k in range(rounds):
            if k > 0:
                # later rounds draw their flavour independently of the case's style
                self.style = rng.choice(["basic", "basic", "seq", "bytes", "bytes", "bridge"]) if base_style != "legacy" \
                    else rng.choice(["legacy", "seq", "bytes"])
            self.round(rng)
        return {"lines": self.lines}

    def block(self, txs):
        """txs: [(id, signer, nonce)] committed through finalize_block on both Apps"""
        self.emit("block " + " ".join(t[0] for t in txs))
        self.height += 1
        for _, s, n in txs:
            self.chain[s] = n + 1

    def block1(self, signer, action):
        i, n = self.tx(signer, action)
        self.block([(i, signer, n)])

    def history(self, rng):
        """committed blocks before the mempool is filled; for f10 the stale-authority scenario"""
        if self.style == "bridge":
            b = rng.choice(["a3", "a4"])
            self.block1(b, "initbridge rollup=r5 asset=s0 fee=s0")
            self.bridges.add(b)
            return
        if self.style == "history":
            txs = []
            for _ in range(rng.randint(1, 4)):
                s = rng.choice(["a1", "a2", "a3"])
                i, n = self.tx(s, self.random_action(rng, s))
                txs.append((i, s, n))
            self.block(txs)
            return
        # f10: X signs a sudo-gated transaction while it is the sudo address (its CheckedTransaction is
        # cached in the mempool); a block moves the sudo address to Y; Y's change back to X precedes X's
        # transaction in the builder queue (same group: by nonce difference or by first-seen time).
        x = self.sudo
        y = rng.choice([a for a in ["a0", "a1", "a2", "a3"] if a != x])
        gated = rng.choice(["ibcsudo to=a3", "ibcsudo to=a2", "sudochange to=%s" % x, "sudochange to=a3",
                            "feechange kind=transfer base=3 mult=0"])
        g = self.group_of(gated)
        if rng.random() < 0.5:
            # first-seen time: X -> Y (block); insert Y's change back (constructible, parked); Y -> X (block);
            # insert X's gated tx (constructible, parked); X -> Y (block): both pending, nonce difference 0.
            self.block1(x, "sudochange to=%s" % y)
            ny = self.nonce.get(y, 0)
            back, _ = self.tx(y, "sudochange to=%s" % x, nonce=ny + 1)
            self.emit("ins %s" % back)
            self.block1(y, "sudochange to=%s" % x)
            nx = self.nonce.get(x, 0)
            stale, _ = self.tx(x, gated, nonce=nx + 1)
            self.emit("ins %s" % stale)
            self.block1(x, "sudochange to=%s" % y)
            self.seeded = [(back, y, ny + 1, 1), (stale, x, nx + 1, g)]
            self.nonce[y] = ny + 2
            self.nonce[x] = nx + 2
        else:
            # nonce difference: X's gated tx carries nonce+2 (parked); X -> Y (block); then X's filler
            # (nonce+1) and Y's change back: queue = filler (general), back (diff 0), stale (diff 1).
            nx = self.nonce.get(x, 0)
            stale, _ = self.tx(x, gated, nonce=nx + 2)
            self.emit("ins %s" % stale)
            self.block1(x, "sudochange to=%s" % y)
            filler, nf = self.tx(x, self.transfer(rng))
            back, nb = self.tx(y, "sudochange to=%s" % x)
            self.emit("ins %s %s" % (filler, back))
            self.seeded = [(filler, x, nf, 4), (back, y, nb, 1), (stale, x, nx + 2, g)]
            self.nonce[x] = nx + 3
        self.sudo = y

    def round(self, rng):
        style = self.style
        entries = []             # (id, signer, nonce, group) expected to be pending
        pool = []
        signers = ["a1", "a2", "a3", "a4", self.sudo]
        entries += self.seeded
        seeded = len(self.seeded)
        self.seeded = []
        if style == "seq":
            lens = rng.choice([[200000, 56000, 1, 1], [128000, 128000, 5], [100000, 100000, 56001, 55999, 1],
                               [255999, 2, 1], [127999, 127999, 3, 1, 1], [200000, 200000, 56000]])
            for ln in lens:
                s = rng.choice(["a1", "a2", "a3"])
                a = "rollup id=r%d len=%d fee=s0" % (rng.choice([1, 2]), ln)
                if rng.random() < 0.3:
                    a += " ; " + self.transfer(rng)
                i, n = self.tx(s, a)
                entries.append((i, s, n, 4))
            ntx = rng.randint(0, 3)
        elif style == "f10":
            ntx = rng.randint(0, 2)
        else:
            ntx = rng.randint(1, 9)
        for _ in range(ntx):
            s = rng.choice(signers)
            a = self.random_action(rng, s)
            if rng.random() < 0.08:
                i, _ = self.tx(s, a, nonce=self.nonce.get(s, 0) + rng.randint(1, 3))      # gap: parked
                pool.append(i)
                self.emit("ins %s" % i)
                continue
            i, n = self.tx(s, a)
            entries.append((i, s, n, self.group_of(a)))
            if style == "bridge" and rng.random() < 0.3 and s not in self.bridges and s != self.sudo:
                # the signer turns itself into a bridge account: its later transfers fail at execution
                j, n = self.tx(s, "initbridge rollup=r6 asset=s0 fee=s0")
                entries.append((j, s, n, 3))
                self.bridges.add(s)
        # insertion order = first-seen order; keep every signer's nonces ascending so they go to pending
        new = entries[seeded:]
        bys = {}
        for e in new:
            bys.setdefault(e[1], []).append(e)
        turn = [e[1] for e in new]
        rng.shuffle(turn)
        pos = {s: 0 for s in bys}
        seq = []
        for s in turn:
            seq.append(bys[s][pos[s]])
            pos[s] += 1
        if seq:
            self.emit("ins " + " ".join(e[0] for e in seq))
        allq = entries[:seeded] + seq
        expected = self.queue_order([(e[0], e[1], e[2], e[3], j) for j, e in enumerate(allq)])
        # transactions outside the mempool which mutations may add
        n5 = self.nonce.get("a5", 0)
        extra = [self.tx("a5", self.random_action(rng, "a5"))[0] for _ in range(2)]
        self.nonce["a5"] = n5
        mode = None
        # vote extensions are enabled from the second block after Aspen; there the local last commit carries votes
        # in 2 of 5 proposals
        votes = self.aspen != 0 and self.height + 1 >= self.aspen + 2 and rng.random() < 0.4
        if style == "bytes":
            mode = rng.choice(["prefix", "prefix", "prefix", "all", "tiny"] + (["fallback"] * 4 if votes else []))
        elif style in ("seq", "f10"):
            mode = "all"
        self.lines.append(self.spec(expected, mode, votes))
        self.emit("process")
        for m in self.mutations(rng, extra + pool):
            self.emit(m)
        if rng.random() < 0.7:
            self.emit("finalize")
            # estimates from here on (the block may have been cut or refused)
            self.height += 1
            for e in allq:
                self.chain[e[1]] = max(self.chain.get(e[1], 0), e[2] + 1)


CHECK = C06()
